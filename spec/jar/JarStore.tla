------------------------------ MODULE JarStore ------------------------------
(***************************************************************************)
(* The jar storage layer of dukebox (the files of dukebox/src/storage): what a jar IS  *)
(* for every jar-level operation of the repository (remap, merge, nest,    *)
(* the super class provider of the remappers).                             *)
(*                                                                         *)
(* A jar is a sequence of entries [n, c, t] in central directory order:    *)
(*   n  entry name, c  content, t  last-modified time (an id)              *)
(*   content: [k |-> "dir"] | [k |-> "res", id] (a resource, bytes named   *)
(*   by id) | [k |-> "cls", this, super, itfs] (what the class file        *)
(*   states) | [k |-> "junk"] (bytes that are no class file)               *)
(* The kind of an entry follows from its NAME alone (zip_impls.rs          *)
(* to_jar_entry_enum): trailing "/" = directory, ".class" = class,         *)
(* anything else = resource.                                               *)
(*                                                                         *)
(* Four forms hold a jar (UnnamedMemJar, NamedMemJar, FileJar, ParsedJar); *)
(* the trait pair Jar / OpenedJar shows every form as the same abstract    *)
(* jar.  Operational definitions follow the trait methods one by one;      *)
(* the laws say what a user of the traits relies on.                       *)
(***************************************************************************)
EXTENDS Naturals, Sequences, FiniteSets, TLC

EndsWith(str, suf) == Len(str) >= Len(suf) /\ SubSeq(str, Len(str) - Len(suf) + 1, Len(str)) = suf
Range(s) == {s[i] : i \in DOMAIN s}

---------------------------------------------------------------------------
(* entries *)
IsClassContent(c) == c.k \in {"cls", "junk"}
KindOfName(n) == IF EndsWith(n, "/") THEN "dir" ELSE IF EndsWith(n, ".class") THEN "class" ELSE "other"
WellFormedJar(J) ==
    /\ \A i, j \in DOMAIN J : J[i].n = J[j].n => i = j                    \* names are unique (the zip writer refuses duplicates)
    /\ \A i \in DOMAIN J : CASE KindOfName(J[i].n) = "dir" -> J[i].c.k = "dir"
                              [] KindOfName(J[i].n) = "class" -> IsClassContent(J[i].c)
                              [] OTHER -> J[i].c.k \in {"res", "junk"}

---------------------------------------------------------------------------
(* OpenedJar, operationally: entry keys are 0-based positions *)
EntryKeys(J) == [i \in DOMAIN J |-> i - 1]                                 \* entry_keys(): 0..len
ByEntryKey(J, k) == IF k + 1 \in DOMAIN J THEN [ok |-> TRUE, e |-> J[k + 1]] ELSE [ok |-> FALSE]
Names(J) == [i \in DOMAIN J |-> <<i - 1, J[i].n>>]                         \* names(): (key, name) in key order
ByName(J, n) == IF \E i \in DOMAIN J : J[i].n = n
                THEN [found |-> TRUE, e |-> J[CHOOSE i \in DOMAIN J : J[i].n = n]] ELSE [found |-> FALSE]

(* what a reader of an entry sees: name, kind, content, time *)
View(e) == [n |-> e.n, k |-> KindOfName(e.n), c |-> e.c, t |-> e.t]
Listing(J) == [i \in DOMAIN J |-> View(J[i])]

(* get_super_classes_provider: every class entry is visited in key order; visit_class inserts                *)
(* name -> (super class, then the interfaces, without repetition) into an IndexMap: a class that occurs in  *)
(* two entries keeps the position of the first and the super types of the last; a class entry that is no    *)
(* class file makes the whole call fail                                                                      *)
RECURSIVE Dedup(_)
Dedup(s) == IF s = <<>> THEN <<>> ELSE LET r == Dedup(SubSeq(s, 1, Len(s) - 1)) IN IF s[Len(s)] \in Range(r) THEN r ELSE Append(r, s[Len(s)])
SupersOf(c) == Dedup((IF c.super = "" THEN <<>> ELSE <<c.super>>) \o c.itfs)
RECURSIVE ProviderOp(_, _, _)
ProviderOp(J, i, acc) ==
    IF i > Len(J) THEN [ok |-> TRUE, keys |-> acc.keys, map |-> acc.map]
    ELSE IF KindOfName(J[i].n) # "class" THEN ProviderOp(J, i + 1, acc)
    ELSE IF J[i].c.k = "junk" THEN [ok |-> FALSE]
    ELSE LET this == J[i].c.this
         IN ProviderOp(J, i + 1, [keys |-> IF this \in Range(acc.keys) THEN acc.keys ELSE Append(acc.keys, this),
                                  map |-> (this :> SupersOf(J[i].c)) @@ acc.map])
Provider(J) == ProviderOp(J, 1, [keys |-> <<>>, map |-> <<>>])

---------------------------------------------------------------------------
(* ParsedJar: an IndexMap name -> (attributes, content).  Built entry by entry (from_jar and every operation *)
(* that returns a ParsedJar do the same): insert keeps the position of the first entry of a name.            *)
RECURSIVE ParseOp(_, _, _)
ParseOp(J, i, acc) ==
    IF i > Len(J) THEN acc
    ELSE LET p == IF \E k \in DOMAIN acc : acc[k].n = J[i].n THEN CHOOSE k \in DOMAIN acc : acc[k].n = J[i].n ELSE 0
         IN ParseOp(J, i + 1, IF p = 0 THEN Append(acc, J[i]) ELSE [acc EXCEPT ![p] = J[i]])
Parsed(J) == ParseOp(J, 1, <<>>)
(* write / to_mem: the entries in map order; a directory by add_directory, the others by start_file; the     *)
(* last-modified time is carried over (the extended timestamps are not: "awaiting lib support")              *)
ToMem(P) == P

---------------------------------------------------------------------------
(* Laws *)
(* keys, names and entries agree; a name finds its entry and only a present name finds one *)
OpenLaw(J) ==
    /\ \A i \in DOMAIN J : ByEntryKey(J, EntryKeys(J)[i]).ok /\ ByEntryKey(J, EntryKeys(J)[i]).e = J[i]
    /\ \A i \in DOMAIN J : Names(J)[i] = <<EntryKeys(J)[i], J[i].n>>
    /\ ~ByEntryKey(J, Len(J)).ok
    /\ \A i \in DOMAIN J : ByName(J, J[i].n).found /\ ByName(J, J[i].n).e = J[i]
    /\ \A n \in {"absent.txt", "p/A", "p"} : (\A i \in DOMAIN J : J[i].n # n) => ~ByName(J, n).found
(* parsing and writing back loses nothing: same entries, same order, same kinds, contents and times *)
RoundTripLaw(J) == WellFormedJar(J) => Listing(ToMem(Parsed(J))) = Listing(J)
(* the provider, declaratively: exactly the classes of the jar, each with the super types of its last entry *)
ProviderLaw(J) ==
    LET cls == {i \in DOMAIN J : KindOfName(J[i].n) = "class"}
        P == Provider(J)
    IN IF \E i \in cls : J[i].c.k = "junk" THEN ~P.ok
       ELSE /\ P.ok
            /\ Range(P.keys) = {J[i].c.this : i \in cls} /\ DOMAIN P.map = Range(P.keys)
            /\ \A i, j \in DOMAIN P.keys : P.keys[i] = P.keys[j] => i = j
            /\ \A c \in Range(P.keys) :
                 LET last == CHOOSE i \in cls : J[i].c.this = c /\ \A j \in cls : J[j].c.this = c => j <= i
                 IN P.map[c] = SupersOf(J[last].c)
            /\ \A a, b \in DOMAIN P.keys : a < b =>                                     \* classes in the order of their first entries
                 (CHOOSE i \in cls : J[i].c.this = P.keys[a] /\ \A j \in cls : J[j].c.this = P.keys[a] => i <= j)
                 < (CHOOSE i \in cls : J[i].c.this = P.keys[b] /\ \A j \in cls : J[j].c.this = P.keys[b] => i <= j)

(* what the harness observes of one form of the jar *)
Obs(J, probes) ==
    [list |-> Listing(J),
     names |-> Names(J),
     lookup |-> [n \in probes |-> LET r == ByName(J, n) IN IF r.found THEN [found |-> TRUE, e |-> View(r.e)] ELSE [found |-> FALSE]],
     sup |-> LET P == Provider(J) IN IF P.ok THEN [ok |-> TRUE, keys |-> P.keys, map |-> P.map] ELSE [ok |-> FALSE]]
=============================================================================
