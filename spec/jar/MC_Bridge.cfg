SPECIFICATION Spec
CONSTANT Tier = 0
INVARIANT InvLaw
INVARIANT InvFunctional
INVARIANT InvPredicate
INVARIANT Emit
CHECK_DEADLOCK FALSE
