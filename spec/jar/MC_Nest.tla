------------------------------ MODULE MC_Nest ------------------------------
(***************************************************************************)
(* Bounded instance for C14.  Four families of cases, each drawn in        *)
(* several Next steps (a draft of per-nest parameters grows nest by nest,  *)
(* so TLC's workers share the work), checked against the laws and emitted  *)
(* as one JSON vector per operation.                                       *)
(*                                                                         *)
(*  jar   tables of 1..4 nests for the classes p/A p/B p/C p/D: per nest   *)
(*        eleven kind variants (inner without / with absent / with present *)
(*        / with differently typed enclosing method; anonymous 1.., 0,     *)
(*        with method; local with present / absent / differently typed /   *)
(*        no method) x class present / absent x                            *)
(*        enclosing class p/T (present), p/X (missing) or an earlier nest  *)
(*        (chains of depth 1..4), custom and derived inner names, table    *)
(*        reversed; the jar: p/T, u/U and the present classes, referring   *)
(*        to each other in super class, interface, field and method        *)
(*        descriptors, instructions, an array class and existing           *)
(*        InnerClasses rows.  Also: jar and mappings agree.                *)
(*  map   tables x mappings naming all / some / none of the classes, with  *)
(*        a class lacking a target name, with Calamus style targets:       *)
(*        apply, undo (of the nested form), apply then undo                *)
(*  tr    one nest (inner / anonymous / local, derived / custom inner      *)
(*        name, enclosing method none / named / not named) x target name   *)
(*        of the class absent, plain, C_<n>, C_<not a number>, C__D,       *)
(*        B__C__D, /__D x enclosing class mapped or not x a second nest    *)
(*  read  texts of one or two lines from a pool of well- and ill-formed    *)
(*        lines x line ends                                                *)
(***************************************************************************)
EXTENDS Nest, Json

CONSTANT Tier
VARIABLES phase, fam, size, draft, extra
vars == <<phase, fam, size, draft, extra>>

TT == "p/T"
XX == "p/X"
UU == "u/U"
K == <<"p/A", "p/B", "p/C", "p/D">>
MethP == <<"em", "(Lp/B;)V">>          \* declared by every class of the jar
MethA == <<"nx", "(Lp/A;)V">>          \* declared nowhere
MethD == <<"em", "()V">>               \* a declared name with another descriptor: declared nowhere
Acc == <<1, 10, 16392, 0>>

(* ---- parameters -> values ---- *)
KV9 == {"inn", "innA", "innP", "innD", "an1", "an0", "anM", "locP", "locA", "locD", "loc0"}
EnclName(en) == IF en = 0 THEN TT ELSE IF en = 9 THEN XX ELSE K[en]
NestOfParam(i, p) ==
    LET cls == K[i]
        encl == EnclName(p.en)
        d == ToString(i)
    IN CASE p.kv = "inn" -> NestRec(cls, encl, <<>>, Simple(cls), Acc[i])            \* derived inner name
         [] p.kv = "innA" -> NestRec(cls, encl, MethA, "I" \o d, Acc[i])             \* custom inner name
         [] p.kv = "innP" -> NestRec(cls, encl, MethP, "I" \o d, Acc[i])
         [] p.kv = "innD" -> NestRec(cls, encl, MethD, "J" \o d, Acc[i])
         [] p.kv = "an1" -> NestRec(cls, encl, <<>>, d, Acc[i])
         [] p.kv = "an0" -> NestRec(cls, encl, <<>>, "0", Acc[i])
         [] p.kv = "anM" -> NestRec(cls, encl, MethP, "1" \o d, Acc[i])
         [] p.kv = "locP" -> NestRec(cls, encl, MethP, d \o "L" \o d, Acc[i])
         [] p.kv = "locA" -> NestRec(cls, encl, MethA, d \o "Loc", Acc[i])
         [] p.kv = "locD" -> NestRec(cls, encl, MethD, d \o "Ld", Acc[i])
         [] p.kv = "loc0" -> NestRec(cls, encl, <<>>, d \o Simple(cls), Acc[i])
Reverse(s) == [i \in 1..Len(s) |-> s[Len(s) + 1 - i]]
NestsOf(d, rev) == LET ns == [i \in 1..Len(d) |-> NestOfParam(i, d[i])] IN IF rev THEN Reverse(ns) ELSE ns

(* the jar: every class refers to the others *)
ClassRecipe(c) ==
    [super |-> IF c = "p/B" THEN "p/A" ELSE OBJECT,
     itfs |-> IF c = "p/C" THEN <<"p/D">> ELSE <<>>,
     fields |-> <<<<"f", "Lp/A;">>, <<"g", "[Lp/B;">>>>,
     methods |-> <<MethP, <<"m", "(Lp/C;I)Lp/D;">>>>,
     code |-> IF c = UU
              THEN <<<<"insn_class", "p/A", "", "">>, <<"insn_class", "[Lp/B;", "", "">>, <<"insn_field", "p/C", "x", "Lp/D;">>,
                     <<"insn_method", "p/D", "y", "(Lp/A;)Lp/T;">>, <<"ldc_class", "p/B", "", "">>, <<"insn_method", "p/X", "z", "()V">>>>
              ELSE IF c = TT THEN <<<<"insn_class", "p/C", "", "">>>> ELSE <<>>,
     ic |-> IF c = "p/A" THEN <<<<"p/A$Old", "p/A", "Old", 1>>>> ELSE IF c = UU THEN <<<<"p/B", "", "", 8>>>> ELSE <<>>,
     em |-> IF c = "p/C" THEN <<"p/D", "m", "(Lp/C;I)Lp/D;">> ELSE <<>>]
RecipeOf(d) == LET cs == {TT, UU} \cup {K[i] : i \in {i \in 1..Len(d) : d[i].pr}} IN [c \in cs |-> ClassRecipe(c)]

(* mappings *)
NS == <<"a", "b">>
Plain2(c) == "t/" \o Simple(c) \o "2"
UKids == MapOf({Field(<<"f", "fN">>, "Lp/A;", <<>>),
                Method(<<"m", "mN">>, "(Lp/B;[Lp/C;)Lp/D;", <<"doc">>, MapOf({Param(1, <<"", "arg">>, <<>>)}))})
TKids == MapOf({Method(<<"em", "emN">>, "(Lp/B;)V", <<>>, <<>>)})
OKids == MapOf({Field(<<"x", "">>, "Lp/T;", <<>>)})
ClsNode(c, tgt) == Class(<<c, tgt>>, <<>>, IF c = UU THEN UKids ELSE IF c = TT THEN TKids ELSE OKids)
MVs == {"all", "some", "none", "nodst", "cal", "calx"}
TreeOf(mv) ==
    LET cs == CASE mv \in {"all", "nodst", "cal", "calx"} -> {TT, UU, "p/A", "p/B", "p/C", "p/D"}
                [] mv = "some" -> {TT, UU, "p/A"}
                [] mv = "none" -> {UU}
        tgt(c) == CASE mv = "nodst" /\ c = "p/A" -> NoName
                    [] mv \in {"cal", "calx"} /\ c = "p/A" -> (IF mv = "cal" THEN "t/C_11" ELSE "t/C_x")
                    [] mv \in {"cal", "calx"} /\ c = "p/B" -> "t/T2__B2"
                    [] OTHER -> Plain2(c)
    IN Root(NS, <<"root doc">>, MapOf({ClsNode(c, tgt(c)) : c \in cs}))
CoverTree(cs) == Root(NS, <<>>, MapOf({ClsNode(c, Plain2(c)) : c \in cs}))

(* translate family *)
TrNest(x) ==
    LET cls == IF x.derived THEN (IF x.ty = "anonymous" THEN "p/Outer$3" ELSE IF x.javac THEN "p/Outer$12Name" ELSE "p/Outer$Name") ELSE "p/N1"
        inner == CASE x.ty = "inner" -> "Name" [] x.ty = "anonymous" -> "3" [] x.ty = "local" -> "12Name"
        m == IF x.meth = "none" THEN <<>> ELSE <<"run", "(Lp/N1;Lp/Outer$Name;I)Lp/Outer;">>
    IN NestRec(cls, "p/Outer", m, inner, 10)
TrSecond == NestRec("p/N2", "p/N1", <<"go", "()V">>, "1", 0)
TrTarget(mc) ==
    CASE mc = "plain" -> "t/Zed" [] mc = "cal" -> "t/C_12" [] mc = "calx" -> "t/C_x9" [] mc = "dd" -> "t/Out__Zed"
      [] mc = "ddd" -> "t/W__Y__Zed" [] mc = "bare" -> "C_7" [] mc = "ddslash" -> "t/__Zed" [] mc = "nodst" -> NoName
MCs == {"none", "nodst", "plain", "cal", "calx", "dd", "ddd", "bare", "ddslash"}
TrTree(x) ==
    LET n == TrNest(x)
        c1 == IF x.mc = "none" THEN {} ELSE {Class(<<n.cls, TrTarget(x.mc)>>, <<>>, <<>>)}
        c2 == IF ~x.me THEN {}
              ELSE {Class(<<"p/Outer", "t/OuterT">>, <<>>,
                          MapOf(IF x.meth = "named" THEN {Method(<<"run", "runN">>, "(Lp/N1;Lp/Outer$Name;I)Lp/Outer;", <<>>, <<>>),
                                                          Method(<<"run", "other">>, "()V", <<>>, <<>>)} ELSE {}))}
        c3 == IF n.cls = "p/N1" THEN {} ELSE {Class(<<"p/N1", "t/N1T">>, <<>>, <<>>)}
    IN Root(NS, <<>>, MapOf(c1 \cup c2 \cup c3))
TrNests(x) == IF x.two THEN <<TrNest(x), TrSecond>> ELSE <<TrNest(x)>>

(* read family *)
LinePool ==
    <<"p/A\tp/T\t\t\tIn\t1", "p/B\tp/T\tem\t()V\t1\t0x0A", "p/C\tp/A\trun\t(Lp/A;)V\t2Loc\t0b1010", "p/A\tp/X\t\t()V\t07\t30239",
      "p/D\tp/T\tem\t\tName\t0", "p/A\tp/T\t\t\tIn", "p/A\tp/T\t\t\tIn\t1\t", "\tp/T\t\t\tIn\t1", "p/A\t\t\t\tIn\t1", "p/A\tp/T\t\t\t\t1",
      "p.A\tp/T\t\t\tIn\t1", "p/A\tp/T\t<x>\t()V\tIn\t1", "p/A\tp/T\tm\t(V\tIn\t1", "p/A\tp/T\t\t\tIn\t65536", "p/A\tp/T\t\t\tIn\t0xZ",
      "p/A\tp/T\t\t\tIn\t0b12", "p/A\tp/T\t\t\tIn\t", "", "p/A\tp//T\t\t\tIn\t1", "p/A\tp/T\t\t\t1x;\t1">>
Ends == <<"", "\n", "\r\n">>
ReadText(x) ==
    LET e == Ends[x.e]
    IN IF x.b = 0 THEN LinePool[x.a] \o e
       ELSE LinePool[x.a] \o (IF e = "" THEN "\n" ELSE e) \o LinePool[x.b] \o e

---------------------------------------------------------------------------
Init == phase = "start" /\ fam = "" /\ size = 0 /\ draft = <<>> /\ extra = <<>>

KVFor(f, n, i) ==
    IF f = "jar"
    THEN CASE n <= 2 -> KV9
           [] n = 3 -> (IF Tier = 0 THEN {"inn", "an1", "locP", "innP", "locA"} ELSE KV9)
           [] n = 4 -> (IF Tier = 0 THEN {"inn", "an1", "locP"} ELSE {"inn", "innA", "an1", "locP", "innP", "locA"})
    ELSE CASE n <= 2 -> {"inn", "innA", "an1", "locP"}
           [] n = 3 -> (IF Tier = 0 THEN {"innA", "locP"} ELSE {"inn", "innA", "an1", "locP"})
           [] n = 4 -> (IF Tier = 0 THEN {"inn"} ELSE {"inn", "an1"})
PrFor(f, n, i) == IF f = "jar" THEN BOOLEAN ELSE {TRUE}
EnFor(f, n, i) ==
    IF n <= 3 THEN {0, 9} \cup 1..(i - 1)
    ELSE CASE i = 1 -> {0, 9} [] i = 2 -> {1} [] i = 3 -> {2, 0} [] i = 4 -> {3, 1}
(* in the larger tables an absent class comes with one kind only (its nest is skipped before the kind is looked at) *)
Allowed(f, n, p) == (f = "jar" /\ n >= 3 /\ ~p.pr) => p.kv = "inn"

Start ==
    /\ phase = "start"
    /\ \/ \E f \in {"jar", "map"}, n \in 1..4 : fam' = f /\ size' = n /\ phase' = "draft" /\ draft' = <<>> /\ extra' = <<>>
       \/ \E ty \in {"inner", "anonymous", "local"}, derived \in BOOLEAN, meth \in {"none", "named", "unnamed"}, javac \in BOOLEAN :
            /\ (javac => ty = "local" /\ derived)       \* the local class named as javac names it: Outer$12Name, inner name 12Name
            /\ fam' = "tr" /\ size' = 0 /\ phase' = "draft" /\ draft' = <<>>
            /\ extra' = [ty |-> ty, derived |-> derived, meth |-> meth, javac |-> javac]
       \/ \E a \in 1..Len(LinePool) :
            /\ fam' = "read" /\ size' = 0 /\ phase' = "draft" /\ draft' = <<>> /\ extra' = [a |-> a]
Grow ==
    /\ phase = "draft" /\ fam \in {"jar", "map"} /\ Len(draft) < size
    /\ LET i == Len(draft) + 1
       IN \E kv \in KVFor(fam, size, i), pr \in PrFor(fam, size, i), en \in EnFor(fam, size, i) :
            /\ Allowed(fam, size, [kv |-> kv, pr |-> pr, en |-> en])
            /\ draft' = Append(draft, [kv |-> kv, pr |-> pr, en |-> en])
    /\ UNCHANGED <<phase, fam, size, extra>>
Finish ==
    /\ phase = "draft"
    /\ CASE fam = "jar" -> /\ Len(draft) = size
                           /\ \E rev \in (IF size = 2 \/ (Tier = 1 /\ size = 4) THEN BOOLEAN ELSE {FALSE}) : extra' = [rev |-> rev]
         [] fam = "map" -> Len(draft) = size /\ \E mv \in MVs : extra' = [mv |-> mv]
         [] fam = "tr" -> \E mc \in MCs, me \in BOOLEAN, two \in BOOLEAN : extra' = extra @@ [mc |-> mc, me |-> me, two |-> two]
         [] fam = "read" -> \E b \in 0..Len(LinePool), e \in 1..3 : extra' = extra @@ [b |-> b, e |-> e]
    /\ phase' = "case" /\ UNCHANGED <<fam, size, draft>>
Next == Start \/ Grow \/ Finish
Spec == Init /\ [][Next]_vars

---------------------------------------------------------------------------
IsCase(f) == phase = "case" /\ fam = f
Weak == [anyof |-> <<[st |-> "ok"], [st |-> "err"]>>]

(* jar *)
JNests == NestsOf(draft, extra.rev)
JJar == RecipeJar(RecipeOf(draft))
OutOf(op) == [names |-> op.names, classes |-> op.classes]
InvJar ==
    IsCase("jar") =>
        LET nests == JNests
            jar == JJar
            op == NestJarOp(jar, nests)
        IN /\ WF(nests) /\ RenderReadLaw(nests) /\ ReadLaw(Render(nests), ReadOp(Render(nests)))
           /\ JarPre(jar, nests) =>
                /\ ~op.clash
                /\ op.this = Renamed(jar, nests)                                  \* the filter = the rule of the kind
                /\ op.table = NewTable(nests, Renamed(jar, nests))                \* fn remap = Enclosing' $ Inner, transitively
                /\ JarLawWith(jar, nests, OutOf(op), TRUE)
                /\ JarLawWith(jar, nests, OutOf(op), FALSE)
                /\ NeededEncl(jar, nests) \subseteq op.created
                /\ op.created = MayCreate(jar, nests)                             \* as coded: created before the rule is tested
                /\ LET alts == LawJar(jar, nests).names.anyof IN \E i \in 1..Len(alts) : alts[i] = AsMap(op.names)
(* tables in which a created class is itself listed: whatever the order of the lines, the routine's result is the *)
(* nesting for one admissible choice of created classes counted as present                                         *)
InvJarAlt ==
    IsCase("jar") =>
        LET nests == JNests
            jar == JJar
            op == NestJarOp(jar, nests)
        IN /\ (WF(nests) /\ Plain(jar, nests)) => CountedPresent(jar, nests) = {{}}
           /\ JarPreAlt(jar, nests) =>
                /\ ~op.clash
                /\ JarLawAlt(jar, nests, OutOf(op), TRUE)
                /\ JarLawAlt(jar, nests, OutOf(op), FALSE)
(* as coded: the same result, except that created classes are no class entries of the jar *)
InvJarAsCoded ==
    IsCase("jar") =>
        LET op == NestJarOp(JJar, JNests)
            ac == NestJarOpAsCoded(JJar, JNests)
        IN JarPre(JJar, JNests) =>
            /\ ac.stray = op.created /\ ac.names = op.names \ op.created
            /\ \A c \in ac.names : ac.classes[c] = op.classes[c]
            /\ (NeededEncl(JJar, JNests) = {} <=> NamesLaw(JJar, JNests, ac.names))       \* the law fails exactly when a needed class was created
InvAsCodedJarLaw == IsCase("jar") => (JarPre(JJar, JNests) => JarLawWith(JJar, JNests, OutOf(NestJarOpAsCoded(JJar, JNests)), TRUE))   \* not claimed: MC_Nest_ascoded.cfg
(* agreement with the mappings that cover the jar *)
JCover == CoverTree(DOMAIN JJar \cup NeededEncl(JJar, JNests))
InvAgree ==
    IsCase("jar") =>
        (AgreePre(JJar, JNests, JCover) =>
            LET a == ApplyOp(JCover, JNests)
                op == NestJarOp(JJar, JNests)
            IN /\ a.ok
               /\ AgreeLaw(JJar, JNests, JCover, [jarNames |-> op.names, mapNames |-> SrcNames(a.v)])
               \* the two renamings are one function
               /\ \A c \in DOMAIN JJar : MapClassT(op.table, c) = MapClassT(TransTableOp(JNests), c))

(* map *)
MNests == NestsOf(draft, FALSE)
MTree == TreeOf(extra.mv)
InvMap ==
    IsCase("map") =>
        LET nests == MNests
            M == MTree
            a == ApplyOp(M, nests)
            nested == Substituted(M, MapTable(nests))
        IN /\ WF(nests) /\ WellKeyed(M)
           /\ TransTableOp(nests) = MapTable(nests)                      \* build_translation = Enclosing' $ Inner, transitively
           /\ ApplyLaw(M, nests, a)
           /\ (a.ok => WellKeyed(a.v))
           /\ InverseLaw(M, nests, IF a.ok THEN UndoOp(a.v, nests) ELSE Err)
           /\ UndoLaw(nested, nests, UndoOp(nested, nests))
           \* as coded: a class without a target name panics, otherwise the routines are the repaired ones
           /\ LET ac == ApplyOpAsCoded(M, nests)
              IN IF TranslateOp(nests, M).ok /\ \E k \in DOMAIN M.kids : M.kids[k].names[2] = NoName THEN ac = Panic ELSE ac = a
InvAsCodedApplyLaw == IsCase("map") => ApplyLaw(MTree, MNests, ApplyOpAsCoded(MTree, MNests))     \* not claimed: MC_Nest_ascoded.cfg

(* translate *)
InvTr ==
    IsCase("tr") =>
        LET nests == TrNests(extra)
            M == TrTree(extra)
            out == TranslateOp(nests, M)
        IN /\ WF(nests) /\ WellKeyed(M)
           /\ TranslateLaw(nests, M, out)
           /\ (TranslateDefined(nests, M) /\ TargetsDistinct(nests, M)) =>
                 out = Ok([i \in 1..Len(nests) |-> LawNest(M, nests[i])])

(* read *)
InvRead == IsCase("read") => ReadLaw(ReadText(extra), ReadOp(ReadText(extra)))

---------------------------------------------------------------------------
(* vectors *)
MaxOf(S) == IF S = {} THEN 0 ELSE Max(S)
JTag ==
    LET jar == JJar
        nests == JNests
        S == Renamed(jar, nests)
    IN [n |-> size, pre |-> JarPre(jar, nests), plain |-> Plain(jar, nests),
        kinds |-> [i \in 1..Len(nests) |-> [type |-> nests[i].type, present |-> nests[i].cls \in DOMAIN jar, applies |-> nests[i].cls \in S,
                                           enclMissing |-> nests[i].encl \notin DOMAIN jar \cup Keys(nests)]],
        depth |-> 0,
        chain |-> MaxOf({Depth(nests, c) : c \in Keys(nests)}),
        created |-> NeededEncl(jar, nests) # {}, over |-> MayCreate(jar, nests) # NeededEncl(jar, nests),
        allapply |-> AllApply(jar, nests), agree |-> AgreePre(jar, nests, JCover)]
NestDepth(nests, S, c) == LET T == ByClass(nests) IN ChainLen([x \in S |-> T[x]], c, Len(nests) + 1)

EmitJar ==
    LET jar == JJar
        nests == JNests
        tag == [JTag EXCEPT !.depth = MaxOf({NestDepth(nests, Renamed(jar, nests), c) : c \in Renamed(jar, nests)})]
    IN /\ PrintT(ToJson([op |-> "nest_jar", jar |-> RecipeOf(draft), nests |-> nests, via |-> IF extra.rev \/ size = 3 THEN "text" ELSE "value",
                         text |-> Render(nests), tag |-> tag,
                         exp |-> IF JarPre(jar, nests) THEN LawJar(jar, nests)
                                 ELSE IF JarPreAlt(jar, nests) THEN LawJarAlt(jar, nests) ELSE Weak]))
       /\ tag.agree => PrintT(ToJson([op |-> "agree", jar |-> RecipeOf(draft), nests |-> nests, tree |-> JCover, tag |-> tag,
                         exp |-> [st |-> "ok", jarNames |-> AsMap({MapClassT(MapTable(nests), c) : c \in SrcNames(JCover)}),
                                  mapNames |-> AsMap({MapClassT(MapTable(nests), c) : c \in SrcNames(JCover)})]]))
EmitMap ==
    LET nests == MNests
        M == MTree
        R == MapTable(nests)
        nested == Substituted(M, R)
        tag == [n |-> size, mv |-> extra.mv, chain |-> MaxOf({Depth(nests, c) : c \in Keys(nests)}),
                defined |-> TranslateDefined(nests, M), nocapture |-> NoCapture(M, nests),
                touches |-> Keys(nests) \cap TreeClasses(M) # {},
                descs |-> \E k \in DOMAIN M.kids : \E j \in DOMAIN M.kids[k].kids : SubstDescG(R, M.kids[k].kids[j].desc) # M.kids[k].kids[j].desc]
        applyPre == MapPre(M, nests) /\ TranslateDefined(nests, M) /\ InjectiveOn(R, TreeClasses(M))
        undoPre == MapPre(nested, nests) /\ InjectiveOn(R, Keys(nests)) /\ InjectiveOn(UndoTable(nests), TreeClasses(nested))
        invPre == MapPre(M, nests) /\ TranslateDefined(nests, M) /\ NoCapture(M, nests)
    IN /\ PrintT(ToJson([op |-> "apply", tree |-> M, nests |-> nests, tag |-> tag,
                         exp |-> IF applyPre THEN [st |-> "ok", src |-> SrcView(nested)] ELSE Weak]))
       /\ PrintT(ToJson([op |-> "undo", tree |-> nested, nests |-> nests, tag |-> tag,
                         exp |-> IF undoPre THEN [st |-> "ok", src |-> SrcView(Substituted(nested, UndoTable(nests)))] ELSE Weak]))
       /\ PrintT(ToJson([op |-> "applyundo", tree |-> M, nests |-> nests, tag |-> tag,
                         exp |-> IF invPre THEN [st |-> "ok", src |-> SrcView(M)] ELSE Weak]))
EmitTr ==
    LET nests == TrNests(extra)
        M == TrTree(extra)
        def == WF(nests) /\ TranslateDefined(nests, M) /\ TargetsDistinct(nests, M)
    IN PrintT(ToJson([op |-> "remap_nests", tree |-> M, nests |-> nests, tag |-> extra @@ [defined |-> def],
                      exp |-> IF def THEN [st |-> "ok", nests |-> [c \in {Target(M, nests[i].cls) : i \in 1..Len(nests)} |->
                                                LawNest(M, nests[CHOOSE i \in 1..Len(nests) : Target(M, nests[i].cls) = c])]]
                              ELSE Weak]))
EmitRead ==
    LET text == ReadText(extra)
        r == ReadOp(text)
    IN PrintT(ToJson([op |-> "read", text |-> text, tag |-> [ok |-> r.ok, lines |-> Len(Lines(text)), dup |-> r.ok /\ Len(r.v) < Len(Lines(text))],
                      exp |-> IF \E i \in 1..Len(Lines(text)) : OnlyDescIllFormed(Lines(text)[i]) THEN Weak
                              ELSE IF r.ok THEN [st |-> "ok", nests |-> ByClass(r.v)] ELSE [st |-> "err"]]))
Emit ==
    phase = "case" =>
        CASE fam = "jar" -> EmitJar [] fam = "map" -> EmitMap [] fam = "tr" -> EmitTr [] fam = "read" -> EmitRead
=============================================================================
