----------------------------- MODULE Trace_Nest -----------------------------
(***************************************************************************)
(* I2S for C14: every record is one real execution (inputs + projected     *)
(* result); the laws of Nest.tla are evaluated on the recorded result.     *)
(*   nest_jar    jar (recipe) / jin (the input jar as the independent      *)
(*               parser reads it, rows in order), nests, via, text         *)
(*   agree       jar, nests, tree                                          *)
(*   apply | undo | applyundo     tree, nests                              *)
(*   remap_nests tree, nests                                               *)
(*   read        text                                                      *)
(***************************************************************************)
EXTENDS Nest, Json, IOUtils

Rec == ndJsonDeserialize(IOEnv.TRACE)
VARIABLES l, rej

HasSt(r) == "st" \in DOMAIN r.got                       \* a panic carries no status
IsOk(r) == HasSt(r) /\ r.got.st = "ok"
Weak == [anyof |-> <<[st |-> "ok"], [st |-> "err"]>>]

(* the table the operation received: as a value, or read by the code from the text (then the text must denote it) *)
TableOK(r) == ("via" \in DOMAIN r /\ r.via = "text") => ReadOp(r.text) = Ok(r.nests)

JarIn(r) ==
    IF "jin" \in DOMAIN r
    THEN [c \in DOMAIN r.jin |-> [rows |-> r.jin[c].rows, ic |-> r.jin[c].ic, em |-> r.jin[c].em, res |-> r.jin[c].res]]
    ELSE LET rj == RecipeJar(r.jar) IN [c \in DOMAIN rj |-> [rj[c] EXCEPT !.res = r.got.resIn[c]]]
JarOut(r) ==
    [names |-> DOMAIN r.got.classes,
     classes |-> [c \in DOMAIN r.got.classes |->
        [rows |-> r.got.classes[c].rowseq, ic |-> r.got.classes[c].ic, em |-> r.got.classes[c].em, res |-> r.got.classes[c].res]]]
TableOut(r) == IF IsOk(r) THEN Ok([i \in 1..Len(r.got.order) |-> r.got.nests[r.got.order[i]]]) ELSE Err
TreeOut(r) == IF IsOk(r) THEN Ok(NormTree(r.got.v)) ELSE Err

Accept(r) ==
    /\ HasSt(r)
    /\ CASE r.op = "nest_jar" ->
              LET jar == IF IsOk(r) \/ "jin" \in DOMAIN r THEN JarIn(r) ELSE RecipeJar(r.jar)
              IN /\ TableOK(r)
                 /\ JarPre(jar, r.nests) =>
                      /\ IsOk(r)
                      /\ JarLawWith(jar, r.nests, JarOut(r), "jin" \in DOMAIN r)
                      /\ ("others" \in DOMAIN r) => r.got.others = r.others           \* entries that are no classes pass through
                      /\ ("dirs" \in DOMAIN r) => SeqToSet(r.got.dirs) = SeqToSet(r.dirs)
                 /\ JarPreAlt(jar, r.nests) =>                                         \* a created class is itself listed
                      /\ IsOk(r)
                      /\ JarLawAlt(jar, r.nests, JarOut(r), "jin" \in DOMAIN r)
         [] r.op = "agree" ->
              LET jar == IF "jin" \in DOMAIN r THEN JarIn(r) ELSE RecipeJar(r.jar)
                  M == NormTree(r.tree)
              IN /\ TableOK(r)
                 /\ AgreePre(jar, r.nests, M) =>
                      /\ IsOk(r)
                      /\ AgreeLaw(jar, r.nests, M, [jarNames |-> DOMAIN r.got.jarNames, mapNames |-> DOMAIN r.got.mapNames])
         [] r.op = "apply" -> TableOK(r) /\ ApplyLaw(NormTree(r.tree), r.nests, TreeOut(r))
         [] r.op = "undo" -> TableOK(r) /\ UndoLaw(NormTree(r.tree), r.nests, TreeOut(r))
         [] r.op = "applyundo" -> TableOK(r) /\ InverseLaw(NormTree(r.tree), r.nests, TreeOut(r))
         [] r.op = "remap_nests" -> TableOK(r) /\ TranslateLaw(r.nests, NormTree(r.tree), TableOut(r))
         [] r.op = "read" -> ReadLaw(r.text, TableOut(r))
         [] OTHER -> FALSE

(* what the specification expects, for the report of a rejected record *)
Expected(r) ==
    CASE r.op = "nest_jar" ->
            LET jar == IF "jin" \in DOMAIN r THEN JarIn(r) ELSE RecipeJar(r.jar)
            IN IF ~TableOK(r) THEN [inconsistent |-> "text does not denote the table"]
               ELSE IF JarPre(jar, r.nests) THEN LawJar(jar, r.nests)
               ELSE IF JarPreAlt(jar, r.nests) THEN LawJarAlt(jar, r.nests) ELSE Weak
      [] r.op = "agree" ->
            LET jar == IF "jin" \in DOMAIN r THEN JarIn(r) ELSE RecipeJar(r.jar)
                M == NormTree(r.tree)
                ns == AsMap({MapClassT(MapTable(r.nests), c) : c \in SrcNames(M)})
            IN IF AgreePre(jar, r.nests, M) THEN [st |-> "ok", jarNames |-> ns, mapNames |-> ns] ELSE Weak
      [] r.op = "apply" ->
            LET M == NormTree(r.tree)
            IN IF MapPre(M, r.nests) /\ TranslateDefined(r.nests, M) /\ InjectiveOn(MapTable(r.nests), TreeClasses(M))
               THEN [st |-> "ok", src |-> SrcView(Substituted(M, MapTable(r.nests)))] ELSE Weak
      [] r.op = "undo" ->
            LET M == NormTree(r.tree)
            IN IF MapPre(M, r.nests) /\ InjectiveOn(MapTable(r.nests), Keys(r.nests)) /\ InjectiveOn(UndoTable(r.nests), TreeClasses(M))
               THEN [st |-> "ok", src |-> SrcView(Substituted(M, UndoTable(r.nests)))] ELSE Weak
      [] r.op = "applyundo" ->
            LET M == NormTree(r.tree)
            IN IF MapPre(M, r.nests) /\ TranslateDefined(r.nests, M) /\ NoCapture(M, r.nests) THEN [st |-> "ok", src |-> SrcView(M)] ELSE Weak
      [] r.op = "remap_nests" ->
            LET M == NormTree(r.tree)
            IN IF WF(r.nests) /\ TranslateDefined(r.nests, M) /\ TargetsDistinct(r.nests, M)
               THEN [st |-> "ok", nests |-> [c \in {Target(M, r.nests[i].cls) : i \in 1..Len(r.nests)} |->
                                                LawNest(M, r.nests[CHOOSE i \in 1..Len(r.nests) : Target(M, r.nests[i].cls) = c])]]
               ELSE Weak
      [] r.op = "read" -> LET o == ReadOp(r.text)
                          IN IF \E i \in 1..Len(Lines(r.text)) : OnlyDescIllFormed(Lines(r.text)[i]) THEN Weak
                             ELSE IF o.ok THEN [st |-> "ok", nests |-> ByClass(o.v)] ELSE [st |-> "err"]
      [] OTHER -> <<>>

(* the law says something definite about the record (its precondition holds): used to pick the records of the  *)
(* binding self-test (a record given another record's result must be rejected), see Trace_Nest_bound.cfg        *)
Bound(r) ==
    CASE r.op = "nest_jar" -> IsOk(r) /\ JarPre(JarIn(r), r.nests)
      [] r.op = "agree" -> IsOk(r) /\ AgreePre(IF "jin" \in DOMAIN r THEN JarIn(r) ELSE RecipeJar(r.jar), r.nests, NormTree(r.tree))
      [] r.op = "apply" -> LET M == NormTree(r.tree)
                           IN MapPre(M, r.nests) /\ TranslateDefined(r.nests, M) /\ InjectiveOn(MapTable(r.nests), TreeClasses(M))
      [] r.op = "undo" -> LET M == NormTree(r.tree)
                          IN MapPre(M, r.nests) /\ InjectiveOn(MapTable(r.nests), Keys(r.nests)) /\ InjectiveOn(UndoTable(r.nests), TreeClasses(M))
      [] r.op = "applyundo" -> LET M == NormTree(r.tree) IN MapPre(M, r.nests) /\ TranslateDefined(r.nests, M) /\ NoCapture(M, r.nests)
      [] r.op = "remap_nests" -> WF(r.nests) /\ TranslateDefined(r.nests, NormTree(r.tree))
      [] r.op = "read" -> \A i \in 1..Len(Lines(r.text)) : ~OnlyDescIllFormed(Lines(r.text)[i])
      [] OTHER -> FALSE
BNext ==
    /\ l <= Len(Rec)
    /\ l' = l + 1 /\ rej' = rej
    /\ Bound(Rec[l]) => PrintT(ToJson([bound |-> l]))

Init == l = 1 /\ rej = 0
Next ==
    /\ l <= Len(Rec)
    /\ l' = l + 1
    /\ IF Accept(Rec[l]) THEN rej' = rej
       ELSE /\ PrintT(ToJson([reject |-> l, exp |-> Expected(Rec[l])]))
            /\ rej' = rej + 1
Spec == Init /\ [][Next]_<<l, rej>>
BSpec == Init /\ [][BNext]_<<l, rej>>
Consumed == TLCGet("stats").diameter - 1 = Len(Rec)
=============================================================================
