---------------------------- MODULE MC_JarRemap ----------------------------
(***************************************************************************)
(* Bounded instance for C07.  A case is drawn in steps inside Next:        *)
(*   shape    the jar: 1-3 generated classes (A; A + B extends A with /    *)
(*            without own members; C extends a class outside the jar whose *)
(*            super type declares the member; A + inner class A$I; a chain *)
(*            of three); module rows are placed in a module-info class     *)
(*   cm       class renames: none, same package, package move, a swap and a  *)
(*            shift (target names that are source names too), inner class   *)
(*            following / not following its outer class, inner class       *)
(*            flattened, a rename onto a name present in the jar           *)
(*   mm       member renames: none, A's, A's + B's shadowing method, the   *)
(*            outside super type's, all; under a class that has a target   *)
(*            name or not (partial mappings)                               *)
(*   probe    one item of every reference kind (several variants each),    *)
(*            placed in the last class (module rows: in module-info)       *)
(*   extras   instead of a probe: directories, resources, a multi-release  *)
(*            entry, a package-info class (renamed with its package),      *)
(*            an entry whose name is not that of its class                 *)
(* Laws are INVARIANTs of the drawn case; every case is emitted as a       *)
(* vector {M, lib, jar, exp} for replay through dukebox::remap::remap.     *)
(***************************************************************************)
EXTENDS JarRemap, Json

CONSTANT Tier        \* 0 = quick, 1 = thorough
VARIABLES phase, shape, cm, mm, ident, probe, extras, via,
          ms, X, jseq, J       \* derived once per case: mapping set, remapper context, the jar as a sequence and as a function
vars == <<phase, shape, cm, mm, ident, probe, extras, via, ms, X, jseq, J>>

OBJ == "java/lang/Object"
A == "p/A"
B == "p/B"
I == "p/A$I"
C == "q/C"
L == "x/L"
T == "x/T"
PI == "p/package-info"           \* the class javac emits for an annotated package-info.java: renamed with its package

Cls(this, super, itfs, fields, methods) == [this |-> this, super |-> super, itfs |-> itfs, fields |-> fields, methods |-> methods, items |-> <<>>]
ClsA == Cls(A, OBJ, <<>>, <<<<"f", "I">>, <<"g", "Lp/A;">>>>, <<<<"m", "()V">>, <<"h", "(Lp/A;)Lp/B;">>>>)
ClsB == Cls(B, A, <<>>, <<<<"f", "I">>>>, <<<<"m", "()V">>>>)              \* shadows A.f, overrides A.m
ClsB0 == Cls(B, A, <<>>, <<>>, <<>>)                                      \* inherits everything
ClsI == Cls(I, OBJ, <<T>>, <<>>, <<<<"v", "()I">>, <<"t", "()V">>>>)
ClsC == Cls(C, L, <<T>>, <<>>, <<<<"t", "()V">>>>)                         \* L and T are outside the jar
ClsC2 == Cls(C, B, <<>>, <<>>, <<<<"m", "()V">>>>)
ModInfo == Cls("module-info", "", <<>>, <<>>, <<>>)
ClsPI == Cls(PI, OBJ, <<>>, <<>>, <<>>)

LibLT == (L :> <<T>>) @@ (T :> <<>>)
Shapes == <<[cs |-> <<ClsA>>, lib |-> <<>>],
            [cs |-> <<ClsA, ClsB>>, lib |-> <<>>],
            [cs |-> <<ClsA, ClsB0>>, lib |-> <<>>],
            [cs |-> <<ClsC>>, lib |-> LibLT],
            [cs |-> <<ClsA, ClsI>>, lib |-> (T :> <<>>)],
            [cs |-> <<ClsA, ClsB0, ClsC2>>, lib |-> <<>>],
            [cs |-> <<ClsB, ClsA>>, lib |-> <<>>]>>          \* sub class stored before its super class
ShapeIdx == IF Tier = 0 THEN 1..5 ELSE 1..Len(Shapes)

(* class renames: name -> new name *)
ClassMaps == <<
    <<>>,
    (A :> "p/X"),
    (A :> "r/X") @@ (B :> "r/Y") @@ (PI :> "r/package-info"),
    (A :> "r/X") @@ (I :> "r/X$J"),
    (I :> "p/A$J"),
    (I :> "s/Flat"),
    (B :> "p/Y") @@ (C :> "q/Z") @@ (T :> "y/T2"),
    (A :> "p/B"),                                   \* onto a name the jar may hold
    (A :> "p/B") @@ (B :> "p/A"),                   \* a swap: the answer for a name is itself a name the map renames (asking twice differs from asking once)
    (A :> "p/B") @@ (B :> "p/Y") @@ (I :> "p/B$I"), \* a shift a -> b -> y, the inner class following its outer class
    (A :> "r/X") @@ (B :> "r/Y") @@ (I :> "r/X$J") @@ (C :> "r/Z") @@ (L :> "y/L2") @@ (T :> "y/T2") @@ (PI :> "r/package-info") >>
(* thorough tier: every combination of a choice for A, for B and for the inner class *)
ClassMapSet ==
    {ClassMaps[i] : i \in DOMAIN ClassMaps}
    \cup (IF Tier = 0 THEN {}
          ELSE {a @@ b @@ i : a \in {<<>>, (A :> "p/X"), (A :> "r/X")},
                              b \in {<<>>, (B :> "p/Y"), (B :> "r/Y")},
                              i \in {<<>>, (I :> "p/A$J"), (I :> "r/X$J"), (I :> "s/Flat")}})
(* member renames: <<class, kind, name, desc, new name>> *)
MA == {<<A, "f", "f", "I", "ff">>, <<A, "f", "g", "Lp/A;", "gg">>, <<A, "m", "m", "()V", "mm">>, <<A, "m", "h", "(Lp/A;)Lp/B;", "hh">>}
MB == {<<B, "m", "m", "()V", "bm">>, <<B, "f", "f", "I", "bf">>}
MT == {<<T, "m", "t", "()V", "tt">>}
MI == {<<I, "m", "v", "()I", "vv">>}
MemberMaps == <<{}, MA, MA \cup MB, MT, MA \cup MB \cup MT \cup MI>>

(* the mapping set: a class node for every renamed class and every class with member renames; a class *)
(* without rename gets its own name as target (ident) or no target name (then its members are ignored) *)
NodeClasses(cm0, mm0) == {c \in {A, B, I, C, L, T, PI} : c \in DOMAIN cm0 \/ \E e \in MemberMaps[mm0] : e[1] = c}
TargetOf(cm0, id0, c) == IF c \in DOMAIN cm0 THEN cm0[c] ELSE IF id0 THEN c ELSE ""
MemberNode(e) == IF e[2] = "f" THEN Field(<<e[3], e[5]>>, e[4], <<>>) ELSE Method(<<e[3], e[5]>>, e[4], <<>>, <<>>)
MapSetOf(cm0, mm0, id0) ==
    Root(<<"a", "b">>, <<>>,
         MapOf({Class(<<c, TargetOf(cm0, id0, c)>>, <<>>, MapOf({MemberNode(e) : e \in {e \in MemberMaps[mm0] : e[1] = c}})) : c \in NodeClasses(cm0, mm0)}))

(* "via": the same renames stated by a mapping set over THREE namespaces <<k, a, b>> whose first (key) namespace is  *)
(* neither the jar's nor the target's: classes and members are keyed by their k names, member descriptors are written  *)
(* with k names (as quill stores them: always in the first namespace), and the jar is remapped from a (2) to b (3).    *)
(* This is how the build uses it (official / intermediary / named, intermediary -> named).  The law: read from 2 to 3, *)
(* the three-namespace set gives the same remapper context as the two-namespace set, hence the same expectation.       *)
KN(c) == c \o "_k"
KTable(cm0, mm0) == [c \in NodeClasses(cm0, mm0) |-> KN(c)]
KDesc(cm0, mm0, d) == LET r == MapDesc(KTable(cm0, mm0), d) IN IF r.ok THEN r.v ELSE d
MemberNode3(cm0, mm0, e) ==
    IF e[2] = "f" THEN Field(<<e[3] \o "_k", e[3], e[5]>>, KDesc(cm0, mm0, e[4]), <<>>)
    ELSE Method(<<e[3] \o "_k", e[3], e[5]>>, KDesc(cm0, mm0, e[4]), <<>>, <<>>)
MapSet3Of(cm0, mm0, id0) ==
    Root(<<"k", "a", "b">>, <<>>,
         MapOf({Class(<<KN(c), c, TargetOf(cm0, id0, c)>>, <<>>,
                      MapOf({MemberNode3(cm0, mm0, e) : e \in {e \in MemberMaps[mm0] : e[1] = c}})) : c \in NodeClasses(cm0, mm0)}))
Ctx3(M, sup) == CtxFT(M, 2, 3, sup)
(* drawn for the cases in which it matters: members renamed whose descriptors mention renamed classes *)
(* (every class of the set has a target name: a class that has none keeps its k name inside target descriptors, which  *)
(* the two-namespace statement cannot say)                                                                             *)
ViaChoices(sh, cm0, mm0, id0) == IF id0 /\ mm0 \in {2, 5} /\ sh \in {2, 4, 5} /\ cm0 # <<>> THEN BOOLEAN ELSE {FALSE}

---------------------------------------------------------------------------
(* probes *)
It(t) == [t |-> t]
F(t, o, n, d) == [t |-> t, o |-> o, n |-> n, d |-> d]
K(t, c) == [t |-> t, c |-> c]
D(t, d) == [t |-> t, d |-> d]
LmfDesc == "(Ljava/lang/invoke/MethodHandles$Lookup;Ljava/lang/String;Ljava/lang/invoke/MethodType;Ljava/lang/invoke/MethodType;Ljava/lang/invoke/MethodHandle;Ljava/lang/invoke/MethodType;)Ljava/lang/invoke/CallSite;"
Dyn(t, n, d, bsm, args) == [t |-> t, n |-> n, d |-> d, bsm |-> bsm, args |-> args]
P(kind, host, it) == [kind |-> kind, host |-> host, it |-> it]
Probes == <<
    P("insn_field", "last", F("insn_field", A, "f", "I")),
    P("insn_field", "last", F("insn_field", B, "f", "I")),                     \* inherited or shadowed
    P("insn_field", "last", F("insn_field", B, "g", "Lp/A;")),
    P("insn_field", "last", F("insn_field", A, "nofield", "[Lp/B;")),
    P("insn_method", "last", F("insn_method", A, "m", "()V")),
    P("insn_method", "last", F("insn_method", B, "m", "()V")),
    P("insn_method", "last", F("insn_method", B, "h", "(Lp/A;)Lp/B;")),
    P("insn_method", "last", F("insn_method", C, "t", "()V")),                 \* through L to T, both outside the jar
    P("insn_method", "last", F("insn_method", I, "m", "()V")),                 \* not inherited
    P("insn_method", "last", F("insn_method", "[Lp/A;", "clone", "()Ljava/lang/Object;")),
    P("insn_method", "last", F("insn_method", "[Lp/B;", "m", "(Lp/A;)V")),             \* a method of an array class: the name stays
    P("insn_class", "last", K("insn_class", A)),
    P("insn_class", "last", K("insn_class", "[[Lp/A$I;")),
    P("insn_class", "last", K("insn_class", "[I")),
    (* string constants that spell a mapped class (dotted, slashed, as a descriptor): text, not references - nothing else is renamed *)
    P("ldc_string", "last", K("ldc_string", "p.A")),
    P("ldc_string", "last", K("ldc_string", "p/A")),
    P("ldc_string", "last", K("ldc_string", "Lp/A;")),
    P("ldc_class", "last", K("ldc_class", B)),
    P("ldc_class", "last", K("ldc_class", "[Lp/A;")),
    P("ldc_mtype", "last", D("ldc_mtype", "(Lp/A;[Lp/B;I)Lp/A$I;")),
    P("handle", "last", F("ldc_handle", A, "f", "I")),
    P("handle", "last", F("ldc_handle", B, "m", "()V")),
    P("indy_nt", "last", Dyn("indy", "t", "(Lp/A;)Lx/T;", <<LMF, "metafactory", LmfDesc>>,
                             <<<<"mtype", "", "", "()V">>, <<"handle", A, "m", "()V">>, <<"mtype", "", "", "()V">>>>)),
    P("indy_nt", "last", Dyn("indy", "v", "()Lp/A$I;", <<LMF, "metafactory", LmfDesc>>,
                             <<<<"mtype", "", "", "()I">>, <<"handle", B, "h", "(Lp/A;)Lp/B;">>, <<"mtype", "", "", "()I">>>>)),
    P("indy_nt", "last", Dyn("indy", "m", "(Lp/A;)V", <<B, "m", "()V">>, <<<<"class", A, "", "">>, <<"handle", A, "f", "I">>>>)),
    P("indy_nt", "last", Dyn("condy", "f", "Lp/A;", <<A, "h", "(Lp/A;)Lp/B;">>, <<<<"class", I, "", "">>, <<"mtype", "", "", "(Lp/B;)V">>>>)),
    P("bsm_arg_class", "last", Dyn("indy", "x", "()V", <<"k/Boot", "boot", "()V">>, <<<<"class", "[Lp/B;", "", "">>>>)),
    P("bsm_arg_mtype", "last", Dyn("indy", "x", "()V", <<"k/Boot", "boot", "()V">>, <<<<"mtype", "", "", "(Lp/A;)Lp/B;">>>>)),
    P("bsm_arg_handle", "last", Dyn("indy", "x", "()V", <<"k/Boot", "boot", "()V">>, <<<<"handle", B, "f", "I">>, <<"handle", C, "t", "()V">>>>)),
    P("catch", "last", K("catch", A)),
    P("catch", "last", K("catch", I)),
    P("frame_object", "last", K("frame", B)),
    P("frame_object", "last", K("frame", "[Lp/A;")),
    P("lvt_desc", "last", D("lvt", "Lp/A;")),
    P("lvt_desc", "last", D("lvt", "[[I")),
    P("lvtt_sig", "last", [t |-> "lvtt", s |-> "Lp/A<Lp/B;>;"]),
    P("lvtt_sig", "last", [t |-> "lvtt", s |-> "TT;"]),
    P("anno_type", "last", [t |-> "anno", ty |-> "Lp/A;", pairs |-> <<>>]),
    P("anno_enum", "last", [t |-> "anno", ty |-> "Lp/A$I;", pairs |-> <<<<"e", "v", "Lp/A;", "g">>>>]),
    P("anno_class", "last", [t |-> "anno", ty |-> "Lp/A$I;", pairs |-> <<<<"c", "v", "Lp/B;", "">>, <<"c", "w", "V", "">>, <<"c", "z", "[Lp/A;", "">>>>]),
    P("signature", "last", [t |-> "sig", s |-> "Ljava/lang/Object;Lx/T<Lp/A;>;"]),
    P("signature", "last", [t |-> "sig", s |-> "<T:Lp/A;U::Lx/T<TT;>;>Lp/B;"]),
    P("signature", "last", [t |-> "sig", s |-> "Lp/A<TT;>.I<+Lp/B;*>;"]),
    P("inner_class_inner", "last", [t |-> "inner", inner |-> I, outer |-> A, name |-> "I"]),
    P("inner_class_inner", "last", [t |-> "inner", inner |-> "p/A$1", outer |-> "", name |-> ""]),
    P("inner_class_outer", "last", [t |-> "inner", inner |-> "p/B$N", outer |-> B, name |-> "N"]),
    P("enclosing_method", "last", F("encl", A, "m", "()V")),
    P("enclosing_method", "last", F("encl", B, "h", "(Lp/A;)Lp/B;")),
    P("enclosing_method", "last", F("encl", A, "", "")),
    P("nest_host", "last", K("nest_host", A)),
    P("nest_member", "last", K("nest_member", I)),
    P("permitted", "last", K("permitted", B)),
    P("exceptions", "last", K("exceptions", A)),
    P("record_component", "last", [t |-> "record", n |-> "f", d |-> "I"]),
    P("record_component", "last", [t |-> "record", n |-> "r", d |-> "Lp/A;"]),
    P("module_uses", "module", K("mod_uses", A)),
    P("module_provides", "module", [t |-> "mod_provides", c |-> A, with |-> <<B, I>>]),
    P("module_provides_with", "module", [t |-> "mod_provides", c |-> T, with |-> <<C>>]),
    P("module_main", "module", K("mod_main", B)),
    P("x_anno_elem", "last", [t |-> "anno", ty |-> "Lp/A$I;", pairs |-> <<<<"i", "v", "", "">>, <<"i", "other", "", "">>>>]),
    P("this", "none", It("none")),
    P("super", "none", It("none")),
    P("interface", "none", It("none")),
    P("field_decl", "none", It("none")),
    P("method_decl", "none", It("none")) >>

ExtrasSet == {"none", "dir-other", "versioned", "mismatch", "pkginfo"}

---------------------------------------------------------------------------
(* the classes of the jar, the probe placed *)
WithItem(c, it) == [c EXCEPT !.items = <<it>>]
ClassesOf(sh, pr) ==
    LET Cs == Shapes[sh].cs IN
    [i \in 1..Len(Cs) |-> IF pr.host = "last" /\ i = Len(Cs) THEN WithItem(Cs[i], pr.it) ELSE Cs[i]]
    \o (IF pr.host = "module" THEN <<WithItem(ModInfo, pr.it)>> ELSE <<>>)
ClassEntry(n, c) == [n |-> n, k |-> "class", c |-> c]
JarSeqOf(sh, pr, ex) ==
    LET Cs == Shapes[sh].cs
        Classes == ClassesOf(sh, pr)
    IN [i \in DOMAIN Classes |-> ClassEntry(Classes[i].this \o ".class", Classes[i])]
       \o (CASE ex = "dir-other" -> <<[n |-> "p/", k |-> "dir"], [n |-> "META-INF/MANIFEST.MF", k |-> "other", d |-> "Manifest-Version: 1.0"],
                                      [n |-> "p/A.txt", k |-> "other", d |-> "p/A p.A Lp/A;"], [n |-> "META-INF/", k |-> "dir"]>>
             [] ex = "versioned" -> <<ClassEntry("META-INF/versions/9/" \o Cs[1].this \o ".class", Cs[1]),
                                      ClassEntry("META-INF/versions/11/module-info.class", ModInfo)>>
             [] ex = "pkginfo" -> <<ClassEntry(PI \o ".class", ClsPI), ClassEntry("META-INF/versions/9/" \o PI \o ".class", ClsPI)>>
             [] ex = "mismatch" -> <<ClassEntry("junk/Name.class", Cs[1]), ClassEntry("META-INF/versions/x/" \o Cs[1].this \o ".class", Cs[1])>>
             [] OTHER -> <<>>)

(* inheritance the remapper is given: the jar's own classes first, then the library *)
SupOf(sh) ==
    LET Classes == ClassesOf(sh, Probes[Len(Probes)])
        JarSup == [n \in {Classes[i].this : i \in DOMAIN Classes} |->
                      LET c == Classes[CHOOSE i \in DOMAIN Classes : Classes[i].this = n]
                      IN (IF c.super = "" THEN <<>> ELSE <<c.super>>) \o SelectSeq(c.itfs, LAMBDA x : x # c.super)]
    IN JarSup @@ Shapes[sh].lib

(* the abstract jar: name -> entry with reference lists *)
AbsEntry(e) == IF e.k = "class" THEN [k |-> "class", this |-> e.c.this, rows |-> Refs(e.c), res |-> e.n] ELSE IF e.k = "other" THEN [k |-> "other", id |-> e.d] ELSE [k |-> "dir"]
AbsJar(js) == [n \in {js[i].n : i \in DOMAIN js} |-> AbsEntry(js[CHOOSE i \in DOMAIN js : js[i].n = n])]

Init == phase = "start" /\ shape = 0 /\ cm = <<>> /\ mm = 0 /\ ident = FALSE /\ probe = 0 /\ extras = "none" /\ via = FALSE
        /\ ms = <<>> /\ X = <<>> /\ jseq = <<>> /\ J = <<>>
PickShape == phase = "start" /\ \E s \in ShapeIdx : shape' = s /\ phase' = "shape" /\ UNCHANGED <<cm, mm, ident, probe, extras, via, ms, X, jseq, J>>
PickCM == phase = "shape" /\ \E c \in ClassMapSet : cm' = c /\ phase' = "cm" /\ UNCHANGED <<shape, mm, ident, probe, extras, via, ms, X, jseq, J>>
PickMM == /\ phase = "cm"
          /\ \E m \in DOMAIN MemberMaps, id \in BOOLEAN :
              \E w \in ViaChoices(shape, cm, m, id) :
                /\ mm' = m /\ ident' = id /\ via' = w
                /\ ms' = IF w THEN MapSet3Of(cm, m, id) ELSE MapSetOf(cm, m, id)
                /\ X' = Ctx(MapSetOf(cm, m, id), SupOf(shape))
          /\ phase' = "mm" /\ UNCHANGED <<shape, cm, probe, extras, jseq, J>>
Draw(p, x) == /\ probe' = p /\ extras' = x
              /\ jseq' = JarSeqOf(shape, Probes[p], x)
              /\ J' = AbsJar(JarSeqOf(shape, Probes[p], x))
              /\ phase' = "case" /\ UNCHANGED <<shape, cm, mm, ident, via, ms, X>>
PickProbe == phase = "mm" /\ \E p \in DOMAIN Probes : Draw(p, "none")
PickExtras == phase = "mm" /\ \E x \in ExtrasSet \ {"none"} : Draw(Len(Probes), x)
Next == PickShape \/ PickCM \/ PickMM \/ PickProbe \/ PickExtras
Spec == Init /\ [][Next]_vars

---------------------------------------------------------------------------
IsCase == phase = "case"
Pr == Probes[probe]
Sup == X.sup
JarSeq == jseq
MapSet == ms
ClassNames == {n \in DOMAIN J : J[n].k = "class"}
AllRows == {<<n, k, i>> : n \in ClassNames, k \in AllKinds, i \in 1..8}
RowsAt == {q \in AllRows : q[3] \in DOMAIN J[q[1]].rows[q[2]]}
RowOf(q) == J[q[1]].rows[q[2]][q[3]]

---------------------------------------------------------------------------
(* Laws *)
(* the three-namespace statement of the renames, read from its second to its third namespace, is the same remapper *)
InvVia == (phase \in {"mm", "case"} /\ via) => Ctx3(ms, X.sup) = X /\ ms # MapSetOf(cm, mm, ident)
(* the traversal, every position handled as the law demands, IS the law: row by row *)
InvTraversal == IsCase => \A n \in ClassNames :
                    LET rows == J[n].rows
                        code == CodeRows(X, rows, FALSE)
                    IN /\ \A k \in DeterminedKinds : code[k] = RemapRows(X, rows)[k]
                       /\ \A k \in AllKinds : RowsOK(X, k, rows[k], code[k])
(* the code as it stands deviates only at the positions listed, and there only by keeping or dropping *)
InvAsCoded == IsCase => \A n \in ClassNames :
                    LET rows == J[n].rows
                        code == CodeRows(X, rows, TRUE)
                    IN \A k \in AllKinds : code[k] # RemapRows(X, rows)[k] => k \in DeviationKinds
(* in this universe both readings of the member search agree, so the expectation is unique *)
InvUnique == IsCase => \A q \in RowsAt : MapRowM(X, q[2], RowOf(q), "dfs") = MapRowM(X, q[2], RowOf(q), "bfs")
(* renaming keeps the shape of a row: absent columns stay absent, descriptors keep their structure *)
InvShape == IsCase => \A q \in RowsAt :
                LET r == RowOf(q)
                    o == MapRow(X, q[2], r)
                IN /\ Len(o) = Len(r) /\ \A j \in DOMAIN r : (r[j] = "") <=> (o[j] = "")
                   /\ (q[2] \in DescKinds /\ ParseMethod(r[3]).ok => MethodDescLaw(X.R, r[3]))
                   /\ (q[2] \in DescKinds /\ ParseField(r[3]).ok => FieldDescLaw(X.R, r[3]))
(* renaming with an empty mapping set is the identity; signatures without generics are descriptors *)
InvIdentity == IsCase => \A q \in RowsAt :
                LET E == [R |-> <<>>, TF |-> <<>>, TM |-> <<>>, sup |-> Sup] IN
                /\ MapRow(E, q[2], RowOf(q)) = RowOf(q)
                /\ (q[2] \in DescKinds => MapSig(X.R, RowOf(q)[3]) = MapD(X, RowOf(q)[3]) /\ SigDetermined(X.R, RowOf(q)[3]))
(* a determined signature names the renamed classes: its class names are the images, in order *)
InvSig == IsCase => \A q \in RowsAt : q[2] \in SigKinds =>
                LET s == RowOf(q)[3] IN
                /\ MapSig(<<>>, s) = s /\ SigDetermined(<<>>, s)
                /\ (SigDetermined(X.R, s) => Len(MapSig(X.R, s)) > 0 /\ SigDetermined(<<>>, MapSig(X.R, s)))
(* entries: names stay distinct iff no two entries are given the same name, i.e. iff the class map is *)
(* injective on the classes of the jar; the code's name rule agrees with the law except behind        *)
(* META-INF/versions/                                                                                 *)
PlainJar == \A n \in ClassNames : EntryShape(n, J[n].this) = "plain"
InvEntries == IsCase =>
    /\ (PlainJar => (Collides(X, J) <=> \E a, b \in ClassNames : a # b /\ MapC(X, J[a].this) = MapC(X, J[b].this)))
    /\ (~Collides(X, J) => Cardinality(DOMAIN RemapJar(X, J)) = Cardinality(DOMAIN J))
    /\ \A n \in DOMAIN J : J[n].k # "class" => n \in DOMAIN RemapJar(X, J) /\ RemapJar(X, J)[n] = J[n]
    /\ \A n \in ClassNames : EntryShape(n, J[n].this) # "versioned" => CodeOutName(X, n) \in OutNames(X, n, J[n].this)
(* the declarative result, seen as an observed jar, satisfies the law on observations *)
ObsIn == [entries |-> [i \in DOMAIN JarSeq |-> <<JarSeq[i].n, JarSeq[i].k, IF JarSeq[i].k = "other" THEN JarSeq[i].d ELSE "">>],
          classes |-> [n \in ClassNames |-> J[n]]]
OutSeq == LET R == RemapJar(X, J)
              S == {n \in DOMAIN R : TRUE}
              RECURSIVE SeqOf(_)
              SeqOf(T0) == IF T0 = {} THEN <<>> ELSE LET n == CHOOSE n \in T0 : TRUE IN <<n>> \o SeqOf(T0 \ {n})
          IN SeqOf(S)
ObsOut == LET R == RemapJar(X, J) IN
          [entries |-> [i \in DOMAIN OutSeq |-> <<OutSeq[i], R[OutSeq[i]].k, IF R[OutSeq[i]].k = "other" THEN R[OutSeq[i]].id ELSE "">>],
           classes |-> [n \in {n \in DOMAIN R : R[n].k = "class"} |-> R[n]]]
InvJarLaw == IsCase => (~Collides(X, J) => JarLaw(X, ObsIn, ObsOut, LAMBDA c : TRUE))

---------------------------------------------------------------------------
(* vectors *)
ExpClass(c) == [this |-> MapC(X, c.this), rows |-> [k \in DeterminedKinds |-> RemapRows(X, c.rows)[k]]]
Exp == IF Collides(X, J) THEN [anyof |-> <<[ok |-> TRUE], [ok |-> FALSE]>>]
       ELSE LET R == RemapJar(X, J) IN
            [ok |-> TRUE,
             out |-> [names |-> [n \in DOMAIN R |-> R[n].k],
                      classes |-> [n \in {n \in DOMAIN R : R[n].k = "class"} |-> ExpClass(J[CHOOSE m \in DOMAIN J : OutName(X, m, J[m]) = n])]]]
Label == IF extras # "none" THEN "extras/" \o extras ELSE (IF via THEN "via/" ELSE "probe/") \o Pr.kind
Emit == IsCase => PrintT(ToJson([op |-> "remap", cls |-> Label, collides |-> Collides(X, J), M |-> MapSet, lib |-> Shapes[shape].lib,
                                 tag |-> [shape |-> shape, cm |-> cm, mm |-> mm, ident |-> ident, probe |-> probe, via |-> via],
                                 from |-> IF via THEN 2 ELSE 1, to |-> IF via THEN 3 ELSE 2,
                                 pairs |-> [i \in DOMAIN JarSeq |-> LET n == JarSeq[i].n IN
                                              <<n, IF Collides(X, J) THEN "" ELSE OutName(X, n, J[n]),
                                                IF J[n].k = "class" THEN EntryShape(n, J[n].this) ELSE "">>],
                                 jar |-> JarSeq, exp |-> Exp]))
=============================================================================
