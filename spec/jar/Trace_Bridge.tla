----------------------------- MODULE Trace_Bridge -----------------------------
(* I2S for C15 *)
EXTENDS Bridge, Json, IOUtils

Rec == ndJsonDeserialize(IOEnv.TRACE)
VARIABLES l, rej

NormJar(j) ==
    [c \in DOMAIN j |-> [j[c] EXCEPT !.methods = [i \in 1..Len(j[c].methods) |->
        [j[c].methods[i] EXCEPT !.acc = SeqToSet(@), !.calls = SeqToSet(@)]]]]
IsRes(g) == "ok" \in DOMAIN g /\ "v" \in DOMAIN g

Expected(r) ==
    CASE r.op = "bridges" -> SetSeq(Bridges(NormJar(r.main)))
      [] r.op = "mappings" -> Ok(Result(NormJar(r.main), NormJar(r.libs), NormTree(r.cal), NormTree(r.named)))
      [] OTHER -> <<>>
Accept(r) ==
    CASE r.op = "bridges" -> SeqToSet(r.got) = Bridges(NormJar(r.main)) /\ Len(r.got) = Cardinality(Bridges(NormJar(r.main)))
      [] r.op = "mappings" ->
            LET main == NormJar(r.main)
                libs == NormJar(r.libs)
                cal == NormTree(r.cal)
                named == NormTree(r.named)
                U == Updates(main, libs, cal, named)
            IN /\ IsRes(r.got)
               /\ (Functional(U) /\ AllInjective(cal, 1, 2) /\ AllInjective(named, 1, 2)) =>
                    /\ r.got.ok
                    /\ NormTree(r.got.v) = Result(main, libs, cal, named)
                    /\ BridgeLaw(main, libs, cal, named)
      [] OTHER -> FALSE

Init == l = 1 /\ rej = 0
Next ==
    /\ l <= Len(Rec)
    /\ l' = l + 1
    /\ IF Accept(Rec[l]) THEN rej' = rej
       ELSE /\ PrintT(ToJson([reject |-> l, exp |-> Expected(Rec[l])]))
            /\ rej' = rej + 1
Spec == Init /\ [][Next]_<<l, rej>>
Consumed == TLCGet("stats").diameter - 1 = Len(Rec)
=============================================================================
