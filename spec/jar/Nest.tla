-------------------------------- MODULE Nest --------------------------------
(***************************************************************************)
(* Property C14.  Nesting (dukenest): a nests table renames classes to     *)
(* Enclosing$Inner in a jar (nest_jar) and in mappings                     *)
(* (apply_nests_to_mappings / undo_nests_to_mappings), and is itself       *)
(* translated through mappings (remap_nests); Nests::read parses the table.*)
(*                                                                         *)
(* Everything is written twice: "...Op" definitions follow the code        *)
(* (nester_jar.rs, nester_run.rs, nests_mapper_run.rs, io.rs; one          *)
(* definition per loop body / helper), "...Law" predicates state the       *)
(* property about a *result*, whoever computed it.  MC_Nest checks         *)
(* Law(input, Op(input)); Trace_Nest checks Law(input, recorded result).   *)
(*                                                                         *)
(* Names and descriptors are strings; TLC evaluates Len, \o, SubSeq on     *)
(* strings.                                                                *)
(*                                                                         *)
(* Abstract data                                                           *)
(*   nest   [cls, encl, m, inner, acc, type]   m = <<>> | <<name, desc>>   *)
(*          type in {"anonymous","inner","local"}                          *)
(*   table  sequence of nests with pairwise distinct cls (IndexMap)        *)
(*   jar    class name -> [rows, ic, em]                                   *)
(*          rows  sequence of reference rows <<kind, owner, name, desc>>   *)
(*                ("" = column absent; kinds of cfkit::refs, InnerClasses  *)
(*                / EnclosingMethod rows excluded)                         *)
(*          ic    InnerClasses rows <<inner, outer, name, access>>         *)
(*          em    <<>> | <<class, method name, method desc>>               *)
(*   mapping tree: MappingTree.tla, two namespaces                         *)
(***************************************************************************)
EXTENDS Remapper

---------------------------------------------------------------------------
(* strings *)
Digits == {"0", "1", "2", "3", "4", "5", "6", "7", "8", "9"}
IsDigit(c) == c \in Digits
AllDigits(s) == \A i \in 1..Len(s) : IsDigit(Ch(s, i))
StartsWith(s, p) == Len(p) <= Len(s) /\ SubSeq(s, 1, Len(p)) = p
EndsWith(s, p) == Len(p) <= Len(s) /\ SubSeq(s, Len(s) - Len(p) + 1, Len(s)) = p
DropFirst(s, k) == SubSeq(s, k + 1, Len(s))
HasCh(s, c) == \E i \in 1..Len(s) : Ch(s, i) = c
SeqToSet(s) == {s[i] : i \in 1..Len(s)}
Max(S) == CHOOSE x \in S : \A y \in S : y <= x

(* number of leading ASCII digits of s, counted from position i *)
RECURSIVE LeadDigits(_, _)
LeadDigits(s, i) == IF i <= Len(s) /\ IsDigit(Ch(s, i)) THEN LeadDigits(s, i + 1) ELSE i - 1
RECURSIVE LeadZeros(_, _)
LeadZeros(s, i) == IF i <= Len(s) /\ Ch(s, i) = "0" THEN LeadZeros(s, i + 1) ELSE i - 1

(* first position of the one-character string c in s, 0 if none *)
RECURSIVE FirstPos(_, _, _)
FirstPos(s, c, i) == IF i > Len(s) THEN 0 ELSE IF Ch(s, i) = c THEN i ELSE FirstPos(s, c, i + 1)
(* last position, 0 if none *)
RECURSIVE LastPosFrom(_, _, _)
LastPosFrom(s, c, i) == IF i < 1 THEN 0 ELSE IF Ch(s, i) = c THEN i ELSE LastPosFrom(s, c, i - 1)
LastPos(s, c) == LastPosFrom(s, c, Len(s))

(* Rust's str::split(c): k occurrences give k + 1 pieces *)
RECURSIVE SplitOn(_, _)
SplitOn(s, c) ==
    LET i == FirstPos(s, c, 1)
    IN IF i = 0 THEN <<s>> ELSE <<SubSeq(s, 1, i - 1)>> \o SplitOn(DropFirst(s, i), c)

(* ObjClassNameSlice::get_simple_name: the part after the last "/" *)
Simple(s) == DropFirst(s, LastPos(s, "/"))

(* duke::tree::names::is_valid_obj_class_name / is_valid_method_name *)
ValidObjName(s) ==
    /\ s # "" /\ Ch(s, 1) # "["
    /\ \A i \in 1..Len(s) : Ch(s, i) \notin {".", ";", "["}
    /\ LET ps == SplitOn(s, "/") IN \A i \in 1..Len(ps) : ps[i] # ""
ValidMethodName(s) ==
    \/ s \in {"<init>", "<clinit>"}
    \/ s # "" /\ \A i \in 1..Len(s) : Ch(s, i) \notin {".", ";", "[", "/", "<", ">"}

---------------------------------------------------------------------------
(* The nests table *)

(* Nests::read_line: all digits -> anonymous, leading digit -> local, else inner *)
TypeOf(inner) ==
    IF AllDigits(inner) THEN "anonymous" ELSE IF IsDigit(Ch(inner, 1)) THEN "local" ELSE "inner"
NestRec(cls, encl, m, inner, acc) ==
    [cls |-> cls, encl |-> encl, m |-> m, inner |-> inner, acc |-> acc, type |-> TypeOf(inner)]

Keys(nests) == {nests[i].cls : i \in 1..Len(nests)}
UniqueKeys(nests) == \A i, j \in 1..Len(nests) : nests[i].cls = nests[j].cls => i = j
ByClass(nests) == [c \in Keys(nests) |-> nests[CHOOSE i \in 1..Len(nests) : nests[i].cls = c]]

(* chains of nests end: no class is (transitively) its own enclosing class *)
RECURSIVE ChainLen(_, _, _)
ChainLen(T, c, fuel) == IF c \notin DOMAIN T \/ fuel = 0 THEN 0 ELSE 1 + ChainLen(T, T[c].encl, fuel - 1)
Acyclic(nests) == LET T == ByClass(nests) IN \A c \in DOMAIN T : ChainLen(T, c, Len(nests) + 1) <= Len(nests)
Depth(nests, c) == ChainLen(ByClass(nests), c, Len(nests) + 1)

(* types as Nests::read derives them *)
WellTyped(nests) == \A i \in 1..Len(nests) : nests[i].inner # "" /\ nests[i].type = TypeOf(nests[i].inner)
WF(nests) == UniqueKeys(nests) /\ Acyclic(nests) /\ WellTyped(nests)

---------------------------------------------------------------------------
(* Nests::read (io.rs): operational, a tokeniser *)
TAB == "\t"
LF == "\n"
CR == "\r"

(* BufRead::lines: pieces between "\n", a trailing empty piece is no line, a trailing "\r" is dropped *)
Lines(text) ==
    LET ps == SplitOn(text, LF)
        qs == IF ps[Len(ps)] = "" THEN SubSeq(ps, 1, Len(ps) - 1) ELSE ps
    IN [i \in 1..Len(qs) |-> IF EndsWith(qs[i], CR) THEN SubSeq(qs[i], 1, Len(qs[i]) - 1) ELSE qs[i]]

HexVal(c) ==
    CASE c = "0" -> 0 [] c = "1" -> 1 [] c = "2" -> 2 [] c = "3" -> 3 [] c = "4" -> 4 [] c = "5" -> 5 [] c = "6" -> 6
      [] c = "7" -> 7 [] c = "8" -> 8 [] c = "9" -> 9 [] c \in {"a", "A"} -> 10 [] c \in {"b", "B"} -> 11
      [] c \in {"c", "C"} -> 12 [] c \in {"d", "D"} -> 13 [] c \in {"e", "E"} -> 14 [] c \in {"f", "F"} -> 15 [] OTHER -> 99
(* u16::from_str_radix without sign: REFUSED = empty, foreign digit or above 65535 *)
REFUSED == 99999
RECURSIVE RadixFrom(_, _, _, _)
RadixFrom(s, radix, i, v) ==
    IF i > Len(s) THEN v
    ELSE LET d == HexVal(Ch(s, i))
         IN IF d >= radix \/ v * radix + d > 65535 THEN REFUSED ELSE RadixFrom(s, radix, i + 1, v * radix + d)
ParseRadix(s, radix) == IF s = "" THEN REFUSED ELSE RadixFrom(s, radix, 1, 0)
(* parse_u16_hex_binary_and_decimal *)
ParseAccess(s) ==
    IF StartsWith(s, "0x") THEN ParseRadix(DropFirst(s, 2), 16)
    ELSE IF StartsWith(s, "0b") THEN ParseRadix(DropFirst(s, 2), 2)
    ELSE ParseRadix(s, 10)

ReadLineOp(line) ==
    LET f == SplitOn(line, TAB)
    IN IF Len(f) # 6 THEN Err
       ELSE IF f[1] = "" \/ f[2] = "" \/ f[5] = "" THEN Err
       ELSE IF ~ValidObjName(f[1]) \/ ~ValidObjName(f[2]) \/ ~ValidObjName(f[5]) THEN Err
       ELSE IF f[3] # "" /\ f[4] # "" /\ ~ValidMethodName(f[3]) THEN Err      \* (the descriptor: MethodDescriptor::try_from, C18's subject)
       ELSE IF ParseAccess(f[6]) = REFUSED THEN Err
       ELSE Ok(NestRec(f[1], f[2], IF f[3] = "" \/ f[4] = "" THEN <<>> ELSE <<f[3], f[4]>>, f[5], ParseAccess(f[6])))

(* IndexMap::insert: an existing key keeps its position and takes the new value *)
Insert(nests, n) ==
    IF n.cls \in Keys(nests)
    THEN [i \in 1..Len(nests) |-> IF nests[i].cls = n.cls THEN n ELSE nests[i]]
    ELSE Append(nests, n)
RECURSIVE ReadFrom(_, _, _)
ReadFrom(ls, i, acc) ==
    IF i > Len(ls) THEN Ok(acc)
    ELSE LET r == ReadLineOp(ls[i]) IN IF r.ok THEN ReadFrom(ls, i + 1, Insert(acc, r.v)) ELSE Err
ReadOp(text) == ReadFrom(Lines(text), 1, <<>>)

(* the line a nest is written as (the file format of the nests files) *)
RECURSIVE Dec(_)
Dec(n) == IF n < 10 THEN ToString(n) ELSE Dec(n \div 10) \o ToString(n % 10)
RenderLine(n) ==
    n.cls \o TAB \o n.encl \o TAB \o (IF n.m = <<>> THEN "" ELSE n.m[1]) \o TAB \o (IF n.m = <<>> THEN "" ELSE n.m[2])
          \o TAB \o n.inner \o TAB \o Dec(n.acc)
RECURSIVE RenderFrom(_, _)
RenderFrom(nests, i) == IF i > Len(nests) THEN "" ELSE RenderLine(nests[i]) \o LF \o RenderFrom(nests, i + 1)
Render(nests) == RenderFrom(nests, 1)

(* Declarative: a table is the reading of a text iff every line consists of six tab separated cells *)
(* of the stated kinds and each class has the entry of the last line naming it                      *)
CountCh(s, c) == Cardinality({i \in 1..Len(s) : Ch(s, i) = c})
LineWellFormed(line) ==
    /\ CountCh(line, TAB) = 5
    /\ LET f == SplitOn(line, TAB)
       IN /\ ValidObjName(f[1]) /\ ValidObjName(f[2]) /\ ValidObjName(f[5])
          /\ (f[3] # "" /\ f[4] # "") => (ValidMethodName(f[3]) /\ ParseMethod(f[4]).ok)      \* a table has method descriptors there
          /\ ParseAccess(f[6]) \in 0..65535
(* a line that is ill-formed only in its method descriptor: what the descriptor type accepts is C18's subject, not judged here *)
OnlyDescIllFormed(line) ==
    /\ CountCh(line, TAB) = 5
    /\ LET f == SplitOn(line, TAB)
       IN /\ f[3] # "" /\ f[4] # "" /\ ~ParseMethod(f[4]).ok
          /\ LineWellFormed(f[1] \o TAB \o f[2] \o TAB \o TAB \o TAB \o f[5] \o TAB \o f[6]) /\ ValidMethodName(f[3])
ReadLaw(text, out) ==
    LET ls == Lines(text)
    IN IF \E i \in 1..Len(ls) : ~LineWellFormed(ls[i]) /\ ~OnlyDescIllFormed(ls[i]) THEN ~out.ok
       ELSE IF \E i \in 1..Len(ls) : OnlyDescIllFormed(ls[i]) THEN TRUE
       ELSE /\ out.ok
            /\ Keys(out.v) = {SplitOn(ls[i], TAB)[1] : i \in 1..Len(ls)}
            /\ UniqueKeys(out.v)
            /\ \A k \in 1..Len(out.v) :
                 LET n == out.v[k]
                     last == Max({i \in 1..Len(ls) : SplitOn(ls[i], TAB)[1] = n.cls})
                     f == SplitOn(ls[last], TAB)
                 IN /\ n.encl = f[2] /\ n.inner = f[5] /\ n.acc = ParseAccess(f[6])
                    /\ n.m = (IF f[3] = "" \/ f[4] = "" THEN <<>> ELSE <<f[3], f[4]>>)
                    /\ n.type = (IF AllDigits(f[5]) THEN "anonymous" ELSE IF IsDigit(Ch(f[5], 1)) THEN "local" ELSE "inner")
(* a table survives writing and reading *)
RenderReadLaw(nests) == WF(nests) => ReadOp(Render(nests)) = Ok(nests)

---------------------------------------------------------------------------
(* The jar *)
OBJECT == "java/lang/Object"
RowSet(cls) == {cls.rows[i] : i \in 1..Len(cls.rows)}
MethodsOf(jar, c) == {<<r[3], r[4]>> : r \in {r \in RowSet(jar[c]) : r[1] = "method_decl"}}

(* ---- operational: nester_jar.rs ---- *)

(* `nest.inner_name.parse::<i32>().map_or(false, |x| x >= 1)` on a string of digits *)
RECURSIVE LexLeq(_, _, _)
LexLeq(a, b, i) ==
    IF i > Len(a) THEN TRUE
    ELSE IF HexVal(Ch(a, i)) < HexVal(Ch(b, i)) THEN TRUE
    ELSE IF HexVal(Ch(a, i)) > HexVal(Ch(b, i)) THEN FALSE ELSE LexLeq(a, b, i + 1)
PosI32(s) ==
    /\ s # "" /\ AllDigits(s)
    /\ LET z == DropFirst(s, LeadZeros(s, 1))
       IN z # "" /\ (Len(z) < 10 \/ (Len(z) = 10 /\ LexLeq(z, "2147483647", 1)))

HasEnclMethodOp(jar, n) == n.m # <<>> /\ n.encl \in DOMAIN jar /\ <<n.m[1], n.m[2]>> \in MethodsOf(jar, n.encl)
PassesOp(jar, n) ==
    CASE n.type = "anonymous" -> PosI32(n.inner)
      [] n.type = "inner" -> ~HasEnclMethodOp(jar, n)
      [] n.type = "local" -> HasEnclMethodOp(jar, n)

(* the `this_nests` filter with its side effect: a missing enclosing class is created as soon as a *)
(* nest of a present class names it, before the rule of the kind is tested                         *)
RECURSIVE FilterOp(_, _, _, _, _)
FilterOp(jar, nests, i, inJar, acc) ==
    IF i > Len(nests) THEN acc
    ELSE LET n == nests[i]
         IN IF n.cls \notin inJar THEN FilterOp(jar, nests, i + 1, inJar, acc)
            ELSE FilterOp(jar, nests, i + 1, inJar \cup {n.encl},
                          [this |-> IF PassesOp(jar, n) THEN Append(acc.this, n) ELSE acc.this,
                           created |-> IF n.encl \notin inJar THEN Append(acc.created, n.encl) ELSE acc.created])

(* fn remap *)
RECURSIVE RemapOp(_, _, _)
RemapOp(T, n, fuel) ==
    (IF n.encl \in DOMAIN T /\ fuel > 0 THEN RemapOp(T, T[n.encl], fuel - 1) ELSE n.encl) \o "$" \o n.inner
RenameTableOp(this) ==
    LET T == ByClass(this)
        P == [c \in DOMAIN T |-> RemapOp(T, T[c], Len(this))]
    IN [c \in {c \in DOMAIN T : P[c] # c} |-> P[c]]

(* strip_local_class_prefix *)
StripLocal(inner) == LET k == LeadDigits(inner, 1) IN IF k = Len(inner) THEN inner ELSE DropFirst(inner, k)

(* do_nested_class_attribute_class_visitor (names still un-nested) *)
EmOf(n) == <<n.encl>> \o (IF n.m = <<>> THEN <<"", "">> ELSE n.m)
IcOf(n) == <<n.cls, IF n.type = "inner" THEN n.encl ELSE "", IF n.type \in {"inner", "local"} THEN StripLocal(n.inner) ELSE "", n.acc>>
VisitOp(T, name, cls) ==
    IF name \notin DOMAIN T THEN cls
    ELSE [cls EXCEPT !.em = IF T[name].type \in {"anonymous", "local"} THEN EmOf(T[name]) ELSE @,
                     !.ic = Append(@, IcOf(T[name]))]

(* dukebox::remap::remap_class with a class-only remapper: class names through map_class_any,  *)
(* descriptors through the scanner map_desc, member names untouched                             *)
MapOwnerOp(R, o) == IF o = "" THEN "" ELSE MapClassAny(R, o).v
MapDescOp(R, d) == IF d = "" THEN "" ELSE MapDesc(R, d).v
RemapRowOp(R, r) == <<r[1], MapOwnerOp(R, r[2]), r[3], MapDescOp(R, r[4])>>
RemapIcOp(R, x) == <<MapOwnerOp(R, x[1]), MapOwnerOp(R, x[2]), x[3], x[4]>>
RemapEmOp(R, e) == IF e = <<>> THEN <<>> ELSE <<MapOwnerOp(R, e[1]), e[2], MapDescOp(R, e[3])>>
RemapClassOp(R, cls) ==
    [cls EXCEPT !.rows = [i \in 1..Len(cls.rows) |-> RemapRowOp(R, cls.rows[i])],
                !.ic = [i \in 1..Len(cls.ic) |-> RemapIcOp(R, cls.ic[i])],
                !.em = RemapEmOp(R, cls.em)]

(* ClassFile::new(min version, public, name, Object, no interfaces) *)
NewClassOp(name) == [rows |-> <<<<"this", name, "", "">>, <<"super", OBJECT, "", "">>>>, ic |-> <<>>, em |-> <<>>, res |-> "new"]

(* nest_jar(remap = true): [names, clash, classes, table, this, created, stray]; `classes` is meaningful when *)
(* no two entries receive the same name (clash = FALSE; otherwise the later entry wins in the code).         *)
(* `coded` = TRUE: the routine as it stands - a created class is written under the entry name `<name>`       *)
(* without `.class` (remap_jar_entry_name_java is handed the bare class name), so it is no class of the      *)
(* result (`stray`); FALSE: the repaired routine.                                                             *)
NestJarOpWith(jar, nests, coded) ==
    LET f == FilterOp(jar, nests, 1, DOMAIN jar, [this |-> <<>>, created |-> <<>>])
        T == ByClass(f.this)
        R == RenameTableOp(f.this)
        srcs == DOMAIN jar \cup (IF coded THEN {} ELSE SeqToSet(f.created))
        names == {MapClassT(R, c) : c \in srcs}
    IN [names |-> names, clash |-> Cardinality(names) # Cardinality(srcs),
        classes |-> [k \in names |->
            LET c == CHOOSE c \in srcs : MapClassT(R, c) = k
            IN RemapClassOp(R, VisitOp(T, c, IF c \in DOMAIN jar THEN jar[c] ELSE NewClassOp(c)))],
        table |-> R, this |-> DOMAIN T, created |-> SeqToSet(f.created),
        stray |-> IF coded THEN SeqToSet(f.created) ELSE {}]
NestJarOp(jar, nests) == NestJarOpWith(jar, nests, FALSE)
NestJarOpAsCoded(jar, nests) == NestJarOpWith(jar, nests, TRUE)

(* ---- declarative: the property ---- *)

(* a positive number in decimal digits *)
PositiveNumber(s) == s # "" /\ AllDigits(s) /\ \E i \in 1..Len(s) : Ch(s, i) # "0"
EnclMethodPresent(jar, n) ==
    /\ n.m # <<>> /\ n.encl \in DOMAIN jar
    /\ \E i \in 1..Len(jar[n.encl].rows) : jar[n.encl].rows[i] = <<"method_decl", n.encl, n.m[1], n.m[2]>>
KindRule(jar, n) ==
    CASE n.type = "anonymous" -> PositiveNumber(n.inner)
      [] n.type = "inner" -> ~EnclMethodPresent(jar, n)
      [] n.type = "local" -> EnclMethodPresent(jar, n)
Applies(jar, n) == n.cls \in DOMAIN jar /\ KindRule(jar, n)
Renamed(jar, nests) == {c \in Keys(nests) : Applies(jar, ByClass(nests)[c])}
AllApply(jar, nests) == Renamed(jar, nests) = Keys(nests)

(* Enclosing' $ Inner, transitively: S = the classes that are renamed *)
RECURSIVE NewName(_, _, _, _)
NewName(T, S, c, fuel) ==
    IF c \in S /\ fuel > 0 THEN NewName(T, S, T[c].encl, fuel - 1) \o "$" \o T[c].inner ELSE c
NewTable(nests, S) == [c \in S |-> NewName(ByClass(nests), S, c, Len(nests))]

(* substitution of class names by the JVMS grammar (array class names are field descriptors) *)
SubstOwnerG(R, o) == IF o = "" THEN "" ELSE IF Ch(o, 1) = "[" THEN MapFieldDescG(R, o).v ELSE MapClassT(R, o)
SubstDescG(R, d) == IF d = "" THEN "" ELSE IF Ch(d, 1) = "(" THEN MapMethodDescG(R, d).v ELSE MapReturnDescG(R, d).v
RowLaw(R, r, r2) == r2 = <<r[1], SubstOwnerG(R, r[2]), r[3], SubstDescG(R, r[4])>>
IcLaw(R, x, x2) == x2 = <<SubstOwnerG(R, x[1]), SubstOwnerG(R, x[2]), x[3], x[4]>>
EmLaw(R, e, e2) == IF e = <<>> THEN e2 = <<>> ELSE e2 = <<SubstOwnerG(R, e[1]), e[2], SubstDescG(R, e[3])>>

(* the simple name of a member or local class: the inner name without its numeric prefix *)
SimpleInner(inner) == CHOOSE s \in {DropFirst(inner, k) : k \in 0..Len(inner)} :
                          /\ s # "" /\ ~IsDigit(Ch(s, 1)) /\ AllDigits(SubSeq(inner, 1, Len(inner) - Len(s)))
(* JVMS 4.7.6 / 4.7.7 shape of the synthesized rows, all names in nested form *)
IcExpected(R, n) ==
    <<MapClassT(R, n.cls), IF n.type = "inner" THEN MapClassT(R, n.encl) ELSE "",
      IF n.type = "anonymous" THEN "" ELSE SimpleInner(n.inner), n.acc>>
EmExpected(R, n) ==
    <<MapClassT(R, n.encl)>> \o (IF n.m = <<>> THEN <<"", "">> ELSE <<n.m[1], SubstDescG(R, n.m[2])>>)

RemoveAt(s, i) == SubSeq(s, 1, i - 1) \o SubSeq(s, i + 1, Len(s))

(* The nesting is determined by the property when no listed class that is absent from the jar is the  *)
(* enclosing class of a listed class that is present: otherwise that class is "created" and whether   *)
(* a created class counts as "present" (the code: depends on the order of the table) is left open.    *)
Plain(jar, nests) ==
    \A i \in 1..Len(nests) : nests[i].cls \in DOMAIN jar => nests[i].encl \notin (Keys(nests) \ DOMAIN jar)
(* enclosing classes that must exist afterwards / that may have been created *)
NeededEncl(jar, nests) == {ByClass(nests)[c].encl : c \in Renamed(jar, nests)} \ DOMAIN jar
MayCreate(jar, nests) == {ByClass(nests)[c].encl : c \in Keys(nests) \cap DOMAIN jar} \ DOMAIN jar
(* no two classes end up under one name *)
NoClash(jar, nests) ==
    LET R == NewTable(nests, Renamed(jar, nests))
        all == DOMAIN jar \cup MayCreate(jar, nests)
    IN Cardinality({MapClassT(R, c) : c \in all}) = Cardinality(all)
JarPre(jar, nests) == WF(nests) /\ Plain(jar, nests) /\ NoClash(jar, nests) /\ DOMAIN jar # {}

(* reference rows as a bag: row -> multiplicity *)
RowKey(r) == r[1] \o " " \o r[2] \o " " \o r[3] \o " " \o r[4]
Bag(rows) == [k \in {RowKey(rows[i]) : i \in 1..Len(rows)} |-> Cardinality({i \in 1..Len(rows) : RowKey(rows[i]) = k})]
SubstRows(R, rows) == [i \in 1..Len(rows) |-> <<rows[i][1], SubstOwnerG(R, rows[i][2]), rows[i][3], SubstDescG(R, rows[i][4])>>]

(* out = [names (set), classes (name -> [rows, ic, em, res])]; `res` identifies everything of the class that *)
(* is no reference and no InnerClasses / EnclosingMethod attribute (ids are compared, never interpreted);   *)
(* exact = the rows of the input are known in their order, otherwise only as a bag                          *)
NamesLaw(jar, nests, names) ==
    LET R == NewTable(nests, Renamed(jar, nests))
        kept == {MapClassT(R, c) : c \in DOMAIN jar}
    IN /\ kept \subseteq names                                   \* exactly the applicable classes are renamed, the others keep their name
       /\ NeededEncl(jar, nests) \subseteq names                 \* missing enclosing classes exist afterwards
       /\ names \subseteq kept \cup MayCreate(jar, nests)        \* nothing else appears
ClassLaw(R, T, S, c, cin, o, exact) ==
    /\ IF exact
       THEN /\ Len(o.rows) = Len(cin.rows)
            /\ \A i \in 1..Len(cin.rows) : RowLaw(R, cin.rows[i], o.rows[i])     \* every reference rewritten, nothing else
       ELSE Bag(o.rows) = Bag(SubstRows(R, cin.rows))
    /\ o.res = cin.res                                                          \* and nothing else changes
    /\ IF c \in S
       THEN /\ Len(o.ic) = Len(cin.ic) + 1
            /\ \E k \in 1..Len(o.ic) :                                         \* one new InnerClasses row, the others as before
                 /\ o.ic[k] = IcExpected(R, T[c])
                 /\ \A i \in 1..Len(cin.ic) : IcLaw(R, cin.ic[i], RemoveAt(o.ic, k)[i])
            /\ IF T[c].type \in {"anonymous", "local"} THEN o.em = EmExpected(R, T[c]) ELSE EmLaw(R, cin.em, o.em)
       ELSE /\ Len(o.ic) = Len(cin.ic) /\ \A i \in 1..Len(cin.ic) : IcLaw(R, cin.ic[i], o.ic[i])
            /\ EmLaw(R, cin.em, o.em)
JarLawWith(jar, nests, out, exact) ==
    LET S == Renamed(jar, nests)
        R == NewTable(nests, S)
        T == ByClass(nests)
    IN /\ NamesLaw(jar, nests, out.names)
       /\ \A c \in DOMAIN jar : ClassLaw(R, T, S, c, jar[c], out.classes[MapClassT(R, c)], exact)
       /\ \A c \in out.names \ {MapClassT(R, c) : c \in DOMAIN jar} :              \* a created class is that class
             \E i \in 1..Len(out.classes[c].rows) : out.classes[c].rows[i] = <<"this", c, "", "">>
JarLaw(jar, nests, out) == JarLawWith(jar, nests, out, TRUE)

(* The extension of the law where it determines the result: per class of the jar the bag of rows, the       *)
(* admissible InnerClasses sequences (the new row at any position) and the EnclosingMethod; the admissible *)
(* sets of class names.  [anyof |-> ...] lists alternatives.                                                *)
InsertAt(s, k, x) == SubSeq(s, 1, k - 1) \o <<x>> \o SubSeq(s, k, Len(s))
LawClass(R, T, S, c, cin) ==
    LET ic0 == [i \in 1..Len(cin.ic) |-> <<SubstOwnerG(R, cin.ic[i][1]), SubstOwnerG(R, cin.ic[i][2]), cin.ic[i][3], cin.ic[i][4]>>]
        em0 == IF cin.em = <<>> THEN <<>> ELSE <<SubstOwnerG(R, cin.em[1]), cin.em[2], SubstDescG(R, cin.em[3])>>
    IN [rows |-> Bag(SubstRows(R, cin.rows)),
        ic |-> IF c \in S THEN [anyof |-> [k \in 1..(Len(ic0) + 1) |-> InsertAt(ic0, k, IcExpected(R, T[c]))]] ELSE [anyof |-> <<ic0>>],
        em |-> IF c \in S /\ T[c].type \in {"anonymous", "local"} THEN EmExpected(R, T[c]) ELSE em0]
RECURSIVE SetToSeq(_)
SetToSeq(S) == IF S = {} THEN <<>> ELSE LET x == CHOOSE x \in S : TRUE IN <<x>> \o SetToSeq(S \ {x})
AsMap(S) == [x \in S |-> TRUE]
LawJar(jar, nests) ==
    LET S == Renamed(jar, nests)
        R == NewTable(nests, S)
        T == ByClass(nests)
        kept == {MapClassT(R, c) : c \in DOMAIN jar}
        free == MayCreate(jar, nests) \ NeededEncl(jar, nests)
    IN [st |-> "ok",
        names |-> [anyof |-> SetToSeq({AsMap(kept \cup NeededEncl(jar, nests) \cup X) : X \in SUBSET free})],
        classes |-> [k \in kept |-> LET c == CHOOSE c \in DOMAIN jar : MapClassT(R, c) = k IN LawClass(R, T, S, c, jar[c])]]

(* ---- tables that are not plain ----                                                                       *)
(* A listed class that is absent from the jar and is created as the enclosing class of a class counted as    *)
(* present may itself be counted as present (the code: when its line follows the line that creates it) or    *)
(* not.  The property leaves that open, but whichever way it is decided, it has to be decided ONE way for    *)
(* the whole result: the result must be the nesting of the jar extended by SOME admissible set P of created  *)
(* classes (names, references, InnerClasses / EnclosingMethod rows and the enclosing classes that must exist *)
(* all follow from P).  For a plain table the only admissible P is {} and this is JarLaw.                    *)
CountedPresent(jar, nests) ==
    {P \in SUBSET (Keys(nests) \ DOMAIN jar) :
        \A c \in P : \E d \in Keys(nests) \cap (DOMAIN jar \cup P) : ByClass(nests)[d].encl = c}
WithCreated(jar, P) == [c \in DOMAIN jar \cup P |-> IF c \in DOMAIN jar THEN jar[c] ELSE NewClassOp(c)]
JarPreAlt(jar, nests) ==
    /\ WF(nests) /\ ~Plain(jar, nests) /\ DOMAIN jar # {}
    /\ \A P \in CountedPresent(jar, nests) : NoClash(WithCreated(jar, P), nests)
JarLawP(jar, nests, P, out, exact) ==
    LET jp == WithCreated(jar, P)
        S == Renamed(jp, nests)
        R == NewTable(nests, S)
        T == ByClass(nests)
    IN /\ NamesLaw(jp, nests, out.names)
       /\ \A c \in DOMAIN jar : ClassLaw(R, T, S, c, jar[c], out.classes[MapClassT(R, c)], exact)
       /\ \A c \in out.names \ {MapClassT(R, c) : c \in DOMAIN jar} :               \* a created class is that class
             \E i \in 1..Len(out.classes[c].rows) : out.classes[c].rows[i] = <<"this", c, "", "">>
JarLawAlt(jar, nests, out, exact) == \E P \in CountedPresent(jar, nests) : JarLawP(jar, nests, P, out, exact)
LawJarP(jar, nests, P) ==
    LET jp == WithCreated(jar, P)
        S == Renamed(jp, nests)
        R == NewTable(nests, S)
        T == ByClass(nests)
        kept == {MapClassT(R, c) : c \in DOMAIN jp}
        free == MayCreate(jp, nests) \ NeededEncl(jp, nests)
    IN [st |-> "ok",
        names |-> [anyof |-> SetToSeq({AsMap(kept \cup NeededEncl(jp, nests) \cup X) : X \in SUBSET free})],
        classes |-> [k \in {MapClassT(R, c) : c \in DOMAIN jar} |->
                        LET c == CHOOSE c \in DOMAIN jar : MapClassT(R, c) = k IN LawClass(R, T, S, c, jar[c])]]
LawJarAlt(jar, nests) == [anyof |-> SetToSeq({LawJarP(jar, nests, P) : P \in CountedPresent(jar, nests)})]

(* A jar as the bounded model and the generators describe it to the harness ("recipe"): class name ->      *)
(* [super, itfs, fields, methods (<<name, desc>>), code (reference rows of instructions, placed in a       *)
(* method refs()V), ic, em]; RecipeJar gives its reference rows (as cfkit::refs reports them, up to order) *)
RecipeRows(name, c) ==
    <<<<"this", name, "", "">>>> \o (IF c.super = "" THEN <<>> ELSE <<<<"super", c.super, "", "">>>>)
    \o [i \in 1..Len(c.itfs) |-> <<"interface", c.itfs[i], "", "">>]
    \o [i \in 1..Len(c.fields) |-> <<"field_decl", name, c.fields[i][1], c.fields[i][2]>>]
    \o [i \in 1..Len(c.methods) |-> <<"method_decl", name, c.methods[i][1], c.methods[i][2]>>]
    \o (IF c.code = <<>> THEN <<>> ELSE <<<<"method_decl", name, "refs", "()V">>>> \o c.code)
RecipeJar(rj) == [c \in DOMAIN rj |-> [rows |-> RecipeRows(c, rj[c]), ic |-> rj[c].ic, em |-> rj[c].em, res |-> "-"]]

---------------------------------------------------------------------------
(* Translation of a table through mappings: nests_mapper_run.rs *)

(* position of the last "__" (Rust rsplit_once), 0 if none *)
RECURSIVE LastDUFrom(_, _)
LastDUFrom(s, i) == IF i < 1 THEN 0 ELSE IF SubSeq(s, i, i + 1) = "__" THEN i ELSE LastDUFrom(s, i - 1)
LastDU(s) == LastDUFrom(s, Len(s) - 1)

(* fn inner_name *)
InnerNameOp(cls, inner, mapped) ==
    LET k == LeadDigits(inner, 1)
        ms == Simple(mapped)
    IN IF k = Len(inner)                                                    \* NestTypeA::Anonymous
       THEN IF StartsWith(ms, "C_")
            THEN (IF AllDigits(DropFirst(ms, 2)) THEN Ok(DropFirst(ms, 2)) ELSE Err)
            ELSE Ok(inner)
       ELSE IF k = 0                                                        \* Inner
       THEN (IF EndsWith(cls, inner) THEN Ok(ms) ELSE Ok(inner))
       ELSE (IF EndsWith(cls, DropFirst(inner, k)) THEN Ok(SubSeq(inner, 1, k) \o ms) ELSE Ok(inner))   \* Local

TranslateOneOp(M, R, n) ==
    LET mapped == MapClassT(R, n.cls)
        i == LastDU(mapped)
        pre == SubSeq(mapped, 1, i - 1)
        post == DropFirst(mapped, i + 1)
        ei == IF i > 0
              THEN (IF EndsWith(pre, "/") \/ StartsWith(post, "/") THEN Err ELSE Ok(<<pre, post>>))       \* rsplit_underscore
              ELSE LET inn == InnerNameOp(n.cls, n.inner, mapped)
                   IN IF inn.ok THEN Ok(<<MapClassT(R, n.encl), inn.v>>) ELSE Err
        mm == IF n.m = <<>> THEN Ok(<<>>) ELSE MapMember(M, <<>>, "m", 1, 2, n.encl, n.m[1], n.m[2])
    IN IF ~ei.ok \/ ~mm.ok THEN Err
       ELSE Ok([cls |-> mapped, encl |-> ei.v[1], m |-> mm.v, inner |-> ei.v[2], acc |-> n.acc, type |-> n.type])
RECURSIVE TranslateFrom(_, _, _, _, _)
TranslateFrom(M, R, nests, i, acc) ==
    IF i > Len(nests) THEN Ok(acc)
    ELSE LET r == TranslateOneOp(M, R, nests[i]) IN IF r.ok THEN TranslateFrom(M, R, nests, i + 1, Insert(acc, r.v)) ELSE Err
TranslateOp(nests, M) == TranslateFrom(M, ClassTable(M, 1, 2), nests, 1, <<>>)

(* ---- declarative ---- *)
ClassNode(M, c) == M.kids["c " \o c]
HasClass(M, c) == ("c " \o c) \in DOMAIN M.kids
Target(M, c) == IF HasClass(M, c) /\ ClassNode(M, c).names[2] # NoName THEN ClassNode(M, c).names[2] ELSE c
AlreadyNested(t) == \E i \in 1..(Len(t) - 1) : SubSeq(t, i, i + 1) = "__"
(* t = encl __ inner, split at the last "__" *)
SplitsAs(t, encl, inner) == t = encl \o "__" \o inner /\ \A i \in (Len(encl) + 2)..(Len(t) - 1) : SubSeq(t, i, i + 1) # "__"
Derived(n) == EndsWith(n.cls, SimpleInner(n.inner))           \* the inner name is the tail of the class name: not a custom one
CalamusNumber(t) == StartsWith(Simple(t), "C_") /\ Len(Simple(t)) > 2 /\ AllDigits(DropFirst(Simple(t), 2))
NumPrefix(inner) == SubSeq(inner, 1, Len(inner) - Len(SimpleInner(inner)))

(* where the translation is defined by the property: a clean split, and C_ followed by a number *)
TranslateDefinedFor(M, n) ==
    LET t == Target(M, n.cls)
    IN IF AlreadyNested(t)
       THEN \E k \in 2..(Len(t) - 2) :
               /\ SplitsAs(t, SubSeq(t, 1, k - 1), DropFirst(t, k + 1))
               /\ Ch(t, k - 1) # "/" /\ ~HasCh(DropFirst(t, k + 1), "/")
       ELSE (n.type = "anonymous" /\ StartsWith(Simple(t), "C_")) => CalamusNumber(t)
TranslateDefined(nests, M) == \A i \in 1..Len(nests) : TranslateDefinedFor(M, nests[i])

(* the method of the enclosing class as the mappings name it *)
MethodTarget(M, n) ==
    LET R == ClassTable(M, 1, 2)
        cands == IF HasClass(M, n.encl) /\ ClassNode(M, n.encl).names[2] # NoName
                 THEN {e \in MemberNodes(ClassNode(M, n.encl), "m") : e.names[1] = n.m[1] /\ e.desc = n.m[2] /\ e.names[2] # NoName}
                 ELSE {}
    IN <<IF cands # {} THEN (CHOOSE e \in cands : TRUE).names[2] ELSE n.m[1], MapMethodDescG(R, n.m[2]).v>>

(* the nest as the target namespace expresses it *)
LawNest(M, n) ==
    LET t == Target(M, n.cls)
        sp == CHOOSE p \in {<<SubSeq(t, 1, k - 1), DropFirst(t, k + 1)>> : k \in 1..Len(t)} : SplitsAs(t, p[1], p[2])
    IN [cls |-> t, type |-> n.type, acc |-> n.acc,
        m |-> IF n.m = <<>> THEN <<>> ELSE MethodTarget(M, n),
        encl |-> IF AlreadyNested(t) THEN sp[1] ELSE Target(M, n.encl),                       \* the C__D rule
        inner |-> IF AlreadyNested(t) THEN sp[2]
                  ELSE CASE n.type = "anonymous" -> (IF CalamusNumber(t) THEN DropFirst(Simple(t), 2) ELSE n.inner)   \* the C_<n> rule
                         [] n.type = "inner" -> (IF Derived(n) THEN Simple(t) ELSE n.inner)
                         [] n.type = "local" -> (IF Derived(n) THEN NumPrefix(n.inner) \o Simple(t) ELSE n.inner)]
TranslatedNest(M, n, o) == o = LawNest(M, n)
TargetsDistinct(nests, M) == Cardinality({Target(M, nests[i].cls) : i \in 1..Len(nests)}) = Len(nests)
(* out = Ok(table) / Err *)
TranslateLaw(nests, M, out) ==
    (WF(nests) /\ TranslateDefined(nests, M)) =>
        /\ out.ok
        /\ UniqueKeys(out.v)
        /\ \A i \in 1..Len(nests) : \E k \in 1..Len(out.v) : out.v[k].cls = Target(M, nests[i].cls)          \* every nest is kept
        /\ \A k \in 1..Len(out.v) : \E i \in 1..Len(nests) : out.v[k].cls = Target(M, nests[i].cls)
        /\ TargetsDistinct(nests, M) =>
              \A i \in 1..Len(nests) : \E k \in 1..Len(out.v) : TranslatedNest(M, nests[i], out.v[k])

---------------------------------------------------------------------------
(* Mappings: nester_run.rs *)

(* MyRemapper::new / build_translation: every entry of the table, whatever the jar *)
RECURSIVE BuildTrOp(_, _, _)
BuildTrOp(T, c, fuel) == IF c \in DOMAIN T /\ fuel > 0 THEN BuildTrOp(T, T[c].encl, fuel - 1) \o "$" \o T[c].inner ELSE c
TransTableOp(nests) ==
    LET T == ByClass(nests)
    IN [c \in DOMAIN T |-> BuildTrOp(T, T[c].encl, Len(nests)) \o "$" \o T[c].inner]
(* apply = false: pairs swapped, a later pair with the same nested name replaces an earlier one *)
InverseTableOp(nests) ==
    LET F == TransTableOp(nests)
    IN [v \in {F[c] : c \in DOMAIN F} |-> nests[Max({i \in 1..Len(nests) : F[nests[i].cls] = v})].cls]

(* map_with_key_from_result_iter: keys recomputed, a repeated key is refused *)
RekeyMembers(R, kids) ==
    LET f(k) == [kids[k] EXCEPT !.desc = MapDesc(R, @).v]
    IN IF \E a, b \in DOMAIN kids : a # b /\ KeyOf(f(a)) = KeyOf(f(b)) THEN Err
       ELSE Ok([k2 \in {KeyOf(f(k)) : k \in DOMAIN kids} |-> f(CHOOSE k \in DOMAIN kids : KeyOf(f(k)) = k2)])

Panic == [ok |-> FALSE, v |-> <<"panic">>]
(* classes renamed by RA (source column) and RB (target column), descriptors by RA *)
RenameTreeOp(M, RA, RB, coded) ==
    LET cls(k) == LET c == M.kids[k]
                      mk == RekeyMembers(RA, c.kids)
                      dst == IF c.names[2] = NoName THEN NoName ELSE MapClassT(RB, c.names[2])
                  IN IF mk.ok THEN Ok([c EXCEPT !.names = <<MapClassT(RA, c.names[1]), dst>>, !.kids = mk.v]) ELSE Err
    IN IF coded /\ \E k \in DOMAIN M.kids : M.kids[k].names[2] = NoName THEN Panic          \* `dst.unwrap()`
       ELSE IF \E k \in DOMAIN M.kids : ~cls(k).ok THEN Err
       ELSE IF \E a, b \in DOMAIN M.kids : a # b /\ KeyOf(cls(a).v) = KeyOf(cls(b).v) THEN Err
       ELSE Ok([M EXCEPT !.kids = [k2 \in {KeyOf(cls(k).v) : k \in DOMAIN M.kids} |->
                                        cls(CHOOSE k \in DOMAIN M.kids : KeyOf(cls(k).v) = k2).v]])

(* `coded` = TRUE: the routine as it stands (a class without a target name panics);  *)
(* FALSE: the repaired routine (an absent target name stays absent)                  *)
ApplyOpWith(M, nests, coded) ==
    LET tr == TranslateOp(nests, M)
    IN IF ~tr.ok THEN Err ELSE RenameTreeOp(M, TransTableOp(nests), TransTableOp(tr.v), coded)
ApplyOp(M, nests) == ApplyOpWith(M, nests, FALSE)
ApplyOpAsCoded(M, nests) == ApplyOpWith(M, nests, TRUE)

(* undo: the inverse table on source names and descriptors; the target name is kept, with "$" replaced by "__" *)
(* when it happens to be a key of the table                                                                    *)
RECURSIVE DollarToDU(_, _)
DollarToDU(s, i) == IF i > Len(s) THEN "" ELSE (IF Ch(s, i) = "$" THEN "__" ELSE Ch(s, i)) \o DollarToDU(s, i + 1)
UndoOpWith(M, nests, coded) ==
    LET r == RenameTreeOp(M, InverseTableOp(nests), <<>>, coded)
    IN IF ~r.ok THEN r
       ELSE Ok([r.v EXCEPT !.kids = [k \in DOMAIN r.v.kids |->
                  [r.v.kids[k] EXCEPT !.names[2] = IF @ \in Keys(nests) THEN DollarToDU(@, 1) ELSE @]]])
UndoOp(M, nests) == UndoOpWith(M, nests, FALSE)
UndoOpAsCoded(M, nests) == UndoOpWith(M, nests, TRUE)

(* ---- declarative ---- *)
(* every listed class is renamed, transitively *)
MapTable(nests) == NewTable(nests, Keys(nests))

(* what the property speaks about: everything except the classes' names in the other namespaces *)
SrcView(M) == [M EXCEPT !.kids = [k \in DOMAIN M.kids |-> [M.kids[k] EXCEPT !.names = <<@[1], NoName>>]]]

(* class names occurring in a descriptor *)
RECURSIVE DescClassesFrom(_, _)
DescClassesFrom(d, i) ==
    IF i > Len(d) THEN {}
    ELSE IF Ch(d, i) = "L" THEN LET j == FindSemi(d, i + 1) IN {SubSeq(d, i + 1, j - 1)} \cup DescClassesFrom(d, j + 1)
    ELSE DescClassesFrom(d, i + 1)
TreeClasses(M) ==
    {M.kids[k].names[1] : k \in DOMAIN M.kids}
    \cup UNION {UNION {DescClassesFrom(M.kids[k].kids[j].desc, 1) : j \in DOMAIN M.kids[k].kids} : k \in DOMAIN M.kids}

(* M with source class names and descriptors through the table R; nothing else touched *)
Substituted(M, R) ==
    LET nk(c, j) == [c.kids[j] EXCEPT !.desc = SubstDescG(R, @)]
        nc(k) == LET c == M.kids[k]
                 IN [c EXCEPT !.names[1] = MapClassT(R, @),
                              !.kids = [j2 \in {KeyOf(nk(c, j)) : j \in DOMAIN c.kids} |-> nk(c, CHOOSE j \in DOMAIN c.kids : KeyOf(nk(c, j)) = j2)]]
    IN [M EXCEPT !.kids = [k2 \in {KeyOf(nc(k)) : k \in DOMAIN M.kids} |-> nc(CHOOSE k \in DOMAIN M.kids : KeyOf(nc(k)) = k2)]]
(* the substitution identifies no two names the mapping set distinguishes *)
InjectiveOn(R, names) == Cardinality({MapClassT(R, c) : c \in names}) = Cardinality(names)
(* names of the nested form are new: nothing in the mapping set already carries one *)
NoCapture(M, nests) ==
    LET R == MapTable(nests)
        all == TreeClasses(M) \cup Keys(nests)
    IN InjectiveOn(R, all) /\ \A c \in Keys(nests) : R[c] \notin all

MapPre(M, nests) == WF(nests) /\ WellKeyed(M) /\ Len(M.ns) = 2 /\ ValidDescs(M)
ApplyLaw(M, nests, out) ==
    (MapPre(M, nests) /\ TranslateDefined(nests, M) /\ InjectiveOn(MapTable(nests), TreeClasses(M))) =>
        /\ out.ok
        /\ SrcView(out.v) = SrcView(Substituted(M, MapTable(nests)))
(* undo on a set whose source names are in nested form: the listed classes get their un-nested names back *)
UndoTable(nests) ==
    LET R == MapTable(nests) IN [v \in {R[c] : c \in DOMAIN R} |-> CHOOSE c \in DOMAIN R : R[c] = v]
UndoLaw(M, nests, out) ==
    (MapPre(M, nests) /\ InjectiveOn(MapTable(nests), Keys(nests)) /\ InjectiveOn(UndoTable(nests), TreeClasses(M))) =>
        /\ out.ok
        /\ SrcView(out.v) = SrcView(Substituted(M, UndoTable(nests)))
(* undo after apply restores source names and descriptors *)
InverseLaw(M, nests, out) ==
    (MapPre(M, nests) /\ TranslateDefined(nests, M) /\ NoCapture(M, nests)) =>
        /\ out.ok
        /\ SrcView(out.v) = SrcView(M)

---------------------------------------------------------------------------
(* Jar and mappings agree *)
SrcNames(M) == {M.kids[k].names[1] : k \in DOMAIN M.kids}
AgreePre(jar, nests, M) ==
    /\ JarPre(jar, nests) /\ AllApply(jar, nests)
    /\ MapPre(M, nests) /\ TranslateDefined(nests, M)
    /\ SrcNames(M) = DOMAIN jar \cup NeededEncl(jar, nests)                     \* the mappings cover the classes of the jar
    /\ InjectiveOn(MapTable(nests), TreeClasses(M))
(* out = [jarNames, mapNames] (sets) *)
AgreeLaw(jar, nests, M, out) ==
    AgreePre(jar, nests, M) =>
        /\ out.jarNames = out.mapNames
        /\ out.jarNames = {MapClassT(MapTable(nests), c) : c \in SrcNames(M)}
=============================================================================
