\* prints [bound |-> l] for every record on which the law is binding (used by the self-test of lib/propdefs/C14.py)
SPECIFICATION BSpec
CHECK_DEADLOCK FALSE
