SPECIFICATION Spec
POSTCONDITION Consumed
CHECK_DEADLOCK FALSE
