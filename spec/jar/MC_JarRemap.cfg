SPECIFICATION Spec
CONSTANT Tier = 0
INVARIANT InvTraversal
INVARIANT InvAsCoded
INVARIANT InvUnique
INVARIANT InvShape
INVARIANT InvIdentity
INVARIANT InvSig
INVARIANT InvEntries
INVARIANT InvJarLaw
INVARIANT InvVia
INVARIANT Emit
CHECK_DEADLOCK FALSE
