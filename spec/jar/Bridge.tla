------------------------------- MODULE Bridge -------------------------------
(***************************************************************************)
(* Property C15.  Bridge ("specialized") methods                           *)
(* (src/specialized_methods/mod.rs).                                       *)
(*                                                                         *)
(* Abstract jar: class name -> [super, itfs, methods]; a method is         *)
(* [name, desc, acc (set of flag names), code (has a body), calls (the set *)
(* of methods its body invokes on object classes, as <<owner, name, desc>>)].*)
(*                                                                         *)
(* Qualifies: the bridge predicate.  Updates: for every qualifying method, *)
(* after translation official -> intermediary, the entry of the invoked    *)
(* method inside the bridge's class receives the name the named mappings   *)
(* give the bridge through inheritance.  Result: the mappings with exactly *)
(* those entries set, everything else untouched.                           *)
(***************************************************************************)
EXTENDS Remapper

OBJECT == "java/lang/Object"
InJar(jar, c) == c \in DOMAIN jar
SeqToSet(s) == {s[i] : i \in 1..Len(s)}

(* InheritanceIndex::store *)
Parents(jar, c) ==
    IF ~InJar(jar, c) THEN {}
    ELSE (IF jar[c].super \notin {"", OBJECT} THEN {jar[c].super} ELSE {}) \cup SeqToSet(jar[c].itfs)
RECURSIVE AncestorsFrom(_, _, _)
AncestorsFrom(jar, S, fuel) ==
    LET N == S \cup UNION {Parents(jar, c) : c \in S}
    IN IF N = S \/ fuel = 0 THEN S ELSE AncestorsFrom(jar, N, fuel - 1)
Ancestors(jar, c) == AncestorsFrom(jar, Parents(jar, c), 10)
Descendants(jar, c) == {d \in DOMAIN jar : c \in Ancestors(jar, d)}

(* are_types_bridge_compatible: equal, or both plain object types and not provably unrelated *)
TypeCompat(jar, b, s) ==
    \/ b = s
    \/ /\ b.base = "L" /\ s.base = "L" /\ b.dims = 0 /\ s.dims = 0
       /\ \/ b.name = OBJECT
          \/ ~InJar(jar, b.name)
          \/ \E a \in Ancestors(jar, s.name) : a = b.name \/ ~InJar(jar, a)

(* is_potential_bridge *)
PotentialBridge(jar, m, callee) ==
    LET pb == ParseMethod(m.desc)
        ps == ParseMethod(callee[3])
    IN /\ m.acc \cap {"private", "final", "static"} = {}              \* can be inherited
       /\ pb.ok /\ ps.ok
       /\ Len(pb.v.params) = Len(ps.v.params)                           \* same arity
       /\ \A i \in 1..Len(pb.v.params) : TypeCompat(jar, pb.v.params[i], ps.v.params[i])
       /\ IF pb.v.ret = Void \/ ps.v.ret = Void THEN pb.v.ret = ps.v.ret
          ELSE TypeCompat(jar, pb.v.ret, ps.v.ret)

Qualifies(jar, m) ==
    /\ "synthetic" \in m.acc
    /\ m.code /\ Cardinality(m.calls) = 1                               \* invokes exactly one distinct method
    /\ \/ "bridge" \in m.acc
       \/ PotentialBridge(jar, m, CHOOSE c \in m.calls : TRUE)

(* <<bridge ref, specialized ref>> pairs, refs as <<owner, name, desc>> *)
Bridges(jar) ==
    UNION {{<<<<c, jar[c].methods[i].name, jar[c].methods[i].desc>>, CHOOSE x \in jar[c].methods[i].calls : TRUE>> :
               i \in {i \in 1..Len(jar[c].methods) : Qualifies(jar, jar[c].methods[i])}} : c \in DOMAIN jar}

---------------------------------------------------------------------------
(* super types as the jars report them (super class first, then the interfaces) *)
SupersOfJar(jar) == [c \in DOMAIN jar |-> (IF jar[c].super # "" THEN <<jar[c].super>> ELSE <<>>) \o jar[c].itfs]
(* Vec<JarSuperProv>: the first provider that knows the class answers *)
SupersOfJars(main, libs) ==
    [c \in DOMAIN main \cup DOMAIN libs |-> IF c \in DOMAIN main THEN SupersOfJar(main)[c] ELSE SupersOfJar(libs)[c]]

(* BRemapper::map_method_ref_obj from namespace 1 to 2 of a two-namespace mapping set *)
MapRef(M, sup, ref) ==
    LET r == MapMember(M, sup, "m", 1, 2, ref[1], ref[2], ref[3])
    IN <<MapClassT(ClassTable(M, 1, 2), ref[1]), r.v[1], r.v[2]>>

(* the entries to set: <<class key, method key, intermediary name, descriptor, named name>> *)
Updates(main, libs, calamus, named) ==
    LET supOff == SupersOfJars(main, libs)
        supInt == RemapSupers(ClassTable(calamus, 1, 2), supOff)
    IN {LET b == MapRef(calamus, supOff, p[1])
            s == MapRef(calamus, supOff, p[2])
            nm == MapRef(named, supInt, b)[2]
        IN <<"c " \o b[1], "m " \o s[2] \o " " \o s[3], s[2], s[3], nm>> : p \in Bridges(main)}
Relevant(named, U) == {u \in U : u[1] \in DOMAIN named.kids}
(* "at most one bridge per delegate and class": the updates are a function of the entry *)
Functional(U) == \A u, w \in U : (u[1] = w[1] /\ u[2] = w[2]) => u = w

(* Declarative result *)
Result(main, libs, calamus, named) ==
    LET U == Relevant(named, Updates(main, libs, calamus, named))
    IN [named EXCEPT !.kids = [ck \in DOMAIN named.kids |->
          LET c == named.kids[ck]
              uc == {u \in U : u[1] = ck}
          IN [c EXCEPT !.kids = [mk \in DOMAIN c.kids \cup {u[2] : u \in uc} |->
                IF \E u \in uc : u[2] = mk
                THEN LET u == CHOOSE u \in uc : u[2] = mk
                     IN IF mk \in DOMAIN c.kids
                        THEN [c.kids[mk] EXCEPT !.names = <<u[3], u[5]>>, !.desc = u[4]]     \* only the info is replaced
                        ELSE Method(<<u[3], u[5]>>, u[4], NoDoc, <<>>)
                ELSE c.kids[mk]]]]]

(* Operational: the code's loop, one update after the other *)
RECURSIVE ApplyUpdates(_, _)
ApplyUpdates(M, us) ==
    IF us = <<>> THEN M
    ELSE LET u == Head(us)
             M2 == IF u[1] \notin DOMAIN M.kids THEN M
                   ELSE IF u[2] \in DOMAIN M.kids[u[1]].kids
                        THEN [M EXCEPT !.kids[u[1]].kids[u[2]].names = <<u[3], u[5]>>, !.kids[u[1]].kids[u[2]].desc = u[4]]
                        ELSE [M EXCEPT !.kids[u[1]].kids = @ @@ (u[2] :> Method(<<u[3], u[5]>>, u[4], NoDoc, <<>>))]
         IN ApplyUpdates(M2, Tail(us))

(* Laws *)
RECURSIVE SetSeq(_)
SetSeq(S) == IF S = {} THEN <<>> ELSE LET x == CHOOSE x \in S : TRUE IN <<x>> \o SetSeq(S \ {x})
BridgeLaw(main, libs, calamus, named) ==
    LET U == Updates(main, libs, calamus, named)
        R == Result(main, libs, calamus, named)
    IN Functional(U) =>
        /\ ApplyUpdates(named, SetSeq(U)) = R                               \* loop = declarative statement
        /\ WellKeyed(named) => WellKeyed(R)
        \* nothing else changes: entries not concerned are identical, no class appears or disappears
        /\ DOMAIN R.kids = DOMAIN named.kids /\ R.ns = named.ns /\ R.doc = named.doc
        /\ \A ck \in DOMAIN named.kids : \A mk \in DOMAIN named.kids[ck].kids :
              (~\E u \in U : u[1] = ck /\ u[2] = mk) => R.kids[ck].kids[mk] = named.kids[ck].kids[mk]
        /\ \A ck \in DOMAIN named.kids : [R.kids[ck] EXCEPT !.kids = <<>>] = [named.kids[ck] EXCEPT !.kids = <<>>]
        \* no method that is not a qualifying bridge causes a rename
        /\ (Bridges(main) = {}) => R = named
=============================================================================
