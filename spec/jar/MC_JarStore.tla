---------------------------- MODULE MC_JarStore ----------------------------
(***************************************************************************)
(* Bounded instance of JarStore: every sequence of up to three entries     *)
(* with distinct names from a pool (directories, a directory named like a  *)
(* class, two entries holding the same class with different super types,   *)
(* a *.class entry that is no class file, resources incl. an empty one,    *)
(* module-info), two last-modified times.  The laws are INVARIANTs of      *)
(* every state; every state is emitted as a vector and replayed through    *)
(* the four forms of a jar in dukebox::storage.                            *)
(***************************************************************************)
EXTENDS JarStore, Json

CONSTANT Tier
VARIABLES J
vars == <<J>>

OBJ == "java/lang/Object"
Cls(this, super, itfs) == [k |-> "cls", this |-> this, super |-> super, itfs |-> itfs]
DirC == [k |-> "dir"]
Res(id) == [k |-> "res", id |-> id]
Junk == [k |-> "junk"]
Pool == <<
    [n |-> "p/", c |-> DirC],
    [n |-> "META-INF/", c |-> DirC],
    [n |-> "q.class/", c |-> DirC],                                              \* a directory, whatever it looks like
    [n |-> "p/A.class", c |-> Cls("p/A", "p/B", <<"p/I", "p/B", "p/I">>)],     \* super types repeated
    [n |-> "p/B.class", c |-> Cls("p/B", OBJ, <<>>)],
    [n |-> "META-INF/versions/9/p/A.class", c |-> Cls("p/A", OBJ, <<"p/J">>)], \* the same class once more
    [n |-> "junk/X.class", c |-> Junk],
    [n |-> "module-info.class", c |-> Cls("module-info", "", <<>>)],
    [n |-> "p/A.txt", c |-> Res("text-1")],
    [n |-> "p/A.class.bak", c |-> Res("no class: the name only contains .class")],
    [n |-> "META-INF/MANIFEST.MF", c |-> Res("Manifest-Version: 1.0")],
    [n |-> "noext", c |-> Res("")] >>
Times == IF Tier = 0 THEN {0} ELSE {0, 1}
MaxLen == 3

Init == J = <<>>
Add == /\ Len(J) < MaxLen
       /\ \E p \in DOMAIN Pool, t \in Times \cup {Len(J) % 2} :
            /\ \A i \in DOMAIN J : J[i].n # Pool[p].n
            /\ J' = Append(J, [n |-> Pool[p].n, c |-> Pool[p].c, t |-> t])
Next == Add
Spec == Init /\ [][Next]_vars

Probes == {J[i].n : i \in DOMAIN J} \cup {"absent.txt", "p/A", "p"}
RECURSIVE SetToSeq(_)
SetToSeq(S) == IF S = {} THEN <<>> ELSE LET x == CHOOSE x \in S : TRUE IN <<x>> \o SetToSeq(S \ {x})

InvWellFormed == WellFormedJar(J)
InvOpen == OpenLaw(J)
InvRoundTrip == RoundTripLaw(J)
InvProvider == ProviderLaw(J)
(* a jar without repeated names is its own parsed form *)
InvParsed == Parsed(J) = J

ClassesIn == {J[i].c.this : i \in {i \in DOMAIN J : KindOfName(J[i].n) = "class" /\ J[i].c.k = "cls"}}
Label == IF J = <<>> THEN "store/empty"
         ELSE IF \E i \in DOMAIN J : J[i].c.k = "junk" THEN "store/junk"
         ELSE IF Cardinality({i \in DOMAIN J : KindOfName(J[i].n) = "class"}) > Cardinality(ClassesIn) THEN "store/class-twice"
         ELSE IF \E i \in DOMAIN J : KindOfName(J[i].n) = "dir" THEN "store/dirs" ELSE "store/plain"
O == Obs(J, Probes)
WithPut(o, path) == [list |-> o.list, names |-> o.names, lookup |-> o.lookup, sup |-> o.sup, put |-> [path |-> path, list |-> o.list]]
Emit == PrintT(ToJson([op |-> "store", cls |-> Label, jar |-> J, probes |-> SetToSeq(Probes),
                       exp |-> [unnamed |-> WithPut(O, "suggested"), named |-> WithPut(O, "suggested"),
                                file |-> WithPut(O, "own"), parsed |-> WithPut(O, "suggested"),
                                mem |-> Listing(ToMem(Parsed(J)))]]))
=============================================================================
