------------------------------ MODULE JarRemap ------------------------------
(***************************************************************************)
(* C07: remapping a jar renames every reference consistently and nothing   *)
(* else.                                                                   *)
(*                                                                         *)
(* Code: dukebox/src/remap.rs (remap, remap_jar_entry_name_java, the       *)
(* Mappable / MappableWithClassName impls), dukebox/src/storage            *)
(* (ParsedJar::write, to_mem; ZipFile::to_jar_entry_enum), the remapper of *)
(* quill/src/remapper.rs (module Remapper, property C06).                  *)
(*                                                                         *)
(* Abstract data                                                           *)
(*   reference list of a class: kind -> sequence of rows, in document      *)
(*     order; a row is <<owner, name, desc>> ("" = column absent); the     *)
(*     kinds are cfkit::refs::REF_KINDS plus two extension kinds for names *)
(*     the property leaves some freedom for (x_inner_name, x_anno_elem);   *)
(*     indy_nt rows carry two more columns, the owner of the bootstrap     *)
(*     method and the first static argument when it is a method type       *)
(*   residual: everything else a class file states (flags, instruction     *)
(*     stream, constants, line numbers, table structure), as a map chunk   *)
(*     -> content id                                                       *)
(*   jar: sequence of entries <<name, kind, content id>>, kind "dir" |     *)
(*     "other" | "class", plus for every class entry name its observation  *)
(*     [this, rows, res]                                                   *)
(*   remapper context X: the class table and the member tables of the      *)
(*     mapping set (namespace 1 -> 2) and the inheritance relation the     *)
(*     remapper was given                                                  *)
(*                                                                         *)
(* Written twice:                                                          *)
(*   declaratively  MapRow / RowOK (per kind: which column is a class      *)
(*     name, a member, a descriptor, a signature, and which question the   *)
(*     remapper is asked), OutNames (entry name rule), ClassLaw, JarLaw    *)
(*   operationally  CodeRow: the traversal of remap.rs, one case per       *)
(*     Mappable impl, once as the law demands (asCoded = FALSE) and once   *)
(*     as it stands (asCoded = TRUE: the positions marked TODO there)      *)
(***************************************************************************)
EXTENDS Remapper

StartsWith(s, p) == Len(s) >= Len(p) /\ SubSeq(s, 1, Len(p)) = p
EndsWith(s, p) == Len(s) >= Len(p) /\ SubSeq(s, Len(s) - Len(p) + 1, Len(s)) = p
RangeOf(s) == {s[i] : i \in DOMAIN s}

---------------------------------------------------------------------------
(* The remapper (C06), namespace 1 -> namespace 2 *)
(* remapper_b(from, to): the mapping set may have more than two namespaces and `from` need not be the first one *)
CtxFT(M, f, t, sup) == [R |-> ClassTable(M, f, t), TF |-> MemberTables(M, "f", f, t), TM |-> MemberTables(M, "m", f, t), sup |-> sup]
Ctx(M, sup) == CtxFT(M, 1, 2, sup)

IsArr(c) == Len(c) > 0 /\ Ch(c, 1) = "["
IsMethodDesc(d) == Len(d) > 0 /\ Ch(d, 1) = "("
MapC(X, c) == MapClassT(X.R, c)                                          \* map_class
MapD(X, d) == LET r == MapDesc(X.R, d) IN IF r.ok THEN r.v ELSE d        \* map_field_desc / map_method_desc / map_return_desc
MapCAny(X, c) == IF IsArr(c) THEN MapD(X, c) ELSE MapC(X, c)             \* map_class_any

(* map_field / map_method: the entry found through the inheritance, else the name with a mapped descriptor. *)
(* C06 admits the depth-first and the level-wise reading of "nearest declaring super type"                  *)
Find(T, X, o, key, mode) == IF mode = "dfs" THEN FindDfs(T, X.sup, o, key) ELSE FindBfs(T, X.sup, o, key)
Member(T, X, o, n, d, mode) ==
    LET f == Find(T, X, o, <<n, d>>, mode) IN IF f # <<>> THEN f[1] ELSE <<n, MapD(X, d)>>

(* map_field_ref; map_method_ref (methods of array classes keep their name) *)
FieldRefRow(X, o, n, d, mode) == <<MapC(X, o)>> \o Member(X.TF, X, o, n, d, mode)
MethodRefRow(X, o, n, d, mode) ==
    IF IsArr(o) THEN <<MapD(X, o), n, MapD(X, d)>> ELSE <<MapC(X, o)>> \o Member(X.TM, X, o, n, d, mode)

ClassOfDesc(d) == IF Len(d) >= 3 /\ Ch(d, 1) = "L" /\ Ch(d, Len(d)) = ";" THEN SubSeq(d, 2, Len(d) - 1) ELSE ""
RetClassOf(md) == LET p == ParseMethod(md) IN IF p.ok /\ p.v.ret.base = "L" /\ p.v.ret.dims = 0 THEN p.v.ret.name ELSE ""

---------------------------------------------------------------------------
(* Signatures (JVMS 4.7.9.1).  Only class type signatures carry names:     *)
(*   L pkg/Outer <args> . Inner <args> ;   names pkg/Outer and pkg/Outer$Inner *)
(* Formal type parameter names and type variables (T name ;) are copied.   *)
(* A nested class whose new name is not <new outer>$<simple> has no        *)
(* spelling in this grammar: det = FALSE, the row is not judged.           *)
SR(o, i, det) == [o |-> o, i |-> i, det |-> det]
RECURSIVE NameEnd(_, _)
NameEnd(s, i) == IF i > Len(s) \/ Ch(s, i) \in {"<", ";", "."} THEN i ELSE NameEnd(s, i + 1)
RECURSIVE FindColon(_, _)
FindColon(s, i) == IF i > Len(s) THEN 0 ELSE IF Ch(s, i) = ":" THEN i ELSE FindColon(s, i + 1)

RECURSIVE SigType(_, _, _), SigArgs(_, _, _, _), SigClassTail(_, _, _, _, _, _)
SigType(R, s, i) ==             \* one type signature, or one structural character ( ) ^ * + - V
    IF i > Len(s) THEN SR("", i, FALSE)
    ELSE LET c == Ch(s, i) IN
         IF c = "L"
         THEN LET e == NameEnd(s, i + 1)
                  n == SubSeq(s, i + 1, e - 1)
                  m == MapClassT(R, n)
              IN IF e = i + 1 THEN SR(SubSeq(s, i, Len(s)), Len(s) + 1, FALSE)
                 ELSE SigClassTail(R, s, e, n, m, "L" \o m)
         ELSE IF c = "T"
         THEN LET e == FindSemi(s, i) IN IF e = 0 THEN SR(SubSeq(s, i, Len(s)), Len(s) + 1, FALSE) ELSE SR(SubSeq(s, i, e), e + 1, TRUE)
         ELSE IF c = "["
         THEN LET r == SigType(R, s, i + 1) IN SR("[" \o r.o, r.i, r.det)
         ELSE SR(c, i + 1, TRUE)
SigClassTail(R, s, i, nin, nout, out) ==      \* behind a class name: type arguments, a nested class, or the end
    IF i > Len(s) THEN SR(out, i, FALSE)
    ELSE LET c == Ch(s, i) IN
         IF c = ";" THEN SR(out \o ";", i + 1, TRUE)
         ELSE IF c = "<"
         THEN LET a == SigArgs(R, s, i + 1, "<")
                  t == SigClassTail(R, s, a.i, nin, nout, out \o a.o)
              IN SR(t.o, t.i, a.det /\ t.det)
         ELSE LET e == NameEnd(s, i + 1)
                  sn == SubSeq(s, i + 1, e - 1)
                  nin2 == nin \o "$" \o sn
                  nout2 == MapClassT(R, nin2)
                  pre == nout \o "$"
                  det == e > i + 1 /\ StartsWith(nout2, pre) /\ Len(nout2) > Len(pre)
                  simple == IF det THEN SubSeq(nout2, Len(pre) + 1, Len(nout2)) ELSE sn
                  t == SigClassTail(R, s, e, nin2, nout2, out \o "." \o simple)
              IN IF e = i + 1 THEN SR(out \o SubSeq(s, i, Len(s)), Len(s) + 1, FALSE) ELSE SR(t.o, t.i, det /\ t.det)
SigArgs(R, s, i, out) ==                      \* type arguments up to and including ">"
    IF i > Len(s) THEN SR(out, i, FALSE)
    ELSE IF Ch(s, i) = ">" THEN SR(out \o ">", i + 1, TRUE)
    ELSE LET r == SigType(R, s, i)
             t == SigArgs(R, s, r.i, out \o r.o)
         IN SR(t.o, t.i, r.det /\ t.det)

RECURSIVE SigFormals(_, _, _, _)
SigFormals(R, s, i, out) ==                   \* <Name:bound:bound Name:bound ...> behind the "<"
    IF i > Len(s) THEN SR(out, i, FALSE)
    ELSE IF Ch(s, i) = ">" THEN SR(out \o ">", i + 1, TRUE)
    ELSE IF Ch(s, i) = ":"
    THEN IF i + 1 <= Len(s) /\ Ch(s, i + 1) \in {":", ">"} THEN SigFormals(R, s, i + 1, out \o ":")   \* empty class bound
         ELSE LET r == SigType(R, s, i + 1)
                  t == SigFormals(R, s, r.i, out \o ":" \o r.o)
              IN SR(t.o, t.i, r.det /\ t.det)
    ELSE LET e == FindColon(s, i)
         IN IF e = 0 THEN SR(out \o SubSeq(s, i, Len(s)), Len(s) + 1, FALSE)
            ELSE SigFormals(R, s, e, out \o SubSeq(s, i, e - 1))
RECURSIVE SigTop(_, _, _, _)
SigTop(R, s, i, out) ==
    IF i > Len(s) THEN SR(out, i, TRUE)
    ELSE LET r == SigType(R, s, i)
             t == SigTop(R, s, r.i, out \o r.o)
         IN SR(t.o, t.i, r.det /\ t.det)
MapSigR(R, s) ==
    IF Len(s) > 0 /\ Ch(s, 1) = "<"
    THEN LET f == SigFormals(R, s, 2, "<")
             t == SigTop(R, s, f.i, f.o)
         IN SR(t.o, t.i, f.det /\ t.det)
    ELSE SigTop(R, s, 1, "")
MapSig(R, s) == MapSigR(R, s).o
SigDetermined(R, s) == MapSigR(R, s).det

---------------------------------------------------------------------------
(* THE LAW on a row.  Which remapper question each column of each kind is. *)
ClassKinds == {"this", "super", "interface", "insn_class", "ldc_class", "bsm_arg_class", "catch", "frame_object",
               "inner_class_inner", "inner_class_outer", "nest_host", "nest_member", "permitted", "exceptions",
               "module_uses", "module_provides", "module_provides_with", "module_main"}
DescKinds == {"ldc_mtype", "bsm_arg_mtype", "lvt_desc", "anno_type", "anno_class"}
SigKinds == {"signature", "lvtt_sig"}
FieldDeclKinds == {"field_decl", "record_component"}
HandleKinds == {"handle", "bsm_arg_handle"}
RefKinds == ClassKinds \cup DescKinds \cup SigKinds \cup FieldDeclKinds \cup HandleKinds
            \cup {"method_decl", "insn_field", "insn_method", "indy_nt", "anno_enum", "enclosing_method"}
ExtKinds == {"x_inner_name", "x_anno_elem"}
AllKinds == RefKinds \cup ExtKinds

(* invokedynamic through LambdaMetafactory: the call site's name is the name of the single abstract method *)
(* of the interface the call site returns, with the descriptor given by the first static argument           *)
LMF == "java/lang/invoke/LambdaMetafactory"
IndyName(X, r, mode) ==
    LET itf == RetClassOf(r[3])
    IN IF r[4] = LMF /\ IsMethodDesc(r[5]) /\ itf # "" THEN Member(X.TM, X, itf, r[2], r[5], mode)[1] ELSE r[2]

(* simple name of an InnerClasses row: kept, or the part of the new binary name behind a "$" *)
InnerNameOK(X, rin, rout) ==
    /\ rout[1] = MapCAny(X, rin[1]) /\ rout[3] = ""
    /\ (rin[2] = "") <=> (rout[2] = "")
    /\ \/ rout[2] = rin[2]
       \/ \E i \in 1..Len(rout[1]) : Ch(rout[1], i) = "$" /\ rout[2] = SubSeq(rout[1], i + 1, Len(rout[1]))
(* name of an annotation element: a method without arguments of the annotation interface; the descriptor is not *)
(* in the class file, so every entry of that name is an answer of the remapper                                  *)
NoArgs(d) == Len(d) >= 2 /\ SubSeq(d, 1, 2) = "()"
AnnoElemAnswers(X, ty, n) ==
    LET c == ClassOfDesc(ty)
        hits == IF c \in DOMAIN X.TM THEN {X.TM[c][key][1] : key \in {key \in DOMAIN X.TM[c] : key[1] = n /\ NoArgs(key[2])}} ELSE {}
    IN IF hits = {} THEN {n} ELSE hits
AnnoElemOK(X, rin, rout) == rout[1] = MapD(X, rin[1]) /\ rout[3] = "" /\ rout[2] \in AnnoElemAnswers(X, rin[1], rin[2])

MapRowM(X, k, r, mode) ==
    CASE k \in ClassKinds -> <<MapCAny(X, r[1]), "", "">>
      [] k \in FieldDeclKinds \cup {"insn_field"} -> FieldRefRow(X, r[1], r[2], r[3], mode)
      [] k \in {"method_decl", "insn_method"} -> MethodRefRow(X, r[1], r[2], r[3], mode)
      [] k \in HandleKinds -> IF IsMethodDesc(r[3]) THEN MethodRefRow(X, r[1], r[2], r[3], mode) ELSE FieldRefRow(X, r[1], r[2], r[3], mode)
      [] k \in DescKinds -> <<"", "", MapD(X, r[3])>>
      [] k \in SigKinds -> <<"", "", MapSig(X.R, r[3])>>
      [] k = "indy_nt" -> <<"", IndyName(X, r, mode), MapD(X, r[3]), MapC(X, r[4]), MapD(X, r[5])>>
      [] k = "anno_enum" -> <<"", IF ClassOfDesc(r[3]) # "" THEN Member(X.TF, X, ClassOfDesc(r[3]), r[2], r[3], mode)[1] ELSE r[2], MapD(X, r[3])>>
      [] k = "enclosing_method" -> IF r[2] = "" THEN <<MapCAny(X, r[1]), "", "">> ELSE MethodRefRow(X, r[1], r[2], r[3], mode)
      [] k = "x_inner_name" -> <<MapCAny(X, r[1]), r[2], "">>
      [] k = "x_anno_elem" -> <<MapD(X, r[1]), CHOOSE a \in AnnoElemAnswers(X, r[1], r[2]) : TRUE, "">>
      [] OTHER -> r
MapRow(X, k, r) == MapRowM(X, k, r, "dfs")

RowOK(X, k, rin, rout) ==
    CASE k = "x_inner_name" -> InnerNameOK(X, rin, rout)
      [] k = "x_anno_elem" -> AnnoElemOK(X, rin, rout)
      [] k \in SigKinds -> (SigDetermined(X.R, rin[3]) => rout = MapRowM(X, k, rin, "dfs"))
      [] OTHER -> rout = MapRowM(X, k, rin, "dfs") \/ rout = MapRowM(X, k, rin, "bfs")
(* a kind may carry the zone of the class file its rows stand in ("anno_type@param": inside parameter  *)
(* annotations, "signature@record": inside a record component); the law is that of the kind itself     *)
RECURSIVE AtPos(_, _)
AtPos(k, i) == IF i > Len(k) THEN 0 ELSE IF Ch(k, i) = "@" THEN i ELSE AtPos(k, i + 1)
BaseKind(k) == LET p == AtPos(k, 1) IN IF p = 0 THEN k ELSE SubSeq(k, 1, p - 1)
RowsOK(X, k, rin, rout) == LET b == BaseKind(k) IN Len(rout) = Len(rin) /\ \A i \in DOMAIN rin : RowOK(X, b, rin[i], rout[i])
(* kinds whose result the law determines uniquely (the others are judged as relations) *)
DeterminedKinds == RefKinds

---------------------------------------------------------------------------
(* THE TRAVERSAL of remap.rs.  impl = the Mappable impl a position is handled by.           *)
(* Result: <<row>> or <<>> (position dropped).  asCoded = TRUE: the code as it stands.       *)
ImplOf(k) ==
    CASE k \in {"this", "nest_host", "nest_member", "permitted", "exceptions", "super", "interface"} -> "ObjClassName"      \* map_class
      [] k \in {"insn_class", "ldc_class", "bsm_arg_class", "catch", "frame_object"} -> "ClassName"                     \* map_class_any
      [] k = "field_decl" -> "Field"  [] k = "method_decl" -> "Method"
      [] k = "insn_field" -> "FieldRef"  [] k = "insn_method" -> "MethodRef"
      [] k \in HandleKinds -> "Handle"
      [] k \in {"ldc_mtype", "bsm_arg_mtype"} -> "MethodDescriptor"
      [] k \in {"lvt_desc", "lvtt_sig"} -> "Lv"
      [] k = "anno_type" -> "Annotation"  [] k \in {"anno_enum", "anno_class"} -> "ElementValue"  [] k = "x_anno_elem" -> "ElementValuePair"
      [] k = "signature" -> "ClassSignature|FieldSignature|MethodSignature"
      [] k = "indy_nt" -> "InvokeDynamic|ConstantDynamic"
      [] k \in {"inner_class_inner", "inner_class_outer", "x_inner_name"} -> "InnerClass"
      [] k = "enclosing_method" -> "EnclosingMethod"
      [] k = "record_component" -> "ClassFile.record_components"
      [] OTHER -> "ClassFile.module"
CodeRow(X, k, r, asCoded) ==
    LET impl == ImplOf(k) IN
    CASE impl = "ObjClassName" -> <<<<MapC(X, r[1]), "", "">>>>
      [] impl = "ClassName" -> <<<<MapCAny(X, r[1]), "", "">>>>
      [] impl = "Field" -> <<<<MapC(X, r[1])>> \o Member(X.TF, X, r[1], r[2], r[3], "dfs")>>      \* remapper.map_field(this_class, name, descriptor); name: (&self.name).remap
      [] impl = "Method" -> <<<<MapC(X, r[1])>> \o Member(X.TM, X, r[1], r[2], r[3], "dfs")>>
      [] impl = "FieldRef" -> <<FieldRefRow(X, r[1], r[2], r[3], "dfs")>>
      [] impl = "MethodRef" ->
            IF asCoded /\ IsArr(r[1]) THEN <<<<MapD(X, r[1]), r[2], r[3]>>>>                   \* map_method_ref: descriptor of an array method is cloned
            ELSE <<MethodRefRow(X, r[1], r[2], r[3], "dfs")>>
      [] impl = "Handle" ->
            IF IsMethodDesc(r[3])
            THEN (IF asCoded /\ IsArr(r[1]) THEN <<<<MapD(X, r[1]), r[2], r[3]>>>> ELSE <<MethodRefRow(X, r[1], r[2], r[3], "dfs")>>)
            ELSE <<FieldRefRow(X, r[1], r[2], r[3], "dfs")>>
      [] impl = "MethodDescriptor" -> <<<<"", "", MapD(X, r[3])>>>>
      [] impl = "Lv" -> IF k = "lvt_desc" THEN <<<<"", "", MapD(X, r[3])>>>>
                        ELSE IF asCoded THEN <<r>> ELSE <<<<"", "", MapSig(X.R, r[3])>>>>            \* signature.remap: "todo: impl remap field signature"
      [] impl = "Annotation" -> <<<<"", "", MapD(X, r[3])>>>>
      [] impl = "ElementValue" ->
            IF k = "anno_class" THEN <<<<"", "", MapD(X, r[3])>>>>                                 \* map_return_desc
            ELSE IF asCoded THEN <<<<"", r[2], MapD(X, r[3])>>>>                                   \* "TODO: this one needs remapping!"
            ELSE <<MapRowM(X, k, r, "dfs")>>
      [] impl = "ElementValuePair" ->
            IF asCoded THEN <<<<MapD(X, r[1]), r[2], "">>>>                                        \* name: self.name
            ELSE <<MapRowM(X, k, r, "dfs")>>
      [] impl = "ClassSignature|FieldSignature|MethodSignature" -> IF asCoded THEN <<r>> ELSE <<<<"", "", MapSig(X.R, r[3])>>>>
      [] impl = "InvokeDynamic|ConstantDynamic" ->
            IF asCoded THEN <<<<"", r[2], r[3], MapC(X, r[4]), MapD(X, r[5])>>>>                   \* name, descriptor: "TODO: remap"
            ELSE <<MapRowM(X, k, r, "dfs")>>
      [] impl = "InnerClass" -> <<<<MapCAny(X, r[1]), r[2], "">>>>                                 \* map_inner_class_name returns inner_name.clone()
      [] impl = "EnclosingMethod" -> <<MapRowM(X, k, r, "dfs")>>
      [] impl = "ClassFile.record_components" -> IF asCoded THEN <<>> ELSE <<MapRowM(X, k, r, "dfs")>>   \* Vec::new(), "TODO"
      [] OTHER -> IF asCoded THEN <<>> ELSE <<MapRowM(X, k, r, "dfs")>>                              \* module: None, "TODO"
(* where the code as it stands may deviate from the law *)
DeviationKinds == {"signature", "lvtt_sig", "indy_nt", "anno_enum", "record_component", "x_anno_elem",
                   "module_uses", "module_provides", "module_provides_with", "module_main", "insn_method", "handle", "bsm_arg_handle"}

---------------------------------------------------------------------------
(* Entries.  remap_jar_entry_name_java maps the entry name without ".class" as a class name.        *)
(* The law names a class entry after the class it holds; in a multi-release jar behind the          *)
(* META-INF/versions/<n>/ prefix.  An entry whose name is not that of its class is outside the      *)
(* property's jars: any of the plausible names is accepted.                                         *)
Digits == {"0", "1", "2", "3", "4", "5", "6", "7", "8", "9"}
RECURSIVE DigitsEnd(_, _)
DigitsEnd(n, i) == IF i <= Len(n) /\ Ch(n, i) \in Digits THEN DigitsEnd(n, i + 1) ELSE i
VersionsDir == "META-INF/versions/"
VersionPrefixLen(n) ==
    IF ~StartsWith(n, VersionsDir) THEN 0
    ELSE LET e == DigitsEnd(n, Len(VersionsDir) + 1)
         IN IF e > Len(VersionsDir) + 1 /\ e <= Len(n) /\ Ch(n, e) = "/" THEN e ELSE 0
Stem(n) == SubSeq(n, 1, Len(n) - 6)
EntryShape(n, this) ==
    IF n = this \o ".class" THEN "plain"
    ELSE IF VersionPrefixLen(n) > 0 /\ SubSeq(n, VersionPrefixLen(n) + 1, Len(n)) = this \o ".class" THEN "versioned"
    ELSE "mismatch"
OutNames(X, n, this) ==
    CASE EntryShape(n, this) = "plain" -> {MapC(X, this) \o ".class"}
      [] EntryShape(n, this) = "versioned" -> {SubSeq(n, 1, VersionPrefixLen(n)) \o MapC(X, this) \o ".class"}
      [] OTHER -> {n, MapC(X, Stem(n)) \o ".class", MapC(X, this) \o ".class"}
(* the code: the entry's own name decides *)
CodeOutName(X, n) == IF EndsWith(n, ".class") THEN MapC(X, Stem(n)) \o ".class" ELSE n

(* zip: a trailing "/" makes a directory; the code: ".class" makes a class *)
KindOfName(n) == IF EndsWith(n, "/") THEN "dir" ELSE IF EndsWith(n, ".class") THEN "class" ELSE "other"

---------------------------------------------------------------------------
(* Observed jars: [entries |-> <<<<name, kind, id>>, ..>>, classes |-> name -> [this, rows, res, ..]] *)
NamesOf(J) == {J.entries[i][1] : i \in DOMAIN J.entries}
EntryOf(J, n) == J.entries[CHOOSE i \in DOMAIN J.entries : J.entries[i][1] = n]
NoDupNames(J) == \A i, j \in DOMAIN J.entries : i # j => J.entries[i][1] # J.entries[j][1]
Targets(X, J, i) ==
    LET e == J.entries[i] IN IF e[2] = "class" THEN OutNames(X, e[1], J.classes[e[1]].this) ELSE {e[1]}
Unclashed(X, J, i) == \A j \in DOMAIN J.entries : j # i => Targets(X, J, i) \cap Targets(X, J, j) = {}
AllUnclashed(X, J) == \A i \in DOMAIN J.entries : Unclashed(X, J, i)

(* a class of the result against the class it came from *)
RowsLaw(X, ci, co) == DOMAIN co.rows = DOMAIN ci.rows /\ \A k \in DOMAIN ci.rows : RowsOK(X, k, ci.rows[k], co.rows[k])
ClassLaw(X, ci, co) == RowsLaw(X, ci, co) /\ co.res = ci.res

EntryLaw(X, J, O, i, WF(_)) ==
    LET e == J.entries[i]
    IN \E t \in Targets(X, J, i) :
        /\ t \in NamesOf(O)
        /\ LET o == EntryOf(O, t) IN
            /\ o[2] = e[2]
            /\ (e[2] = "other" => o[3] = e[3])
            /\ (e[2] = "class" => t \in DOMAIN O.classes /\ WF(O.classes[t]) /\ ClassLaw(X, J.classes[e[1]], O.classes[t]))
(* THE LAW on a remapped jar O of J: no entry lost, none invented, none doubled; every entry that no other can   *)
(* collide with is found under its name, non-class entries with their content, classes renamed row by row with   *)
(* an equal residual and well-formed.  Entries collide only when the class map is not injective on the jar.      *)
JarLaw(X, J, O, WF(_)) ==
    /\ NoDupNames(O)
    /\ \A n \in NamesOf(O) : \E i \in DOMAIN J.entries : n \in Targets(X, J, i)
    /\ AllUnclashed(X, J) => Len(O.entries) = Len(J.entries)
    /\ \A i \in DOMAIN J.entries : Unclashed(X, J, i) => EntryLaw(X, J, O, i, WF)

---------------------------------------------------------------------------
(* RemapJar, declaratively, on abstract jars (name -> entry) whose class entries carry reference lists. *)
(* entry: [k |-> "dir"] | [k |-> "other", id] | [k |-> "class", this, rows, res]                         *)
RemapRows(X, rows) == [k \in DOMAIN rows |-> LET b == BaseKind(k) IN [i \in DOMAIN rows[k] |-> MapRow(X, b, rows[k][i])]]
RemapClass(X, c) == [c EXCEPT !.this = MapC(X, c.this), !.rows = RemapRows(X, c.rows)]
OutName(X, n, e) == IF e.k = "class" THEN (CHOOSE t \in OutNames(X, n, e.this) : TRUE) ELSE n
TargetsA(X, J, n) == IF J[n].k = "class" THEN OutNames(X, n, J[n].this) ELSE {n}
Collides(X, J) == \E a, b \in DOMAIN J : a # b /\ TargetsA(X, J, a) \cap TargetsA(X, J, b) # {}
RemapJar(X, J) ==
    [m \in {OutName(X, n, J[n]) : n \in DOMAIN J} |->
        LET n == CHOOSE n \in DOMAIN J : OutName(X, n, J[n]) = m
        IN IF J[n].k = "class" THEN RemapClass(X, J[n]) ELSE J[n]]
(* the traversal applied to a whole class *)
RECURSIVE ConcatAll(_)
ConcatAll(ss) == IF ss = <<>> THEN <<>> ELSE Head(ss) \o ConcatAll(Tail(ss))
CodeRows(X, rows, asCoded) == [k \in DOMAIN rows |-> ConcatAll([i \in DOMAIN rows[k] |-> CodeRow(X, BaseKind(k), rows[k][i], asCoded)])]

---------------------------------------------------------------------------
(* The reference list of a generated class (the model of cfkit::refs on the classes the harness       *)
(* assembles from such a description; document order within each kind).                               *)
(* class: [this, super, itfs, fields, methods, items]; fields / methods: <<<<name, desc>>, ..>>;       *)
(* every class but module-info has a last method $car()V that carries the code-level items.           *)
Carrier == <<"$car", "()V">>
Row3(o, n, d) == <<o, n, d>>
ArgRows(args, tag, mk(_)) == ConcatAll([i \in DOMAIN args |-> IF args[i][1] = tag THEN <<mk(args[i])>> ELSE <<>>])
Arg0(args) == IF Len(args) > 0 /\ args[1][1] = "mtype" THEN args[1][4] ELSE ""
ItemRows(this, it, k) ==
    CASE it.t \in {"insn_field", "insn_method"} /\ k = it.t -> <<Row3(it.o, it.n, it.d)>>
      [] it.t \in {"insn_class", "ldc_class", "catch", "nest_host", "nest_member", "permitted", "exceptions"} /\ k = it.t -> <<Row3(it.c, "", "")>>
      [] it.t = "frame" /\ k = "frame_object" -> <<Row3(it.c, "", "")>>
      [] it.t = "ldc_mtype" /\ k = "ldc_mtype" -> <<Row3("", "", it.d)>>
      [] it.t = "ldc_handle" /\ k = "handle" -> <<Row3(it.o, it.n, it.d)>>
      [] it.t \in {"indy", "condy"} /\ k = "indy_nt" -> <<<<"", it.n, it.d, it.bsm[1], Arg0(it.args)>>>>
      [] it.t \in {"indy", "condy"} /\ k = "handle" -> <<it.bsm>>
      [] it.t \in {"indy", "condy"} /\ k = "bsm_arg_class" -> ArgRows(it.args, "class", LAMBDA a : Row3(a[2], "", ""))
      [] it.t \in {"indy", "condy"} /\ k = "bsm_arg_mtype" -> ArgRows(it.args, "mtype", LAMBDA a : Row3("", "", a[4]))
      [] it.t \in {"indy", "condy"} /\ k = "bsm_arg_handle" -> ArgRows(it.args, "handle", LAMBDA a : Row3(a[2], a[3], a[4]))
      [] it.t = "lvt" /\ k = "lvt_desc" -> <<Row3("", "", it.d)>>
      [] it.t = "lvtt" /\ k = "lvtt_sig" -> <<Row3("", "", it.s)>>
      [] it.t = "anno" /\ k = "anno_type" -> <<Row3("", "", it.ty)>>
      [] it.t = "anno" /\ k = "anno_enum" -> ArgRows(it.pairs, "e", LAMBDA a : Row3("", a[4], a[3]))
      [] it.t = "anno" /\ k = "anno_class" -> ArgRows(it.pairs, "c", LAMBDA a : Row3("", "", a[3]))
      [] it.t = "anno" /\ k = "x_anno_elem" -> [i \in DOMAIN it.pairs |-> Row3(it.ty, it.pairs[i][2], "")]
      [] it.t = "sig" /\ k = "signature" -> <<Row3("", "", it.s)>>
      [] it.t = "inner" /\ k = "inner_class_inner" -> <<Row3(it.inner, "", "")>>
      [] it.t = "inner" /\ k = "x_inner_name" -> <<Row3(it.inner, it.name, "")>>
      [] it.t = "inner" /\ k = "inner_class_outer" -> IF it.outer = "" THEN <<>> ELSE <<Row3(it.outer, "", "")>>
      [] it.t = "encl" /\ k = "enclosing_method" -> <<Row3(it.o, it.n, it.d)>>
      [] it.t = "record" /\ k = "record_component" -> <<Row3(this, it.n, it.d)>>
      [] it.t = "mod_uses" /\ k = "module_uses" -> <<Row3(it.c, "", "")>>
      [] it.t = "mod_main" /\ k = "module_main" -> <<Row3(it.c, "", "")>>
      [] it.t = "mod_provides" /\ k = "module_provides" -> <<Row3(it.c, "", "")>>
      [] it.t = "mod_provides" /\ k = "module_provides_with" -> [i \in DOMAIN it.with |-> Row3(it.with[i], "", "")]
      [] OTHER -> <<>>
Refs(c) ==
    [k \in AllKinds |->
        (CASE k = "this" -> <<Row3(c.this, "", "")>>
           [] k = "super" -> IF c.super = "" THEN <<>> ELSE <<Row3(c.super, "", "")>>
           [] k = "interface" -> [i \in DOMAIN c.itfs |-> Row3(c.itfs[i], "", "")]
           [] k = "field_decl" -> [i \in DOMAIN c.fields |-> Row3(c.this, c.fields[i][1], c.fields[i][2])]
           [] k = "method_decl" -> [i \in DOMAIN c.methods |-> Row3(c.this, c.methods[i][1], c.methods[i][2])] \o (IF c.this = "module-info" THEN <<>> ELSE <<Row3(c.this, Carrier[1], Carrier[2])>>)
           [] OTHER -> <<>>)
        \o ConcatAll([i \in DOMAIN c.items |-> ItemRows(c.this, c.items[i], k)])]
=============================================================================
