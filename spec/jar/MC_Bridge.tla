------------------------------ MODULE MC_Bridge ------------------------------
(***************************************************************************)
(* Bounded instance for C15.  Main jar: Base (declares the bridge's        *)
(* signature abstractly), Sub extends Base with a candidate bridge `br`    *)
(* and a delegate `t`; type classes A <: B present in the main jar, in a   *)
(* library jar or nowhere.  Dimensions: access flags of the candidate      *)
(* (synthetic+bridge, synthetic only, + private / static / final, bridge   *)
(* without synthetic, none) x what its body invokes (nothing, the          *)
(* delegate, the delegate twice, two methods, a method of Base, no body) x *)
(* signature pairs (covariant return, parameter erased to Object / to a    *)
(* bound, reversed bound, primitives equal / different, arity, void vs     *)
(* value, arrays) x official -> intermediary renames x named mappings      *)
(* naming the bridge in Sub, only in Base (through inheritance), only in    *)
(* Top two levels up with Base absent from the named mappings, nowhere;    *)
(* only in Base while Sub lists it without a target name (shadow);          *)
(* with / without an existing entry (comment, parameter) for the delegate; *)
(* with / without the class.                                               *)
(***************************************************************************)
EXTENDS Bridge, Json

CONSTANT Tier
VARIABLES phase, main, libs, cal, named, tag
vars == <<phase, main, libs, cal, named, tag>>

Meth(name, desc, acc, code, calls) == [name |-> name, desc |-> desc, acc |-> acc, code |-> code, calls |-> calls]
Cls(super, itfs, methods) == [super |-> super, itfs |-> itfs, methods |-> methods]

(* <<bridge descriptor, delegate descriptor>> *)
Sigs == {<<"(LB;)V", "(LA;)V">>, <<"(Ljava/lang/Object;)V", "(LA;)V">>, <<"(LA;)V", "(LB;)V">>, <<"(I)V", "(I)V">>, <<"(I)V", "(J)V">>,
         <<"()LB;", "()LA;">>, <<"()V", "()LA;">>, <<"(LB;)V", "(LB;LB;)V">>, <<"([LB;)V", "([LA;)V">>, <<"(LB;I)LB;", "(LA;I)LA;">>,
         <<"(LB;)V", "(LS;)V">>}      \* S extends a class outside the jars: not provably unrelated to B
AccVariants == {{"synthetic", "bridge"}, {"synthetic"}, {"synthetic", "private"}, {"synthetic", "static"}, {"synthetic", "final"},
                {"bridge"}, {}, {"synthetic", "bridge", "static"}}
CallVariants == {"none", "delegate", "two", "ctor", "base", "nocode", "outside"}
TypeHomes == {"main", "lib", "nowhere", "onlyA", "diamond"}

TypeClasses == ("A" :> Cls("B", <<>>, <<>>)) @@ ("B" :> Cls(OBJECT, <<>>, <<>>)) @@ ("S" :> Cls("ext/Outside", <<>>, <<>>))
(* A reaches B over a repeated interface: A extends Mid, Mid implements K and J, J extends K and B (all in the main jar) *)
DiamondClasses == ("A" :> Cls("Mid", <<>>, <<>>)) @@ ("Mid" :> Cls(OBJECT, <<"K", "J">>, <<>>)) @@ ("J" :> Cls(OBJECT, <<"K", "B">>, <<>>))
                  @@ ("K" :> Cls(OBJECT, <<>>, <<>>)) @@ ("B" :> Cls(OBJECT, <<>>, <<>>))
CallsOf(v, sig) ==
    CASE v = "none" -> {}
      [] v = "delegate" -> {<<"Sub", "t", sig[2]>>}
      [] v = "two" -> {<<"Sub", "t", sig[2]>>, <<"Sub", "u", "()V">>}
      [] v = "ctor" -> {<<"Sub", "t", sig[2]>>, <<"Box", "<init>", "()V">>}      \* wraps the result: a constructor call is a call
      [] v = "base" -> {<<"Base", "t", sig[2]>>}
      [] v = "outside" -> {<<"java/util/List", "size", "()I">>}
      [] v = "nocode" -> {}

Init == phase = "start" /\ main = <<>> /\ libs = <<>> /\ cal = <<>> /\ named = <<>> /\ tag = <<>>
PickJar ==
    /\ phase = "start"
    /\ \E sig \in Sigs, acc \in AccVariants, cv \in CallVariants, home \in TypeHomes, twin \in BOOLEAN :
        \* twin: Base has a bridge of its own to Base.t, and Sub's bridge delegates to Base.t too - two bridges in two classes, one delegate
        /\ (twin => cv = "base" /\ acc = {"synthetic", "bridge"} /\ home \in {"main", "nowhere"})
        /\ main' = ("Top" :> Cls(OBJECT, <<>>, <<Meth("br", sig[1], {"abstract"}, FALSE, {})>>))
                   @@ ("Base" :> Cls("Top", <<>>, <<IF twin THEN Meth("br", sig[1], {"synthetic", "bridge"}, TRUE, {<<"Base", "t", sig[2]>>})
                                                     ELSE Meth("br", sig[1], {"abstract"}, FALSE, {}),
                                                   Meth("t", sig[2], {}, TRUE, {})>>))
                   @@ ("Sub" :> Cls("Base", <<"Itf">>, <<Meth("br", sig[1], acc, cv # "nocode", CallsOf(cv, sig)),
                                                         Meth("t", sig[2], {}, TRUE, {}),
                                                         Meth("u", "()V", {"synthetic"}, TRUE, {})>>))
                   @@ (IF home = "main" THEN TypeClasses ELSE IF home = "onlyA" THEN ("A" :> Cls("B", <<>>, <<>>))
                       ELSE IF home = "diamond" THEN DiamondClasses ELSE <<>>)
        /\ libs' = ("Itf" :> Cls(OBJECT, <<>>, <<>>)) @@ (IF home = "lib" THEN TypeClasses ELSE <<>>)
        /\ tag' = [sig |-> sig, acc |-> acc, cv |-> cv, home |-> home, twin |-> twin]
    /\ phase' = "jar" /\ UNCHANGED <<cal, named>>

NSC == <<"official", "intermediary">>
NSN == <<"intermediary", "named">>
Off(s) == s   \* official names are the names used above
PickMaps ==
    /\ phase = "jar"
    /\ \E ren \in BOOLEAN, where \in {"sub", "base", "top", "nowhere", "shadow"}, existing \in {"none", "plain", "rich"}, hasclass \in BOOLEAN :
        LET iSub == IF ren THEN "isub" ELSE "Sub"
            iBase == IF ren THEN "ibase" ELSE "Base"
            iTop == IF ren THEN "itop" ELSE "Top"
            iA == IF ren THEN "ia" ELSE "A"
            ibr == IF ren THEN "ibr" ELSE "br"
            it == IF ren THEN "it" ELSE "t"
            calM == Root(NSC, <<>>, MapOf(
                        {Class(<<"Sub", iSub>>, <<>>, MapOf({Method(<<"br", ibr>>, tag.sig[1], <<>>, <<>>), Method(<<"t", it>>, tag.sig[2], <<>>, <<>>)})),
                         Class(<<"Base", iBase>>, <<>>, MapOf({Method(<<"br", ibr>>, tag.sig[1], <<>>, <<>>), Method(<<"t", it>>, tag.sig[2], <<>>, <<>>)})),
                         Class(<<"Top", iTop>>, <<>>, MapOf({Method(<<"br", ibr>>, tag.sig[1], <<>>, <<>>)})),
                         Class(<<"A", iA>>, <<>>, <<>>)}))
            isig1 == MapDesc(ClassTable(calM, 1, 2), tag.sig[1]).v
            isig2 == MapDesc(ClassTable(calM, 1, 2), tag.sig[2]).v
            brEntry(n) == Method(<<ibr, n>>, isig1, <<>>, <<>>)
            tEntry == CASE existing = "none" -> {}
                        [] existing = "plain" -> {Method(<<it, "oldName">>, isig2, <<>>, <<>>)}
                        [] existing = "rich" -> {Method(<<it, "">>, isig2, <<"delegate doc">>, MapOf({Param(0, <<"", "arg">>, <<"pd">>)}))}
            \* "shadow": Sub lists the bridge without a target name (an entry that only carries a parameter name) while Base names
            \* it: an entry without a name names nothing, the bridge's name still comes through inheritance (seed C15-9)
            brNameless == Method(<<ibr, "">>, isig1, <<>>, MapOf({Param(0, <<"", "barg">>, <<>>)}))
            subKids == MapOf((IF where = "sub" THEN {brEntry("namedInSub")} ELSE IF where = "shadow" THEN {brNameless} ELSE {}) \cup tEntry \cup {Method(<<"other", "otherNamed">>, "()V", <<"keep">>, <<>>)})
            baseKids == MapOf(IF where \in {"sub", "base", "shadow"} THEN {brEntry("namedInBase")} ELSE {})
        IN /\ cal' = calM
           /\ named' = Root(NSN, <<"root">>, MapOf(
                        (IF hasclass THEN {Class(<<iSub, "n/Sub">>, <<"cd">>, subKids)} ELSE {})
                        \* "top": the name comes from two levels up and the class in between has no entry in the named mappings
                        \cup (IF where = "top" THEN {Class(<<iTop, "n/Top">>, <<>>, MapOf({brEntry("namedInTop")}))} ELSE {Class(<<iBase, "n/Base">>, <<>>, baseKids)})
                        \cup {Class(<<"Unrelated", "n/U">>, <<>>, MapOf({Method(<<it, "x">>, isig2, <<>>, <<>>)}))}))
           /\ tag' = [tag EXCEPT !.sig = @] @@ [ren |-> ren, where |-> where, existing |-> existing, hasclass |-> hasclass]
    /\ (Tier = 0 => (tag.home \in {"main", "nowhere"} \/ tag.cv = "delegate"))
    /\ (tag.home = "diamond" => tag.cv = "delegate" /\ tag.acc \in {{"synthetic"}, {"synthetic", "bridge"}, {"synthetic", "final"}})
    /\ phase' = "case" /\ UNCHANGED <<main, libs>>
Next == PickJar \/ PickMaps
Spec == Init /\ [][Next]_vars

InvLaw == phase = "case" => BridgeLaw(main, libs, cal, named)
InvFunctional == phase = "case" => Functional(Updates(main, libs, cal, named))
(* sanity of the predicate on the universe: the flag decides, else the shape *)
InvPredicate ==
    phase = "case" =>
        LET q == Bridges(main) # {}
        IN /\ ("synthetic" \notin tag.acc => ~q)
           /\ (tag.cv \in {"none", "two", "ctor", "nocode"} => ~q)
           /\ ({"synthetic", "bridge"} \subseteq tag.acc /\ tag.cv \in {"delegate", "base", "outside"} => q)

(* a set has no order: the driver's list may come in any (sets of up to two pairs occur) *)
Orders(S) == IF Cardinality(S) = 2 THEN LET x == CHOOSE x \in S : TRUE  y == CHOOSE y \in S \ {x} : TRUE IN {<<x, y>>, <<y, x>>} ELSE {SetSeq(S)}
Emit ==
    phase = "case" =>
        /\ PrintT(ToJson([op |-> "bridges", main |-> main, tag |-> tag, any |-> (Bridges(main) # {}), exp |-> [anyof |-> SetSeq(Orders(Bridges(main)))]]))
        /\ PrintT(ToJson([op |-> "mappings", main |-> main, libs |-> libs, cal |-> cal, named |-> named, tag |-> tag,
                          any |-> (Relevant(named, Updates(main, libs, cal, named)) # {}),
                          exp |-> Ok(Result(main, libs, cal, named))]))
=============================================================================
