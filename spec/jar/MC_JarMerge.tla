---------------------------- MODULE MC_JarMerge ----------------------------
(***************************************************************************)
(* Bounded instance for C13.  Families of cases, all drawn inside Next in  *)
(* two or more steps (so that TLC's workers share them):                   *)
(*   lists      all pairs of duplicate-free lists over 4 symbols up to     *)
(*              length 4 (65 x 65 = 4225 pairs: prefixes, suffixes,        *)
(*              interleavings, permutations, disjoint, identical), at each *)
(*              of the levels interfaces / fields / methods; identical     *)
(*              pairs also as byte-identical classes                       *)
(*   row        one entry name of the pool x (absent | variant 1 | 2) on   *)
(*              each side: every row of the combination table with the     *)
(*              filters                                                    *)
(*   pair, triple   two (three) names at once                              *)
(*   classpair  one class on both sides; per level two member slots, each  *)
(*              absent / variant 0 / variant 1 (2) on each side, in both   *)
(*              orders: one-sided, shared-equal, shared-different members  *)
(* Each case is judged by the invariants (the operational model satisfies  *)
(* the law; where the routine AS CODED deviates is stated exactly) and     *)
(* emitted as a vector for replay through dukebox::merge::merge.           *)
(***************************************************************************)
EXTENDS JarMerge, Json

CONSTANT Tier        \* 0 = quick, 1 = thorough

VARIABLES phase, la, lb, lvl, same, C, S, idx
vars == <<phase, la, lb, lvl, same, C, S, idx>>

---------------------------------------------------------------------------
(* lists *)
Sym == 1..4
Lists == UNION {Perms(T) : T \in SUBSET Sym}
Levels == {"interfaces", "fields", "methods"}
(* concrete keys: members are keyed by name AND descriptor, interfaces by name *)
KeyTab == [interfaces |-> <<"p/A", "p/B", "q/A", "C">>,
           fields     |-> <<"x:I", "x:J", "y:I", "z:I">>,
           methods    |-> <<"m:()V", "m:(I)V", "n:()V", "<init>:()V">>]
Conc(l, level) == [i \in DOMAIN l |-> KeyTab[level][l[i]]]

IsPrefix(p, s) == Len(p) <= Len(s) /\ SubSeq(s, 1, Len(p)) = p
IsSuffix(p, s) == Len(p) <= Len(s) /\ SubSeq(s, Len(s) - Len(p) + 1, Len(s)) = p
Rel(a, b) ==
    IF a = b THEN "identical"
    ELSE IF Range(a) \cap Range(b) = {} THEN "disjoint"
    ELSE IF IsPrefix(a, b) \/ IsPrefix(b, a) THEN "prefix"
    ELSE IF IsSuffix(a, b) \/ IsSuffix(b, a) THEN "suffix"
    ELSE IF Range(a) = Range(b) THEN "permutation"
    ELSE IF Compatible(a, b) THEN "interleaving" ELSE "scrambled"

---------------------------------------------------------------------------
(* jars *)
Dir == [kind |-> "dir"]
Other(c) == [kind |-> "other", c |-> c]
Class(tag, itf, fields, methods) == [kind |-> "class", tag |-> tag, itf |-> itf, fields |-> fields, methods |-> methods]
M(k, v) == [k |-> k, v |-> v]

(* two versions of a class: members one-sided, shared-equal, shared-different, orders compatible *)
Cls1 == Class("t", <<"p/A">>, <<M("x:I", 0), M("y:I", 0)>>, <<M("<init>:()V", 0), M("m:()V", 0)>>)
Cls2 == Class("t", <<"p/A", "p/B">>, <<M("y:I", 1), M("z:I", 0)>>, <<M("<init>:()V", 0), M("n:()V", 0), M("m:()V", 1)>>)

Pool == <<"net/minecraft/A.class", "com/lib/B.class", "C.class", "net/minecraftx/D.class",
          "assets/r.txt", "com/lib/r.txt", "META-INF/MANIFEST.MF", "META-INF/S.SF", "META-INF/S.RSA",
          "META-INF/S.DSA", "META-INF/services/x", "META-INF/sub/T.SF", "r.SF", "net/minecraft/", "com/lib/">>
TriplePool == {1, 2, 3, 4, 5, 7, 8, 9, 10, 11, 14}
Variants(n) == CASE KindOfName(n) = "dir" -> {Dir}
                 [] KindOfName(n) = "other" -> {Other("one"), Other("two")}
                 [] OTHER -> {Cls1, Cls2}
Opt(n) == {<<>>} \cup {<<v>> : v \in Variants(n)}         \* absent or one of the variants
Put(J, n, o) == IF o = <<>> THEN J ELSE (n :> o[1]) @@ J

RowName(n) ==
    IF n = Manifest THEN "manifest"
    ELSE IF CodeSigFilter(n) /\ JarSpecSig(n) THEN "signature"
    ELSE IF JarSpecSig(n) THEN "sigblock-unfiltered"
    ELSE IF CodeSigFilter(n) THEN "nested-sf"
    ELSE IF StartsWith(n, "META-INF/") THEN "metainf-other"
    ELSE IF KindOfName(n) = "class"
    THEN (IF BundledLib(n) THEN "libclass" ELSE IF Contains(n, "/") THEN "class" ELSE "class-default-package")
    ELSE IF KindOfName(n) = "other"
    THEN (IF EndsWith(n, ".SF") THEN "sf-outside-metainf" ELSE IF StartsWith(n, "com/lib/") THEN "lib-resource" ELSE "other")
    ELSE KindOfName(n)
RowComb(n) ==
    IF Comb(n, C, S) # "Both" THEN Comb(n, C, S)
    ELSE IF C[n] = S[n] THEN "Both-equal" ELSE "Both-different"

(* classpair: the level under test varies, the other levels hold one shared-equal member *)
CPName == "net/minecraft/A.class"
CPKeys == [interfaces |-> <<"p/A", "p/B">>, fields |-> <<"x:I", "x:J">>, methods |-> <<"m:()V", "m:(I)V">>]
CPVar == [interfaces |-> {0}, fields |-> {0, 1}, methods |-> {0, 1, 2}]
SlotLists(level) ==
    LET k == CPKeys[level]
        V == CPVar[level]
    IN {<<>>} \cup {<<M(k[1], v)>> : v \in V} \cup {<<M(k[2], v)>> : v \in V}
       \cup {<<M(k[1], v), M(k[2], w)>> : v \in V, w \in V} \cup {<<M(k[2], v), M(k[1], w)>> : v \in V, w \in V}
CPClass(level, ms) ==
    Class("t",
          IF level = "interfaces" THEN KeysOf(ms) ELSE <<"p/Z">>,
          IF level = "fields" THEN ms ELSE <<M("s:I", 0)>>,
          IF level = "methods" THEN ms ELSE <<M("<init>:()V", 0)>>)
LevelOf(c, level) == IF level = "interfaces" THEN [i \in DOMAIN c.itf |-> M(c.itf[i], 0)]
                     ELSE IF level = "fields" THEN c.fields ELSE c.methods
SlotStatus(k, cl, sl) ==
    LET ci == {i \in DOMAIN cl : cl[i].k = k}
        si == {i \in DOMAIN sl : sl[i].k = k}
    IN IF ci = {} /\ si = {} THEN "absent"
       ELSE IF si = {} THEN "client" ELSE IF ci = {} THEN "server"
       ELSE IF cl[CHOOSE i \in ci : TRUE].v = sl[CHOOSE i \in si : TRUE].v THEN "equal" ELSE "different"

---------------------------------------------------------------------------
Init == phase = "start" /\ la = <<>> /\ lb = <<>> /\ lvl = "" /\ same = FALSE /\ C = <<>> /\ S = <<>> /\ idx = 0

PickA == phase = "start" /\ \E a \in Lists : la' = a /\ phase' = "a" /\ UNCHANGED <<lb, lvl, same, C, S, idx>>
PickB == phase = "a" /\ \E b \in Lists : lb' = b /\ phase' = "ab" /\ UNCHANGED <<la, lvl, same, C, S, idx>>
PickLevel ==
    /\ phase = "ab"
    /\ \E l \in Levels, sm \in BOOLEAN :
        /\ sm => la = lb
        /\ lvl' = l /\ same' = sm
    /\ phase' = "lists"
    /\ UNCHANGED <<la, lb, C, S, idx>>

(* premarked: a field / method only one side has, already marked @Environment(client | server); la carries the side, lb the mark *)
PickPre ==
    /\ phase = "start"
    /\ \E l \in {"fields", "methods"}, side \in {"client", "server"}, pre \in {"client", "server"} :
        lvl' = l /\ la' = <<side>> /\ lb' = <<pre>>
    /\ phase' = "pre"
    /\ UNCHANGED <<same, C, S, idx>>
InvPre == phase = "pre" => PreMarkedLaw(lb, la[1])

PickName(ph, from, allowed) ==
    /\ phase = from
    /\ \E i \in (idx + 1)..Len(Pool) :
        /\ i \in allowed
        /\ \E oc \in Opt(Pool[i]), os \in Opt(Pool[i]) :
            /\ ~(oc = <<>> /\ os = <<>>)
            /\ C' = Put(C, Pool[i], oc) /\ S' = Put(S, Pool[i], os)
        /\ idx' = i
    /\ phase' = ph
    /\ UNCHANGED <<la, lb, lvl, same>>
All == 1..Len(Pool)
PickRow == PickName("row", "start", All)
PickPair == PickName("pair", "row", All)
PickTriple == Tier = 1 /\ idx \in TriplePool /\ DOMAIN C \cup DOMAIN S \subseteq {Pool[i] : i \in TriplePool}
              /\ PickName("triple", "pair", TriplePool)

PickCPLevel == phase = "start" /\ \E l \in Levels : lvl' = l /\ phase' = "cpl" /\ UNCHANGED <<la, lb, same, C, S, idx>>
PickCPClient ==
    /\ phase = "cpl"
    /\ \E ms \in SlotLists(lvl) : C' = (CPName :> CPClass(lvl, ms))
    /\ phase' = "cpc"
    /\ UNCHANGED <<la, lb, lvl, same, S, idx>>
PickCPServer ==
    /\ phase = "cpc"
    /\ \E ms \in SlotLists(lvl) : S' = (CPName :> CPClass(lvl, ms))
    /\ phase' = "classpair"
    /\ UNCHANGED <<la, lb, lvl, same, C, idx>>

Next == PickPre \/ PickA \/ PickB \/ PickLevel \/ PickRow \/ PickPair \/ PickTriple \/ PickCPLevel \/ PickCPClient \/ PickCPServer
Spec == Init /\ [][Next]_vars

---------------------------------------------------------------------------
IsPairState == phase = "ab"
IsJars == phase \in {"row", "pair", "triple", "classpair"}

(* the repaired cursor algorithm satisfies the law on every pair *)
InvRepairedLaw == IsPairState => KeysLaw(MergeOrder(la, lb), la, lb)
InvRepairedMarked == IsPairState => MarkedMerge(la, lb) \in LawResults(la, lb)
(* compatible orders: the loops consume both lists, the tail append adds nothing *)
InvRepairedNoTail == (IsPairState /\ Compatible(la, lb)) =>
                        LET st == LoopExit(la, lb, FALSE) IN st.i = Len(la) + 1 /\ st.j = Len(lb) + 1
(* the law is satisfiable and, for compatible orders, demands both sides' orders *)
InvLawSat == IsPairState => LawResults(la, lb) # {}
InvCompatSym == IsPairState => (Compatible(la, lb) <=> Compatible(lb, la))
(* scrambled orders: no result can keep both orders (so demanding them would be wrong) *)
InvScrambled == (IsPairState /\ ~Compatible(la, lb)) =>
                    ~\E p \in Perms(Range(la) \cup Range(lb)) : Preserves(p, la) /\ Preserves(p, lb)

(* the routine as coded: never loses or duplicates a key, always keeps the client's order ... *)
InvAsCodedClosedForm == IsPairState => MergeOrderAsCoded(la, lb) = AsCodedClosedForm(la, lb)
InvAsCodedUnion == IsPairState => UnionOnce(MergeOrderAsCoded(la, lb), la, lb) /\ Preserves(MergeOrderAsCoded(la, lb), la)
(* ... and satisfies the law exactly where the server has nothing of its own before a common key *)
InvAsCodedDeviation == IsPairState =>
    (KeysLaw(MergeOrderAsCoded(la, lb), la, lb) <=> (~Compatible(la, lb) \/ ServerOnlyLast(la, lb)))
(* used by MC_JarMerge_ascoded.cfg only: claims the routine as coded satisfies the law (it does not) *)
InvAsCodedLaw == IsPairState => KeysLaw(MergeOrderAsCoded(la, lb), la, lb)

(* the operational merge satisfies the jar law *)
InvJarLaw == IsJars => /\ WellFormedJar(C) /\ WellFormedJar(S) /\ WellFormedClasses(C) /\ WellFormedClasses(S)
                       /\ JarLaw(MergeJars(C, S), C, S)
(* the table: one-sided / both, dropped exactly by the filters *)
InvTable == IsJars => \A n \in Names(C, S) :
                LET e == MergeJars(C, S).entries[n]
                IN e.in <=> ~(CodeSigFilter(n) \/ (Comb(n, C, S) = "Server" /\ BundledLib(n)))

---------------------------------------------------------------------------
(* vectors *)
CA == Conc(la, lvl)
CB == Conc(lb, lvl)
JarsCls ==
    IF phase = "row" THEN "row/" \o RowName(Pool[idx]) \o "/" \o RowComb(Pool[idx])
    ELSE IF phase = "classpair"
    THEN LET cl == LevelOf(C[CPName], lvl)
             sl == LevelOf(S[CPName], lvl)
         IN "classpair/" \o lvl \o "/" \o SlotStatus(CPKeys[lvl][1], cl, sl) \o "+" \o SlotStatus(CPKeys[lvl][2], cl, sl)
    ELSE phase
Emit ==
    /\ phase = "pre" =>
          PrintT(ToJson([op |-> "premarked", level |-> lvl, side |-> la[1], pre |-> lb[1],
                         exp |-> (("ok" :> TRUE) @@ ("found" :> TRUE) @@ (("has_" \o la[1]) :> TRUE) @@ (("has_" \o lb[1]) :> TRUE))]))
    /\ phase = "lists" =>
          PrintT(ToJson([op |-> "lists", level |-> lvl, a |-> CA, b |-> CB, same |-> same,
                         compatible |-> Compatible(la, lb), rel |-> Rel(la, lb),
                         exp |-> ExpLists(CA, CB, same)]))
    /\ IsJars =>
          PrintT(ToJson([op |-> "jars", cls |-> JarsCls, client |-> C, server |-> S, exp |-> ExpJars(C, S)]))
=============================================================================
