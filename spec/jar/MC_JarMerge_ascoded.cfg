\* demonstration only (not registered): claims that merge_preserve_order AS CODED satisfies the law.
\* TLC answers with the smallest counterexample (see NOTES-C13.md / FINDINGS-C13.md).
SPECIFICATION Spec
CONSTANT Tier = 0
INVARIANT InvAsCodedLaw
CHECK_DEADLOCK FALSE
