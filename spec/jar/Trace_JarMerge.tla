--------------------------- MODULE Trace_JarMerge ---------------------------
(***************************************************************************)
(* I2S for C13: every recorded merge of the real code is judged by the     *)
(* law.  A record carries the abstract input (two jars, or two key lists   *)
(* for the single class K) and the projection of the REAL result: entries  *)
(* present / byte-identical to the client's / the server's, and for every  *)
(* class of the result its interfaces, fields and methods in file order    *)
(* with their marks.  Accepted iff                                         *)
(*   UnionOnce /\ (Compatible => Preserves both) /\ marks correct          *)
(*   /\ entry table law.                                                   *)
(* Nothing is recomputed by an algorithm: any order the law admits passes. *)
(***************************************************************************)
EXTENDS JarMerge, Json, IOUtils

Rec == ndJsonDeserialize(IOEnv.TRACE)
VARIABLES l, rej

HasResult(r) == "got" \in DOMAIN r /\ "ok" \in DOMAIN r.got

InputOK(r) ==
    CASE r.op = "lists" -> NoDup(r.a) /\ NoDup(r.b) /\ (r.same => r.a = r.b)
      [] r.op = "jars" -> /\ WellFormedJar(r.client) /\ WellFormedJar(r.server)
                          /\ WellFormedClasses(r.client) /\ WellFormedClasses(r.server)
      [] r.op = "premarked" -> r.side \in {"client", "server"} /\ r.pre \in {"client", "server"} /\ r.level \in {"fields", "methods"}
      [] OTHER -> FALSE

Expected(r) ==
    IF ~InputOK(r) THEN [input |-> "outside the universe of the specification"]
    ELSE CASE r.op = "lists" -> ExpLists(r.a, r.b, r.same)
           [] r.op = "jars" -> ExpJars(r.client, r.server)
           [] r.op = "premarked" -> (("ok" :> TRUE) @@ ("found" :> TRUE) @@ (("has_" \o r.side) :> TRUE) @@ (("has_" \o r.pre) :> TRUE))

Accept(r) ==
    /\ InputOK(r)
    /\ HasResult(r)
    /\ CASE r.op = "lists" -> ListsLaw(r.got, r.a, r.b, r.same)
         [] r.op = "jars" -> JarLaw(r.got, r.client, r.server)
         [] r.op = "premarked" -> /\ PreMarkedLaw(<<r.pre>>, r.side)
                                  /\ r.got.ok /\ r.got.found /\ r.got["has_" \o r.side] /\ r.got["has_" \o r.pre]

Init == l = 1 /\ rej = 0
Next ==
    /\ l <= Len(Rec)
    /\ l' = l + 1
    /\ IF Accept(Rec[l]) THEN rej' = rej
       ELSE /\ PrintT(ToJson([reject |-> l, exp |-> Expected(Rec[l])]))
            /\ rej' = rej + 1
Spec == Init /\ [][Next]_<<l, rej>>

(* every line was consumed *)
Consumed == TLCGet("stats").diameter - 1 = Len(Rec)
=============================================================================
