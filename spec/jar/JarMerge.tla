------------------------------ MODULE JarMerge ------------------------------
(***************************************************************************)
(* C13: client/server jar merge is a faithful, annotated union.            *)
(*                                                                         *)
(* Code: dukebox/src/merge.rs                                              *)
(*   merge_preserve_order  -> MergeOrder (operational, three inner loops,  *)
(*                            no_change exit, tail append)                 *)
(*   merge_slice / class_merger_merge -> MarkedMerge / ClassMerge          *)
(*   merge (MergeCombination Client / Server / Both, the filters)          *)
(*                         -> MergeEntry / MergeJars                       *)
(*   sided_annotation / make_annotation -> the marks "client" / "server"   *)
(*                                                                         *)
(* Every part is written twice: operationally (one definition per loop or  *)
(* match arm of the code) and declaratively (ListLaw, ClassLaw, EntryLaw,  *)
(* JarLaw: the property text).  The laws judge a RESULT; they never name   *)
(* an algorithm: any order satisfying ListLaw is accepted.                 *)
(*                                                                         *)
(* Abstract values (= the JSON on the wire)                                *)
(*   jar     name -> entry                                                 *)
(*   entry   [kind |-> "dir"] | [kind |-> "other", c |-> content id]       *)
(*           | [kind |-> "class", tag, itf, fields, methods]               *)
(*           tag = content id of everything that is not a member           *)
(*           itf = <<interface name ..>>                                   *)
(*           fields, methods = <<[k |-> "name:desc", v |-> variant] ..>>   *)
(*   the kind of an entry is a function of its name (zip: a trailing "/"   *)
(*   makes a directory; the code: ".class" makes a class)                  *)
(*   marked list  [k |-> <<key ..>>, m |-> <<mark ..>>], marks "client",   *)
(*           "server", "none" ("?" = the projection did not recognise the  *)
(*           annotation: never accepted)                                   *)
(*   result (projection of the real merged jar, and of the model's)        *)
(*       [ok, extra, dups, entries, classes]                               *)
(*       extra    names of the result that neither input has               *)
(*       dups     names occurring more than once in the result             *)
(*       entries  name of either input -> [in, eqc, eqs]: present, bytes   *)
(*                equal to the client's / the server's entry of that name  *)
(*       classes  class name present in the result -> [mark, itf, fields,  *)
(*                methods, xitf]; itf/fields/methods marked lists, xitf    *)
(*                interface marks that name no interface of the class      *)
(***************************************************************************)
EXTENDS Naturals, Sequences, FiniteSets, TLC

---------------------------------------------------------------------------
(* strings (TLC evaluates Len and SubSeq on strings) *)
StartsWith(s, p) == Len(s) >= Len(p) /\ SubSeq(s, 1, Len(p)) = p
EndsWith(s, p) == Len(s) >= Len(p) /\ SubSeq(s, Len(s) - Len(p) + 1, Len(s)) = p
Contains(s, ch) == \E i \in 1..Len(s) : SubSeq(s, i, i) = ch
CountOf(s, ch) == Cardinality({i \in 1..Len(s) : SubSeq(s, i, i) = ch})

(* lists *)
Range(s) == {s[i] : i \in DOMAIN s}
NoDup(s) == \A i, j \in DOMAIN s : i # j => s[i] # s[j]
Restrict(s, S) == SelectSeq(s, LAMBDA x : x \in S)
Without(s, S) == SelectSeq(s, LAMBDA x : x \notin S)
KeysOf(ms) == [i \in DOMAIN ms |-> ms[i].k]
RECURSIVE Perms(_)
Perms(S) == IF S = {} THEN {<<>>} ELSE UNION {{<<x>> \o p : p \in Perms(S \ {x})} : x \in S}

---------------------------------------------------------------------------
(* THE LAW on a merged list                                                *)
(* a = client's keys, b = server's keys (both duplicate free), r = result  *)

UnionOnce(k, a, b) == NoDup(k) /\ Range(k) = Range(a) \cup Range(b)
(* the keys both sides have occur in the same relative order on both sides *)
Compatible(a, b) == Restrict(a, Range(b)) = Restrict(b, Range(a))
Preserves(k, a) == Restrict(k, Range(a)) = a
MarkOf(x, a, b) == IF x \in Range(a) /\ x \in Range(b) THEN "none"
                   ELSE IF x \in Range(a) THEN "client" ELSE "server"
MarksOK(r, a, b) == \A i \in DOMAIN r.k : r.m[i] = MarkOf(r.k[i], a, b)
OrderLaw(k, a, b) == Compatible(a, b) => (Preserves(k, a) /\ Preserves(k, b))
KeysLaw(k, a, b) == UnionOnce(k, a, b) /\ OrderLaw(k, a, b)

ListLaw(r, a, b) ==
    /\ Len(r.k) = Len(r.m)
    /\ UnionOnce(r.k, a, b)
    /\ OrderLaw(r.k, a, b)
    /\ MarksOK(r, a, b)

Marked(k, a, b) == [k |-> k, m |-> [i \in DOMAIN k |-> MarkOf(k[i], a, b)]]
(* the extension of the law: every result it admits (small lists only) *)
LawResults(a, b) == {r \in {Marked(p, a, b) : p \in Perms(Range(a) \cup Range(b))} : ListLaw(r, a, b)}

---------------------------------------------------------------------------
(* merge_preserve_order, operationally.  State of the cursor machine:      *)
(* i = client cursor (ai), j = server cursor (bi), r = output, ch = some   *)
(* inner loop made progress in this round (= !no_change).                  *)
(* asCoded = TRUE gives the routine as it stands in merge.rs:              *)
(*   loop 1 advances only ai (bi.peek() is compared, bi never moves)       *)
(*   loop 3 tests !b.contains(x) for x taken from b (can never fire)       *)
(* asCoded = FALSE is the routine the law demands (and the Java original): *)
(*   loop 1 advances both cursors over a common head                      *)
(*   loop 3 tests !a.contains(x)                                           *)

RECURSIVE Loop1(_, _, _, _), Loop2(_, _, _), Loop3(_, _, _, _), Rounds(_, _, _, _)

Loop1(a, b, st, asCoded) ==      \* while ai.next_if(|x| bi.peek() == x)
    IF st.i <= Len(a) /\ st.j <= Len(b) /\ a[st.i] = b[st.j]
    THEN Loop1(a, b, [i |-> st.i + 1, j |-> IF asCoded THEN st.j ELSE st.j + 1,
                      r |-> Append(st.r, a[st.i]), ch |-> TRUE], asCoded)
    ELSE st

Loop2(a, b, st) ==               \* while ai.next_if(|x| !b.contains(x))
    IF st.i <= Len(a) /\ a[st.i] \notin Range(b)
    THEN Loop2(a, b, [st EXCEPT !.i = @ + 1, !.r = Append(@, a[st.i]), !.ch = TRUE])
    ELSE st

Loop3(a, b, st, asCoded) ==      \* while bi.next_if(|x| !X.contains(x)), X = b as coded, X = a repaired
    IF st.j <= Len(b) /\ b[st.j] \notin (IF asCoded THEN Range(b) ELSE Range(a))
    THEN Loop3(a, b, [st EXCEPT !.j = @ + 1, !.r = Append(@, b[st.j]), !.ch = TRUE], asCoded)
    ELSE st

Rounds(a, b, st, asCoded) ==     \* while ai.peek().is_some() || bi.peek().is_some()
    IF st.i > Len(a) /\ st.j > Len(b) THEN st
    ELSE LET s == Loop3(a, b, Loop2(a, b, Loop1(a, b, [st EXCEPT !.ch = FALSE], asCoded)), asCoded)
         IN IF ~s.ch THEN s      \* no_change: break
            ELSE Rounds(a, b, s, asCoded)

Cursor0 == [i |-> 1, j |-> 1, r |-> <<>>, ch |-> FALSE]
LoopExit(a, b, asCoded) == Rounds(a, b, Cursor0, asCoded)
(* r.extend(ai); r.extend(bi.filter(|x| !a.contains(x))) *)
TailAppend(a, b, st) == st.r \o SubSeq(a, st.i, Len(a)) \o Without(SubSeq(b, st.j, Len(b)), Range(a))

MergeOrder(a, b) == TailAppend(a, b, LoopExit(a, b, FALSE))           \* repaired: what the law demands
MergeOrderAsCoded(a, b) == TailAppend(a, b, LoopExit(a, b, TRUE))     \* named deviation: merge.rs today

(* closed form of the deviation: the client's list, then what only the server has *)
AsCodedClosedForm(a, b) == a \o Without(b, Range(a))
(* where the deviation still satisfies the law: scrambled orders (nothing demanded) or    *)
(* every server-only key already behind every common key in the server's list            *)
ServerOnlyLast(a, b) == \A i, j \in DOMAIN b : (b[i] \notin Range(a) /\ b[j] \in Range(a)) => j < i

(* A member only one side has gets that side's mark whatever marks it carries already (an input may itself be a merged *)
(* jar): the side callback appends the annotation, it does not look at what is there.                                   *)
SidedMarks(pre, side) == pre \o <<side>>
PreMarkedLaw(pre, side) == side \in Range(SidedMarks(pre, side)) /\ Range(pre) \subseteq Range(SidedMarks(pre, side))

(* merge_slice: the keys in merged order, each with the side callback's mark *)
MarkedMerge(a, b) == Marked(MergeOrder(a, b), a, b)
MarkedMergeAsCoded(a, b) == Marked(MergeOrderAsCoded(a, b), a, b)

(* expectation records enumerate the law's extension up to 6 keys (720 orders); beyond that  *)
(* (only in expectations printed for rejected trace records) one admissible result stands    *)
(* for all - the verdict on long lists is always ListLaw itself, never this enumeration      *)
LawResultsB(a, b) == IF Cardinality(Range(a) \cup Range(b)) <= 6 THEN LawResults(a, b) ELSE {MarkedMerge(a, b)}

---------------------------------------------------------------------------
(* names *)
Manifest == "META-INF/MANIFEST.MF"
IsDirName(n) == EndsWith(n, "/")
IsClassName(n) == ~IsDirName(n) /\ EndsWith(n, ".class")
KindOfName(n) == IF IsDirName(n) THEN "dir" ELSE IF IsClassName(n) THEN "class" ELSE "other"
WellFormedJar(J) == \A n \in DOMAIN J : J[n].kind = KindOfName(n)
ClassOK(c) == NoDup(c.itf) /\ NoDup(KeysOf(c.fields)) /\ NoDup(KeysOf(c.methods))
WellFormedClasses(J) == \A n \in DOMAIN J : J[n].kind = "class" => ClassOK(J[n])

(* the filter of merge.rs for signature files *)
CodeSigFilter(n) == StartsWith(n, "META-INF/") /\ (EndsWith(n, ".SF") \/ EndsWith(n, ".RSA"))
(* signature related files of the JAR specification: directly in META-INF, *.SF and the   *)
(* signature block files *.RSA *.DSA *.EC                                                  *)
JarSpecSig(n) == /\ StartsWith(n, "META-INF/") /\ CountOf(n, "/") = 1
                 /\ (EndsWith(n, ".SF") \/ EndsWith(n, ".RSA") \/ EndsWith(n, ".DSA") \/ EndsWith(n, ".EC"))
(* the filter of merge.rs for the libraries the server jar bundles (applied to server-only entries) *)
BundledLib(n) == EndsWith(n, ".class") /\ ~StartsWith(n, "net/minecraft/") /\ Contains(n, "/")

Names(C, S) == DOMAIN C \cup DOMAIN S
Comb(n, C, S) == IF n \in DOMAIN C /\ n \in DOMAIN S THEN "Both" ELSE IF n \in DOMAIN C THEN "Client" ELSE "Server"

---------------------------------------------------------------------------
(* merge, operationally: one definition per match arm.  The result is      *)
(* given in the projected form [in, eqc, eqs] (+ class projection).        *)

Absent == [in |-> FALSE, eqc |-> FALSE, eqs |-> FALSE]
NoMarks(k) == [k |-> k, m |-> [i \in DOMAIN k |-> "none"]]
ClassProj(mark, itf, fields, methods) == [mark |-> mark, itf |-> itf, fields |-> fields, methods |-> methods, xitf |-> <<>>]
(* visit_sided_annotation: the class as it is, plus the class level mark *)
SidedClass(c, side) == ClassProj(side, NoMarks(c.itf), NoMarks(KeysOf(c.fields)), NoMarks(KeysOf(c.methods)))
PlainClass(c) == ClassProj("none", NoMarks(c.itf), NoMarks(KeysOf(c.fields)), NoMarks(KeysOf(c.methods)))
(* class_merger_merge *)
ClassMergeWith(c, s, MM(_, _)) ==
    ClassProj("none", MM(c.itf, s.itf), MM(KeysOf(c.fields), KeysOf(s.fields)), MM(KeysOf(c.methods), KeysOf(s.methods)))
ClassMerge(c, s) == ClassMergeWith(c, s, MarkedMerge)
ClassMergeAsCoded(c, s) == ClassMergeWith(c, s, MarkedMergeAsCoded)

(* [in, eqc, eqs, cls]: cls = <<>> for entries that are not classes *)
MergeEntryWith(n, C, S, CM(_, _)) ==
    LET comb == Comb(n, C, S)
        inC == n \in DOMAIN C
        inS == n \in DOMAIN S
    IN IF n = Manifest
       THEN \* fixed text, whatever the inputs say
            [in |-> TRUE, eqc |-> FALSE, eqs |-> FALSE, cls |-> <<>>]
       ELSE IF CodeSigFilter(n) THEN Absent @@ [cls |-> <<>>]
       ELSE CASE comb = "Client" ->
                   IF C[n].kind = "class" THEN [in |-> TRUE, eqc |-> FALSE, eqs |-> FALSE, cls |-> SidedClass(C[n], "client")]
                   ELSE [in |-> TRUE, eqc |-> TRUE, eqs |-> FALSE, cls |-> <<>>]
              [] comb = "Server" ->
                   IF BundledLib(n) THEN Absent @@ [cls |-> <<>>]
                   ELSE IF S[n].kind = "class" THEN [in |-> TRUE, eqc |-> FALSE, eqs |-> FALSE, cls |-> SidedClass(S[n], "server")]
                   ELSE [in |-> TRUE, eqc |-> FALSE, eqs |-> TRUE, cls |-> <<>>]
              [] comb = "Both" ->
                   CASE C[n].kind = "dir" /\ S[n].kind = "dir" -> [in |-> TRUE, eqc |-> TRUE, eqs |-> TRUE, cls |-> <<>>]
                     [] C[n].kind = "class" /\ S[n].kind = "class" ->
                          IF C[n] = S[n] THEN [in |-> TRUE, eqc |-> TRUE, eqs |-> TRUE, cls |-> PlainClass(C[n])]
                          ELSE [in |-> TRUE, eqc |-> FALSE, eqs |-> FALSE, cls |-> CM(C[n], S[n])]
                     [] C[n].kind = "other" /\ S[n].kind = "other" ->
                          \* differing resources: the client's version is taken
                          [in |-> TRUE, eqc |-> TRUE, eqs |-> (C[n].c = S[n].c), cls |-> <<>>]
                     [] OTHER -> [err |-> TRUE]     \* "types don't match": not reachable for well formed jars

MergeJarsWith(C, S, CM(_, _)) ==
    LET E == [n \in Names(C, S) |-> MergeEntryWith(n, C, S, CM)]
        CN == {n \in Names(C, S) : E[n].in /\ KindOfName(n) = "class"}
    IN [ok |-> TRUE, extra |-> <<>>, dups |-> <<>>,
        entries |-> [n \in Names(C, S) |-> [in |-> E[n].in, eqc |-> E[n].eqc, eqs |-> E[n].eqs]],
        classes |-> [n \in CN |-> E[n].cls]]
MergeJars(C, S) == MergeJarsWith(C, S, ClassMerge)
MergeJarsAsCoded(C, S) == MergeJarsWith(C, S, ClassMergeAsCoded)

---------------------------------------------------------------------------
(* THE LAW on a merged jar (G = projected result)                          *)

(* entries that must not be in the result *)
MustDrop(n, C, S) == (CodeSigFilter(n) /\ JarSpecSig(n)) \/ (n \notin DOMAIN C /\ BundledLib(n))
(* "signature files" is not spelled out by the property: names on which the code's filter *)
(* and the JAR specification disagree may be kept or dropped                               *)
MayDrop(n) == CodeSigFilter(n) # JarSpecSig(n)

ClassLaw(g, e, n, C, S) ==
    /\ "bad" \notin DOMAIN g
    /\ CASE Comb(n, C, S) = "Client" ->
              /\ g.mark = "client" /\ Len(g.xitf) = 0
              /\ g.itf.k = C[n].itf /\ g.fields.k = KeysOf(C[n].fields) /\ g.methods.k = KeysOf(C[n].methods)
         [] Comb(n, C, S) = "Server" ->
              /\ g.mark = "server" /\ Len(g.xitf) = 0
              /\ g.itf.k = S[n].itf /\ g.fields.k = KeysOf(S[n].fields) /\ g.methods.k = KeysOf(S[n].methods)
         [] OTHER ->
              IF C[n] = S[n] THEN e.eqc /\ e.eqs         \* passed through byte-identical
              ELSE /\ g.mark = "none" /\ Len(g.xitf) = 0
                   /\ ListLaw(g.itf, C[n].itf, S[n].itf)
                   /\ ListLaw(g.fields, KeysOf(C[n].fields), KeysOf(S[n].fields))
                   /\ ListLaw(g.methods, KeysOf(C[n].methods), KeysOf(S[n].methods))

ContentLaw(n, G, C, S) ==
    LET e == G.entries[n]
        kind == KindOfName(n)
    IN CASE n = Manifest -> TRUE                 \* the property does not say what the merged manifest contains
         [] kind = "dir" -> TRUE
         [] kind = "other" ->
              CASE Comb(n, C, S) = "Client" -> e.eqc
                [] Comb(n, C, S) = "Server" -> e.eqs
                [] OTHER -> IF C[n].c = S[n].c THEN e.eqc /\ e.eqs
                            ELSE e.eqc \/ e.eqs  \* which side's differing resource wins is the code's choice
         [] kind = "class" -> n \in DOMAIN G.classes /\ ClassLaw(G.classes[n], e, n, C, S)

EntryLaw(n, G, C, S) ==
    IF MustDrop(n, C, S) THEN ~G.entries[n].in
    ELSE IF MayDrop(n) THEN (G.entries[n].in => ContentLaw(n, G, C, S))
    ELSE G.entries[n].in /\ ContentLaw(n, G, C, S)

JarLaw(G, C, S) ==
    /\ "ok" \in DOMAIN G /\ G.ok
    /\ Len(G.extra) = 0                          \* nothing but entries of either jar
    /\ Len(G.dups) = 0                           \* each exactly once
    /\ DOMAIN G.entries = Names(C, S)
    /\ \A n \in Names(C, S) : EntryLaw(n, G, C, S)

---------------------------------------------------------------------------
(* the law as an expectation record for S2I (small universes only): keys   *)
(* absent from an expectation are not judged, {"anyof": ..} = any of these *)

PresentExp(n, C, S) ==
    LET kind == KindOfName(n)
        comb == Comb(n, C, S)
    IN IF n = Manifest \/ kind = "dir" THEN [in |-> TRUE]
       ELSE IF kind = "other"
       THEN CASE comb = "Client" -> [in |-> TRUE, eqc |-> TRUE]
              [] comb = "Server" -> [in |-> TRUE, eqs |-> TRUE]
              [] OTHER -> IF C[n].c = S[n].c THEN [in |-> TRUE, eqc |-> TRUE, eqs |-> TRUE]
                          ELSE [anyof |-> <<[in |-> TRUE, eqc |-> TRUE], [in |-> TRUE, eqs |-> TRUE]>>]
       ELSE IF comb = "Both" /\ C[n] = S[n] THEN [in |-> TRUE, eqc |-> TRUE, eqs |-> TRUE]
       ELSE [in |-> TRUE]

EntryExp(n, C, S) ==
    IF MustDrop(n, C, S) THEN [in |-> FALSE]
    ELSE IF MayDrop(n) THEN [anyof |-> <<[in |-> FALSE], PresentExp(n, C, S)>>]
    ELSE PresentExp(n, C, S)

OneSidedExp(c, side) ==
    [mark |-> side, xitf |-> <<>>, itf |-> [k |-> c.itf], fields |-> [k |-> KeysOf(c.fields)], methods |-> [k |-> KeysOf(c.methods)]]
ClassExp(n, C, S) ==
    CASE Comb(n, C, S) = "Client" -> OneSidedExp(C[n], "client")
      [] Comb(n, C, S) = "Server" -> OneSidedExp(S[n], "server")
      [] OTHER ->
           IF C[n] = S[n] THEN PlainClass(C[n])
           ELSE [mark |-> "none", xitf |-> <<>>,
                 itf |-> [anyof |-> LawResultsB(C[n].itf, S[n].itf)],
                 fields |-> [anyof |-> LawResultsB(KeysOf(C[n].fields), KeysOf(S[n].fields))],
                 methods |-> [anyof |-> LawResultsB(KeysOf(C[n].methods), KeysOf(S[n].methods))]]

ExpJars(C, S) ==
    LET CN == {n \in Names(C, S) : KindOfName(n) = "class" /\ ~MustDrop(n, C, S) /\ ~MayDrop(n)}
    IN [ok |-> TRUE, extra |-> <<>>, dups |-> <<>>,
        entries |-> [n \in Names(C, S) |-> EntryExp(n, C, S)],
        classes |-> [n \in CN |-> ClassExp(n, C, S)]]

(* op "lists": one class K whose interfaces / fields / methods are a and b; same = the two *)
(* class files are byte-identical (possible only if a = b)                                 *)
ExpLists(a, b, same) ==
    IF same THEN [ok |-> TRUE, eqc |-> TRUE, eqs |-> TRUE, mark |-> "none", xitf |-> <<>>, r |-> NoMarks(a)]
    ELSE [ok |-> TRUE, mark |-> "none", xitf |-> <<>>, r |-> [anyof |-> LawResultsB(a, b)]]

ListsLaw(g, a, b, same) ==
    /\ "ok" \in DOMAIN g /\ g.ok
    /\ "bad" \notin DOMAIN g
    /\ g.mark = "none" /\ Len(g.xitf) = 0
    /\ ListLaw(g.r, a, b)
    /\ same => (g.eqc /\ g.eqs)
=============================================================================
