SPECIFICATION Spec
CONSTANT Tier = 0
INVARIANT InvMergeLaw
INVARIANT InvWellKeyed
INVARIANT Emit
CHECK_DEADLOCK FALSE
