------------------------------- MODULE Merge -------------------------------
(***************************************************************************)
(* Property C09.  Mappings::merge (quill/src/action/merge.rs): join of A   *)
(* over (s,a) and B over (s,b) into a set over (s,a,b).                    *)
(*                                                                         *)
(* Operational part: the code's zip over the union of keys with the three  *)
(* combinations A / B / AB per level (zip_map_combination + merge_names +  *)
(* merge_equal + merge_javadoc).                                           *)
(* Declarative part: IsMerge(R, A, B), the statement of the property, and  *)
(* Mergeable(A, B), the absence of the conflicts the property lists.       *)
(***************************************************************************)
EXTENDS MappingTree

---------------------------------------------------------------------------
(* Operational *)

(* merge_javadoc *)
MergeDoc(a, b) ==
    IF a = NoDoc THEN Ok(b)
    ELSE IF b = NoDoc \/ a = b THEN Ok(a)
    ELSE Err

(* merge_names for a one-sided entry *)
NamesA(n) == <<n[1], n[2], NoName>>
NamesB(n) == <<n[1], NoName, n[2]>>

RECURSIVE LiftA(_)
LiftA(n) == [n EXCEPT !.names = NamesA(n.names), !.kids = [k \in DOMAIN n.kids |-> LiftA(n.kids[k])]]
RECURSIVE LiftB(_)
LiftB(n) == [n EXCEPT !.names = NamesB(n.names), !.kids = [k \in DOMAIN n.kids |-> LiftB(n.kids[k])]]

RECURSIVE MergeKids(_, _)
(* Combination::AB at one node: merge_equal on descriptor / index, merge_names, children, javadoc *)
MergeBoth(a, b) ==
    IF a.desc # b.desc \/ a.idx # b.idx \/ a.names[1] # b.names[1] THEN Err
    ELSE LET rk == MergeKids(a.kids, b.kids)
             rd == MergeDoc(a.doc, b.doc)
         IN IF rk.ok /\ rd.ok
            THEN Ok(Node(a.kind, <<a.names[1], a.names[2], b.names[2]>>, a.desc, a.idx, rd.v, rk.v))
            ELSE Err

(* zip_map_combination *)
MergeKids(ak, bk) ==
    LET ks == DOMAIN ak \cup DOMAIN bk
        r == [k \in ks |->
                IF k \in DOMAIN ak /\ k \in DOMAIN bk THEN MergeBoth(ak[k], bk[k])
                ELSE IF k \in DOMAIN ak THEN Ok(LiftA(ak[k]))
                ELSE Ok(LiftB(bk[k]))]
    IN IF \A k \in ks : r[k].ok THEN Ok([k \in ks |-> r[k].v]) ELSE Err

Merge(A, B) ==
    IF A.ns[1] # B.ns[1] THEN Err
    ELSE LET rk == MergeKids(A.kids, B.kids)
             rd == MergeDoc(A.doc, B.doc)
         IN IF rk.ok /\ rd.ok THEN Ok(Root(<<A.ns[1], A.ns[2], B.ns[2]>>, rd.v, rk.v)) ELSE Err

---------------------------------------------------------------------------
(* Declarative *)

DocsAgree(a, b) == a = NoDoc \/ b = NoDoc \/ a = b

(* no conflict of the kinds the property lists, on any entry present in both *)
RECURSIVE MergeableKids(_, _)
MergeableKids(ak, bk) ==
    \A k \in DOMAIN ak \cap DOMAIN bk :
        /\ ak[k].desc = bk[k].desc                  \* conflicting descriptors
        /\ ak[k].idx = bk[k].idx                    \* conflicting parameter indices
        /\ ak[k].names[1] = bk[k].names[1]          \* same entry of the shared namespace
        /\ DocsAgree(ak[k].doc, bk[k].doc)          \* differing comments
        /\ MergeableKids(ak[k].kids, bk[k].kids)
Mergeable(A, B) ==
    /\ A.ns[1] = B.ns[1]                            \* differing first namespaces
    /\ DocsAgree(A.doc, B.doc)
    /\ MergeableKids(A.kids, B.kids)

(* "comments from whichever side has one" *)
DocIs(r, a, b) == r = (IF a # NoDoc THEN a ELSE b)

(* the merged kids rk are the join of ak (column 2) and bk (column 3) *)
RECURSIVE IsMergeKids(_, _, _)
IsMergeKids(rk, ak, bk) ==
    /\ DOMAIN rk = DOMAIN ak \cup DOMAIN bk         \* exactly the union of the keys
    /\ \A k \in DOMAIN rk :
        LET r == rk[k]
            inA == k \in DOMAIN ak
            inB == k \in DOMAIN bk
            x == IF inA THEN ak[k] ELSE bk[k]        \* a side that has the entry
        IN /\ Len(r.names) = 3
           /\ r.kind = x.kind /\ r.desc = x.desc /\ r.idx = x.idx
           /\ r.names[1] = x.names[1]
           /\ r.names[2] = (IF inA THEN ak[k].names[2] ELSE NoName)
           /\ r.names[3] = (IF inB THEN bk[k].names[2] ELSE NoName)
           /\ DocIs(r.doc, IF inA THEN ak[k].doc ELSE NoDoc, IF inB THEN bk[k].doc ELSE NoDoc)
           /\ IsMergeKids(r.kids, IF inA THEN ak[k].kids ELSE <<>>, IF inB THEN bk[k].kids ELSE <<>>)
IsMerge(R, A, B) ==
    /\ R.ns = <<A.ns[1], A.ns[2], B.ns[2]>>
    /\ DocIs(R.doc, A.doc, B.doc)
    /\ IsMergeKids(R.kids, A.kids, B.kids)

(* projection of a three-namespace set onto (1, c), restricted to the keys of `onto` *)
RECURSIVE ProjectKids(_, _, _)
ProjectKids(rk, c, ok) ==
    [k \in DOMAIN rk \cap DOMAIN ok |->
        [rk[k] EXCEPT !.names = <<rk[k].names[1], rk[k].names[c]>>,
                      !.doc = IF ok[k].doc = NoDoc THEN NoDoc ELSE @,
                      !.kids = ProjectKids(rk[k].kids, c, ok[k].kids)]]
(* "projecting the result back onto (s,a) and (s,b) gives back A and B": the entries *)
(* of A are found again unchanged (comments contributed by the other side aside)      *)
ProjectionLaw(R, A, B) ==
    /\ ProjectKids(R.kids, 2, A.kids) = A.kids
    /\ ProjectKids(R.kids, 3, B.kids) = B.kids

MergeLaw(A, B) ==
    LET r == Merge(A, B)
    IN /\ r.ok <=> Mergeable(A, B)
       /\ r.ok => IsMerge(r.v, A, B) /\ ProjectionLaw(r.v, A, B)
=============================================================================
