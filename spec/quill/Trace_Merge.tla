---------------------------- MODULE Trace_Merge ----------------------------
(* I2S for C09: every recorded Mappings::merge(A,B) of the real code is judged by the *)
(* declarative statement: refused iff a listed conflict exists, otherwise the result  *)
(* is the join (IsMerge) and projects back onto A and B.                              *)
EXTENDS Merge, Json, IOUtils

Rec == ndJsonDeserialize(IOEnv.TRACE)
VARIABLES l, rej

IsRes(g) == "ok" \in DOMAIN g /\ "v" \in DOMAIN g
Expected(r) == Merge(NormTree(r.A), NormTree(r.B))
Accept(r) ==
    LET a == NormTree(r.A)
        b == NormTree(r.B)
    IN /\ r.op = "merge"
       /\ IsRes(r.got)
       /\ r.got.ok <=> Mergeable(a, b)
       /\ r.got.ok => LET g == NormTree(r.got.v)
                      IN /\ IsMerge(g, a, b)
                         /\ ProjectionLaw(g, a, b)
                         /\ (WellKeyed(a) /\ WellKeyed(b) => WellKeyed(g))
                         /\ g = Merge(a, b).v

Init == l = 1 /\ rej = 0
Next ==
    /\ l <= Len(Rec)
    /\ l' = l + 1
    /\ IF Accept(Rec[l]) THEN rej' = rej
       ELSE /\ PrintT(ToJson([reject |-> l, exp |-> Expected(Rec[l])]))
            /\ rej' = rej + 1
Spec == Init /\ [][Next]_<<l, rej>>
Consumed == TLCGet("stats").diameter - 1 = Len(Rec)
=============================================================================
