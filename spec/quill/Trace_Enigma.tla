---------------------------- MODULE Trace_Enigma ----------------------------
(* I2S for C12: the text the real writer produced is read by the specification's reader  *)
(* machine; the real readers' results are compared with it; placement, file names and   *)
(* the round trip are judged on the recorded files.                                      *)
EXTENDS Enigma, Json, IOUtils

Rec == ndJsonDeserialize(IOEnv.TRACE)
VARIABLES l, rej

IsRes(g) == "ok" \in DOMAIN g /\ "v" \in DOMAIN g
SameRes(g, e) == IsRes(g) /\ g.ok = e.ok /\ (e.ok => NormTree(g.v) = e.v)

Expected(r) ==
    CASE r.op = "rt" -> (IF "stream" \in DOMAIN r.got THEN ReadStream(r.M.ns, r.got.stream.lines) ELSE <<>>)
      [] r.op = "lines" -> ReadStream(<<"src", "dst">>, r.lines)
      [] OTHER -> <<>>

AcceptRT(r) ==
    LET M == NormTree(r.M)
        g == r.got
    IN /\ "write" \in DOMAIN g
       /\ ~Writable(M) => g.write = "err"
       /\ Expressible(M) => g.write = "ok"
       /\ g.write = "ok" =>
            LET files == [i \in 1..Len(g.dir.files) |-> g.dir.files[i].lines]
                specS == ReadStream(M.ns, g.stream.lines)
                specD == ReadFiles(M.ns, files)
            IN \* the real readers agree with the reader machine on the real text
               /\ SameRes(g.stream.back, specS) /\ SameRes(g.dir.back, specD)
               /\ g.same /\ g.one
               /\ Expressible(M) =>
                    /\ specS = Ok(M) /\ specD = Ok(M)                             \* round trip
                    /\ g.sorted
                    /\ Len(files) = Cardinality(FileClasses(M))                   \* one file per class outside a parent
                    /\ {g.dir.files[i].name : i \in 1..Len(files)} = {FileName(c) : c \in FileClasses(M)}
                    /\ SumOver(g.dir.files, 1) = Cardinality(ClassSet(M))         \* every class on exactly one CLASS line
                    /\ CountClassLines(g.stream.lines) = Cardinality(ClassSet(M))
               \* two classes wanting the same file: refused, or both kept; never one silently lost
               /\ (ExpressibleContent(M) /\ ~DistinctFiles(M)) => (specS = Ok(M) /\ specD = Ok(M))
Accept(r) ==
    CASE r.op = "rt" -> AcceptRT(r)
      [] r.op = "lines" -> SameRes(r.got, ReadStream(<<"src", "dst">>, r.lines))
      [] OTHER -> FALSE

Init == l = 1 /\ rej = 0
Next ==
    /\ l <= Len(Rec)
    /\ l' = l + 1
    /\ IF Accept(Rec[l]) THEN rej' = rej
       ELSE /\ PrintT(ToJson([reject |-> l, exp |-> Expected(Rec[l])]))
            /\ rej' = rej + 1
Spec == Init /\ [][Next]_<<l, rej>>
Consumed == TLCGet("stats").diameter - 1 = Len(Rec)
=============================================================================
