--------------------------- MODULE Trace_Reorder ---------------------------
(* I2S for C08: recorded Mappings::reorder results judged by the declarative statement. *)
EXTENDS Reorder, Json, IOUtils

Rec == ndJsonDeserialize(IOEnv.TRACE)
VARIABLES l, rej

IsRes(g) == "ok" \in DOMAIN g /\ "v" \in DOMAIN g
Expected(r) == Reorder(NormTree(r.M), r.order)
Accept(r) ==
    LET M == NormTree(r.M)
        pi == TableOf(M, r.order)
    IN /\ r.op = "reorder"
       /\ IsRes(r.got.first)
       /\ IF ~IsPerm(pi, Len(M.ns)) THEN (\E i \in 1..Len(pi) : pi[i] = 0) => ~r.got.first.ok
          ELSE /\ r.got.first.ok <=> Defined(M, pi)
               /\ r.got.first.ok =>
                    LET g == NormTree(r.got.first.v)
                    IN /\ IsReorder(g, M, pi)
                       /\ g = Reorder(M, r.order).v
                       /\ (r.order = M.ns => g = M)
                       /\ NoCapture(M, pi) => (IsRes(r.got.back) /\ r.got.back.ok /\ NormTree(r.got.back.v) = M)

Init == l = 1 /\ rej = 0
Next ==
    /\ l <= Len(Rec)
    /\ l' = l + 1
    /\ IF Accept(Rec[l]) THEN rej' = rej
       ELSE /\ PrintT(ToJson([reject |-> l, exp |-> Expected(Rec[l])]))
            /\ rej' = rej + 1
Spec == Init /\ [][Next]_<<l, rej>>
Consumed == TLCGet("stats").diameter - 1 = Len(Rec)
=============================================================================
