------------------------------- MODULE Enigma -------------------------------
(***************************************************************************)
(* Property C12.  The Enigma text format, single stream and directory      *)
(* (quill/src/enigma_file.rs, enigma_dir.rs, lines.rs).                    *)
(*                                                                         *)
(* A text is a sequence of line records [ind, text]: ind = number of       *)
(* leading tabs, text = the rest of the line.  The tokeniser (cut at '#'   *)
(* unless the line starts with COMMENT, trim, split at every whitespace    *)
(* character) is part of the specification.                                *)
(*                                                                         *)
(* Reader: the code's indentation machine with recursive CLASS nesting and *)
(* prefix re-attachment, one Step per line, open path explicit.            *)
(* Writer: placement of classes into files / under parents, prefix         *)
(* stripping for nested classes, one COMMENT line per comment line.        *)
(* Sibling order is a parameter (`flip`): the property fixes it only as    *)
(* "sorted", which is judged on the real output.                           *)
(***************************************************************************)
EXTENDS InnerNames

Line(ind, text) == [ind |-> ind, text |-> text]
StartsWith(s, p) == Len(s) >= Len(p) /\ SubSeq(s, 1, Len(p)) = p

WS == {" ", "\t", "\n", "\f", "\r"}
FirstPos(s, c) == IF HasChar(s, c) THEN CHOOSE i \in 1..Len(s) : Ch(s, i) = c /\ \A j \in 1..(i - 1) : Ch(s, j) # c ELSE 0
RECURSIVE TrimL(_), TrimR(_)
TrimL(s) == IF Len(s) > 0 /\ Ch(s, 1) \in WS THEN TrimL(SubSeq(s, 2, Len(s))) ELSE s
TrimR(s) == IF Len(s) > 0 /\ Ch(s, Len(s)) \in WS THEN TrimR(SubSeq(s, 1, Len(s) - 1)) ELSE s
Trim(s) == TrimR(TrimL(s))

(* split at every character of `seps`; consecutive separators give empty fields *)
RECURSIVE SplitAt(_, _, _, _)
SplitAt(s, seps, i, start) ==
    IF i > Len(s) THEN <<SubSeq(s, start, Len(s))>>
    ELSE IF Ch(s, i) \in seps THEN <<SubSeq(s, start, i - 1)>> \o SplitAt(s, seps, i + 1, i + 1)
    ELSE SplitAt(s, seps, i + 1, start)
SplitStr(s, seps) == SplitAt(s, seps, 1, 1)
RECURSIVE JoinWith(_, _)
JoinWith(fs, sep) == IF Len(fs) = 0 THEN "" ELSE IF Len(fs) = 1 THEN fs[1] ELSE fs[1] \o sep \o JoinWith(Tail(fs), sep)

(* EnigmaLine::new: <<>> for a line that carries nothing, else the fields (first = tag) *)
Tokens(text) ==
    LET body == IF StartsWith(text, "COMMENT") THEN text
                ELSE Trim(IF HasChar(text, "#") THEN SubSeq(text, 1, FirstPos(text, "#") - 1) ELSE text)
    IN IF body = "" THEN <<>> ELSE SplitStr(body, WS)

IsMod(s) == StartsWith(s, "ACC:")
Digits == <<"0", "1", "2", "3", "4", "5", "6", "7", "8", "9">>
IsNat(str) == Len(str) > 0 /\ \A i \in 1..Len(str) : \E j \in 1..10 : Digits[j] = Ch(str, i)
DigitVal(c) == (CHOOSE i \in 1..10 : Digits[i] = c) - 1
RECURSIVE ToNat(_)
ToNat(str) == IF Len(str) = 0 THEN 0 ELSE ToNat(SubSeq(str, 1, Len(str) - 1)) * 10 + DigitVal(Ch(str, Len(str)))

---------------------------------------------------------------------------
(* Reader.  State: classes (flat map, key "c <full source name>"), the     *)
(* path of open entries, ok.  A path frame is                              *)
(*   [kind, ckey, mkey, pkey, psrc, pdst]                                  *)
(* kind "c": ckey = its class; psrc / pdst = the prefixes its nested       *)
(* classes are re-attached to.  "f"/"m": mkey in class ckey.  "p": pkey.   *)
Frame(kind, ckey, mkey, pkey, psrc, pdst) == [kind |-> kind, ckey |-> ckey, mkey |-> mkey, pkey |-> pkey, psrc |-> psrc, pdst |-> pdst]
RS(ok, classes, path) == [ok |-> ok, classes |-> classes, path |-> path]
Fail(s) == [s EXCEPT !.ok = FALSE]

AddDoc(doc, text) == IF doc = NoDoc THEN <<text>> ELSE <<doc[1] \o "\n" \o text>>

MaxClassNesting == 255
OpenClass(s, k, args) ==
    LET n == Len(args)
        parent == IF k = 0 THEN <<>> ELSE <<s.path[k]>>
    IN IF n < 1 \/ n > 3 THEN Fail(s)
       ELSE IF k > MaxClassNesting THEN Fail(s)            \* a class line k levels in is read by the k-th nested call of parse_class
       ELSE LET src0 == args[1]
                hasDst == ~(n = 1 \/ (n = 2 /\ IsMod(args[2])))
                src == IF parent = <<>> THEN src0 ELSE parent[1].psrc \o "$" \o src0
                dst == IF ~hasDst THEN "" ELSE IF parent = <<>> THEN args[2] ELSE parent[1].pdst \o "$" \o args[2]
                key == "c " \o src
            IN IF src = "" \/ (hasDst /\ dst = "") THEN Fail(s)                                    \* empty names are refused
               ELSE IF key \in DOMAIN s.classes THEN Fail(s)                                          \* add_class: key exists
               ELSE [s EXCEPT !.classes = @ @@ (key :> Class(<<src, dst>>, NoDoc, <<>>)),
                              !.path = SubSeq(s.path, 1, k) \o <<Frame("c", key, "", "", src, IF dst = "" THEN src ELSE dst)>>]

(* FIELD / METHOD: name [dst] desc [modifier] *)
OpenMember(s, k, kind, args) ==
    LET n == Len(args)
        ckey == s.path[k].ckey
    IN IF n < 2 \/ n > 4 THEN Fail(s)
       ELSE LET two == n = 2 \/ (n = 3 /\ IsMod(args[3]))
                src == args[1]
                dst == IF two THEN "" ELSE args[2]
                desc == IF two THEN args[2] ELSE args[3]
                node == IF kind = "f" THEN Field(<<src, dst>>, desc, NoDoc) ELSE Method(<<src, dst>>, desc, NoDoc, <<>>)
                key == KeyOf(node)
            IN IF src = "" \/ desc = "" \/ (~two /\ dst = "") THEN Fail(s)
               ELSE IF key \in DOMAIN s.classes[ckey].kids THEN Fail(s)
               ELSE [s EXCEPT !.classes[ckey].kids = @ @@ (key :> node),
                              !.path = SubSeq(s.path, 1, k) \o <<Frame(kind, ckey, key, "", "", "")>>]

OpenParam(s, k, args) ==
    LET ckey == s.path[k].ckey
        mkey == s.path[k].mkey
    IN IF Len(args) # 2 \/ ~IsNat(args[1]) \/ args[2] = "" THEN Fail(s)
       ELSE LET node == Param(ToNat(args[1]), <<"", args[2]>>, NoDoc)
                key == KeyOf(node)
            IN IF key \in DOMAIN s.classes[ckey].kids[mkey].kids THEN Fail(s)
               ELSE [s EXCEPT !.classes[ckey].kids[mkey].kids = @ @@ (key :> node),
                              !.path = SubSeq(s.path, 1, k) \o <<Frame("p", ckey, mkey, key, "", "")>>]

Comment(s, k, args) ==
    LET f == s.path[k]
        text == JoinWith(args, " ")
        s2 == [s EXCEPT !.path = SubSeq(s.path, 1, k)]
    IN CASE f.kind = "c" -> [s2 EXCEPT !.classes[f.ckey].doc = AddDoc(@, text)]
         [] f.kind \in {"f", "m"} -> [s2 EXCEPT !.classes[f.ckey].kids[f.mkey].doc = AddDoc(@, text)]
         [] f.kind = "p" -> [s2 EXCEPT !.classes[f.ckey].kids[f.mkey].kids[f.pkey].doc = AddDoc(@, text)]

Step(s, line) ==
    LET toks == Tokens(line.text)
        k == line.ind
    IN IF ~s.ok \/ toks = <<>> THEN s                       \* blank and comment-only lines carry nothing
       ELSE IF k > Len(s.path) THEN Fail(s)                 \* deeper than any open entry
       ELSE LET ctx == IF k = 0 THEN "r" ELSE s.path[k].kind
                tag == toks[1]
                args == Tail(toks)
            IN CASE ctx \in {"r", "c"} /\ tag = "CLASS" -> OpenClass(s, k, args)
                 [] ctx = "c" /\ tag = "FIELD" -> OpenMember(s, k, "f", args)
                 [] ctx = "c" /\ tag = "METHOD" -> OpenMember(s, k, "m", args)
                 [] ctx = "m" /\ tag = "ARG" -> OpenParam(s, k, args)
                 [] ctx \in {"c", "f", "m", "p"} /\ tag = "COMMENT" -> Comment(s, k, args)
                 [] OTHER -> Fail(s)

RECURSIVE Run(_, _, _)
Run(s, lines, i) == IF i > Len(lines) THEN s ELSE Run(Step(s, lines[i]), lines, i + 1)

(* read_into appends into existing mappings; every file starts with an empty path *)
ReadInto(classes, lines) == Run(RS(TRUE, classes, <<>>), lines, 1)
RECURSIVE ReadFilesFrom(_, _, _)
ReadFilesFrom(s, files, i) ==
    IF i > Len(files) \/ ~s.ok THEN s ELSE ReadFilesFrom(ReadInto(s.classes, files[i]), files, i + 1)
(* result of reading a sequence of files (each a sequence of lines) into namespaces ns *)
ReadFiles(ns, files) ==
    LET s == ReadFilesFrom(RS(TRUE, <<>>, <<>>), files, 1)
    IN IF s.ok THEN Ok(Root(ns, NoDoc, s.classes)) ELSE Err
ReadStream(ns, lines) == ReadFiles(ns, <<lines>>)

---------------------------------------------------------------------------
(* Writer *)
ClassSet(M) == {M.kids[k] : k \in DOMAIN M.kids}
Src(c) == c.names[1]
Dst(c) == c.names[2]
(* a class is written inside its parent iff its source name is nested and the parent is in the set *)
InParent(M, c) == Nested(Src(c)) /\ HasClass(M, ParentOf(Src(c)))
FileClasses(M) == {c \in ClassSet(M) : ~InParent(M, c)}
FileName(c) == IF Dst(c) # NoName THEN Dst(c) ELSE Src(c)
ChildrenOf(M, c) == {d \in ClassSet(M) : InParent(M, d) /\ ParentOf(Src(d)) = Src(c)}

DocLines(doc, ind) ==
    IF doc = NoDoc THEN <<>>
    ELSE LET ls == SplitStr(doc[1], {"\n"}) IN [i \in 1..Len(ls) |-> Line(ind, "COMMENT " \o ls[i])]

Opt(s) == IF s = "" THEN "" ELSE " " \o s
MemberLines(n, ind) ==
    CASE n.kind = "f" -> <<Line(ind, "FIELD " \o n.names[1] \o Opt(n.names[2]) \o " " \o n.desc)>> \o DocLines(n.doc, ind + 1)
      [] n.kind = "m" -> <<Line(ind, "METHOD " \o n.names[1] \o Opt(IF n.names[2] = "<init>" THEN "" ELSE n.names[2]) \o " " \o n.desc)>>
                           \o DocLines(n.doc, ind + 1)
      [] n.kind = "p" -> <<Line(ind, "ARG " \o ToString(n.idx) \o " " \o n.names[2])>> \o DocLines(n.doc, ind + 1)

(* the elements of a finite set in some order / the reverse order *)
RECURSIVE SeqOf(_, _)
SeqOf(S, flip) ==
    IF S = {} THEN <<>>
    ELSE LET x == CHOOSE x \in S : TRUE
         IN IF flip THEN SeqOf(S \ {x}, flip) \o <<x>> ELSE <<x>> \o SeqOf(S \ {x}, flip)
RECURSIVE Flatten(_)
Flatten(ss) == IF ss = <<>> THEN <<>> ELSE Head(ss) \o Flatten(Tail(ss))

KindKids(n, kind) == {n.kids[k] : k \in {k \in DOMAIN n.kids : n.kids[k].kind = kind}}
MethodLines(m, ind, flip) ==
    MemberLines(m, ind) \o Flatten([i \in 1..Cardinality(KindKids(m, "p")) |-> MemberLines(SeqOf(KindKids(m, "p"), flip)[i], ind + 1)])

(* the names shown on a CLASS line: full names for a class that starts a file, *)
(* the parts after the last $ for a class written inside its parent             *)
ShownSrc(c, nested) == IF nested THEN InnerOf(Src(c)) ELSE Src(c)
ShownDst(c, nested) == IF Dst(c) = NoName THEN "" ELSE IF nested /\ Nested(Dst(c)) THEN InnerOf(Dst(c)) ELSE Dst(c)

RECURSIVE ClassLines(_, _, _, _, _)
ClassLines(M, c, ind, nested, flip) ==
    LET fs == SeqOf(KindKids(c, "f"), flip)
        ms == SeqOf(KindKids(c, "m"), flip)
        cs == SeqOf(ChildrenOf(M, c), flip)
    IN <<Line(ind, "CLASS " \o ShownSrc(c, nested) \o Opt(ShownDst(c, nested)))>>
       \o DocLines(c.doc, ind + 1)
       \o Flatten([i \in 1..Len(fs) |-> MemberLines(fs[i], ind + 1)])
       \o Flatten([i \in 1..Len(ms) |-> MethodLines(ms[i], ind + 1, flip)])
       \o Flatten([i \in 1..Len(cs) |-> ClassLines(M, cs[i], ind + 1, TRUE, flip)])

(* one file per class that is not written inside a parent *)
Files(M, flip) ==
    LET fc == SeqOf(FileClasses(M), flip)
    IN [i \in 1..Len(fc) |-> [name |-> FileName(fc[i]), lines |-> ClassLines(M, fc[i], 0, FALSE, flip)]]
StreamLines(M, flip) ==
    LET fs == Files(M, flip)
    IN Flatten([i \in 1..Len(fs) |-> <<Line(0, "#"), Line(0, "# " \o fs[i].name)>> \o fs[i].lines])

(* parameters without a target name cannot be written *)
Writable(M) ==
    \A c \in ClassSet(M) : \A m \in KindKids(c, "m") : \A p \in KindKids(m, "p") : p.names[2] # NoName

---------------------------------------------------------------------------
(* What the format can express.                                            *)
NoBadChar(s) == \A i \in 1..Len(s) : Ch(s, i) \notin (WS \cup {"#"})
CommentOK(doc) == doc = NoDoc \/ \A i \in 1..Len(doc[1]) : Ch(doc[1], i) \notin {"\t", "\f", "\r"}
ParentDstOrSrc(M, c) == LET p == M.kids[ClassKey(ParentOf(Src(c)))] IN IF Dst(p) # NoName THEN Dst(p) ELSE Src(p)
NameOK(s) == s = "" \/ (NoBadChar(s) /\ ~IsMod(s))
DistinctFiles(M) == \A a, b \in FileClasses(M) : FileName(a) = FileName(b) => a = b
ExpressibleContent(M) ==
    /\ Len(M.ns) = 2 /\ M.doc = NoDoc
    /\ Writable(M)
    /\ \A c \in ClassSet(M) :
        /\ NameOK(Src(c)) /\ NameOK(Dst(c)) /\ CommentOK(c.doc)
        \* target names of nested classes follow the nesting
        /\ InParent(M, c) /\ Dst(c) # NoName => (Nested(Dst(c)) /\ Dst(c) = Join(ParentDstOrSrc(M, c), InnerOf(Dst(c))))
        /\ \A k \in DOMAIN c.kids :
            LET n == c.kids[k] IN
            /\ NameOK(n.names[1]) /\ NameOK(n.names[2]) /\ NoBadChar(n.desc) /\ CommentOK(n.doc)
            /\ (n.kind = "m" => n.names[2] # "<init>")                       \* constructors are unnamed
            /\ \A j \in DOMAIN n.kids : n.kids[j].names[1] = NoName /\ NameOK(n.kids[j].names[2]) /\ CommentOK(n.kids[j].doc)
(* ... and every class that starts a file has a file name of its own *)
Expressible(M) == ExpressibleContent(M) /\ DistinctFiles(M)

---------------------------------------------------------------------------
(* Laws *)
RECURSIVE CountClassLines(_)
CountClassLines(lines) ==
    IF lines = <<>> THEN 0 ELSE (IF StartsWith(Head(lines).text, "CLASS ") THEN 1 ELSE 0) + CountClassLines(Tail(lines))
RECURSIVE SumOver(_, _)
SumOver(fs, i) == IF i > Len(fs) THEN 0 ELSE CountClassLines(fs[i].lines) + SumOver(fs, i + 1)
(* one file per class that is not inside a parent of the set; every class on exactly one CLASS line *)
PlacementLaw(M, flip) ==
    LET fs == Files(M, flip)
    IN /\ Len(fs) = Cardinality(FileClasses(M))
       /\ SumOver(fs, 1) = Cardinality(ClassSet(M))
       /\ \A i \in 1..Len(fs) : fs[i].lines[1].ind = 0 /\ StartsWith(fs[i].lines[1].text, "CLASS ")
(* reading what was written gives the set again, whatever the sibling order; nesting in the text *)
(* mirrors source-name nesting because the reader re-attaches the prefixes of the enclosing lines *)
RoundTripLaw(M) ==
    Expressible(M) =>
        \A flip \in BOOLEAN :
            /\ ReadFiles(M.ns, [i \in 1..Len(Files(M, flip)) |-> Files(M, flip)[i].lines]) = Ok(M)
            /\ ReadStream(M.ns, StreamLines(M, flip)) = Ok(M)
            /\ PlacementLaw(M, flip)
=============================================================================
