SPECIFICATION Spec
CONSTANT Tier = 0
INVARIANT InvExtend
INVARIANT InvContract
INVARIANT InvSplitJoin
INVARIANT Emit
CHECK_DEADLOCK FALSE
