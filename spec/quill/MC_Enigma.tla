----------------------------- MODULE MC_Enigma -----------------------------
(***************************************************************************)
(* Bounded instance for C12.                                               *)
(*   place   - every subset of {A, A$B, A$B$C, P$Q (orphan: P is never in  *)
(*             the set), D, p/q/E} x per class: no target name, a target   *)
(*             name that follows the nesting, one that does not, one that  *)
(*             contains $ on a top-level class, one that collides with     *)
(*             another file name                                           *)
(*   members - class A (optionally with A$B): fields with / without target *)
(*             name, same name with two descriptors; methods with / without*)
(*             name, <init> unnamed and named, parameters with comment,    *)
(*             without target name, with source name; comments (one line,  *)
(*             two lines, leading spaces and #, blank line inside, empty,  *)
(*             with a tab) at each level                                   *)
(*   faults  - the lines of fixed sets with one line duplicated, indented  *)
(*             one more / less, its tag changed, a cell added, a # added   *)
(* Invariants: round trip through the reader machine for both sibling      *)
(* orders, stream and directory form; placement.                           *)
(***************************************************************************)
EXTENDS Enigma, Json

CONSTANT Tier
VARIABLES phase, M, aux
vars == <<phase, M, aux>>

NS == <<"src", "dst">>
Pool == {"A", "A$B", "A$B$C", "P$Q", "D", "p/q/E"}
Opts(src) ==
    CASE src = "A" -> {"none", "x", "pk/x"}
      [] src = "A$B" -> {"none", "follow", "wrong$b", "nodollar"}
      [] src = "A$B$C" -> {"none", "follow"}
      [] src = "P$Q" -> {"none", "p$q", "q"}
      [] src = "D" -> {"none", "u$v", "x"}
      [] src = "p/q/E" -> {"r/s/e"}

(* target names: parents are resolved first (depth of nesting = number of $) *)
DstOf(S, f, src) ==
    LET RECURSIVE D(_)
        D(s) == CASE f[s] = "none" -> ""
                  [] f[s] = "follow" ->
                        LET p == ParentOf(s)
                            pd == IF p \in S /\ D(p) # "" THEN D(p) ELSE p
                        IN pd \o "$" \o (IF s = "A$B" THEN "b" ELSE "c")
                  [] OTHER -> f[s]
    IN D(src)

DocPool == {<<>>, <<"one">>, <<"two\nlines">>, <<"  lead # hash">>, <<"blank\n\nin">>, <<"">>, <<"tab\tin">>}
FieldVars == {"none", "f", "fdst", "two"}
MethodVars == {"none", "m", "mparam", "init", "initnamed", "paramnodst", "paramsrc"}
FieldsOf(v, doc) ==
    CASE v = "none" -> {}
      [] v = "f" -> {Field(<<"f", "">>, "I", doc)}
      [] v = "fdst" -> {Field(<<"f", "y">>, "LA;", doc)}
      [] v = "two" -> {Field(<<"f", "y">>, "I", doc), Field(<<"f", "">>, "J", <<>>)}
MethodsOf(v, mdoc, pdoc) ==
    CASE v = "none" -> {}
      [] v = "m" -> {Method(<<"m", "n">>, "()V", mdoc, <<>>)}
      [] v = "mparam" -> {Method(<<"m", "">>, "(IJ)V", mdoc, MapOf({Param(0, <<"", "p0">>, pdoc), Param(1, <<"", "p1">>, <<>>)}))}
      [] v = "init" -> {Method(<<"<init>", "">>, "(I)V", mdoc, MapOf({Param(1, <<"", "arg">>, pdoc)}))}
      [] v = "initnamed" -> {Method(<<"<init>", "<init>">>, "()V", mdoc, <<>>)}
      [] v = "paramnodst" -> {Method(<<"m", "n">>, "(I)V", mdoc, MapOf({Param(0, <<"", "">>, pdoc)}))}
      [] v = "paramsrc" -> {Method(<<"m", "n">>, "(I)V", mdoc, MapOf({Param(0, <<"s", "p0">>, pdoc)}))}

FaultBases == {
    Root(NS, <<>>, MapOf({Class(<<"A", "x">>, <<"cd">>, MapOf({Field(<<"f", "y">>, "I", <<"fd">>), Method(<<"m", "">>, "(I)V", <<>>, MapOf({Param(0, <<"", "p0">>, <<"pd">>)}))})),
                          Class(<<"A$B", "x$b">>, <<>>, MapOf({Field(<<"g", "">>, "J", <<>>)}))})),
    Root(NS, <<>>, MapOf({Class(<<"A", "">>, <<>>, <<>>), Class(<<"D", "u">>, <<"two\nlines">>, <<>>)}))}
InsertAt(s, j, x) == SubSeq(s, 1, j) \o <<x>> \o SubSeq(s, j + 1, Len(s))
FirstWord(t) == IF HasChar(t, " ") THEN SubSeq(t, 1, FirstPos(t, " ") - 1) ELSE t
Rest(t) == IF HasChar(t, " ") THEN SubSeq(t, FirstPos(t, " "), Len(t)) ELSE ""
Faulted(ls) ==
    UNION {{ [f |-> "dup", ls |-> InsertAt(ls, j, ls[j])],
             [f |-> "ind+", ls |-> [ls EXCEPT ![j].ind = @ + 1]],
             [f |-> "ind-", ls |-> [ls EXCEPT ![j].ind = IF @ = 0 THEN 0 ELSE @ - 1]],
             [f |-> "tag", ls |-> [ls EXCEPT ![j].text = "FIELDS" \o Rest(@)]],
             [f |-> "tagclass", ls |-> [ls EXCEPT ![j].text = "CLASS" \o Rest(@)]],
             [f |-> "addcell", ls |-> [ls EXCEPT ![j].text = @ \o " ACC:PUBLIC"]],
             [f |-> "addcell2", ls |-> [ls EXCEPT ![j].text = @ \o " extra more"]],
             [f |-> "hash", ls |-> [ls EXCEPT ![j].text = FirstWord(@) \o " #" \o Rest(@)]],
             [f |-> "hashend", ls |-> [ls EXCEPT ![j].text = @ \o " # trailing comment"]],
             [f |-> "blank", ls |-> InsertAt(ls, j, Line(3, "   "))],
             [f |-> "dblspace", ls |-> [ls EXCEPT ![j].text = FirstWord(@) \o " " \o Rest(@)]]
           } : j \in 1..Len(ls)}

Init == phase = "start" /\ M = <<>> /\ aux = <<>>
PickSubset ==
    /\ phase = "start"
    /\ \E S \in SUBSET Pool : aux' = S
    /\ phase' = "subset" /\ UNCHANGED M
PickPlace ==
    /\ phase = "subset"
    /\ \E f \in [aux -> {"none", "x", "pk/x", "follow", "wrong$b", "nodollar", "p$q", "q", "u$v", "r/s/e"}] :
        /\ \A s \in aux : f[s] \in Opts(s)
        /\ M' = Root(NS, <<>>, MapOf({Class(<<s, DstOf(aux, f, s)>>, <<>>, <<>>) : s \in aux}))
    /\ phase' = "place" /\ UNCHANGED aux
PickMemberShape ==
    /\ phase = "start"
    /\ \E fv \in FieldVars, mv \in MethodVars, inner \in BOOLEAN : aux' = [fv |-> fv, mv |-> mv, inner |-> inner]
    /\ phase' = "mshape" /\ UNCHANGED M
PickMembers ==
    /\ phase = "mshape"
    /\ \E lvl \in {"c", "f", "m", "p"}, doc \in DocPool :
        LET D(l) == IF l = lvl THEN doc ELSE <<>>
            kids == MapOf(FieldsOf(aux.fv, D("f")) \cup MethodsOf(aux.mv, D("m"), D("p")))
        IN M' = Root(NS, <<>>, MapOf({Class(<<"A", "x">>, D("c"), kids)}
                     \cup (IF aux.inner THEN {Class(<<"A$B", "x$b">>, <<"inner doc">>, MapOf(FieldsOf("f", <<>>)))} ELSE {})))
    /\ phase' = "members" /\ UNCHANGED aux
PickFault ==
    /\ phase = "start"
    /\ \E base \in FaultBases : \E x \in Faulted(StreamLines(base, FALSE)) : M' = x.ls /\ aux' = x.f
    /\ phase' = "fault"
Next == PickSubset \/ PickPlace \/ PickMemberShape \/ PickMembers \/ PickFault
Spec == Init /\ [][Next]_vars

IsTree == phase \in {"place", "members"}
InvRoundTrip == IsTree => RoundTripLaw(M)
(* the writer's lines of anything writable are read without error by the reader machine (even *)
(* where the result differs from M because the format cannot express M)                        *)
InvReadable == (IsTree /\ Writable(M) /\ DistinctFiles(M) /\ \A c \in ClassSet(M) : CommentOK(c.doc)) => ReadStream(NS, StreamLines(M, FALSE)).ok

FullRT == [write |-> "ok", stream |-> [back |-> Ok(M)], dir |-> [back |-> Ok(M)], same |-> TRUE, sorted |-> TRUE]
ExpRT ==
    IF ~Writable(M) THEN [write |-> "err"]
    ELSE IF Expressible(M) THEN FullRT
    ELSE IF ExpressibleContent(M) THEN [anyof |-> <<[write |-> "err"], FullRT>>]     \* two classes want the same file: refuse or keep both
    ELSE IF ~DistinctFiles(M) THEN [done |-> TRUE]                                    \* not expressible for another reason as well: no claim
    ELSE [write |-> "ok"]
Emit ==
    /\ IsTree => /\ PrintT(ToJson([op |-> "rt", ph |-> phase, M |-> M, expressible |-> Expressible(M), writable |-> Writable(M),
                                   dupfile |-> (ExpressibleContent(M) /\ ~DistinctFiles(M)), exp |-> ExpRT]))
                 /\ (Writable(M) /\ DistinctFiles(M)) =>
                        PrintT(ToJson([op |-> "lines", ph |-> phase, fault |-> "", lines |-> StreamLines(M, TRUE), exp |-> ReadStream(NS, StreamLines(M, TRUE))]))
    /\ phase = "fault" => PrintT(ToJson([op |-> "lines", ph |-> phase, fault |-> aux, lines |-> M, exp |-> ReadStream(NS, M)]))
=============================================================================
