----------------------------- MODULE Remapper -----------------------------
(***************************************************************************)
(* Property C06.  Remappers built from a mapping set and two namespaces    *)
(* (quill/src/remapper.rs).                                                *)
(*                                                                         *)
(* Descriptors are strings; TLC evaluates Len, \o and SubSeq on strings,   *)
(* so a specification can look inside them.                                *)
(*                                                                         *)
(*  - JVMS 4.3 grammar: ParseField / ParseMethod / ParseReturn give the    *)
(*    type structure, Print* the string (declarative reference)            *)
(*  - Scan: the code's single-pass scanner map_desc (operational)          *)
(*  - ClassTable / MemberTable: what remapper_a / remapper_b build         *)
(*  - FindDfs: the code's recursive super-class search; FindBfs: the other *)
(*    reading of "nearest declaring super type in declaration order"       *)
(***************************************************************************)
EXTENDS MappingTree

Ch(s, i) == SubSeq(s, i, i)
Prims == {"B", "C", "D", "F", "I", "J", "S", "Z"}

RECURSIVE Rep(_, _)
Rep(c, n) == IF n = 0 THEN "" ELSE c \o Rep(c, n - 1)

(* position of the first ";" at or after i, 0 if none *)
RECURSIVE FindSemi(_, _)
FindSemi(s, i) == IF i > Len(s) THEN 0 ELSE IF Ch(s, i) = ";" THEN i ELSE FindSemi(s, i + 1)

---------------------------------------------------------------------------
(* Grammar (declarative).  A field type is [dims, base, name]: base is a   *)
(* primitive letter or "L" with the class name in `name`.                  *)
Type(dims, base, name) == [dims |-> dims, base |-> base, name |-> name]
Bad == [ok |-> FALSE, next |-> 0, t |-> <<>>]

RECURSIVE ParseFT(_, _, _)
ParseFT(s, i, dims) ==
    IF i > Len(s) \/ dims > 255 THEN Bad
    ELSE LET c == Ch(s, i)
         IN IF c \in Prims THEN [ok |-> TRUE, next |-> i + 1, t |-> Type(dims, c, "")]
            ELSE IF c = "[" THEN ParseFT(s, i + 1, dims + 1)
            ELSE IF c = "L"
                 THEN LET j == FindSemi(s, i + 1)
                      IN IF j = 0 \/ j = i + 1 THEN Bad
                         ELSE [ok |-> TRUE, next |-> j + 1, t |-> Type(dims, "L", SubSeq(s, i + 1, j - 1))]
            ELSE Bad

ParseField(s) ==
    LET r == ParseFT(s, 1, 0)
    IN IF r.ok /\ r.next = Len(s) + 1 THEN Ok(r.t) ELSE Err

Void == Type(0, "V", "")
ParseReturn(s) == IF s = "V" THEN Ok(Void) ELSE ParseField(s)

RECURSIVE ParseParams(_, _, _)
ParseParams(s, i, acc) ==
    IF i > Len(s) THEN [ok |-> FALSE, next |-> 0, ps |-> <<>>]
    ELSE IF Ch(s, i) = ")" THEN [ok |-> TRUE, next |-> i + 1, ps |-> acc]
    ELSE LET r == ParseFT(s, i, 0)
         IN IF ~r.ok THEN [ok |-> FALSE, next |-> 0, ps |-> <<>>]
            ELSE ParseParams(s, r.next, Append(acc, r.t))

ParseMethod(s) ==
    IF Len(s) < 3 \/ Ch(s, 1) # "(" THEN Err
    ELSE LET p == ParseParams(s, 2, <<>>)
         IN IF ~p.ok THEN Err
            ELSE LET r == ParseReturn(SubSeq(s, p.next, Len(s)))
                 IN IF r.ok THEN Ok([params |-> p.ps, ret |-> r.v]) ELSE Err

PrintType(t) == Rep("[", t.dims) \o (IF t.base = "L" THEN "L" \o t.name \o ";" ELSE t.base)
RECURSIVE PrintTypes(_)
PrintTypes(ts) == IF ts = <<>> THEN "" ELSE PrintType(Head(ts)) \o PrintTypes(Tail(ts))
PrintMethod(m) == "(" \o PrintTypes(m.params) \o ")" \o PrintType(m.ret)

(* shape of a type: everything but the class name *)
Shape(t) == [dims |-> t.dims, base |-> t.base]

---------------------------------------------------------------------------
(* A class table R is a function old name -> new name (partial).           *)
MapClassT(R, c) == IF c \in DOMAIN R THEN R[c] ELSE c          \* ARemapper::map_class
MapType(R, t) == IF t.base = "L" THEN [t EXCEPT !.name = MapClassT(R, @)] ELSE t

(* declarative descriptor mapping: only the names inside L...; change *)
MapFieldDescG(R, s) == LET p == ParseField(s) IN IF p.ok THEN Ok(PrintType(MapType(R, p.v))) ELSE Err
MapReturnDescG(R, s) == LET p == ParseReturn(s) IN IF p.ok THEN Ok(PrintType(MapType(R, p.v))) ELSE Err
MapMethodDescG(R, s) ==
    LET p == ParseMethod(s)
    IN IF p.ok THEN Ok(PrintMethod([params |-> [i \in 1..Len(p.v.params) |-> MapType(R, p.v.params[i])],
                                   ret |-> MapType(R, p.v.ret)]))
       ELSE Err

(* operational: the scanner of map_desc - copy characters; after an "L" the *)
(* characters up to the next ";" are a class name, which is replaced        *)
RECURSIVE Scan(_, _, _, _)
Scan(R, s, i, out) ==
    IF i > Len(s) THEN Ok(out)
    ELSE LET c == Ch(s, i)
         IN IF c # "L" THEN Scan(R, s, i + 1, out \o c)
            ELSE LET j == FindSemi(s, i + 2)
                 IN IF i + 1 > Len(s) \/ Ch(s, i + 1) = ";" \/ j = 0 THEN Err
                    ELSE Scan(R, s, j + 1, out \o "L" \o MapClassT(R, SubSeq(s, i + 1, j - 1)) \o ";")
MapDesc(R, s) == Scan(R, s, 1, "")

(* ARemapper::map_class_any: array class names are field descriptors *)
MapClassAny(R, c) == IF Len(c) > 0 /\ Ch(c, 1) = "[" THEN MapDesc(R, c) ELSE Ok(MapClassT(R, c))

---------------------------------------------------------------------------
(* remapper_a(from, to): classes having a name in both namespaces          *)
ClassNodes(M) == {M.kids[k] : k \in DOMAIN M.kids}
Mapped(n, f, t) == n.names[f] # NoName /\ n.names[t] # NoName
(* the table is a function only if the from-column is injective on the mapped classes *)
InjectiveCol(M, f, t) ==
    \A a, b \in {c \in ClassNodes(M) : Mapped(c, f, t)} : a.names[f] = b.names[f] => a = b
ClassTable(M, f, t) ==
    LET P == {<<c.names[f], c.names[t]>> : c \in {c \in ClassNodes(M) : Mapped(c, f, t)}}
    IN [n \in {p[1] : p \in P} |-> (CHOOSE p \in P : p[1] = n)[2]]

(* descriptor of an entry expressed in another namespace, R1 = ClassTable(M, 1, ns) *)
(* (entries store their descriptor in the first namespace)                          *)
DescInT(R1, d) == MapDesc(R1, d).v
DescIn(M, d, ns) == DescInT(ClassTable(M, 1, ns), d)

(* remapper_b(from, to): per mapped class, members having a name in both namespaces, *)
(* keyed by <<name, descriptor>> in the from namespace                                *)
MemberNodes(c, kind) == {c.kids[k] : k \in {k \in DOMAIN c.kids : c.kids[k].kind = kind}}
MemberPairs(R1f, R1t, c, kind, f, t) ==
    {<<<<m.names[f], DescInT(R1f, m.desc)>>, <<m.names[t], DescInT(R1t, m.desc)>>>> :
        m \in {m \in MemberNodes(c, kind) : Mapped(m, f, t)}}
MemberTableT(R1f, R1t, c, kind, f, t) ==
    LET P == MemberPairs(R1f, R1t, c, kind, f, t)
    IN [k \in {p[1] : p \in P} |-> (CHOOSE p \in P : p[1] = k)[2]]
MemberTablesT(M, R1f, R1t, kind, f, t) ==
    LET S == {c \in ClassNodes(M) : Mapped(c, f, t)}
    IN [n \in {c.names[f] : c \in S} |-> MemberTableT(R1f, R1t, CHOOSE c \in S : c.names[f] = n, kind, f, t)]
MemberTables(M, kind, f, t) == MemberTablesT(M, ClassTable(M, 1, f), ClassTable(M, 1, t), kind, f, t)

(* no two members of a class share their key in the from namespace *)
InjectiveMembersT(R1f, c, kind, f, t) ==
    LET S == {m \in MemberNodes(c, kind) : Mapped(m, f, t)}
    IN Cardinality({<<m.names[f], DescInT(R1f, m.desc)>> : m \in S}) = Cardinality(S)
AllInjective(M, f, t) ==
    LET R1f == ClassTable(M, 1, f)
    IN /\ InjectiveCol(M, f, t)
       /\ \A c \in ClassNodes(M) : InjectiveMembersT(R1f, c, "f", f, t) /\ InjectiveMembersT(R1f, c, "m", f, t)

(* every descriptor of the set is a valid descriptor (remapper_b fails otherwise) *)
ValidDescs(M) ==
    \A c \in ClassNodes(M) : \A k \in DOMAIN c.kids :
        IF c.kids[k].kind = "f" THEN ParseField(c.kids[k].desc).ok ELSE ParseMethod(c.kids[k].desc).ok

---------------------------------------------------------------------------
(* Member lookup.  T = MemberTables, sup = class name -> sequence of super  *)
(* types in declaration order (names of the from namespace).                *)
SupersOf(sup, c) == IF c \in DOMAIN sup THEN sup[c] ELSE <<>>
Declares(T, c, key) == c \in DOMAIN T /\ key \in DOMAIN T[c]

(* the code: depth first, the owner's own table first, then each super type in order *)
RECURSIVE FindDfs(_, _, _, _), FindDfsList(_, _, _, _)
FindDfs(T, sup, c, key) ==
    IF Declares(T, c, key) THEN <<T[c][key]>> ELSE FindDfsList(T, sup, SupersOf(sup, c), key)
FindDfsList(T, sup, cs, key) ==
    IF cs = <<>> THEN <<>>
    ELSE LET r == FindDfs(T, sup, Head(cs), key)
         IN IF r # <<>> THEN r ELSE FindDfsList(T, sup, Tail(cs), key)

(* breadth first: nearest level first, declaration order within a level *)
RECURSIVE Concat(_)
Concat(ss) == IF ss = <<>> THEN <<>> ELSE Head(ss) \o Concat(Tail(ss))
RECURSIVE FirstDecl(_, _, _)
FirstDecl(T, cs, key) ==
    IF cs = <<>> THEN <<>> ELSE IF Declares(T, Head(cs), key) THEN <<T[Head(cs)][key]>> ELSE FirstDecl(T, Tail(cs), key)
RECURSIVE FindBfsLevel(_, _, _, _, _)
FindBfsLevel(T, sup, level, key, fuel) ==
    IF level = <<>> \/ fuel = 0 THEN <<>>
    ELSE LET r == FirstDecl(T, level, key)
         IN IF r # <<>> THEN r
            ELSE FindBfsLevel(T, sup, Concat([i \in 1..Len(level) |-> SupersOf(sup, level[i])]), key, fuel - 1)
FindBfs(T, sup, c, key) == FindBfsLevel(T, sup, <<c>>, key, 8)

(* all answers some declaring super type (or the owner) would give *)
RECURSIVE Reach(_, _, _)
Reach(sup, cs, fuel) ==
    IF fuel = 0 THEN cs
    ELSE LET nx == cs \cup UNION {{SupersOf(sup, c)[i] : i \in 1..Len(SupersOf(sup, c))} : c \in cs}
         IN IF nx = cs THEN cs ELSE Reach(sup, nx, fuel - 1)
Answers(T, sup, c, key) == {T[d][key] : d \in {d \in Reach(sup, {c}, 8) : Declares(T, d, key)}}

(* BRemapper::map_field / map_method: the found entry, else the unchanged name with a mapped descriptor *)
MapMemberWith(find, R, name, desc) ==
    IF find # <<>> THEN Ok(find[1])
    ELSE LET d == MapDesc(R, desc) IN IF d.ok THEN Ok(<<name, d.v>>) ELSE Err

(* The set of answers the property allows for a member query: the owner's own entry wins; *)
(* otherwise the nearest declaring super type - depth-first or level-wise reading, which  *)
(* coincide whenever all declaring super types reachable give the same answer.            *)
MemberAnswersT(T, R, sup, owner, name, desc) ==
    {MapMemberWith(FindDfs(T, sup, owner, <<name, desc>>), R, name, desc),
     MapMemberWith(FindBfs(T, sup, owner, <<name, desc>>), R, name, desc)}
MemberAnswers(M, sup, kind, f, t, owner, name, desc) ==
    MemberAnswersT(MemberTables(M, kind, f, t), ClassTable(M, f, t), sup, owner, name, desc)
MapMember(M, sup, kind, f, t, owner, name, desc) ==
    MapMemberWith(FindDfs(MemberTables(M, kind, f, t), sup, owner, <<name, desc>>), ClassTable(M, f, t), name, desc)

(* the super type relation expressed in another namespace (JarSuperProv::remap) *)
RemapSupers(R, sup) ==
    [n \in {MapClassT(R, c) : c \in DOMAIN sup} |->
        LET c == CHOOSE c \in DOMAIN sup : MapClassT(R, c) = n
        IN [i \in 1..Len(sup[c]) |-> MapClassT(R, sup[c][i])]]

---------------------------------------------------------------------------
(* Laws *)

(* descriptor rewriting preserves the shape and touches only class names; *)
(* the scanner agrees with the grammar on every valid descriptor           *)
FieldDescLaw(R, s) ==
    LET p == ParseField(s)
    IN p.ok => /\ MapDesc(R, s) = MapFieldDescG(R, s)
               /\ LET q == ParseField(MapDesc(R, s).v)
                  IN q.ok /\ Shape(q.v) = Shape(p.v) /\ (p.v.base = "L" => q.v.name = MapClassT(R, p.v.name))
MethodDescLaw(R, s) ==
    LET p == ParseMethod(s)
    IN p.ok => /\ MapDesc(R, s) = MapMethodDescG(R, s)
               /\ LET q == ParseMethod(MapDesc(R, s).v)
                  IN /\ q.ok /\ Len(q.v.params) = Len(p.v.params) /\ Shape(q.v.ret) = Shape(p.v.ret)
                     /\ \A i \in 1..Len(p.v.params) : Shape(q.v.params[i]) = Shape(p.v.params[i])

(* X -> Y -> X is the identity on a class name if it is mapped and the mapping is *)
(* injective, or unmapped and not captured by a name of the other namespace       *)
NoCaptureClass(M, x, y, c) == c \notin DOMAIN ClassTable(M, x, y) => c \notin DOMAIN ClassTable(M, y, x)
ClassRoundTrip(M, x, y, c) ==
    (InjectiveCol(M, x, y) /\ InjectiveCol(M, y, x) /\ NoCaptureClass(M, x, y, c))
        => MapClassT(ClassTable(M, y, x), MapClassT(ClassTable(M, x, y), c)) = c
=============================================================================
