SPECIFICATION Spec
CONSTANT Tier = 0
INVARIANT InvReading
INVARIANT InvRoundTrip
INVARIANT InvNothingLost
INVARIANT InvDupRefused
INVARIANT Emit
CHECK_DEADLOCK FALSE
