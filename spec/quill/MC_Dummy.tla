------------------------------ MODULE MC_Dummy ------------------------------
(* Bounded instance for C10: exhaustive truth table of names (absent, placeholder, name that   *)
(* contains the prefix, name that ends with it, real name, <init>/<clinit>, both class          *)
(* prefixes) x comment x children kept/dropped, depth class > method > parameter and            *)
(* class > field, namespace 2 of 2 and 3 of 3; diff side: every action (incl. Remove of the     *)
(* placeholder itself and Edit(a,a)) x comment action x children, class keys K and A$B.         *)
EXTENDS Dummy, Json

CONSTANT Tier
VARIABLES phase, X, t
vars == <<phase, X, t>>

PNames == {"", "p_0", "ap_", "real"} \cup (IF Tier = 0 THEN {} ELSE {"xp_1", "p"})
FNames == {"", "f_1", "af_", "xf_1", "real"}
MNames == {"", "m_1", "<init>", "<clinit>", "am_", "xm_1", "real"}
CNames == {"", "C_1", "net/minecraft/unmapped/C_1", "pkg/C_1", "xC_", "real"}
Docs == {<<>>, <<"d">>}
OptMap(S) == {<<>>} \cup {MapOf({n}) : n \in S}
Row(src, n, N) == [i \in 1..N |-> IF i = 1 THEN src ELSE IF i = N THEN n ELSE "f_other"]   \* middle column must not matter

ParamSet(N) == {Param(0, Row("", n, N), d) : n \in PNames, d \in Docs}
MethodSet(N) == {Method(Row("m", n, N), "()V", d, pk) : n \in MNames, d \in Docs, pk \in OptMap(ParamSet(N))}
FieldSet(N) == {Field(Row("f", n, N), "I", d) : n \in FNames, d \in Docs}

(* diff side *)
InfoActs(ph) == {None, Add("x"), Rem("x"), Rem(ph), Edit("x", "y")} \cup (IF Tier = 0 THEN {} ELSE {Edit("x", "x")})
DocActs == {None, Add(<<"d">>)} \cup (IF Tier = 0 THEN {} ELSE {Rem(<<"d">>)})
DOpt(S) == {<<>>} \cup {(DKeyStr(n.key) :> n) : n \in S}
DParamSet == {DNode(DKey("p", "", "", 3), a, da, <<>>) : a \in InfoActs("p_3"), da \in DocActs}
DMethodSet == {DNode(DKey("m", "mm", "()V", 0), a, da, pk) : a \in InfoActs("mm"), da \in DocActs, pk \in DOpt(DParamSet)}
DFieldSet == {DNode(DKey("f", "ff", "I", 0), a, da, <<>>) : a \in InfoActs("ff"), da \in DocActs}

Init == phase = "start" /\ X = <<>> /\ t = 0
PickMethod ==
    /\ phase = "start"
    /\ \E N \in {2, 3} : \E mk \in OptMap(MethodSet(N)) : X' = mk /\ t' = N
    /\ phase' = "m"
PickClass ==
    /\ phase = "m"
    /\ \E n \in CNames, d \in Docs, fk \in OptMap(FieldSet(t)) :
         X' = Root([i \in 1..t |-> "ns" \o ToString(i)], <<>>,
                   MapOf({Class(Row("K", n, t), d, fk @@ X), Class(Row("Keep", "real", t), <<>>, <<>>)}))
    /\ phase' = "remove" /\ UNCHANGED t
PickDMethod ==
    /\ phase = "start"
    /\ \E mk \in DOpt(DMethodSet) : X' = mk
    /\ phase' = "dm" /\ UNCHANGED t
PickDClass ==
    /\ phase = "dm"
    /\ \E ck \in {"K", "A$B", "p/A$B$1"} : \E a \in InfoActs(LastDollarSplit(ck)), da \in DocActs, fk \in DOpt(DFieldSet) :
         X' = DRoot(None, None, (DKeyStr(DKey("c", ck, "", 0)) :> DNode(DKey("c", ck, "", 0), a, da, fk @@ X)))
    /\ phase' = "insert" /\ UNCHANGED t
Next == PickMethod \/ PickClass \/ PickDMethod \/ PickDClass
Spec == Init /\ [][Next]_vars

InvRemove == phase = "remove" => RemoveLaw(X, t) /\ RemoveLaw(X, 1)
InvInsert == phase = "insert" => InsertLaw(X)
Emit ==
    /\ phase = "remove" => PrintT(ToJson([op |-> "remove", M |-> X, t |-> t, exp |-> RemoveDummy(X, t)]))
    /\ phase = "insert" => PrintT(ToJson([op |-> "insert", D |-> X, exp |-> InsertDummy(X)]))
=============================================================================
