------------------------------- MODULE TinyV2 -------------------------------
(***************************************************************************)
(* Property C03.  The Tiny v2 text format (quill/src/tiny_v2.rs,           *)
(* quill/src/lines.rs).                                                    *)
(*                                                                         *)
(* Text is a sequence of line records [ind, tag, cells] (ind = number of   *)
(* leading tabs, tag = first cell, cells = the remaining tab separated     *)
(* cells, "\n" in comments already unescaped by the line splitter).        *)
(*                                                                         *)
(* The reader is the code's indentation machine (WithMoreIdentIter): one   *)
(* Step per line, with the path of currently open entries as explicit      *)
(* state.  The writer is specified relationally: any line sequence that    *)
(* lists every entry once, under its parent, in any sibling order          *)
(* (Lines(M, flip) produces two of them).                                  *)
(***************************************************************************)
EXTENDS MappingTree

Line(ind, tag, cells) == [ind |-> ind, tag |-> tag, cells |-> cells]

---------------------------------------------------------------------------
(* tree surgery along a path of keys *)
RECURSIVE GetKids(_, _), PutNode(_, _, _), SetDoc(_, _, _)
GetKids(kids, path) ==
    IF path = <<>> THEN kids ELSE GetKids(kids[Head(path)].kids, Tail(path))
NodeAt(kids, path) == GetKids(kids, SubSeq(path, 1, Len(path) - 1))[path[Len(path)]]
(* insert node n with key k into the kids map found at `path` *)
PutNode(kids, path, kn) ==
    IF path = <<>> THEN kids @@ (kn[1] :> kn[2])
    ELSE [kids EXCEPT ![Head(path)].kids = PutNode(@, Tail(path), kn)]
SetDoc(kids, path, d) ==
    IF Len(path) = 1 THEN [kids EXCEPT ![path[1]].doc = d]
    ELSE [kids EXCEPT ![Head(path)].kids = SetDoc(@, Tail(path), d)]

---------------------------------------------------------------------------
(* Reader state: [ok, err, ns, doc, kids, path, hdr]                        *)
(*   path : keys of the entries whose sub-sections are currently open      *)
(*   hdr  : still directly behind the header line (root comment allowed)   *)
RState(ok, err, ns, doc, kids, path, hdr) ==
    [ok |-> ok, err |-> err, ns |-> ns, doc |-> doc, kids |-> kids, path |-> path, hdr |-> hdr, ign |-> 0]
Fail(s, why) == [s EXCEPT !.ok = FALSE, !.err = why]

NamesOf(cells, from, N) == [i \in 1..N |-> cells[from + i - 1]]

KindAt(s, k) == IF k = 0 THEN "r" ELSE NodeAt(s.kids, SubSeq(s.path, 1, k)).kind

Header(line, N) ==
    IF line.ind # 0 \/ line.tag # "tiny" \/ Len(line.cells) # N + 2 \/ line.cells[1] # "2" \/ line.cells[2] # "0"
       \/ \E i \in 1..N : line.cells[2 + i] = ""
    THEN RState(FALSE, "header", <<>>, NoDoc, <<>>, <<>>, FALSE)
    ELSE RState(TRUE, "", NamesOf(line.cells, 3, N), NoDoc, <<>>, <<>>, TRUE)

(* add an entry line below the entry at depth k *)
AddEntry(s, k, n) ==
    LET key == KeyOf(n)
        open == SubSeq(s.path, 1, k)
    IN IF n.kind # "p" /\ n.names[1] = NoName THEN Fail(s, "empty-source")
       ELSE IF key \in DOMAIN GetKids(s.kids, open) THEN Fail(s, "dup-key")
       ELSE [s EXCEPT !.kids = PutNode(@, open, <<key, n>>), !.path = open \o <<key>>, !.hdr = FALSE]

AddComment(s, k, line) ==
    LET open == SubSeq(s.path, 1, k) IN
    IF Len(line.cells) # 1 THEN Fail(s, "cell-count")
    ELSE IF NodeAt(s.kids, open).doc # NoDoc THEN Fail(s, "dup-comment")
    ELSE [s EXCEPT !.kids = SetDoc(@, open, <<line.cells[1]>>), !.path = open, !.hdr = FALSE]

Ignore(s, k) == [s EXCEPT !.path = SubSeq(s.path, 1, k), !.hdr = FALSE, !.ign = @ + 1]

Digits == <<"0", "1", "2", "3", "4", "5", "6", "7", "8", "9">>
DigitVal(c) == (CHOOSE i \in 1..10 : Digits[i] = c) - 1
IsNat(str) == Len(str) > 0 /\ \A i \in 1..Len(str) : \E j \in 1..10 : Digits[j] = SubSeq(str, i, i)
RECURSIVE ToNat(_)
ToNat(str) == IF Len(str) = 0 THEN 0
              ELSE ToNat(SubSeq(str, 1, Len(str) - 1)) * 10 + DigitVal(SubSeq(str, Len(str), Len(str)))

Step(s, line, N) ==
    LET k == line.ind IN
    IF ~s.ok THEN s
    ELSE IF s.hdr /\ k = 1 /\ line.tag = "c" THEN      \* comment of the mapping set itself
        IF Len(line.cells) # 1 THEN Fail(s, "cell-count")
        ELSE IF s.doc # NoDoc THEN Fail(s, "dup-comment")
        ELSE [s EXCEPT !.doc = <<line.cells[1]>>]
    ELSE IF k > Len(s.path) THEN Fail(s, "indent-jump")
    ELSE LET ctx == KindAt(s, k) IN
      CASE ctx = "r" /\ line.tag = "c" ->
                IF Len(line.cells) # N THEN Fail(s, "cell-count")
                ELSE AddEntry(s, k, Class(NamesOf(line.cells, 1, N), NoDoc, <<>>))
        [] ctx = "c" /\ line.tag = "f" ->
                IF Len(line.cells) # N + 1 THEN Fail(s, "cell-count")
                ELSE AddEntry(s, k, Field(NamesOf(line.cells, 2, N), line.cells[1], NoDoc))
        [] ctx = "c" /\ line.tag = "m" ->
                IF Len(line.cells) # N + 1 THEN Fail(s, "cell-count")
                ELSE AddEntry(s, k, Method(NamesOf(line.cells, 2, N), line.cells[1], NoDoc, <<>>))
        [] ctx = "m" /\ line.tag = "p" ->
                IF Len(line.cells) # N + 1 THEN Fail(s, "cell-count")
                ELSE IF ~IsNat(line.cells[1]) THEN Fail(s, "bad-index")
                ELSE AddEntry(s, k, Param(ToNat(line.cells[1]), NamesOf(line.cells, 2, N), NoDoc))
        [] ctx \in {"c", "f", "m", "p"} /\ line.tag = "c" -> AddComment(s, k, line)
        [] OTHER -> Ignore(s, k)

RECURSIVE Run(_, _, _, _)
Run(s, lines, i, N) == IF i > Len(lines) THEN s ELSE Run(Step(s, lines[i], N), lines, i + 1, N)

ReadLines(lines, N) ==
    IF lines = <<>> THEN Err
    ELSE LET s == Run(Header(lines[1], N), lines, 2, N)
         IN IF s.ok THEN Ok(Root(s.ns, s.doc, s.kids)) ELSE Err
ReadErr(lines, N) ==
    IF lines = <<>> THEN "header" ELSE Run(Header(lines[1], N), lines, 2, N).err

---------------------------------------------------------------------------
(* Writer: entry line, comment line, children; siblings in CHOOSE order or reversed *)
EntryLine(n, ind) ==
    CASE n.kind = "c" -> Line(ind, "c", n.names)
      [] n.kind = "f" -> Line(ind, "f", <<n.desc>> \o n.names)
      [] n.kind = "m" -> Line(ind, "m", <<n.desc>> \o n.names)
      [] n.kind = "p" -> Line(ind, "p", <<ToString(n.idx)>> \o n.names)
DocLine(doc, ind) == IF doc = NoDoc THEN <<>> ELSE <<Line(ind, "c", doc)>>

RECURSIVE KidsLines(_, _, _), NodeLines(_, _, _)
KidsLines(kids, ind, flip) ==
    IF DOMAIN kids = {} THEN <<>>
    ELSE LET k == CHOOSE k \in DOMAIN kids : TRUE
             rest == [j \in DOMAIN kids \ {k} |-> kids[j]]
         IN IF flip THEN KidsLines(rest, ind, flip) \o NodeLines(kids[k], ind, flip)
            ELSE NodeLines(kids[k], ind, flip) \o KidsLines(rest, ind, flip)
NodeLines(n, ind, flip) ==
    <<EntryLine(n, ind)>> \o DocLine(n.doc, ind + 1) \o KidsLines(n.kids, ind + 1, flip)

Lines(M, flip) ==
    <<Line(0, "tiny", <<"2", "0">> \o M.ns)>> \o DocLine(M.doc, 1) \o KidsLines(M.kids, 0, flip)

(* number of lines a writing of M has: nothing is written twice or left out *)
RECURSIVE CountKids(_)
CountKids(kids) ==
    IF DOMAIN kids = {} THEN 0
    ELSE LET k == CHOOSE k \in DOMAIN kids : TRUE
         IN 1 + Len(kids[k].doc) + CountKids(kids[k].kids) + CountKids([j \in DOMAIN kids \ {k} |-> kids[j]])
LineCount(M) == 1 + Len(M.doc) + CountKids(M.kids)

(* `lines` is a writing of M: reads back as M, with exactly one line per entry and comment *)
IsWritingOf(lines, M) ==
    /\ ReadLines(lines, Len(M.ns)) = Ok(M)
    /\ Len(lines) = LineCount(M)

RoundTripLaw(M) == \A flip \in BOOLEAN : IsWritingOf(Lines(M, flip), M)
=============================================================================
