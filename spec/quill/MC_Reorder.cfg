SPECIFICATION Spec
CONSTANT Tier = 0
INVARIANT InvLaw
INVARIANT Emit
CHECK_DEADLOCK FALSE
