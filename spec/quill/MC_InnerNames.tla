--------------------------- MODULE MC_InnerNames ---------------------------
(* Bounded instance for C11: every set of <= 4 classes drawn from source names of nesting  *)
(* depth 0..3, in packages, with `$` at the edges (not nested), orphans (outer class not in *)
(* the set), each class named or unnamed in the target namespace (thorough: also a target   *)
(* name that itself contains `$`), target namespace 2 or 3 of 3 (and 1: refused);           *)
(* split / join on every name of a pool incl. the edge cases.                               *)
EXTENDS InnerNames, Json

CONSTANT Tier
VARIABLES phase, M, q
vars == <<phase, M, q>>

NS == <<"n1", "n2", "n3">>
SrcPool == {"A", "A$B", "A$B$C", "A$B$C$D", "p/q/A", "p/q/A$B", "A$", "$B", "p/$B", "A$1", "X$Y",
            "A$1$L"}      \* a class inside an anonymous one: with A$1 not in the set it is an orphan like any other (seed C11-10)
Simple(src) == CASE src = "A" -> "a" [] src = "A$B" -> "b" [] src = "A$B$C" -> "c" [] src = "A$B$C$D" -> "d"
                 [] src = "p/q/A" -> "r/a" [] src = "p/q/A$B" -> "bb" [] src = "A$1" -> "k/1" [] src = "X$Y" -> "y" [] src = "A$1$L" -> "l" [] OTHER -> "z"
TargetOpts(src) == {"", Simple(src)} \cup (IF Tier = 0 THEN {} ELSE {"u$v"})
NamePool == SrcPool \cup {"a", "p/q$r/s", "p/q$r", "$", "$$", "a$$b", "p/$", "a/$b", "a$b/c", "é$ü"}

Init == phase = "start" /\ M = <<>> /\ q = <<>>
PickSet ==
    /\ phase = "start"
    /\ \E S \in {S \in SUBSET SrcPool : Cardinality(S) <= 4} : q' = S
    /\ phase' = "set" /\ UNCHANGED M
PickNames ==
    /\ phase = "set"
    /\ \E f \in [q -> {"", "x", "u"}], t \in 1..3 :
        /\ \A s \in q : (f[s] = "u" => Tier = 1)
        /\ M' = Root(NS, <<"doc">>, MapOf(
                         {LET nm == CASE f[s] = "" -> "" [] f[s] = "x" -> Simple(s) [] OTHER -> "u$v"
                          IN Class([i \in 1..3 |-> IF i = 1 THEN s ELSE IF i = t THEN nm ELSE "keep$" \o Simple(s)], <<"cd">>,
                                   MapOf({Field(<<"f", "g", "h">>, "LA$B;", <<>>)})) : s \in q}))
        /\ q' = t
    /\ phase' = "case"
(* two chains of depth three whose classes share simple names in the target namespace (the middle ones, the innermost *)
(* ones, all of a level): the extended name of a class is that of ITS outer class, whatever else is called the same    *)
TwinSrc == <<"A", "A$B", "A$B$C", "X", "X$Y", "X$Y$Z">>
TwinNames == {<<"a", "m", "c", "x", "m", "z">>, <<"a", "b", "c", "x", "y", "c">>, <<"a", "m", "c", "x", "m", "c">>, <<"o", "m", "c", "o2", "m", "c">>}
PickTwin ==
    /\ phase = "start"
    /\ \E nm \in TwinNames, t \in 2..3 :
        /\ M' = Root(NS, <<>>, MapOf({Class([i \in 1..3 |-> IF i = 1 THEN TwinSrc[k] ELSE IF i = t THEN nm[k] ELSE "keep$" \o nm[k]], <<>>, <<>>) : k \in 1..6}))
        /\ q' = t
    /\ phase' = "case"
(* target names with a character that stands for an unpaired surrogate (the projection turns U+E03D into the lone surrogate *)
(* U+D83D and back): names are sequences of Java characters and are joined as such (seed C11-11)                          *)
SurNames == {<<"a", "b", "c">>, <<"a", "bb", "c">>, <<"a", "b", "c">>, <<"p/", "", "">>}
PickSur ==
    /\ phase = "start"
    /\ \E nm \in SurNames, t \in 2..3 :
        /\ M' = Root(NS, <<>>, MapOf({Class([i \in 1..3 |-> IF i = 1 THEN TwinSrc[k] ELSE IF i = t THEN nm[k] ELSE "keep$" \o nm[k]], <<>>, <<>>) : k \in 1..3}))
        /\ q' = t
    /\ phase' = "case"
PickName ==
    /\ phase = "start"
    /\ \E n \in NamePool : q' = n
    /\ phase' = "name" /\ UNCHANGED M
Next == PickSet \/ PickNames \/ PickTwin \/ PickSur \/ PickName
Spec == Init /\ [][Next]_vars

InvExtend == phase = "case" => ExtendLaw(M, q)
InvContract == phase = "case" => ContractLaw(M, q)
InvSplitJoin == phase = "name" => SplitJoinLaw(q) /\ \A i \in {"B", "1", "x/y", "a$b", ""} : JoinSplitLaw(q, i)

Emit ==
    /\ phase = "case" =>
          /\ PrintT(ToJson([op |-> "extend", M |-> M, t |-> q, exp |-> Extend(M, q)]))
          /\ PrintT(ToJson([op |-> "contract", M |-> M, t |-> q, exp |-> Contract(M, q)]))
          /\ (Extend(M, q).ok => PrintT(ToJson([op |-> "extcon", M |-> M, t |-> q, simple |-> AllSimple(M, q),
                                                exp |-> Contract(Extend(M, q).v, q)])))
    /\ phase = "name" =>
          /\ PrintT(ToJson([op |-> "split", n |-> q, exp |-> Split(q)]))
          /\ \A i \in {"B", "1", "a$b"} : PrintT(ToJson([op |-> "join", p |-> q, i |-> i, exp |-> [joined |-> Join(q, i), split |-> Split(Join(q, i))]]))
=============================================================================
