SPECIFICATION Spec
CONSTANT Tier = 0
INVARIANT InvWellKeyed
INVARIANT InvApplyLaw
INVARIANT InvInverse
INVARIANT InvRefusedWhole
INVARIANT InvUndiffable
INVARIANT Emit
CHECK_DEADLOCK FALSE
