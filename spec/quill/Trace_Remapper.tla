--------------------------- MODULE Trace_Remapper ---------------------------
(* I2S for C06: every recorded answer of a real remapper is recomputed from the recorded *)
(* mapping set, namespaces, inheritance and query.                                       *)
EXTENDS Remapper, Json, IOUtils, SequencesExt

Rec == ndJsonDeserialize(IOEnv.TRACE)
VARIABLES l, rej

IsRes(g) == "ok" \in DOMAIN g /\ "v" \in DOMAIN g
Same(g, e) == IsRes(g) /\ g.ok = e.ok /\ (e.ok => g.v = e.v)
Has(r, k) == k \in DOMAIN r

DescG(r, R) == CASE r.kind = "f" -> MapFieldDescG(R, r.d) [] r.kind = "m" -> MapMethodDescG(R, r.d) [] OTHER -> MapReturnDescG(R, r.d)

Expected(r) ==
    LET M == NormTree(r.M) IN
    CASE r.op = "desc" -> DescG(r, ClassTable(M, r.f, r.t))
      [] r.op = "class" -> MapClassAny(ClassTable(M, r.f, r.t), r.c)
      [] r.op = "member" -> SetToSeq(MemberAnswers(M, r.sup, r.kind, r.f, r.t, r.owner, r.name, r.desc))
      [] OTHER -> <<>>

Accept(r) ==
    LET M == NormTree(r.M) IN
    CASE r.op = "desc" ->
            InjectiveCol(M, r.f, r.t) => Same(r.got, DescG(r, ClassTable(M, r.f, r.t)))
      [] r.op = "class" ->
            /\ Has(r.got, "ans") /\ IsRes(r.got.ans)
            /\ InjectiveCol(M, r.f, r.t) => Same(r.got.ans, MapClassAny(ClassTable(M, r.f, r.t), r.c))
            /\ r.back # <<>> => r.got.back = r.back
      [] r.op = "member" ->
            /\ Has(r.got, "ans") /\ IsRes(r.got.ans)
            /\ (Has(r, "desc0") /\ InjectiveCol(M, 1, r.f)) => r.desc = DescIn(M, r.desc0, r.f)
            /\ AllInjective(M, r.f, r.t) /\ InjectiveCol(M, 1, r.f) /\ InjectiveCol(M, 1, r.t) =>
                  LET T == MemberTables(M, r.kind, r.f, r.t)
                      R == ClassTable(M, r.f, r.t)
                  IN \E e \in MemberAnswersT(T, R, r.sup, r.owner, r.name, r.desc) : Same(r.got.ans, e)
            /\ r.rt => r.got.back = <<r.name, r.desc>>
      [] OTHER -> FALSE

Init == l = 1 /\ rej = 0
Next ==
    /\ l <= Len(Rec)
    /\ l' = l + 1
    /\ IF Accept(Rec[l]) THEN rej' = rej
       ELSE /\ PrintT(ToJson([reject |-> l, exp |-> Expected(Rec[l])]))
            /\ rej' = rej + 1
Spec == Init /\ [][Next]_<<l, rej>>
Consumed == TLCGet("stats").diameter - 1 = Len(Rec)
=============================================================================
