---------------------------- MODULE MC_Remapper ----------------------------
(***************************************************************************)
(* Bounded instance for C06.                                               *)
(*   desc   - class tables over names containing L, $, /, one character,   *)
(*            non-ASCII x every field type of <= 2 dimensions and methods  *)
(*            with <= 2 parameters: scanner = grammar, shape preserved     *)
(*   class  - map_class / map_class_any on mapped, unmapped, array names;  *)
(*            round trip X -> Y -> X incl. a captured name                 *)
(*   member - three namespaces, any from/to pair, four classes with        *)
(*            partial name rows, inheritance graphs (chain, diamond in     *)
(*            both declaration orders, missing links), a member declared   *)
(*            (named / unnamed in the target) at any subset of the super   *)
(*            types, queried through every owner incl. an unknown one      *)
(***************************************************************************)
EXTENDS Remapper, Json, SequencesExt

CONSTANT Tier
VARIABLES phase, M, q
vars == <<phase, M, q>>

NS2 == <<"x", "y">>
NS3 == <<"n1", "n2", "n3">>

---------------------------------------------------------------------------
(* desc / class family *)
CNames == {"A", "L", "LA", "a$b", "p/q", "é"}
Tables == {
    <<>>,
    [n \in {"A"} |-> "X"],
    [n \in {"A", "L"} |-> IF n = "A" THEN "L" ELSE "A"],                 \* swap
    [n \in {"L", "LA", "a$b"} |-> CASE n = "L" -> "p/L" [] n = "LA" -> "L" [] OTHER -> "c$d$e"],
    [n \in {"p/q", "é"} |-> IF n = "p/q" THEN "r/s/t" ELSE "üß"],
    [n \in {"A", "B"} |-> IF n = "A" THEN "B" ELSE "C"],                 \* B is captured: A -> B, B -> C
    (* the outer class of a$b / a$1 is mapped, the nested classes are not: an unmapped name stays as it is, whatever *)
    (* happens to the name in front of its $ (seed C06-12)                                                           *)
    [n \in {"a", "A"} |-> IF n = "a" THEN "z/Q" ELSE "X"],
    (* names with an unpaired surrogate (the projection carries it as the private-use character U+E03D): a Java name is a *)
    (* sequence of Java characters, a remapper copies them as they are                                                    *)
    [n \in {"A", "B"} |-> IF n = "A" THEN "x/y" ELSE "Q"]
}
TableTree(R) == Root(NS2, <<>>, MapOf({Class(<<n, R[n]>>, <<>>, <<>>) : n \in DOMAIN R}))

FTypes == {Type(d, b, "") : d \in 0..2, b \in {"I", "J"}} \cup {Type(d, "L", n) : d \in 0..2, n \in CNames}
PTypes == {Type(0, "I", ""), Type(1, "J", ""), Type(0, "L", "A"), Type(2, "L", "L"), Type(0, "L", "a$b"), Type(1, "L", "p/q"), Type(0, "L", "LA")}
RTypes == {Void, Type(0, "Z", ""), Type(0, "L", "A"), Type(2, "L", "LA"), Type(1, "L", "é")}
Methods == {[params |-> ps, ret |-> r] : ps \in {<<>>} \cup {<<a>> : a \in PTypes} \cup {<<a, b>> : a \in PTypes, b \in PTypes}, r \in RTypes}

---------------------------------------------------------------------------
(* member family *)
Opt2(n) == {"", n}
Decl == {"absent", "named", "unnamed", "same"}      \* unnamed: the entry has no name in the target namespace; same: it keeps its name
MDesc(kind) == IF kind = "m" THEN "(LTop;)LMid;" ELSE "LTop;"
Member(kind, decl, f, t, tag) ==
    LET own(i) == IF i = 1 THEN "mem" ELSE "mem" \o ToString(i)
        nm == [i \in 1..3 |-> IF decl = "unnamed" /\ i = t THEN "" ELSE IF decl = "same" /\ i = t THEN own(f)
                               ELSE IF i = t THEN tag \o ToString(i) ELSE "mem" \o ToString(i)]
    IN IF kind = "m" THEN Method(<<"mem", nm[2], nm[3]>>, MDesc(kind), <<>>, <<>>)
       ELSE Field(<<"mem", nm[2], nm[3]>>, MDesc(kind), <<>>)
(* the member's name is "mem" / "mem2" / "mem3" in every class (overriding members share their *)
(* name), except in the target namespace where it is <tag><t>, so the answer tells which entry  *)
(* was found                                                                                      *)
MemberKids(kind, decl, f, t, tag) ==
    IF decl = "absent" THEN <<>>
    ELSE LET m == Member(kind, decl, f, t, tag) IN
         IF t = 1 /\ decl = "unnamed" THEN <<>>      \* the first name cannot be absent: no such entry
         ELSE MapOf({m})
(* A sibling of the member in Top whose name + descriptor are the characters of another, unmapped member split elsewhere   *)
(* (tables are keyed by the pair, not by the concatenation; seed C06-10):                                                  *)
(*   field  memLZed : LMid;             against the query  mem : LZedLMid;           (class ZedLMid, unmapped)              *)
(*   method mem(LZed : (LTop;)LMid;     against the query  mem : (LZed(LTop;)LMid;   (parameter class Zed(LTop, unmapped)) *)
SibInfix(kind) == IF kind = "m" THEN "(LZed" ELSE "LZed"
SiblingKids(kind) ==
    LET nm == <<"mem" \o SibInfix(kind), "mem2" \o SibInfix(kind), "mem3" \o SibInfix(kind)>>
    IN MapOf({IF kind = "m" THEN Method(nm, MDesc(kind), <<>>, <<>>) ELSE Field(nm, "LMid;", <<>>)})
Graphs == {
    [Bot |-> <<"Mid">>, Mid |-> <<"Top">>, Itf |-> <<>>],                  \* chain
    [Bot |-> <<"Mid", "Itf">>, Mid |-> <<"Top">>, Itf |-> <<"Top">>],      \* diamond
    [Bot |-> <<"Itf", "Mid">>, Mid |-> <<"Top">>, Itf |-> <<>>],           \* other declaration order
    [Bot |-> <<"Mid", "Itf">>, Mid |-> <<>>, Itf |-> <<"Top">>],           \* depth 2 on the second branch only
    [Bot |-> <<"Top">>, Mid |-> <<"Top">>, Itf |-> <<>>],
    [Bot |-> <<>>, Mid |-> <<"Top", "Itf">>, Itf |-> <<>>],
    (* a super type that is the first super type of a deeper class and a later direct super type of the owner: it is met first *)
    (* below the first branch (seed C06-9: a search that marks classes when they are queued skips it there)                     *)
    [Bot |-> <<"Mid", "Itf">>, Mid |-> <<"Itf", "Top">>, Itf |-> <<>>],
    [Bot |-> <<"Mid", "Top">>, Mid |-> <<"Top", "Itf">>, Itf |-> <<>>]
}
SrcClasses == {"Top", "Mid", "Itf", "Bot"}

---------------------------------------------------------------------------
Init == phase = "start" /\ M = <<>> /\ q = <<>>

(* cases are drawn in two steps so that TLC's workers share the second one *)
PickTable ==
    /\ phase = "start"
    /\ \E R \in Tables : M' = TableTree(R)
    /\ \E ph \in {"desc1", "class1"} : phase' = ph
    /\ UNCHANGED q
PickDesc ==
    /\ phase = "desc1"
    /\ \/ \E ft \in FTypes : q' = [kind |-> "f", d |-> PrintType(ft)]
       \/ \E mt \in Methods : q' = [kind |-> "m", d |-> PrintMethod(mt)]
       \/ \E rt \in RTypes : q' = [kind |-> "r", d |-> PrintType(rt)]
    /\ phase' = "desc"
    /\ UNCHANGED M

PickClass ==
    /\ phase = "class1"
    /\ \E c \in CNames \cup {"B", "X", "[LA;", "[[La$b;", "[I", "[[LL;", "a", "a$1", "a$b$c", "B", "[LB;"} : q' = [c |-> c]
    /\ phase' = "class"
    /\ UNCHANGED M

PickMember1 ==
    /\ phase = "start"
    /\ \E kind \in {"m", "f"}, ft \in (IF Tier = 0 THEN {<<1, 2>>, <<2, 1>>, <<2, 3>>, <<3, 1>>} ELSE {<<a, b>> \in (1..3) \X (1..3) : a # b}), g \in Graphs,
          top2 \in Opt2("T2"), mid2 \in Opt2("M2"), mid3 \in Opt2("M3") :
        q' = [kind |-> kind, f |-> ft[1], t |-> ft[2], g |-> g, top2 |-> top2, mid2 |-> mid2, mid3 |-> mid3]
    /\ phase' = "member1"
    /\ UNCHANGED M
PickMember ==
    /\ phase = "member1"
    /\ \E dTop \in Decl, dMid \in Decl, dItf \in Decl, dBot \in IF Tier = 0 THEN {"absent"} ELSE {"absent", "named"} :
        M' = Root(NS3, <<>>, MapOf({
                    Class(<<"Top", q.top2, "T3">>, <<>>, MemberKids(q.kind, dTop, q.f, q.t, "t") @@ SiblingKids(q.kind)),
                    Class(<<"Mid", q.mid2, q.mid3>>, <<>>, MemberKids(q.kind, dMid, q.f, q.t, "m")),
                    Class(<<"Itf", "I2", "I3">>, <<>>, MemberKids(q.kind, dItf, q.f, q.t, "i")),
                    Class(<<"Bot", "B2", "B3">>, <<>>, MemberKids(q.kind, dBot, q.f, q.t, "b"))}))
    /\ phase' = "member"
    /\ UNCHANGED q

Next == PickTable \/ PickDesc \/ PickClass \/ PickMember1 \/ PickMember
Spec == Init /\ [][Next]_vars

---------------------------------------------------------------------------
R12 == ClassTable(M, 1, 2)
DescExp == CASE q.kind = "f" -> MapFieldDescG(R12, q.d)
             [] q.kind = "m" -> MapMethodDescG(R12, q.d)
             [] q.kind = "r" -> MapReturnDescG(R12, q.d)

InvDescLaw ==
    phase = "desc" =>
        /\ MapDesc(R12, q.d) = DescExp /\ DescExp.ok
        /\ (q.kind = "f" => FieldDescLaw(R12, q.d) /\ ParseField(q.d).ok /\ PrintType(ParseField(q.d).v) = q.d)
        /\ (q.kind = "m" => MethodDescLaw(R12, q.d) /\ ParseMethod(q.d).ok /\ PrintMethod(ParseMethod(q.d).v) = q.d)
InvClassLaw ==
    phase = "class" => (Ch(q.c, 1) # "[" => ClassRoundTrip(M, 1, 2, q.c))

(* member queries of one state: through every owner, with the matching and a non-matching descriptor *)
NameIn(src, ns) == MapClassT(ClassTable(M, 1, ns), src)
SupIn(g, ns) == [n \in {NameIn(c, ns) : c \in DOMAIN g} |->
                    LET c == CHOOSE c \in DOMAIN g : NameIn(c, ns) = n IN [i \in 1..Len(g[c]) |-> NameIn(g[c][i], ns)]]
MemberName(ns) == IF ns = 1 THEN "mem" ELSE "mem" \o ToString(ns)
Queries ==
    {[owner |-> NameIn(o, q.f), name |-> nm, desc |-> d] :
        o \in {"Bot", "Mid", "Top"},
        nm \in {MemberName(q.f), "other"},
        d \in {DescIn(M, MDesc(q.kind), q.f)}}
    \cup {[owner |-> "Unknown", name |-> MemberName(q.f), desc |-> DescIn(M, MDesc(q.kind), q.f)],
          [owner |-> NameIn("Bot", q.f), name |-> MemberName(q.f), desc |-> IF q.kind = "m" THEN "(LTop;)V" ELSE "LMid;"]}
    \cup {[owner |-> NameIn(o, q.f), name |-> MemberName(q.f),
           desc |-> SibInfix(q.kind) \o DescIn(M, IF q.kind = "m" THEN MDesc(q.kind) ELSE "LMid;", q.f)] : o \in {"Bot", "Top"}}

AnswerExp(qq) ==
    LET S == MemberAnswers(M, SupIn(q.g, q.f), q.kind, q.f, q.t, qq.owner, qq.name, qq.desc)
    IN IF Cardinality(S) = 1 THEN CHOOSE x \in S : TRUE ELSE [anyof |-> SetToSeq(S)]

(* when every reachable declaring type gives the same answer, depth-first and level-wise search agree *)
InvSearchAgree ==
    phase = "member" => \A qq \in Queries :
        LET T == MemberTables(M, q.kind, q.f, q.t)
            sup == SupIn(q.g, q.f)
            key == <<qq.name, qq.desc>>
        IN /\ Cardinality(Answers(T, sup, qq.owner, key)) <= 1 => FindDfs(T, sup, qq.owner, key) = FindBfs(T, sup, qq.owner, key)
           /\ (FindDfs(T, sup, qq.owner, key) # <<>>) <=> (Answers(T, sup, qq.owner, key) # {})
           /\ Declares(T, qq.owner, key) => FindDfs(T, sup, qq.owner, key) = <<T[qq.owner][key]>>    \* own entry wins

(* X -> Y -> X on members: identity when everything involved is named injectively in both namespaces *)
RtPre == /\ AllInjective(M, q.f, q.t) /\ AllInjective(M, q.t, q.f)
         /\ \A c \in ClassNodes(M) : Mapped(c, q.f, q.t) \/ (c.names[q.f] = NoName /\ c.names[q.t] = NoName)
RoundTrip(qq) ==
    LET fw == MapMember(M, SupIn(q.g, q.f), q.kind, q.f, q.t, qq.owner, qq.name, qq.desc)
        ow == MapClassT(ClassTable(M, q.f, q.t), qq.owner)
        bw == MapMember(M, RemapSupers(ClassTable(M, q.f, q.t), SupIn(q.g, q.f)), q.kind, q.t, q.f, ow, fw.v[1], fw.v[2])
    IN bw
Hit(qq) == FindDfs(MemberTables(M, q.kind, q.f, q.t), SupIn(q.g, q.f), qq.owner, <<qq.name, qq.desc>>) # <<>>
InvRoundTrip ==
    (phase = "member" /\ RtPre) => \A qq \in Queries : Hit(qq) => RoundTrip(qq) = Ok(<<qq.name, qq.desc>>)

Emit ==
    /\ phase = "desc" => PrintT(ToJson([op |-> "desc", kind |-> q.kind, M |-> M, f |-> 1, t |-> 2, d |-> q.d, exp |-> DescExp]))
    /\ phase = "class" =>
          LET back == IF Ch(q.c, 1) # "[" /\ InjectiveCol(M, 2, 1) /\ NoCaptureClass(M, 1, 2, q.c) THEN <<q.c>> ELSE <<>>
          IN PrintT(ToJson([op |-> "class", M |-> M, f |-> 1, t |-> 2, c |-> q.c, back |-> back,
                            exp |-> [ans |-> MapClassAny(R12, q.c), back |-> back]]))
    /\ phase = "member" => \A qq \in Queries :
            LET rt == RtPre /\ Hit(qq)
            IN PrintT(ToJson([op |-> "member", kind |-> q.kind, M |-> M, f |-> q.f, t |-> q.t, sup |-> SupIn(q.g, q.f),
                              owner |-> qq.owner, name |-> qq.name, desc |-> qq.desc, hit |-> Hit(qq), rt |-> rt,
                              exp |-> [ans |-> AnswerExp(qq), back |-> IF rt THEN <<qq.name, qq.desc>> ELSE <<>>]]))
=============================================================================
