----------------------------- MODULE MC_Reorder -----------------------------
(***************************************************************************)
(* Bounded instance for C08: three namespaces (four in the thorough tier)  *)
(* and every permutation; class A with its names in the other namespaces   *)
(* present or absent, an optional class B whose second name may collide    *)
(* with A's; up to two fields of A drawn from descriptors mentioning a     *)
(* mapped class, an array of one, an unmapped class, a class name that     *)
(* would be captured on the way back, and pairs that collide only after    *)
(* translation; a method with parameter rows with and without source name. *)
(* Two namespaces (the swap) and an unknown namespace name are included.   *)
(***************************************************************************)
EXTENDS Reorder, Json

CONSTANT Tier
VARIABLES phase, M, order
vars == <<phase, M, order>>

N == IF Tier = 0 THEN 3 ELSE 4
NSN == [i \in 1..N |-> "n" \o ToString(i)]
Perms == {p \in [1..N -> 1..N] : {p[i] : i \in 1..N} = 1..N}
Pad(names) == [i \in 1..N |-> IF i <= Len(names) THEN names[i] ELSE (IF names[3] = "" THEN "" ELSE names[3] \o "x")]

FieldPool == {
    Field(Pad(<<"f", "f2", "f3">>), "I", <<>>),
    Field(Pad(<<"f", "f2", "">>), "LA;", <<"d">>),
    Field(Pad(<<"g", "", "g3">>), "[LB;", <<>>),
    Field(Pad(<<"f", "f2", "f3">>), "LU;", <<>>),          \* U is not in the set
    Field(Pad(<<"f", "f2", "f3">>), "LA2;", <<>>),         \* A2 is A's second name but no source name: captured on the way back
    Field(Pad(<<"f", "f2", "f3">>), "LA;", <<>>),          \* with the one before: the same row of names, descriptors that coincide once A is written A2
    Field(Pad(<<"u", "u2", "u3">>), "LUL;", <<>>),         \* an unmapped class whose name ends in L
    Field(Pad(<<"v", "v2", "v3">>), "[LXLA;", <<>>),       \* an unmapped class whose name goes on, behind an L, like a mapped one
    Field(Pad(<<"h", "f2", "h3">>), "I", <<>>)}            \* same second name and descriptor as the first: collides when n2 comes first
FieldSets == {S \in SUBSET FieldPool : Cardinality(S) <= 2 /\ \A x, y \in S : KeyOf(x) = KeyOf(y) => x = y}
ParamPool == {Param(0, Pad(<<"", "p2", "p3">>), <<>>), Param(1, Pad(<<"p", "", "">>), <<"pd">>)}
MethodOpts == {<<>>} \cup {MapOf({Method(Pad(<<"m", m2, "m3">>), "(LA;[LB;)LU;", <<>>, MapOf(ps))}) : m2 \in {"", "m2"}, ps \in SUBSET ParamPool}

Init == phase = "start" /\ M = <<>> /\ order = <<>>

PickShape ==
    /\ phase = "start"
    /\ \E a2 \in {"", "A2"}, a3 \in {"", "A3"}, b \in {"none", "B2", "A2"}, fs \in FieldSets :
        M' = [a2 |-> a2, a3 |-> a3, b |-> b, fs |-> fs]
    /\ phase' = "shape" /\ UNCHANGED order
PickRest ==
    /\ phase = "shape"
    /\ \E mk \in MethodOpts, p \in Perms :
        /\ M' = Root(NSN, <<"root doc">>, MapOf(
                    {Class(Pad(<<"A", M.a2, M.a3>>), <<"cd">>, MapOf(M.fs) @@ mk)}
                    \cup (IF M.b = "none" THEN {} ELSE {Class(Pad(<<"B", M.b, "B3">>), <<>>, <<>>)})))
        /\ order' = [i \in 1..N |-> NSN[p[i]]]
    /\ phase' = "case"
PickOther ==
    /\ phase = "start"
    /\ \E o \in {<<"y", "x">>, <<"x", "y">>, <<"x", "zz">>, <<"zz", "x">>}, a2 \in {"", "A2"} :
        /\ M' = Root(<<"x", "y">>, <<>>, MapOf({Class(<<"A", a2>>, <<>>, MapOf({Field(<<"f", "f2">>, "[[LA;", <<>>)}))}))
        /\ order' = o
    /\ phase' = "case"
(* mapped classes whose names have characters of more than one byte, at the end of the name and inside it, in field and method *)
(* descriptors (seed C08-10: a scanner that mixes character counts and byte positions)                                        *)
PickUni ==
    /\ phase = "start"
    /\ \E o \in {<<"y", "x">>, <<"x", "y">>} :
        /\ M' = Root(<<"x", "y">>, <<>>, MapOf({
                    Class(<<"é/A", "b/ü">>, <<>>, MapOf({Field(<<"f", "f2">>, "[Lé/A;", <<>>), Field(<<"g", "g2">>, "Lnet/é;", <<>>)})),
                    Class(<<"net/é", "n/e">>, <<>>, MapOf({Method(<<"m", "m2">>, "(Lé/A;Lnet/é;)Lé/A;", <<>>, <<>>)}))}))
        /\ order' = o
    /\ phase' = "case"

Next == PickShape \/ PickRest \/ PickOther \/ PickUni
Spec == Init /\ [][Next]_vars

InvLaw == phase = "case" => ReorderLaw(M, order)
Pi == TableOf(M, order)
IsP == IsPerm(Pi, Len(M.ns))
Emit ==
    phase = "case" =>
        LET r == Reorder(M, order)
        IN /\ PrintT(ToJson([op |-> "reorder", M |-> M, order |-> order, perm |-> IsP,
                             ident |-> (order = M.ns), nocap |-> (IsP /\ r.ok /\ NoCapture(M, Pi)),
                             exp |-> IF IsP /\ r.ok /\ NoCapture(M, Pi) THEN [first |-> r, back |-> Ok(M)] ELSE [first |-> r]]))
=============================================================================
