SPECIFICATION Spec
CONSTANT Tier = 0
INVARIANT InvRoundTrip
INVARIANT InvReadable
INVARIANT Emit
CHECK_DEADLOCK FALSE
