----------------------------- MODULE DiffApply -----------------------------
(***************************************************************************)
(* Property C04.  Mapping diffs: application (quill/src/action/            *)
(* apply_diff.rs), generation (diff_mappings.rs) and the textual           *)
(* .tinydiff form (tiny_v2_diff.rs).                                       *)
(*                                                                         *)
(* A diff has the shape of a mapping tree with an action at the name and   *)
(* at the comment of every node:                                           *)
(*    <<"none">> | <<"add", b>> | <<"rem", a>> | <<"edit", a, b>>          *)
(* Diff nodes carry their key parts [kind, name, desc, idx] (FromKey).     *)
(*                                                                         *)
(* Two formulations are given and TLC checks that they coincide:           *)
(*   - Apply*      operational, the code's four-case merge per IndexMap    *)
(*   - Consistent* / Effect*   declarative, the statement of the property  *)
(***************************************************************************)
EXTENDS MappingTree

None == <<"none">>
Add(b) == <<"add", b>>
Rem(a) == <<"rem", a>>
Edit(a, b) == <<"edit", a, b>>

FromTuple(a, b, none) ==
    IF a = none THEN (IF b = none THEN None ELSE Add(b))
    ELSE (IF b = none THEN Rem(a) ELSE Edit(a, b))

DKey(kind, name, desc, idx) == [kind |-> kind, name |-> name, desc |-> desc, idx |-> idx]
DNode(key, info, doc, kids) == [key |-> key, info |-> info, doc |-> doc, kids |-> kids]
DRoot(info, doc, kids) == [info |-> info, doc |-> doc, kids |-> kids]
DKeyOfNode(n) == DKey(n.kind, IF n.kind = "p" THEN "" ELSE n.names[1], n.desc, n.idx)
DKeyStr(k) ==
    CASE k.kind = "c" -> "c " \o k.name
      [] k.kind = "f" -> "f " \o k.name \o " " \o k.desc
      [] k.kind = "m" -> "m " \o k.name \o " " \o k.desc
      [] k.kind = "p" -> "p " \o ToString(k.idx)

(* Mapping::from_key: a fresh node knows only what its key says. *)
FromKey(key, N) ==
    Node(key.kind, [i \in 1..N |-> IF i = 1 /\ key.kind # "p" THEN key.name ELSE NoName],
         key.desc, key.idx, NoDoc, <<>>)

---------------------------------------------------------------------------
(* Operational: apply_diff_option *)
ApplyOpt(act, cur, none) ==
    CASE act[1] = "none" -> Ok(cur)
      [] act[1] = "add"  -> IF cur # none THEN Err ELSE Ok(act[2])
      [] act[1] = "rem"  -> IF cur = none \/ cur # act[2] THEN Err ELSE Ok(none)
      [] act[1] = "edit" -> IF cur = none \/ cur # act[2] THEN Err ELSE Ok(act[3])

Keep(r) == [ok |-> r.ok, keep |-> TRUE, v |-> r.v]
Drop    == [ok |-> TRUE, keep |-> FALSE, v |-> <<>>]
ErrK    == [ok |-> FALSE, keep |-> FALSE, v |-> <<>>]

(* Operational: apply_diff_map with its closure, t = index of the target namespace *)
RECURSIVE ApplyKids(_, _, _, _)
ApplyInside(d, n, t, N) ==
    LET rd == ApplyOpt(d.doc, n.doc, NoDoc)
        rk == ApplyKids(d.kids, n.kids, t, N)
    IN IF rd.ok /\ rk.ok THEN Ok([n EXCEPT !.doc = rd.v, !.kids = rk.v]) ELSE Err

(* Case 1: key in target and in diff *)
ApplyBoth(d, n, t, N) ==
    LET a == d.info
        cur == n.names[t]
    IN CASE a[1] = "none" -> Keep(ApplyInside(d, n, t, N))
         [] a[1] = "add"  -> IF cur # NoName THEN ErrK
                             ELSE Keep(ApplyInside(d, [n EXCEPT !.names[t] = a[2]], t, N))
         [] a[1] = "rem"  -> IF cur # a[2] THEN ErrK ELSE Drop   \* subtree dropped unexamined
         [] a[1] = "edit" -> IF cur # a[2] THEN ErrK
                             ELSE Keep(ApplyInside(d, [n EXCEPT !.names[t] = a[3]], t, N))

(* Case 3: key only in diff: must be an addition of a fresh node *)
ApplyNew(d, t, N) ==
    IF d.info[1] # "add" THEN ErrK
    ELSE Keep(ApplyInside(d, [FromKey(d.key, N) EXCEPT !.names[t] = d.info[2]], t, N))

ApplyKids(dk, tk, t, N) ==
    LET ks == DOMAIN dk \cup DOMAIN tk
        r == [k \in ks |->
                IF k \in DOMAIN dk /\ k \in DOMAIN tk THEN ApplyBoth(dk[k], tk[k], t, N)
                ELSE IF k \in DOMAIN tk THEN Keep(Ok(tk[k]))      \* Case 2: copied
                ELSE ApplyNew(dk[k], t, N)]
    IN IF \A k \in ks : r[k].ok
       THEN Ok([k \in {j \in ks : r[j].keep} |-> r[k].v])
       ELSE Err

(* MappingsDiff::apply_to *)
Apply(D, T, t) ==
    LET N == Len(T.ns)
        ri == CASE D.info[1] = "none" -> Ok(T.ns)
                [] D.info[1] = "edit" -> IF T.ns[t] # D.info[2] THEN Err
                                         ELSE Ok([T.ns EXCEPT ![t] = D.info[3]])
                [] OTHER -> Err
        rd == ApplyOpt(D.doc, T.doc, NoDoc)
        rk == ApplyKids(D.kids, T.kids, t, N)
    IN IF ri.ok /\ rd.ok /\ rk.ok THEN Ok(Root(ri.v, rd.v, rk.v)) ELSE Err

---------------------------------------------------------------------------
(* Declarative: what the property says. *)

(* "every stated old value matches, additions do not collide" for one action *)
ActConsistent(act, cur, none) ==
    \/ act[1] = "none"
    \/ act[1] = "add" /\ cur = none
    \/ act[1] \in {"rem", "edit"} /\ cur = act[2]

After(act, cur, none) ==
    CASE act[1] = "none" -> cur
      [] act[1] = "add"  -> act[2]
      [] act[1] = "rem"  -> none
      [] act[1] = "edit" -> act[3]

RECURSIVE ConsistentKids(_, _, _)
ConsistentKids(dk, tk, t) ==
    \A k \in DOMAIN dk :
        IF k \in DOMAIN tk
        THEN /\ ActConsistent(dk[k].info, tk[k].names[t], NoName)
             /\ \/ dk[k].info[1] = "rem"      \* removal takes the subtree with it
                \/ /\ ActConsistent(dk[k].doc, tk[k].doc, NoDoc)
                   /\ ConsistentKids(dk[k].kids, tk[k].kids, t)
        ELSE /\ dk[k].info[1] = "add"          \* only an addition can name a missing entry
             /\ ActConsistent(dk[k].doc, NoDoc, NoDoc)
             /\ ConsistentKids(dk[k].kids, <<>>, t)

Consistent(D, T, t) ==
    /\ \/ D.info[1] = "none"
       \/ D.info[1] = "edit" /\ T.ns[t] = D.info[2]
    /\ ActConsistent(D.doc, T.doc, NoDoc)
    /\ ConsistentKids(D.kids, T.kids, t)

RECURSIVE EffectKids(_, _, _, _)
EffectNode(d, n, t, N) ==
    [n EXCEPT !.names[t] = After(d.info, @, NoName),
              !.doc = After(d.doc, @, NoDoc),
              !.kids = EffectKids(d.kids, @, t, N)]
EffectKids(dk, tk, t, N) ==
    LET removed == {k \in DOMAIN dk \cap DOMAIN tk : dk[k].info[1] = "rem"}
        added == DOMAIN dk \ DOMAIN tk
        ks == (DOMAIN tk \ removed) \cup added
    IN [k \in ks |->
          IF k \notin DOMAIN dk THEN tk[k]                              \* untouched: identical
          ELSE IF k \in DOMAIN tk THEN EffectNode(dk[k], tk[k], t, N)   \* edited in place
          ELSE EffectNode(dk[k], FromKey(dk[k].key, N), t, N)]           \* added

Effect(D, T, t) ==
    Root([T.ns EXCEPT ![t] = After(D.info, @, "")], After(D.doc, T.doc, NoDoc),
         EffectKids(D.kids, T.kids, t, Len(T.ns)))

(* The law connecting the two formulations (checked by TLC on every explored case) *)
ApplyLaw(D, T, t) ==
    Apply(D, T, t) = IF Consistent(D, T, t) THEN Ok(Effect(D, T, t)) ELSE Err

---------------------------------------------------------------------------
(* Diff generation (two namespaces, target = 2).                           *)
(*                                                                         *)
(* The format cannot say "keep this entry but take its name away" (Remove  *)
(* on a shared key removes the entry), cannot add an entry without a name, *)
(* cannot remove an entry that has no name to match, and carries nothing   *)
(* of a node but its key, target name, comment and children.  Exactly      *)
(* those pairs are refused (DiffKids = Err); everything else must diff.    *)
Same(a, b, t) ==
    /\ a.kind = b.kind /\ a.desc = b.desc /\ a.idx = b.idx
    /\ \A i \in 1..Len(a.names) : i # t => a.names[i] = b.names[i]

RECURSIVE DiffKids(_, _, _, _)
DiffGone(a, t, top) ==     \* entry only in A
    LET rk == DiffKids(a.kids, <<>>, t, FALSE)
        nm == a.names[t]
    IN IF (nm = NoName /\ top) \/ ~rk.ok THEN Err
       ELSE Ok(DNode(DKeyOfNode(a), IF nm = NoName THEN None ELSE Rem(nm),
                     FromTuple(a.doc, NoDoc, NoDoc), rk.v))
DiffNew(b, t) ==           \* entry only in B
    LET rk == DiffKids(<<>>, b.kids, t, TRUE)
        nm == b.names[t]
        N == Len(b.names)
    IN IF nm = NoName \/ ~rk.ok \/ ~Same(FromKey(DKeyOfNode(b), N), b, t) THEN Err
       ELSE Ok(DNode(DKeyOfNode(b), Add(nm), FromTuple(NoDoc, b.doc, NoDoc), rk.v))
DiffBoth(a, b, t) ==       \* entry in both
    LET rk == DiffKids(a.kids, b.kids, t, TRUE)
        x == a.names[t]
        y == b.names[t]
    IN IF (x # NoName /\ y = NoName) \/ ~rk.ok \/ ~Same(a, b, t) THEN Err
       ELSE Ok(DNode(DKeyOfNode(a), FromTuple(x, y, NoName), FromTuple(a.doc, b.doc, NoDoc), rk.v))
DiffKids(ak, bk, t, top) ==
    LET ks == DOMAIN ak \cup DOMAIN bk
        r == [k \in ks |->
                IF k \in DOMAIN ak /\ k \in DOMAIN bk THEN DiffBoth(ak[k], bk[k], t)
                ELSE IF k \in DOMAIN ak THEN DiffGone(ak[k], t, top)
                ELSE DiffNew(bk[k], t)]
    IN IF \A k \in ks : r[k].ok THEN Ok([k \in ks |-> r[k].v]) ELSE Err

Diff(A, B, t) ==
    LET rk == DiffKids(A.kids, B.kids, t, TRUE)
    IN IF A.ns # B.ns \/ ~rk.ok THEN Err
       ELSE Ok(DRoot(None, FromTuple(A.doc, B.doc, NoDoc), rk.v))
Diffable(A, B, t) == Diff(A, B, t).ok

InverseLaw(A, B, t) == Diffable(A, B, t) => Apply(Diff(A, B, t).v, A, t) = Ok(B)

---------------------------------------------------------------------------
(* Textual form.  A diff is written as line records [ind, tag, cells];     *)
(* the reader maps a pair of equal cells to "none", so Edit(a,a) and None  *)
(* are the same diff in text.                                              *)
Cells(act, isDoc) ==
    LET P(x) == IF isDoc THEN x[1] ELSE x IN
    CASE act[1] = "none" -> <<"", "">>
      [] act[1] = "add"  -> <<"", P(act[2])>>
      [] act[1] = "rem"  -> <<P(act[2]), "">>
      [] act[1] = "edit" -> <<P(act[2]), P(act[3])>>
Line(ind, tag, cells) == [ind |-> ind, tag |-> tag, cells |-> cells]

NormAct(act) == IF act[1] = "edit" /\ act[2] = act[3] THEN None ELSE act
RECURSIVE NormKids(_)
NormKids(dk) == [k \in DOMAIN dk |->
                   [dk[k] EXCEPT !.info = NormAct(@), !.doc = NormAct(@), !.kids = NormKids(@)]]
Norm(D) == [D EXCEPT !.info = NormAct(@), !.doc = NormAct(@), !.kids = NormKids(@)]

(* Lines of one diff node at indentation ind, children in the order `ord` (a sequence of keys). *)
RECURSIVE NodeLines(_, _, _), KidsLines(_, _, _)
HeadLine(d, ind) ==
    CASE d.key.kind = "c" -> Line(ind, "c", <<d.key.name>> \o Cells(d.info, FALSE))
      [] d.key.kind = "f" -> Line(ind, "f", <<d.key.desc, d.key.name>> \o Cells(d.info, FALSE))
      [] d.key.kind = "m" -> Line(ind, "m", <<d.key.desc, d.key.name>> \o Cells(d.info, FALSE))
      [] d.key.kind = "p" -> Line(ind, "p", <<ToString(d.key.idx), "">> \o Cells(d.info, FALSE))
DocLines(d, ind) == IF d.doc = None THEN <<>> ELSE <<Line(ind, "c", Cells(d.doc, TRUE))>>
SetToSeq(S) == CHOOSE s \in [1..Cardinality(S) -> S] : \A i, j \in DOMAIN s : i # j => s[i] # s[j]
KidsLines(dk, ind, dummy) ==
    IF DOMAIN dk = {} THEN <<>>
    ELSE LET k == CHOOSE k \in DOMAIN dk : TRUE
         IN NodeLines(dk[k], ind, dummy) \o KidsLines([j \in DOMAIN dk \ {k} |-> dk[j]], ind, dummy)
(* dummy = 0: the comment line of an element right below it (as the writer of the format puts it); 1: behind the lines of *)
(* its members - the format does not order the lines below an element, a reader takes both (seed C04-12)               *)
NodeLines(d, ind, dummy) ==
    IF dummy = 1 THEN <<HeadLine(d, ind)>> \o KidsLines(d.kids, ind + 1, dummy) \o DocLines(d, ind + 1)
    ELSE <<HeadLine(d, ind)>> \o DocLines(d, ind + 1) \o KidsLines(d.kids, ind + 1, dummy)
DiffLines(D) == <<Line(0, "tiny", <<"2", "0">>)>> \o KidsLines(D.kids, 0, 0)
DiffLinesDocLast(D) == <<Line(0, "tiny", <<"2", "0">>)>> \o KidsLines(D.kids, 0, 1)
(* A comment that is the empty string is a value of a mapping set (a `c` line with an empty cell), but a .tinydiff reads an  *)
(* empty cell as "no comment": a diff that adds, removes or edits such a comment cannot be written down.                     *)
ActHasEmptyDoc(act) == \E i \in 2..Len(act) : act[i] = <<"">>
RECURSIVE KidsEmptyDoc(_)
KidsEmptyDoc(dk) == \E k \in DOMAIN dk : ActHasEmptyDoc(dk[k].doc) \/ KidsEmptyDoc(dk[k].kids)
TextExpressible(D) == D.info = None /\ D.doc = None /\ ~KidsEmptyDoc(D.kids)
=============================================================================
