----------------------------- MODULE Trace_Dummy -----------------------------
(* I2S for C10 *)
EXTENDS Dummy, Json, IOUtils

Rec == ndJsonDeserialize(IOEnv.TRACE)
VARIABLES l, rej

RECURSIVE NormDKids(_)
NormDKids(dk) == [k \in DOMAIN dk |-> [dk[k] EXCEPT !.kids = NormDKids(dk[k].kids)]]
NormD(D) == [D EXCEPT !.kids = NormDKids(D.kids)]
IsRes(g) == "ok" \in DOMAIN g /\ "v" \in DOMAIN g

Expected(r) ==
    CASE r.op = "remove" -> RemoveDummy(NormTree(r.M), r.t)
      [] r.op = "insert" -> InsertDummy(NormD(r.D))
      [] OTHER -> <<>>
Accept(r) ==
    CASE r.op = "remove" ->
            LET M == NormTree(r.M) IN
            /\ IsRes(r.got) /\ r.got.ok
            /\ LET g == NormTree(r.got.v) IN
               /\ g.ns = M.ns /\ g.doc = M.doc
               /\ KeptKidsLaw(g.kids, M.kids, r.t)
               /\ g = RemoveDummy(M, r.t).v
      [] r.op = "insert" ->
            LET D == NormD(r.D) IN
            /\ "kids" \in DOMAIN r.got
            /\ LET g == NormD(r.got) IN
               /\ g.info = D.info /\ g.doc = D.doc
               /\ InsertKidsLaw(g.kids, D.kids)
               /\ g = InsertDummy(D)
      [] OTHER -> FALSE

Init == l = 1 /\ rej = 0
Next ==
    /\ l <= Len(Rec)
    /\ l' = l + 1
    /\ IF Accept(Rec[l]) THEN rej' = rej
       ELSE /\ PrintT(ToJson([reject |-> l, exp |-> Expected(Rec[l])]))
            /\ rej' = rej + 1
Spec == Init /\ [][Next]_<<l, rej>>
Consumed == TLCGet("stats").diameter - 1 = Len(Rec)
=============================================================================
