--------------------------- MODULE Trace_TinyV2 ---------------------------
(* I2S for C03: recorded writes / reads of the real Tiny v2 code, judged by the specification. *)
EXTENDS TinyV2, Json, IOUtils

Rec == ndJsonDeserialize(IOEnv.TRACE)
VARIABLES l, rej

IsRes(g) == "ok" \in DOMAIN g /\ "v" \in DOMAIN g
SameRes(g, e) == IsRes(g) /\ g.ok = e.ok /\ (e.ok => g.v = e.v)

Expected(r) ==
    CASE r.op = "rt" -> [same |-> TRUE, fixed |-> TRUE, read |-> Ok(r.M), nlines |-> LineCount(r.M)]
      [] r.op = "lines" -> ReadLines(r.lines, r.n)
      [] OTHER -> <<>>

Accept(r) ==
    CASE r.op = "rt" ->
            /\ WellKeyed(r.M)
            /\ "same" \in DOMAIN r.got /\ r.got.same          \* text independent of insertion order
            /\ r.got.fixed                                     \* write(read(write(M))) = write(M)
            /\ SameRes(r.got.read, Ok(r.M))                    \* the real reader returns M
            /\ IsWritingOf(r.got.lines, r.M)                   \* the real text is a writing of M for the spec's reader
      [] r.op = "lines" -> SameRes(r.got, ReadLines(r.lines, r.n))
      [] OTHER -> FALSE

Init == l = 1 /\ rej = 0
Next ==
    /\ l <= Len(Rec)
    /\ l' = l + 1
    /\ IF Accept(Rec[l]) THEN rej' = rej
       ELSE /\ PrintT(ToJson([reject |-> l, exp |-> Expected(Rec[l])]))
            /\ rej' = rej + 1
Spec == Init /\ [][Next]_<<l, rej>>
Consumed == TLCGet("stats").diameter - 1 = Len(Rec)
=============================================================================
