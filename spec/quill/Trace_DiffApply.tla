-------------------------- MODULE Trace_DiffApply --------------------------
(***************************************************************************)
(* I2S for C04: every recorded operation of the real code (apply_to, diff, *)
(* read of a .tinydiff) is re-judged by the specification.  One TLC step   *)
(* per record; a record the specification does not allow is reported with  *)
(* the specification's own expectation and counted in `rej`.               *)
(***************************************************************************)
EXTENDS DiffApply, Json, IOUtils

Rec == ndJsonDeserialize(IOEnv.TRACE)
VARIABLES l, rej
T == 2

IsRes(g) == "ok" \in DOMAIN g /\ "v" \in DOMAIN g
SameRes(g, e) == IsRes(g) /\ g.ok = e.ok /\ (e.ok => g.v = e.v)

Expected(r) ==
    CASE r.op = "apply" -> Apply(r.D, r.T, T)
      [] r.op = "diff" -> IF Diffable(r.A, r.B, T) THEN Ok(r.B) ELSE [anyof |-> <<Err, Ok(r.B)>>]
      [] OTHER -> <<>>

Accept(r) ==
    CASE r.op = "apply" -> /\ WellKeyed(r.T)
                           /\ SameRes(r.got, Apply(r.D, r.T, T))
                           /\ (IsRes(r.got) /\ r.got.ok => WellKeyed(r.got.v))
                           /\ ApplyLaw(r.D, r.T, T)
      [] r.op = "diff" -> /\ WellKeyed(r.A) /\ WellKeyed(r.B)
                          /\ IsRes(r.got)
                          /\ IF Diffable(r.A, r.B, T) THEN SameRes(r.got, Ok(r.B))
                             ELSE (~r.got.ok \/ r.got.v = r.B)
      [] OTHER -> FALSE

Init == l = 1 /\ rej = 0
Next ==
    /\ l <= Len(Rec)
    /\ l' = l + 1
    /\ IF Accept(Rec[l]) THEN rej' = rej
       ELSE /\ PrintT(ToJson([reject |-> l, exp |-> Expected(Rec[l])]))
            /\ rej' = rej + 1
Spec == Init /\ [][Next]_<<l, rej>>

(* every line was consumed *)
Consumed == TLCGet("stats").diameter - 1 = Len(Rec)
=============================================================================
