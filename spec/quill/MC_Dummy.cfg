SPECIFICATION Spec
CONSTANT Tier = 0
INVARIANT InvRemove
INVARIANT InvInsert
INVARIANT Emit
CHECK_DEADLOCK FALSE
