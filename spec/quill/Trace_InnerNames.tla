-------------------------- MODULE Trace_InnerNames --------------------------
(* I2S for C11 *)
EXTENDS InnerNames, Json, IOUtils

Rec == ndJsonDeserialize(IOEnv.TRACE)
VARIABLES l, rej

IsRes(g) == "ok" \in DOMAIN g /\ "v" \in DOMAIN g
Same(g, e) == IsRes(g) /\ g.ok = e.ok /\ (e.ok => NormTree(g.v) = e.v)

Expected(r) ==
    CASE r.op = "extend" -> Extend(NormTree(r.M), r.t)
      [] r.op = "contract" -> Contract(NormTree(r.M), r.t)
      [] r.op = "extcon" -> (LET e == Extend(NormTree(r.M), r.t) IN IF e.ok THEN Contract(e.v, r.t) ELSE Err)
      [] r.op = "split" -> Split(r.n)
      [] r.op = "join" -> [joined |-> Join(r.p, r.i), split |-> Split(Join(r.p, r.i))]
      [] OTHER -> <<>>

Accept(r) ==
    CASE r.op \in {"extend", "contract"} ->
            LET M == NormTree(r.M) IN
            /\ Same(r.got, Expected(r))
            /\ ExtendLaw(M, r.t) /\ ContractLaw(M, r.t)
      [] r.op = "extcon" ->
            LET M == NormTree(r.M) IN
            /\ Same(r.got, Expected(r))
            /\ (r.got.ok /\ AllSimple(M, r.t)) => NormTree(r.got.v) = M
      [] r.op = "split" -> r.got = Split(r.n) /\ SplitJoinLaw(r.n)
      [] r.op = "join" -> r.got.joined = Join(r.p, r.i) /\ r.got.split = Split(Join(r.p, r.i)) /\ JoinSplitLaw(r.p, r.i)
      [] OTHER -> FALSE

Init == l = 1 /\ rej = 0
Next ==
    /\ l <= Len(Rec)
    /\ l' = l + 1
    /\ IF Accept(Rec[l]) THEN rej' = rej
       ELSE /\ PrintT(ToJson([reject |-> l, exp |-> Expected(Rec[l])]))
            /\ rej' = rej + 1
Spec == Init /\ [][Next]_<<l, rej>>
Consumed == TLCGet("stats").diameter - 1 = Len(Rec)
=============================================================================
