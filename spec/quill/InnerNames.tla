---------------------------- MODULE InnerNames ----------------------------
(***************************************************************************)
(* Property C11.  Inner-class name extension / contraction                 *)
(* (quill/src/action/extend_inner_class_names.rs) and the split / join     *)
(* helpers of duke's ObjClassName (duke/src/tree/class.rs).                *)
(* Names are strings; TLC evaluates Len, \o and SubSeq on strings.         *)
(***************************************************************************)
EXTENDS MappingTree

Ch(s, i) == SubSeq(s, i, i)
HasChar(s, c) == \E i \in 1..Len(s) : Ch(s, i) = c
LastPos(s, c) == IF HasChar(s, c) THEN CHOOSE i \in 1..Len(s) : Ch(s, i) = c /\ \A j \in (i + 1)..Len(s) : Ch(s, j) # c ELSE 0

(* ObjClassNameSlice::split_inner_class_parent_and_name: at the last "$", both sides *)
(* non-empty, the parent not ending in "/", the inner part without "/"               *)
Split(n) ==
    LET i == LastPos(n, "$")
    IN IF i = 0 THEN <<>>
       ELSE LET parent == SubSeq(n, 1, i - 1)
                inner == SubSeq(n, i + 1, Len(n))
            IN IF parent # "" /\ inner # "" /\ Ch(parent, Len(parent)) # "/" /\ ~HasChar(inner, "/")
               THEN <<parent, inner>> ELSE <<>>
Nested(n) == Split(n) # <<>>
ParentOf(n) == Split(n)[1]
InnerOf(n) == Split(n)[2]
(* ObjClassName::from_inner_class *)
Join(parent, inner) == parent \o "$" \o inner

(* split and join are mutually inverse *)
SplitJoinLaw(n) == Nested(n) => Join(ParentOf(n), InnerOf(n)) = n
JoinSplitLaw(p, i) == (p # "" /\ i # "" /\ Ch(p, Len(p)) # "/" /\ ~HasChar(i, "/") /\ ~HasChar(i, "$")) => Split(Join(p, i)) = <<p, i>>

---------------------------------------------------------------------------
ClassKey(src) == "c " \o src
HasClass(M, src) == ClassKey(src) \in DOMAIN M.kids
NameOf(M, src, t) == M.kids[ClassKey(src)].names[t]

(* Operational: the code's recursive `map` *)
RECURSIVE MapName(_, _, _, _)
MapName(M, t, src, mapped) ==
    IF ~Nested(src) THEN Ok(mapped)
    ELSE LET p == ParentOf(src)
         IN IF ~HasClass(M, p) \/ NameOf(M, p, t) = NoName THEN Err      \* get_class_name fails
            ELSE LET r == MapName(M, t, p, NameOf(M, p, t))
                 IN IF r.ok THEN Ok(Join(r.v, mapped)) ELSE Err

Extend(M, t) ==
    IF t < 1 \/ t > Len(M.ns) THEN Err
    ELSE IF t = 1 THEN (IF DOMAIN M.kids = {} THEN Ok(M) ELSE Err)        \* get_mut_with_src refuses the first namespace
    ELSE LET r == [k \in DOMAIN M.kids |->
                      LET c == M.kids[k]
                      IN IF c.names[t] = NoName THEN Ok(c)
                         ELSE LET n == MapName(M, t, c.names[1], c.names[t])
                              IN IF n.ok THEN Ok([c EXCEPT !.names[t] = n.v]) ELSE Err]
         IN IF \A k \in DOMAIN M.kids : r[k].ok THEN Ok([M EXCEPT !.kids = [k \in DOMAIN M.kids |-> r[k].v]]) ELSE Err

Contract(M, t) ==
    IF t < 1 \/ t > Len(M.ns) THEN Err
    ELSE Ok([M EXCEPT !.kids = [k \in DOMAIN M.kids |->
                [M.kids[k] EXCEPT !.names[t] = IF @ # NoName /\ Nested(@) THEN InnerOf(@) ELSE @]]])

---------------------------------------------------------------------------
(* Declarative: the chain of enclosing classes by source name, outermost first *)
RECURSIVE Chain(_)
Chain(src) == IF Nested(src) THEN Append(Chain(ParentOf(src)), src) ELSE <<src>>
RECURSIVE JoinAll(_)
JoinAll(ns) == IF Len(ns) = 1 THEN ns[1] ELSE Join(JoinAll(SubSeq(ns, 1, Len(ns) - 1)), ns[Len(ns)])

(* a class can be extended iff every enclosing class is in the set and named in t *)
Extendable(M, t, src) ==
    \A i \in 1..(Len(Chain(src)) - 1) : HasClass(M, Chain(src)[i]) /\ NameOf(M, Chain(src)[i], t) # NoName
ExtendedName(M, t, src) ==
    LET ch == Chain(src) IN JoinAll([i \in 1..Len(ch) |-> NameOf(M, ch[i], t)])

ExtendLaw(M, t) ==
    LET r == Extend(M, t)
        named == {k \in DOMAIN M.kids : M.kids[k].names[t] # NoName}
    IN t > 1 =>
       /\ r.ok <=> \A k \in named : Extendable(M, t, M.kids[k].names[1])           \* fails rather than guessing
       /\ r.ok =>
            /\ DOMAIN r.v.kids = DOMAIN M.kids /\ r.v.ns = M.ns /\ r.v.doc = M.doc
            /\ \A k \in DOMAIN M.kids :
                LET c == M.kids[k]
                    d == r.v.kids[k]
                IN /\ [d EXCEPT !.names[t] = c.names[t]] = c                       \* nothing else touched
                   /\ d.names[t] = (IF k \in named THEN ExtendedName(M, t, c.names[1]) ELSE NoName)
                   /\ (k \in named /\ ~Nested(c.names[1])) => d.names[t] = c.names[t]   \* top level untouched
                   \* extended name of the outer class + $ + own name
                   /\ (k \in named /\ Nested(c.names[1])) =>
                         d.names[t] = Join(r.v.kids[ClassKey(ParentOf(c.names[1]))].names[t], c.names[t])

(* "the original names were simple": a nested class carries a simple name (no package, no $), *)
(* a top-level class a name that does not look nested                                          *)
AllSimple(M, t) ==
    \A k \in DOMAIN M.kids :
        LET n == M.kids[k].names[t]
        IN n = NoName \/ (IF Nested(M.kids[k].names[1]) THEN ~HasChar(n, "$") /\ ~HasChar(n, "/") ELSE ~Nested(n))
SplitFree(M, t) == \A k \in DOMAIN M.kids : M.kids[k].names[t] = NoName \/ ~Nested(M.kids[k].names[t])
ContractLaw(M, t) ==
    LET e == Extend(M, t)
    IN /\ (t > 1 /\ e.ok /\ AllSimple(M, t)) => Contract(e.v, t) = Ok(M)           \* inverse
       /\ Contract(M, t).ok => SplitFree(Contract(M, t).v, t)                       \* innermost simple name only
       /\ Contract(M, t).ok => Contract(Contract(M, t).v, t) = Contract(M, t)
=============================================================================
