------------------------------- MODULE Dummy -------------------------------
(***************************************************************************)
(* Property C10.  Placeholder ("dummy") mappings:                          *)
(*   Mappings::remove_dummy(ns)         quill/src/action/remove_dummy.rs   *)
(*   MappingsDiff::insert_dummy_and_contract_inner_names()  insert_dummy.rs*)
(* Names are strings (Len, \o, SubSeq evaluate on strings in TLC).         *)
(***************************************************************************)
EXTENDS DiffApply

StartsWith(s, p) == Len(s) >= Len(p) /\ SubSeq(s, 1, Len(p)) = p

(* The documented rules: which name is a placeholder for which kind of entry. *)
(* An entry without a name in the chosen namespace is not a placeholder.      *)
IsPlaceholder(kind, n) ==
    /\ n # NoName
    /\ CASE kind = "c" -> StartsWith(n, "C_") \/ StartsWith(n, "net/minecraft/unmapped/C_")
         [] kind = "f" -> StartsWith(n, "f_")
         [] kind = "m" -> StartsWith(n, "m_") \/ n = "<init>" \/ n = "<clinit>"
         [] kind = "p" -> StartsWith(n, "p_")

---------------------------------------------------------------------------
(* Operational: nested retain closures, children first *)
RECURSIVE RetainKids(_, _)
RetainNode(n, t) ==       \* the node with its children filtered, and whether it is retained
    LET kids == RetainKids(n.kids, t)
    IN [node |-> [n EXCEPT !.kids = kids],
        keep |-> n.doc # NoDoc \/ DOMAIN kids # {} \/ ~IsPlaceholder(n.kind, n.names[t])]
RetainKids(kids, t) ==
    LET r == [k \in DOMAIN kids |-> RetainNode(kids[k], t)]
    IN [k \in {k \in DOMAIN kids : r[k].keep} |-> r[k].node]
RemoveDummy(M, t) ==
    IF t < 1 \/ t > Len(M.ns) THEN Err ELSE Ok([M EXCEPT !.kids = RetainKids(M.kids, t)])

(* Declarative: an entry is removed iff it is placeholder-named, carries no comment *)
(* and all its children are removed                                                 *)
RECURSIVE Removed(_, _)
Removed(n, t) == IsPlaceholder(n.kind, n.names[t]) /\ n.doc = NoDoc /\ \A k \in DOMAIN n.kids : Removed(n.kids[k], t)
RECURSIVE KeptKidsLaw(_, _, _)
KeptKidsLaw(rk, mk, t) ==
    /\ DOMAIN rk = {k \in DOMAIN mk : ~Removed(mk[k], t)}                 \* precisely the named entries are deleted
    /\ \A k \in DOMAIN rk :
        /\ [rk[k] EXCEPT !.kids = mk[k].kids] = mk[k]                     \* every other entry unchanged
        /\ KeptKidsLaw(rk[k].kids, mk[k].kids, t)
    /\ \A k \in DOMAIN mk \ DOMAIN rk : DOMAIN RetainKids(mk[k].kids, t) = {}     \* never removed with a retained child
RemoveLaw(M, t) ==
    LET r == RemoveDummy(M, t)
    IN (t >= 1 /\ t <= Len(M.ns)) =>
        /\ r.ok /\ r.v.ns = M.ns /\ r.v.doc = M.doc
        /\ KeptKidsLaw(r.v.kids, M.kids, t)
        /\ RemoveDummy(r.v, t) = r                                         \* idempotent

---------------------------------------------------------------------------
(* Diff side *)
IsDiff(a) == a[1] \in {"add", "rem"} \/ (a[1] = "edit" /\ a[2] # a[3])

(* the placeholder a removed entry falls back to: source name; p_<index>; simple inner name *)
LastDollarSplit(n) ==      \* ObjClassName::get_inner_class_name, see InnerNames.tla (same rule)
    LET HasC(s, c) == \E i \in 1..Len(s) : SubSeq(s, i, i) = c
        pos == IF HasC(n, "$") THEN CHOOSE i \in 1..Len(n) : SubSeq(n, i, i) = "$" /\ \A j \in (i + 1)..Len(n) : SubSeq(n, j, j) # "$" ELSE 0
        parent == SubSeq(n, 1, pos - 1)
        inner == SubSeq(n, pos + 1, Len(n))
    IN IF pos # 0 /\ parent # "" /\ inner # "" /\ SubSeq(parent, Len(parent), Len(parent)) # "/" /\ ~HasC(inner, "/") THEN inner ELSE n
PlaceholderFor(key) ==
    CASE key.kind = "c" -> LastDollarSplit(key.name)
      [] key.kind \in {"f", "m"} -> key.name
      [] key.kind = "p" -> "p_" \o ToString(key.idx)

(* Operational: retain closures with the validator match *)
RECURSIVE InsertKids(_)
InsertNode(d) ==
    LET kids == InsertKids(d.kids)
        valid == d.info[1] # "add"
        info == IF d.info[1] = "rem" THEN Edit(d.info[2], PlaceholderFor(d.key)) ELSE d.info
        own == valid /\ (IsDiff(info) \/ IsDiff(d.doc))
    IN [node |-> [d EXCEPT !.info = info, !.kids = kids],
        keep |-> IF d.key.kind \in {"c", "m"} THEN own \/ DOMAIN kids # {} ELSE own]
InsertKids(dk) ==
    LET r == [k \in DOMAIN dk |-> InsertNode(dk[k])]
    IN [k \in {k \in DOMAIN dk : r[k].keep} |-> r[k].node]
InsertDummy(D) == [D EXCEPT !.kids = InsertKids(D.kids)]

(* Declarative: the per-level table of the property *)
RECURSIVE InsertKidsLaw(_, _)
InsertKidsLaw(rk, dk) ==
    /\ DOMAIN rk \subseteq DOMAIN dk
    /\ \A k \in DOMAIN dk :
        LET d == dk[k]
            leaf == d.key.kind \in {"f", "p"}
        IN IF k \in DOMAIN rk
           THEN LET r == rk[k] IN
                /\ r.key = d.key /\ r.doc = d.doc
                /\ r.info[1] # "rem"                                                   \* every removal became an edit
                /\ (d.info[1] = "rem" => r.info = Edit(d.info[2], PlaceholderFor(d.key)))    \* back to the placeholder
                /\ (d.info[1] # "rem" => r.info = d.info)
                /\ (r.info[1] = "add" => ~leaf /\ DOMAIN r.kids # {})                 \* additions survive only with children
                /\ InsertKidsLaw(r.kids, d.kids)
           ELSE \* dropped: an addition (without remaining children), or a node that changes nothing and has none
                LET kids == InsertKids(d.kids)
                    info == IF d.info[1] = "rem" THEN Edit(d.info[2], PlaceholderFor(d.key)) ELSE d.info
                IN /\ (leaf \/ DOMAIN kids = {})
                   /\ d.info[1] = "add" \/ (~IsDiff(info) /\ ~IsDiff(d.doc))
InsertLaw(D) ==
    LET r == InsertDummy(D)
    IN /\ r.info = D.info /\ r.doc = D.doc
       /\ InsertKidsLaw(r.kids, D.kids)
       /\ InsertDummy(r) = r                                                           \* idempotent
=============================================================================
