------------------------------ MODULE MC_Merge ------------------------------
(***************************************************************************)
(* Bounded instance for C09.  Cases, all drawn inside Next:                *)
(*   pair   - all pairs (A,B) of trees with at most one key per level      *)
(*   focus  - one level kind: every combination of presence, target name,  *)
(*            comment (absent / d / e), parameter source name and, for     *)
(*            entries stored under the same key, differing descriptor /    *)
(*            index (IndexMap fields are public: key and content can       *)
(*            disagree), under minimal ancestors                           *)
(*   two    - two class keys K, L: each side has any subset, so the        *)
(*            overlap is none / partial / full                             *)
(*   root   - namespaces and top-level comments                            *)
(***************************************************************************)
EXTENDS Merge, Json

CONSTANT Tier
VARIABLES phase, A, B
vars == <<phase, A, B>>

NSA == <<"s", "a">>
NSB == <<"s", "b">>

Docs2 == {<<>>, <<"d">>}
Docs3 == {<<>>, <<"d">>, <<"e">>, <<"">>}      \* <<"">>: a comment that is the empty string is a comment like any other (seed C09-11)
OptMap(S) == {<<>>} \cup {MapOf({n}) : n \in S}

(* one-key-per-level universe, side-specific target name t *)
PSet(t) == {Param(0, <<"", n>>, <<>>) : n \in IF Tier = 0 THEN {t} ELSE {"", t}}
MSet(t) == {Method(<<"m", n>>, "()V", d, pk) : n \in {"", t}, d \in Docs2, pk \in OptMap(PSet(t))}
FSet(t) == {Field(<<"f", n>>, "I", d) : n \in {"", t}, d \in {<<>>, <<IF t = "x" THEN "d" ELSE "e">>}}   \* both sides commented = conflict
CSet(t) == {Class(<<"K", n>>, d, fk @@ mk) : n \in {"", t}, d \in Docs2, fk \in OptMap(FSet(t)), mk \in OptMap(MSet(t))}
TSet(ns, t) == {Root(ns, <<>>, ck) : ck \in OptMap(CSet(t))}

(* focus leaves; `alt` asks for a content that disagrees with the key it is stored under *)
Leaf(kind, s, n, d, alt) ==
    CASE kind = "c" -> Class(<<"K", n>>, d, <<>>)
      [] kind = "f" -> Field(<<"f", n>>, IF alt THEN "J" ELSE "I", d)
      [] kind = "m" -> Method(<<"m", n>>, IF alt THEN "(I)V" ELSE "()V", d, <<>>)
      [] kind = "p" -> [Param(0, <<s, n>>, d) EXCEPT !.idx = IF alt THEN 1 ELSE 0]
LeafKey(kind) == KeyOf(Leaf(kind, "", "", <<>>, FALSE))
Wrap(ns, kind, kids) ==
    CASE kind = "c" -> Root(ns, <<>>, kids)
      [] kind \in {"f", "m"} -> Root(ns, <<>>, MapOf({Class(<<"K", "">>, <<>>, kids)}))
      [] kind = "p" -> Root(ns, <<>>, MapOf({Class(<<"K", "">>, <<>>,
                                         MapOf({Method(<<"m", "">>, "()V", <<>>, kids)}))}))
SrcNames(kind) == IF kind = "p" THEN {"", "p", "q"} ELSE {""}
Alts(kind) == IF kind = "c" THEN {FALSE} ELSE {FALSE, TRUE}
FocusKids(kind, t) ==
    {<<>>} \cup {(LeafKey(kind) :> Leaf(kind, s, n, d, alt)) :
                    s \in SrcNames(kind), n \in {"", t}, d \in Docs3, alt \in Alts(kind)}

(* two class keys *)
TwoSet(t) == {Class(<<c, n>>, d, <<>>) : c \in {"K", "L"}, n \in {"", t}, d \in {<<>>, <<IF t = "x" THEN "d" ELSE "e">>}}
TwoKids(t) == {MapOf(S) : S \in {S \in SUBSET TwoSet(t) : \A x, y \in S : x.names[1] = y.names[1] => x = y}}

Init == phase = "start" /\ A = <<>> /\ B = <<>>

PickPairA == phase = "start" /\ \E a \in TSet(NSA, "x") : A' = a /\ phase' = "a" /\ UNCHANGED B
PickPairB == phase = "a" /\ \E b \in TSet(NSB, "y") : B' = b /\ phase' = "pair" /\ UNCHANGED A
PickFocus ==
    /\ phase = "start"
    /\ \E kind \in {"c", "f", "m", "p"} : \E ak \in FocusKids(kind, "x"), bk \in FocusKids(kind, "y") :
        /\ A' = Wrap(NSA, kind, ak) /\ B' = Wrap(NSB, kind, bk)
    /\ phase' = "focus"
PickTwo ==
    /\ phase = "start"
    /\ \E ak \in TwoKids("x"), bk \in TwoKids("y") : A' = Root(NSA, <<>>, ak) /\ B' = Root(NSB, <<>>, bk)
    /\ phase' = "two"
(* b2 = "s" with s1 = "z": A's first namespace is B's second one (a forgotten reorder) - refused like any other pair of first namespaces that differ *)
PickRoot ==
    /\ phase = "start"
    /\ \E s1 \in {"s", "z"}, b2 \in {"b", "a", "s"}, da \in Docs3, db \in Docs3, ck \in OptMap({Class(<<"K", "x">>, <<>>, <<>>)}) :
        /\ A' = Root(NSA, da, ck) /\ B' = Root(<<s1, b2>>, db, <<>>)
    /\ phase' = "root"

Next == PickPairA \/ PickPairB \/ PickFocus \/ PickTwo \/ PickRoot
Spec == Init /\ [][Next]_vars

Has == phase \in {"pair", "focus", "two", "root"}
InvMergeLaw == Has => MergeLaw(A, B)
(* well-keyed inputs give a well-keyed result (the IndexMap invariant is preserved) *)
InvWellKeyed == (Has /\ WellKeyed(A) /\ WellKeyed(B) /\ Merge(A, B).ok) => WellKeyed(Merge(A, B).v)
(* with well-keyed inputs descriptors and indices cannot conflict *)
(* a mapping set is a partial function: the result does not depend on the order in which the entries were put into either *)
(* side.  revB asks the driver to build B with its entries inserted in the opposite order (it matters where a level has   *)
(* two keys: family "two")                                                                                                *)
Emit ==
    /\ Has => PrintT(ToJson([op |-> "merge", ph |-> phase, wk |-> (WellKeyed(A) /\ WellKeyed(B)), A |-> A, B |-> B, revB |-> FALSE, exp |-> Merge(A, B)]))
    /\ phase = "two" => PrintT(ToJson([op |-> "merge", ph |-> "two-rev", wk |-> (WellKeyed(A) /\ WellKeyed(B)), A |-> A, B |-> B, revB |-> TRUE, exp |-> Merge(A, B)]))
=============================================================================
