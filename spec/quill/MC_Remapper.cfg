SPECIFICATION Spec
CONSTANT Tier = 0
INVARIANT InvDescLaw
INVARIANT InvClassLaw
INVARIANT InvSearchAgree
INVARIANT InvRoundTrip
INVARIANT Emit
CHECK_DEADLOCK FALSE
