---------------------------- MODULE MappingTree ----------------------------
(***************************************************************************)
(* Abstract data model of quill's mapping sets (quill/src/tree).           *)
(*                                                                         *)
(* A mapping set over N namespaces is a root [ns, doc, kids]; every entry  *)
(* below it (class, field, method, parameter) is a node                    *)
(*   [kind, names, desc, idx, doc, kids]                                   *)
(* where `names` has length N ("" = no name in that namespace; names are   *)
(* never empty in quill so the encoding is injective), `doc` is <<>> or    *)
(* <<text>>, and `kids` is a partial function key -> node.  This mirrors   *)
(* the IndexMap fields of Mappings / ClassNowodeMapping / ... one to one;  *)
(* the four node types of the code are the four values of `kind`.          *)
(* The key of a node is determined by the node (ToKey in the code):        *)
(*   class "c <src>", field "f <src> <desc>", method "m <src> <desc>",     *)
(*   parameter "p <index>".                                                *)
(***************************************************************************)
EXTENDS Naturals, Sequences, FiniteSets, TLC

NoName == ""
NoDoc  == <<>>

Node(kind, names, desc, idx, doc, kids) ==
    [kind |-> kind, names |-> names, desc |-> desc, idx |-> idx, doc |-> doc, kids |-> kids]

Class(names, doc, kids)        == Node("c", names, "", 0, doc, kids)
Field(names, desc, doc)        == Node("f", names, desc, 0, doc, <<>>)
Method(names, desc, doc, kids) == Node("m", names, desc, 0, doc, kids)
Param(idx, names, doc)         == Node("p", names, "", idx, doc, <<>>)
Root(ns, doc, kids)            == [ns |-> ns, doc |-> doc, kids |-> kids]

KeyOf(n) ==
    CASE n.kind = "c" -> "c " \o n.names[1]
      [] n.kind = "f" -> "f " \o n.names[1] \o " " \o n.desc
      [] n.kind = "m" -> "m " \o n.names[1] \o " " \o n.desc
      [] n.kind = "p" -> "p " \o ToString(n.idx)

(* A set of nodes with pairwise distinct keys, as a kids map. *)
MapOf(S) == [k \in {KeyOf(n) : n \in S} |-> CHOOSE n \in S : KeyOf(n) = k]

(* The IndexMap invariant the code relies on: every key is the key of its  *)
(* node, and kinds nest class > field|method > parameter.                  *)
RECURSIVE WellKeyedKids(_, _)
WellKeyedKids(kids, parentKind) ==
    \A k \in DOMAIN kids :
        LET n == kids[k] IN
        /\ KeyOf(n) = k
        /\ CASE parentKind = "r" -> n.kind = "c"
             [] parentKind = "c" -> n.kind \in {"f", "m"}
             [] parentKind = "m" -> n.kind = "p"
             [] OTHER -> FALSE
        /\ (n.kind # "p" => n.names[1] # NoName)
        /\ WellKeyedKids(n.kids, n.kind)
WellKeyed(M) == WellKeyedKids(M.kids, "r")

NumNs(M) == Len(M.ns)

(* Results of partial operations: the code returns anyhow::Result; the     *)
(* specification only distinguishes success (with value) from refusal.     *)
Ok(v) == [ok |-> TRUE, v |-> v]
Err   == [ok |-> FALSE, v |-> <<>>]

(* Values read from JSON carry the empty kids map as an empty record, which TLC refuses   *)
(* to compare with the empty function; NormTree rebuilds every kids map as a function.    *)
RECURSIVE NormTreeKids(_)
NormTreeKids(kids) == [k \in DOMAIN kids |-> [kids[k] EXCEPT !.kids = NormTreeKids(kids[k].kids)]]
NormTree(M) == [M EXCEPT !.kids = NormTreeKids(M.kids)]

(* number of nodes, used by CONSTRAINTs and statistics *)
RECURSIVE SizeKids(_)
SizeKids(kids) ==
    IF DOMAIN kids = {} THEN 0
    ELSE LET k == CHOOSE k \in DOMAIN kids : TRUE
             rest == [j \in DOMAIN kids \ {k} |-> kids[j]]
         IN 1 + SizeKids(kids[k].kids) + SizeKids(rest)
=============================================================================
