------------------------------ MODULE Reorder ------------------------------
(***************************************************************************)
(* Property C08.  Mappings::reorder (quill/src/action/reorder.rs).         *)
(* `order` is the list of namespace names wanted; pi[i] is the old index   *)
(* found at new position i (the code's `table`).                           *)
(*                                                                         *)
(* Operational: the code - permute every name row, translate member        *)
(* descriptors with the class table old-first -> new-first, rebuild every  *)
(* IndexMap through add_child (key from the entry's new first name;        *)
(* missing name or duplicate key is an error).                             *)
(* Declarative: on the flattened rows of the set - the rows of the result  *)
(* are exactly the permuted rows of the input, none merged or lost.        *)
(***************************************************************************)
EXTENDS Remapper

IndexOf(seq, x) == IF \E i \in 1..Len(seq) : seq[i] = x THEN CHOOSE i \in 1..Len(seq) : seq[i] = x /\ \A j \in 1..(i - 1) : seq[j] # x ELSE 0
(* Namespaces::get_namespace per wanted name *)
TableOf(M, order) == [i \in 1..Len(order) |-> IndexOf(M.ns, order[i])]
IsPerm(pi, N) == Len(pi) = N /\ {pi[i] : i \in 1..N} = 1..N
Inverse(pi) == [i \in 1..Len(pi) |-> CHOOSE j \in 1..Len(pi) : pi[j] = i]
Perm(names, pi) == [i \in 1..Len(pi) |-> names[pi[i]]]

---------------------------------------------------------------------------
(* Operational *)
RECURSIVE ReorderKids(_, _, _)
ReorderNode(n, pi, R) ==
    LET names == Perm(n.names, pi)
        d == IF n.kind \in {"f", "m"} THEN MapDesc(R, n.desc) ELSE Ok(n.desc)
        rk == ReorderKids(n.kids, pi, R)
    IN IF ~d.ok \/ ~rk.ok THEN Err
       ELSE IF n.kind # "p" /\ names[1] = NoName THEN Err          \* get_key: no name in the first namespace
       ELSE Ok([n EXCEPT !.names = names, !.desc = d.v, !.kids = rk.v])
ReorderKids(kids, pi, R) ==
    LET r == [k \in DOMAIN kids |-> ReorderNode(kids[k], pi, R)]
    IN IF \E k \in DOMAIN kids : ~r[k].ok THEN Err
       ELSE LET img == {r[k].v : k \in DOMAIN kids}
            IN IF Cardinality({KeyOf(n) : n \in img}) # Cardinality(DOMAIN kids) THEN Err    \* add_child: key already exists
               ELSE Ok(MapOf(img))

Reorder(M, order) ==
    LET pi == TableOf(M, order)
    IN IF Len(order) # Len(M.ns) \/ \E i \in 1..Len(pi) : pi[i] = 0 THEN Err          \* unknown namespace
       ELSE LET R == ClassTable(M, 1, pi[1])
                rk == ReorderKids(M.kids, pi, R)
            IN IF rk.ok THEN Ok(Root(Perm(M.ns, pi), M.doc, rk.v)) ELSE Err

---------------------------------------------------------------------------
(* Declarative, on flattened rows.  A row is the path of entries from a    *)
(* class down to one entry, each step [kind, names, desc, idx, doc].       *)
Step(n) == [kind |-> n.kind, names |-> n.names, desc |-> n.desc, idx |-> n.idx, doc |-> n.doc]
RECURSIVE RowsOfKids(_, _)
RowsOfKids(kids, prefix) ==
    UNION {{Append(prefix, Step(kids[k]))} \cup RowsOfKids(kids[k].kids, Append(prefix, Step(kids[k]))) : k \in DOMAIN kids}
Rows(M) == RowsOfKids(M.kids, <<>>)

PermStep(s, pi, R) ==
    [s EXCEPT !.names = Perm(s.names, pi),
              !.desc = CASE s.kind = "f" -> MapFieldDescG(R, s.desc).v
                         [] s.kind = "m" -> MapMethodDescG(R, s.desc).v
                         [] OTHER -> s.desc]
PermRow(row, pi, R) == [i \in 1..Len(row) |-> PermStep(row[i], pi, R)]

(* the operation is defined iff every class, field and method has a name in the new first *)
(* namespace and no two siblings collide under their new keys                             *)
StepKey(s) == <<s.kind, s.names[1], s.desc, s.idx>>
RowKey(row) == [i \in 1..Len(row) |-> StepKey(row[i])]
Defined(M, pi) ==
    LET R == ClassTable(M, 1, pi[1])
        P == {PermRow(r, pi, R) : r \in Rows(M)}
    IN /\ \A r \in Rows(M) : r[Len(r)].kind # "p" => r[Len(r)].names[pi[1]] # NoName
       /\ Cardinality({RowKey(r) : r \in P}) = Cardinality(Rows(M))

IsReorder(Rs, M, pi) ==
    LET R == ClassTable(M, 1, pi[1])
    IN /\ Rs.ns = Perm(M.ns, pi)
       /\ Rs.doc = M.doc
       /\ WellKeyed(Rs)
       /\ Rows(Rs) = {PermRow(r, pi, R) : r \in Rows(M)}            \* the same entries, permuted
       /\ Cardinality(Rows(Rs)) = Cardinality(Rows(M))               \* none merged, none lost

(* class names a descriptor mentions *)
DescClasses(kind, d) ==
    IF kind = "f" THEN (LET p == ParseField(d) IN IF p.ok /\ p.v.base = "L" THEN {p.v.name} ELSE {})
    ELSE IF kind = "m" THEN (LET p == ParseMethod(d)
                             IN IF ~p.ok THEN {}
                                ELSE {p.v.params[i].name : i \in {i \in 1..Len(p.v.params) : p.v.params[i].base = "L"}}
                                     \cup (IF p.v.ret.base = "L" THEN {p.v.ret.name} ELSE {}))
    ELSE {}
AllDescClasses(M) == UNION {DescClasses(r[Len(r)].kind, r[Len(r)].desc) : r \in Rows(M)}
(* a class name mentioned in a descriptor but not mapped must not coincide with the *)
(* new-first name of a mapped class, or translating back would capture it            *)
NoCapture(M, pi) ==
    \A c \in AllDescClasses(M) :
        c \notin DOMAIN ClassTable(M, 1, pi[1]) => c \notin {n.names[pi[1]] : n \in ClassNodes(M)}

ReorderLaw(M, order) ==
    LET pi == TableOf(M, order)
        r == Reorder(M, order)
    IN IsPerm(pi, Len(M.ns)) =>
        /\ r.ok <=> Defined(M, pi)
        /\ r.ok => IsReorder(r.v, M, pi)
        /\ (pi = [i \in 1..Len(pi) |-> i]) => r = Ok(M)                                     \* identity
        /\ (r.ok /\ NoCapture(M, pi)) => Reorder(r.v, M.ns) = Ok(M)                          \* inverse
=============================================================================
