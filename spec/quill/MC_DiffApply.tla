--------------------------- MODULE MC_DiffApply ---------------------------
(***************************************************************************)
(* Bounded instance for C04.  Three families of cases, all drawn inside    *)
(* Next (parallel), one TLC state per case:                                *)
(*   table   - focus level L: every action x target present/absent x       *)
(*             matching/mismatching old value, name and comment, under a   *)
(*             parent that is kept / edited                                *)
(*   pair    - all pairs (A,B) of trees with one key per level; all pairs  *)
(*             differing in comments of field / parameter / method / class *)
(*             only (PickL)                                                *)
(*   corrupt - a valid diff(A,B) with one action replaced by any other     *)
(* Every case is judged by ApplyLaw / InverseLaw and emitted as a vector   *)
(* for replay through the real code.                                       *)
(***************************************************************************)
EXTENDS DiffApply, Json

CONSTANT Tier        \* 0 = quick, 1 = thorough

VARIABLES phase, A, B, D
vars == <<phase, A, B, D>>

T == 2   \* target namespace (second column)
NS == <<"src", "dst">>

Names == {"", "x"}
NamesC == IF Tier = 0 THEN {"", "x"} ELSE {"", "x", "y"}
Docs == {<<>>, <<"d">>}
DocsLeaf == IF Tier = 0 THEN {<<>>} ELSE {<<>>, <<"d">>}

Acts(V, none) == {None} \cup {Add(b) : b \in V \ {none}} \cup {Rem(a) : a \in V \ {none}}
                  \cup {Edit(a, b) : a \in V \ {none}, b \in V \ {none}}

---------------------------------------------------------------------------
(* trees with one key per level *)
OptMap(S) == {<<>>} \cup {MapOf({n}) : n \in S}
ParamSet == {Param(0, <<"", n>>, d) : n \in Names, d \in DocsLeaf}
MethodSet == {Method(<<"m", n>>, "()V", d, pk) : n \in Names, d \in Docs, pk \in OptMap(ParamSet)}
FieldSet == {Field(<<"f", n>>, "I", d) : n \in Names, d \in DocsLeaf}
ClassSet == {Class(<<"K", n>>, d, fk @@ mk) : n \in NamesC, d \in Docs, fk \in OptMap(FieldSet), mk \in OptMap(MethodSet)}
TreeSet == {Root(NS, <<>>, ck) : ck \in OptMap(ClassSet)}
           \cup {Root(NS, d, ck) : d \in {<<"d">>, <<"e">>}, ck \in OptMap({Class(<<"K", "x">>, <<>>, <<>>)})}

---------------------------------------------------------------------------
(* table cases: one node at the focus level *)
TV == {"", "x", "y"}
TD == {<<>>, <<"d">>, <<"e">>}
TActsN == Acts(TV, "")
TActsD == Acts(TD, <<>>)

Leaf(kind, n, d) ==
    CASE kind = "c" -> Class(<<"K", n>>, d, <<>>)
      [] kind = "f" -> Field(<<"f", n>>, "I", d)
      [] kind = "m" -> Method(<<"m", n>>, "()V", d, <<>>)
      [] kind = "p" -> Param(0, <<"", n>>, d)
LeafKey(kind) == DKeyOfNode(Leaf(kind, "", <<>>))

(* wrap a kids map at the focus level into the chain of ancestors *)
WrapT(kind, kids) ==
    CASE kind = "c" -> Root(NS, <<>>, kids)
      [] kind \in {"f", "m"} -> Root(NS, <<>>, MapOf({Class(<<"K", "x">>, <<>>, kids)}))
      [] kind = "p" -> Root(NS, <<>>, MapOf({Class(<<"K", "x">>, <<>>,
                                         MapOf({Method(<<"m", "x">>, "()V", <<>>, kids)}))}))
WrapD(kind, kids, pact) ==
    CASE kind = "c" -> DRoot(None, None, kids)
      [] kind \in {"f", "m"} ->
            DRoot(None, None, ("c K" :> DNode(DKey("c", "K", "", 0), pact, None, kids)))
      [] kind = "p" ->
            DRoot(None, None, ("c K" :> DNode(DKey("c", "K", "", 0), None, None,
                  ("m m ()V" :> DNode(DKey("m", "m", "()V", 0), pact, None, kids)))))

ParentActs == {None, Edit("x", "z"), Rem("x"), Edit("q", "z")}

---------------------------------------------------------------------------
(* corruptions: replace one action of a valid diff *)
RECURSIVE MutKids(_)
MutNode(d) ==
    {[d EXCEPT !.info = a] : a \in TActsN \ {d.info}}
    \cup {[d EXCEPT !.doc = a] : a \in Acts({<<>>, <<"d">>, <<"z">>}, <<>>) \ {d.doc}}
    \cup {[d EXCEPT !.kids = k] : k \in MutKids(d.kids)}
MutKids(dk) ==
    UNION {{[dk EXCEPT ![k] = m] : m \in MutNode(dk[k])} : k \in DOMAIN dk}
MutRoot(d) ==
    {[d EXCEPT !.doc = a] : a \in Acts({<<>>, <<"d">>, <<"z">>}, <<>>) \ {d.doc}}
    \cup {[d EXCEPT !.info = a] : a \in {Edit("dst", "new"), Edit("bad", "new"), Add("new"), Rem("dst")}}
    \cup {[d EXCEPT !.kids = k] : k \in MutKids(d.kids)}
    \cup {[d EXCEPT !.kids = @ @@ ("c Z" :> DNode(DKey("c", "Z", "", 0), a, None, <<>>))] : a \in {None, Add("x"), Rem("x")}}

---------------------------------------------------------------------------
Init == phase = "start" /\ A = <<>> /\ B = <<>> /\ D = <<>>

PickTable ==
    /\ phase = "start"
    /\ \E kind \in {"c", "f", "m", "p"}, pact \in ParentActs :
       \E tk \in {<<>>} \cup {MapOf({Leaf(kind, n, d)}) : n \in TV, d \in TD},
          dk \in {<<>>} \cup {(DKeyStr(LeafKey(kind)) :> DNode(LeafKey(kind), a, da, <<>>)) : a \in TActsN, da \in TActsD} :
          /\ (kind = "c" => pact = None)
          /\ A' = WrapT(kind, tk)
          /\ D' = WrapD(kind, dk, pact)
          /\ B' = <<>>
          /\ phase' = "table"

PickA == phase = "start" /\ \E a \in TreeSet : A' = a /\ phase' = "a" /\ UNCHANGED <<B, D>>
PickB ==
    /\ phase = "a"
    /\ \E b \in TreeSet :
        /\ B' = b
        /\ D' = IF Diffable(A, b, T) THEN Diff(A, b, T).v ELSE <<>>
        /\ phase' = IF Diffable(A, b, T) THEN "pair" ELSE "undiffable"
    /\ UNCHANGED A
(* parameters with a name in the first namespace: the key of a parameter is its index, so that name cannot travel in a diff *)
TreeSetP == {Root(NS, <<>>, MapOf({Class(<<"K", "x">>, <<>>, MapOf({Method(<<"m", "x">>, "()V", <<>>, pk)}))})) :
                pk \in OptMap({Param(0, <<src, n>>, <<>>) : src \in {"", "s", "t"}, n \in {"", "x", "y"}})}
PickP ==
    /\ phase = "start"
    /\ \E a \in TreeSetP, b \in TreeSetP :
        /\ A' = a /\ B' = b
        /\ D' = IF Diffable(a, b, T) THEN Diff(a, b, T).v ELSE <<>>
        /\ phase' = IF Diffable(a, b, T) THEN "pair" ELSE "undiffable"
(* pairs that differ in nothing but comments of leaves (field, parameter) and of the levels above them: a class whose *)
(* only change is the comment of a parameter still is a change                                                        *)
(* <<"">>: a comment that is the empty string is a comment (C04-10: diff treated it as none) *)
LD == {<<>>, <<"d">>, <<"e">>, <<"">>}
TreeSetL == {Root(NS, <<>>, MapOf({Class(<<"K", "x">>, dc, MapOf({Field(<<"f", "x">>, "I", df)})
                                                       @@ MapOf({Method(<<"m", "x">>, "()V", dm, MapOf({Param(0, <<"", "x">>, dp)}))}))})) :
                dc \in {<<>>, <<"d">>, <<"">>}, df \in LD, dm \in {<<>>, <<"d">>}, dp \in LD}
PickL ==
    /\ phase = "start"
    /\ \E a \in TreeSetL, b \in TreeSetL :
        /\ A' = a /\ B' = b
        /\ D' = IF Diffable(a, b, T) THEN Diff(a, b, T).v ELSE <<>>
        /\ phase' = IF Diffable(a, b, T) THEN "pair" ELSE "undiffable"
CorruptOK == IF Tier = 0 THEN A = B ELSE (A = B \/ SizeKids(B.kids) <= 1 \/ SizeKids(A.kids) <= 1)
Corrupt ==
    /\ phase = "pair" /\ CorruptOK
    /\ \E d \in MutRoot(D) : D' = d
    /\ phase' = "corrupt"
    /\ UNCHANGED <<A, B>>

Next == PickTable \/ PickA \/ PickB \/ PickP \/ PickL \/ Corrupt
Spec == Init /\ [][Next]_vars

---------------------------------------------------------------------------
HasDiff == phase \in {"table", "pair", "corrupt"}

InvWellKeyed == phase # "start" => WellKeyed(A)
InvApplyLaw == HasDiff => ApplyLaw(D, A, T)
InvInverse == phase = "pair" => /\ Apply(D, A, T) = Ok(B)
                                /\ Consistent(D, A, T)
                                /\ (TextExpressible(D) => Apply(Norm(D), A, T) = Ok(B))
(* refusal leaves nothing behind: the result of a refused application carries no tree *)
InvRefusedWhole == HasDiff => (~Consistent(D, A, T) => Apply(D, A, T) = Err)
(* undiffable pairs are exactly the inexpressible ones: some entry would have to lose *)
(* its name while staying, or appear/disappear without a name                         *)
InvUndiffable == phase = "undiffable" => ~Diffable(A, B, T)

(* vectors for the implementation *)
Emit ==
    /\ HasDiff => PrintT(ToJson([op |-> "apply", ph |-> phase, T |-> A, D |-> D, exp |-> Apply(D, A, T)]))
    /\ (HasDiff /\ TextExpressible(D)) =>
          /\ PrintT(ToJson([op |-> "text", ph |-> phase, T |-> A, lines |-> DiffLines(D), exp |-> Apply(Norm(D), A, T)]))
          /\ (DiffLinesDocLast(D) # DiffLines(D) =>
                PrintT(ToJson([op |-> "text", ph |-> phase, T |-> A, lines |-> DiffLinesDocLast(D), last |-> TRUE, exp |-> Apply(Norm(D), A, T)])))
    /\ phase \in {"pair", "undiffable"} =>
          PrintT(ToJson([op |-> "diff", ph |-> phase, A |-> A, B |-> B,
                         exp |-> IF phase = "pair" THEN Ok(B) ELSE [anyof |-> <<Err, Ok(B)>>]]))
=============================================================================
