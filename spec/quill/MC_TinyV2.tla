----------------------------- MODULE MC_TinyV2 -----------------------------
(***************************************************************************)
(* Bounded instance for C03.  For every tree M of the universe and both    *)
(* sibling orders the writer's lines are read back by the reader machine,  *)
(* one TLC step per line (invariants hold in every intermediate state);    *)
(* single-fault variants of the lines (duplicated line, indentation +-1,   *)
(* dropped / extra cell, changed tag, emptied source name) are read in one *)
(* step.  Everything is emitted as vectors for the real reader / writer.   *)
(***************************************************************************)
EXTENDS TinyV2, Json

CONSTANT Tier

VARIABLES phase, M, lines, i, st, fault
vars == <<phase, M, lines, i, st, fault>>

OptMap(S) == {<<>>} \cup {MapOf({n}) : n \in S}
Opt2(S1, S2) == {a @@ b : a \in OptMap(S1), b \in OptMap(S2)}

(* two namespaces *)
NV == {"", "x"}
DV == {<<>>, <<"d">>}
DLeaf == IF Tier = 0 THEN {<<>>} ELSE DV
P2 == {Param(0, <<s, n>>, d) : s \in {"", "ps"}, n \in NV, d \in DLeaf}
M2 == {Method(<<"m", n>>, "()V", d, pk) : n \in NV, d \in DV, pk \in OptMap(P2)}
F2 == {Field(<<"f", n>>, "I", d) : n \in NV, d \in DLeaf}
C2 == {Class(<<"K", n>>, d, fk @@ mk) : n \in NV, d \in DV, fk \in OptMap(F2), mk \in OptMap(M2)}
L2 == {Class(<<"L", "y">>, <<>>, <<>>), Class(<<"L", "">>, <<"e">>, MapOf({Field(<<"f", "x">>, "I", <<>>), Field(<<"g", "x">>, "I", <<"d">>)}))}
Trees2 == {Root(<<"a", "b">>, d, ck) : d \in {<<>>}, ck \in Opt2(C2, L2)}
           \cup {Root(<<"a", "b">>, <<"root doc">>, ck) : ck \in OptMap({Class(<<"K", "x">>, <<"d">>, <<>>)})}

(* three namespaces, missing names in the middle and at the end *)
P3 == {Param(1, <<"", n, o>>, <<>>) : n \in NV, o \in NV}
M3 == {Method(<<"m", n, o>>, "(I)V", <<>>, pk) : n \in NV, o \in NV, pk \in OptMap(P3)}
F3 == {Field(<<"f", n, o>>, "I", d) : n \in NV, o \in NV, d \in DLeaf}
C3 == {Class(<<"K", n, o>>, <<>>, fk @@ mk) : n \in NV, o \in NV, fk \in OptMap(F3), mk \in OptMap(M3)}
Trees3 == {Root(<<"a", "b", "c">>, <<>>, ck) : ck \in OptMap(C3)}

(* comments whose line structure is unusual: trailing / leading / only line breaks, blank lines *)
DocPool == {<<>>, <<"t\n">>, <<"\n">>, <<"\nl">>, <<"a\n\nb">>, <<"two\nlines">>, <<"p\\t\\r\\0">>}     \* the last: backslashes in front of t, r, 0
DocTrees == {Root(<<"a", "b">>, rd, MapOf({Class(<<"K", "x">>, d, MapOf({Field(<<"f", "y">>, "I", d2),
                                                                          Method(<<"m", "">>, "(I)V", d2, MapOf({Param(0, <<"", "p">>, d)}))}))})) :
                rd \in {<<>>, <<"root\n">>}, d \in DocPool, d2 \in DocPool}
Trees == Trees2 \cup DocTrees \cup (IF Tier = 0 THEN {} ELSE Trees3)
         \cup {Root(<<"a", "b", "c">>, <<>>, MapOf({Class(<<"K", "", "z">>, <<>>, MapOf({Field(<<"f", "", "z">>, "I", <<>>)}))}))}

---------------------------------------------------------------------------
(* single faults on a line sequence *)
InsertAt(s, j, x) == SubSeq(s, 1, j) \o <<x>> \o SubSeq(s, j + 1, Len(s))
Faulted(ls) ==
    UNION {
      { [f |-> "dup", at |-> j, ls |-> InsertAt(ls, j, ls[j])],
        [f |-> "ind+", at |-> j, ls |-> [ls EXCEPT ![j].ind = @ + 1]],
        [f |-> "ind-", at |-> j, ls |-> [ls EXCEPT ![j].ind = IF @ = 0 THEN 0 ELSE @ - 1]],
        [f |-> "dropcell", at |-> j, ls |-> [ls EXCEPT ![j].cells = SubSeq(@, 1, Len(@) - 1)]],
        [f |-> "addcell", at |-> j, ls |-> [ls EXCEPT ![j].cells = @ \o <<"extra">>]],
        [f |-> "tag", at |-> j, ls |-> [ls EXCEPT ![j].tag = "x"]],
        [f |-> "emptycell1", at |-> j, ls |-> [ls EXCEPT ![j].cells = [@ EXCEPT ![1] = ""]]],
        [f |-> "emptycell2", at |-> j, ls |-> [ls EXCEPT ![j].cells = IF Len(@) >= 2 THEN [@ EXCEPT ![2] = ""] ELSE @]]
      } : j \in 2..Len(ls) }
    \cup { [f |-> "ver", at |-> 1, ls |-> [ls EXCEPT ![1].cells = [@ EXCEPT ![1] = "1"]]],
           [f |-> "nons", at |-> 1, ls |-> [ls EXCEPT ![1].cells = SubSeq(@, 1, Len(@) - 1)]],
           [f |-> "empty", at |-> 1, ls |-> <<>>] }

Init == phase = "start" /\ M = <<>> /\ lines = <<>> /\ i = 0 /\ st = <<>> /\ fault = ""

PickTree ==
    /\ phase = "start"
    /\ \E m \in Trees, flip \in BOOLEAN :
        /\ M' = m
        /\ lines' = Lines(m, flip)
        /\ st' = Header(Lines(m, flip)[1], Len(m.ns))
    /\ i' = 2 /\ phase' = "reading" /\ fault' = ""

ReadStep ==
    /\ phase = "reading" /\ i <= Len(lines)
    /\ st' = Step(st, lines[i], Len(M.ns))
    /\ i' = i + 1
    /\ UNCHANGED <<phase, M, lines, fault>>

Finish ==
    /\ phase = "reading" /\ i > Len(lines)
    /\ phase' = "done"
    /\ UNCHANGED <<M, lines, i, st, fault>>

Break ==
    /\ phase = "done" /\ fault = ""
    /\ \E fl \in Faulted(lines) :
        /\ lines' = fl.ls
        /\ fault' = fl.f
        /\ st' = IF fl.ls = <<>> THEN Fail(st, "header") ELSE Run(Header(fl.ls[1], Len(M.ns)), fl.ls, 2, Len(M.ns))
    /\ phase' = "faulted"
    /\ UNCHANGED <<M, i>>

Next == PickTree \/ ReadStep \/ Finish \/ Break
Spec == Init /\ [][Next]_vars

---------------------------------------------------------------------------
(* in every intermediate state of a read: the partial tree is well keyed, the open path *)
(* names existing entries, and is never deeper than the line just consumed allows        *)
InvReading ==
    phase = "reading" /\ st.ok =>
        /\ WellKeyedKids(st.kids, "r")
        /\ (i > 2 => Len(st.path) <= lines[i - 1].ind + 1)
        /\ (st.path # <<>> => KeyOf(NodeAt(st.kids, st.path)) = st.path[Len(st.path)])
(* the round trip *)
InvRoundTrip ==
    phase = "done" => /\ st.ok /\ Root(st.ns, st.doc, st.kids) = M /\ st.ign = 0
                      /\ Len(lines) = LineCount(M)
                      /\ RoundTripLaw(M)
(* reading never merges, loses or re-parents: an accepted text has one entry or comment per line *)
InvNothingLost ==
    phase = "faulted" /\ st.ok =>
        /\ WellKeyedKids(st.kids, "r")
        /\ LineCount(Root(st.ns, st.doc, st.kids)) + st.ign = Len(lines)
(* duplicated lines are refused, not merged *)
InvDupRefused == phase = "faulted" /\ fault = "dup" => ~st.ok

Emit ==
    /\ phase = "done" => PrintT(ToJson([op |-> "rt", M |-> M,
            exp |-> [same |-> TRUE, fixed |-> TRUE, read |-> Ok(M), nlines |-> LineCount(M)]]))
    /\ phase \in {"done", "faulted"} => PrintT(ToJson([op |-> "lines", fault |-> fault, n |-> Len(M.ns), lines |-> lines,
            exp |-> IF st.ok THEN Ok(Root(st.ns, st.doc, st.kids)) ELSE Err]))
=============================================================================
