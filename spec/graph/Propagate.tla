------------------------------ MODULE Propagate ------------------------------
(***************************************************************************)
(* Propagation of one change through the version graph                     *)
(* (src/insert_mappings.rs: propagate_change, PropagationQueue,            *)
(* apply_change_to_diff, apply_change_diffs, apply_change_mappings,        *)
(* get_mut_or_default_if, get_id_class etc.).  Not one of the listed properties:  *)
(* this module grows the specification towards the edit cycle              *)
(* (write enigma -> edit -> read -> diff -> insert).                       *)
(*                                                                         *)
(* A change `a -> b` of one entry (a class, or a field of it), made in one *)
(* version, has to end up in the file that *states* the entry's value for  *)
(* that version: the root mapping set, or the diff on an edge.  The code   *)
(* walks the graph with two queues (up, down), each sorted by depth, each  *)
(* version offered at most once per direction.  As the repository stands   *)
(* nothing is stored (`// TODO: store diff`): every application works on a *)
(* fresh copy of the file, so the walk is a function of the files on disk. *)
(* That is what is specified here, "as coded": the walk as a machine, its  *)
(* declarative counterpart (a least fixpoint that does not depend on the   *)
(* order in which petgraph enumerates neighbours), and the node-level      *)
(* functions as tables.                                                    *)
(*                                                                         *)
(* Values: "" = None.  An Action<T> is its tuple <<a, b>>  (to_tuple):     *)
(* None = <<"","">>, Add(b) = <<"",b>>, Remove(a) = <<a,"">>, Edit(a,b).   *)
(***************************************************************************)
EXTENDS Naturals, Sequences, FiniteSets, TLC

NoVal == ""
ActNone == <<NoVal, NoVal>>
IsDiff(x) == x[1] # x[2]                 \* Action::is_diff: Edit(a,a) and None are no difference
Flip(x) == <<x[2], x[1]>>
IsRemove(x) == x[1] # NoVal /\ x[2] = NoVal
IsAdd(x) == x[1] = NoVal /\ x[2] # NoVal

R(res, v) == [res |-> res, v |-> v]      \* res: "same" | "edited" | "err"

---------------------------------------------------------------------------
(* apply_change_to_diff(target, change, side)                              *)
ApplyToDiff(t, c, side) ==
    IF side = "A"
    THEN IF t[1] = c[1] THEN R("edited", <<c[2], t[2]>>) ELSE R("err", t)
    ELSE IF t[2] = c[1] THEN R("edited", <<t[1], c[2]>>) ELSE R("err", t)

(* a diff node: [info, doc] (both actions).  apply_change_diffs(d, change, side, insert, mode) *)
DNode(info, doc) == [info |-> info, doc |-> doc]
DefaultNode == DNode(ActNone, ActNone)
IsAddOrRemoveOnSide(info, side) == IF side = "A" THEN IsRemove(info) ELSE IsAdd(info)

ApplyChangeDiffs(d, c, side, insert, mode) ==
    IF mode = "M"
    THEN IF IsDiff(d.info)
         THEN LET r == ApplyToDiff(d.info, c.info, side) IN R(r.res, [d EXCEPT !.info = r.v])
         ELSE IF insert THEN R("edited", [d EXCEPT !.info = IF side = "A" THEN Flip(c.info) ELSE c.info])
         ELSE R("same", d)
    ELSE IF IsAddOrRemoveOnSide(d.info, side) \/ IsDiff(d.doc) \/ insert
         THEN IF IsDiff(d.doc)
              THEN LET r == ApplyToDiff(d.doc, c.doc, side) IN R(r.res, [d EXCEPT !.doc = r.v])
              ELSE R("edited", [d EXCEPT !.doc = IF side = "A" THEN Flip(c.doc) ELSE c.doc])
         ELSE R("same", d)

(* The diff of an edge, as far as one class K and one field F of it are concerned:                        *)
(*   [cls |-> Absent | [node, fld |-> Absent | node]]                                                      *)
Absent == <<>>
EdgeDiff(cls) == [cls |-> cls]
ClsEntry(node, fld) == [node |-> node, fld |-> fld]

(* the closure `apply_to_diffs` of insert_mappings for the class level: get_mut_or_default_if(class_key, insert) *)
ApplyClassToDiff(D, c, side, insert, mode) ==
    IF D.cls = Absent /\ ~insert THEN R("same", D)
    ELSE LET e == IF D.cls = Absent THEN ClsEntry(DefaultNode, Absent) ELSE D.cls
             r == ApplyChangeDiffs(e.node, c, side, insert, mode)
         IN R(r.res, [D EXCEPT !.cls = [e EXCEPT !.node = r.v]])

(* ... and for the field level: classes.entry(class_key).or_default() whatever `insert` says, then the field *)
ApplyFieldToDiff(D, c, side, insert, mode) ==
    LET e == IF D.cls = Absent THEN ClsEntry(DefaultNode, Absent) ELSE D.cls
        D1 == [D EXCEPT !.cls = e]
    IN IF e.fld = Absent /\ ~insert THEN R("same", D1)
       ELSE LET f == IF e.fld = Absent THEN DefaultNode ELSE e.fld
                r == ApplyChangeDiffs(f, c, side, insert, mode)
            IN R(r.res, [D1 EXCEPT !.cls = [e EXCEPT !.fld = r.v]])

ApplyToEdge(level, D, c, side, insert, mode) ==
    IF level = "c" THEN ApplyClassToDiff(D, c, side, insert, mode) ELSE ApplyFieldToDiff(D, c, side, insert, mode)

---------------------------------------------------------------------------
(* The root mapping set, as far as K and F are concerned:                                                  *)
(*   [cls |-> Absent | [name, doc, fld |-> Absent | [name, doc]]]      name = the second namespace          *)
MEntry(name, doc) == [name |-> name, doc |-> doc]

(* apply_change_mappings_mappings_impl / _javadoc_impl on a map with at most the one key of interest *)
ApplyToMap(entry, c, mode) ==          \* entry: Absent | [name, doc, ...]; returns R(res, entry')
    IF mode = "M"
    THEN IF c.info = ActNone THEN R("same", entry)
         ELSE IF IsAdd(c.info) THEN (IF entry # Absent THEN R("err", entry) ELSE R("edited", MEntry(c.info[2], NoVal)))
         ELSE IF IsRemove(c.info) THEN (IF entry # Absent THEN R("edited", Absent) ELSE R("err", entry))      \* the removed name is not compared
         ELSE IF entry = Absent THEN R("err", entry)
         ELSE IF entry.name = c.info[1] THEN R("edited", [entry EXCEPT !.name = c.info[2]]) ELSE R("err", entry)
    ELSE IF entry = Absent THEN R("same", entry)
         ELSE \* quill::apply_diff_option(change, target)
              IF c.doc = ActNone THEN R("edited", entry)
              ELSE IF IsAdd(c.doc) THEN (IF entry.doc = NoVal THEN R("edited", [entry EXCEPT !.doc = c.doc[2]]) ELSE R("err", entry))
              ELSE IF entry.doc = c.doc[1] THEN R("edited", [entry EXCEPT !.doc = c.doc[2]]) ELSE R("err", entry)

ApplyToRoot(level, M, c, mode) ==
    IF level = "c"
    THEN LET e == IF M.cls = Absent THEN Absent ELSE MEntry(M.cls.name, M.cls.doc) IN ApplyToMap(e, c, mode).res
    ELSE \* mappings.classes.entry(class_key).or_insert_with_key(create_dummy_mapping), then the field map
         LET f == IF M.cls = Absent THEN Absent ELSE M.cls.fld IN ApplyToMap(f, c, mode).res

---------------------------------------------------------------------------
(* The graph: nodes 1..n, root, edges (set of <<parent, child>>), depth (node -> Nat).                     *)
(* A world: [n, root, edges, depth, diff (edge -> EdgeDiff), rootmap, version, barriers, level, change, mode]. *)
RECURSIVE DepthFrom(_, _, _, _, _)
DepthFrom(E, S, x, d, fuel) ==      \* length of a shortest path from the root; 0 for the root and for what it does not reach
    IF x \in S THEN d ELSE IF fuel = 0 THEN 0 ELSE DepthFrom(E, S \cup {e[2] : e \in {e \in E : e[1] \in S}}, x, d + 1, fuel - 1)
DepthIn(n, E, root, x) == DepthFrom(E, {root}, x, 0, n)

Parents(W, x) == {e[1] : e \in {e \in W.edges : e[2] = x}}
Children(W, x) == {e[2] : e \in {e \in W.edges : e[1] = x}}

(* PropagationQueue::offer_*: push_back + stable sort by depth = insert behind everything not deeper *)
InsertByDepth(W, q, v) ==
    LET k == Cardinality({i \in DOMAIN q : W.depth[q[i]] <= W.depth[v]})
    IN SubSeq(q, 1, k) \o <<v>> \o SubSeq(q, k + 1, Len(q))
Sorted(W, q) == \A i, j \in DOMAIN q : i < j => W.depth[q[i]] <= W.depth[q[j]]

S0(W) == [qUp |-> <<W.version>>, qDown |-> <<>>, seenUp |-> {W.version}, seenDown |-> {}, dirty |-> {}, calls |-> <<>>, polls |-> <<>>]
OfferUp(W, s, v) == IF v \in s.seenUp THEN s ELSE [s EXCEPT !.seenUp = @ \cup {v}, !.qUp = InsertByDepth(W, @, v)]
OfferDown(W, s, v) == IF v \in s.seenDown THEN s ELSE [s EXCEPT !.seenDown = @ \cup {v}, !.qDown = InsertByDepth(W, @, v)]

Call(kind, p, c, side, insert, res) == [kind |-> kind, p |-> p, c |-> c, side |-> side, insert |-> insert, res |-> res]
EdgeRes(W, p, c, side) == ApplyToEdge(W.level, W.diff[<<p, c>>], W.change, side, c \in W.barriers, W.mode).res
RootRes(W) == ApplyToRoot(W.level, W.rootmap, W.change, W.mode)

(* one parent of an `up` version that is not the root *)
UpStep(W, s, x, p) ==
    LET res == EdgeRes(W, p, x, "B")
        s1 == [s EXCEPT !.calls = Append(@, Call("edge", p, x, "B", x \in W.barriers, res))]
    IN IF res = "edited" THEN [OfferDown(W, s1, x) EXCEPT !.dirty = @ \cup {x}] ELSE OfferUp(W, s1, p)
(* one child of a `down` version *)
DownStep(W, s, x, c) ==
    IF c = W.root
    THEN LET res == RootRes(W)
             s1 == [s EXCEPT !.calls = Append(@, Call("root", 0, c, "", FALSE, res))]
         IN IF res = "edited" THEN [s1 EXCEPT !.dirty = @ \cup {c}] ELSE s1
    ELSE LET res == EdgeRes(W, x, c, "A")
             s1 == [s EXCEPT !.calls = Append(@, Call("edge", x, c, "A", c \in W.barriers, res))]
         IN IF res = "edited" THEN [s1 EXCEPT !.dirty = @ \cup {c}] ELSE OfferDown(W, OfferUp(W, s1, c), c)

RECURSIVE FoldSteps(_, _, _, _, _)
FoldSteps(W, s, x, order, up) ==
    IF order = <<>> THEN s
    ELSE FoldSteps(W, IF up THEN UpStep(W, s, x, Head(order)) ELSE DownStep(W, s, x, Head(order)), x, Tail(order), up)

(* PropagationQueue::poll and the body of the while loop; `order` = the order in which the neighbours are enumerated *)
Done(s) == s.qUp = <<>> /\ s.qDown = <<>>
NextIsUp(s) == s.qUp # <<>>
Polled(s) == IF NextIsUp(s) THEN Head(s.qUp) ELSE Head(s.qDown)
Neighbours(W, s) ==
    IF NextIsUp(s) THEN (IF Polled(s) = W.root THEN {} ELSE Parents(W, Polled(s))) ELSE Children(W, Polled(s))
Poll(W, s, order) ==
    LET x == Polled(s) IN
    IF NextIsUp(s)
    THEN LET s1 == [s EXCEPT !.qUp = Tail(@), !.polls = Append(@, <<"up", x>>)]
         IN IF x = W.root
            THEN LET res == RootRes(W)
                     s2 == [s1 EXCEPT !.calls = Append(@, Call("root", 0, x, "", FALSE, res))]
                 IN IF res = "edited" THEN [OfferDown(W, s2, x) EXCEPT !.dirty = @ \cup {x}] ELSE s2
            ELSE FoldSteps(W, s1, x, order, TRUE)
    ELSE FoldSteps(W, [s EXCEPT !.qDown = Tail(@), !.polls = Append(@, <<"down", x>>)], x, order, FALSE)

---------------------------------------------------------------------------
(* Declarative counterpart: the least sets Up, Down, Dirty closed under the rules.                        *)
Closure(W) ==
    LET F[i \in Nat] ==
          IF i = 0 THEN [up |-> {W.version}, down |-> {}, dirty |-> {}]
          ELSE LET c == F[i - 1]
                   upRoot == {x \in c.up : x = W.root /\ RootRes(W) = "edited"}
                   upHit == {x \in c.up : x # W.root /\ \E p \in Parents(W, x) : EdgeRes(W, p, x, "B") = "edited"}
                   upMiss == {p \in 1..W.n : \E x \in c.up : x # W.root /\ p \in Parents(W, x) /\ EdgeRes(W, p, x, "B") # "edited"}
                   dnHit == {k \in 1..W.n : \E x \in c.down : k \in Children(W, x) /\
                                  (IF k = W.root THEN RootRes(W) = "edited" ELSE EdgeRes(W, x, k, "A") = "edited")}
                   dnMiss == {k \in 1..W.n : \E x \in c.down : k \in Children(W, x) /\ k # W.root /\ EdgeRes(W, x, k, "A") # "edited"}
               IN [up |-> c.up \cup upMiss \cup dnMiss, down |-> c.down \cup upRoot \cup upHit \cup dnMiss,
                   dirty |-> c.dirty \cup upRoot \cup upHit \cup dnHit]
    IN F[2 * W.n + 2]

(* the calls the walk must make, as a set: every edge of a polled version in its direction *)
CallSet(calls) == {calls[i] : i \in DOMAIN calls}
ExpectedCalls(W) ==
    LET c == Closure(W) IN
    {Call("root", 0, W.root, "", FALSE, RootRes(W)) : x \in {x \in c.up : x = W.root}}
    \cup {Call("edge", e[1], e[2], "B", e[2] \in W.barriers, EdgeRes(W, e[1], e[2], "B")) : e \in {e \in W.edges : e[2] \in c.up /\ e[2] # W.root}}
    \cup {Call("edge", e[1], e[2], "A", e[2] \in W.barriers, EdgeRes(W, e[1], e[2], "A")) : e \in {e \in W.edges : e[1] \in c.down /\ e[2] # W.root}}
    \cup {Call("root", 0, W.root, "", FALSE, RootRes(W)) : e \in {e \in W.edges : e[1] \in c.down /\ e[2] = W.root}}

(* laws of a finished walk *)
LawConfluent(W, s) ==
    LET c == Closure(W) IN s.seenUp = c.up /\ s.seenDown = c.down /\ s.dirty = c.dirty /\ CallSet(s.calls) = ExpectedCalls(W)
LawOnce(s) == \A i, j \in DOMAIN s.polls : i # j => s.polls[i] # s.polls[j]          \* each version at most once per direction
LawBounded(W, s) == Len(s.polls) <= 2 * W.n

---------------------------------------------------------------------------
(* A recorded run: the calls the real closures received, in order.  The order in which neighbours were    *)
(* enumerated is read off the log: the next |neighbours| calls must be exactly the calls of the polled    *)
(* version, each with the result the specification computes.                                              *)
CallsOfPoll(W, s) ==
    LET x == Polled(s) IN
    IF NextIsUp(s)
    THEN IF x = W.root THEN {Call("root", 0, x, "", FALSE, RootRes(W))}
         ELSE {Call("edge", p, x, "B", x \in W.barriers, EdgeRes(W, p, x, "B")) : p \in Parents(W, x)}
    ELSE {IF c = W.root THEN Call("root", 0, c, "", FALSE, RootRes(W))
                        ELSE Call("edge", x, c, "A", c \in W.barriers, EdgeRes(W, x, c, "A")) : c \in Children(W, x)}
NeighbourOf(W, s, call) == IF NextIsUp(s) THEN call.p ELSE call.c

RECURSIVE Replay(_, _, _, _)
Replay(W, s, log, fuel) ==          \* [ok, s]
    IF Done(s) THEN [ok |-> log = <<>>, s |-> s]
    ELSE IF fuel = 0 THEN [ok |-> FALSE, s |-> s]
    ELSE LET want == CallsOfPoll(W, s)
             k == Cardinality(want)
             isRoot == NextIsUp(s) /\ Polled(s) = W.root
         IN IF Len(log) < k THEN [ok |-> FALSE, s |-> s]
            ELSE LET mine == SubSeq(log, 1, k)
                 IN IF {mine[i] : i \in 1..k} # want THEN [ok |-> FALSE, s |-> s]
                    ELSE Replay(W, Poll(W, s, IF isRoot THEN <<>> ELSE [i \in 1..k |-> NeighbourOf(W, s, mine[i])]), SubSeq(log, k + 1, Len(log)), fuel - 1)

AcceptRun(W, log, dirty) ==
    LET r == Replay(W, S0(W), log, 2 * W.n + 1)
    IN r.ok /\ r.s.dirty = dirty /\ LawConfluent(W, r.s)

---------------------------------------------------------------------------
(* get_id_class / get_id_field / get_id_method: the part of a name that identifies the entry across versions *)
RECURSIVE RFind(_, _, _)
RFind(s, pat, i) ==      \* last position where pat starts, 0 if none
    IF i < 1 THEN 0 ELSE IF SubSeq(s, i, i + Len(pat) - 1) = pat THEN i ELSE RFind(s, pat, i - 1)
RPos(s, pat) == IF Len(s) < Len(pat) THEN 0 ELSE RFind(s, pat, Len(s) - Len(pat) + 1)
AfterLast(s, pat) == SubSeq(s, RPos(s, pat) + Len(pat), Len(s))
IdMember(name, prefix) == IF RPos(name, prefix) = 0 THEN name ELSE AfterLast(name, prefix)
IdClass(key) ==
    LET last == IF RPos(key, "/") = 0 THEN key ELSE AfterLast(key, "/")
    IN IF RPos(last, "C_") # 0 THEN AfterLast(last, "C_")
       ELSE IF RPos(key, "$") # 0 THEN AfterLast(key, "$")          \* the whole key is searched for `$`, not the last section
       ELSE last
=============================================================================
