SPECIFICATION Spec
CONSTANT Tier = 0
INVARIANT InvStartConsistent
INVARIANT InvQueues
INVARIANT InvStored
CHECK_DEADLOCK FALSE
