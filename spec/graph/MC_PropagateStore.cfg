SPECIFICATION Spec
CONSTANT Tier = 0
INVARIANT InvStartConsistent
INVARIANT InvQueues
INVARIANT InvStored
PROPERTY Terminates
CHECK_DEADLOCK FALSE
