------------------------- MODULE MC_PropagateStore -------------------------
(***************************************************************************)
(* Bounded instance of PropagateStore: every rooted acyclic graph over     *)
(* <= 3 versions plus four 4-version shapes (thorough: all 4-version graphs)*)
(* x every assignment of values {none, a, c} to the versions x every *)
(* start version x every direction x the change to b or to none, with      *)
(* every order of enumerating neighbours.  Not bound to the code: the      *)
(* repository does not store the results of the walk yet.                  *)
(***************************************************************************)
EXTENDS PropagateStore, FiniteSetsExt

CONSTANT Tier
VARIABLES stage, W, s, val, dirn
vars == <<stage, W, s, val, dirn>>

RECURSIVE ReachFrom(_, _, _)
ReachFrom(E, S, fuel) == IF fuel = 0 THEN S ELSE ReachFrom(E, S \cup {e[2] : e \in {e \in E : e[1] \in S}}, fuel - 1)
AllEdges(n) == {<<i, j>> \in (1..n) \X (1..n) : i < j}
Graphs(n) == {E \in SUBSET AllEdges(n) : ReachFrom(E, {1}, n) = 1..n}
Big == { {<<1, 2>>, <<1, 3>>, <<2, 4>>, <<3, 4>>}, {<<1, 2>>, <<1, 3>>, <<2, 4>>, <<3, 4>>, <<1, 4>>},
         {<<1, 2>>, <<2, 3>>, <<3, 4>>}, {<<1, 2>>, <<2, 3>>, <<2, 4>>, <<1, 4>>} }
GraphChoices == {<<2, E>> : E \in Graphs(2)} \cup {<<3, E>> : E \in Graphs(3)} \cup (IF Tier = 0 THEN {<<4, E>> : E \in Big} ELSE {<<4, E>> : E \in Graphs(4)})
Barriers(E, v, d) ==
    (IF d \in {"None", "Down"} THEN {v} ELSE {}) \cup (IF d \in {"None", "Up"} THEN {e[2] : e \in {e \in E : e[1] = v}} ELSE {})

Init == stage = "draw" /\ W = [n |-> 0] /\ s = <<>> /\ val = <<>> /\ dirn = ""
Draw ==
    /\ stage = "draw"
    /\ \E g \in GraphChoices, d \in {"None", "Up", "Down", "Both"}, to \in {"b", NoVal} :
       \E v \in 1..g[1], vl \in [1..g[1] -> {NoVal, "a", "c"}] :
          /\ vl[v] # to
          /\ val' = vl /\ dirn' = d
          /\ W' = [n |-> g[1], root |-> 1, edges |-> g[2], depth |-> [x \in 1..g[1] |-> DepthIn(g[1], g[2], 1, x)],
                   diff |-> [e \in g[2] |-> EdgeOf(vl, e)], rootmap |-> RootOf(vl), version |-> v, barriers |-> Barriers(g[2], v, d),
                   level |-> "c", mode |-> "M", change |-> DNode(<<vl[v], to>>, ActNone)]
          /\ s' = T0(W')
    /\ stage' = "run"
Perms(S) == {p \in [1..Cardinality(S) -> S] : \A i, j \in 1..Cardinality(S) : i # j => p[i] # p[j]}
Step ==
    /\ stage = "run" /\ ~Done(s)
    /\ \E order \in Perms(Neighbours(W, s)) : s' = PollS(W, s, order)
    /\ UNCHANGED <<stage, W, val, dirn>>
Finish == stage = "run" /\ Done(s) /\ stage' = "done" /\ UNCHANGED <<W, s, val, dirn>>
Next == Draw \/ Step \/ Finish
Spec == Init /\ [][Next]_vars /\ WF_vars(Next)
(* the walk ends: every version is polled at most once per direction and every poll is a step *)
Terminates == <>(stage = "done")

InvStartConsistent == stage = "run" /\ s.polls = <<>> => Consistent(W, W.diff, W.rootmap) /\ \A x \in 1..W.n : ValueOf(W, W.diff, W.rootmap, x) = val[x]
InvQueues == stage \in {"run", "done"} => Sorted(W, s.qUp) /\ Sorted(W, s.qDown) /\ LawOnce(s) /\ LawBounded(W, s)
InvStored == stage = "done" => LawStored(W, val, dirn \in {"Up", "Both"}, dirn \in {"Down", "Both"}, s)
=============================================================================
