------------------------- MODULE Trace_VersionGraph -------------------------
(* I2S for C05: the directory as recorded (file names with their abstract content) and the  *)
(* listing read_dir really returned; the answers of the real code are judged against the    *)
(* scan of that listing, and - for collision-free directories - against the reverse listing *)
(* and the declarative view as well.                                                        *)
EXTENDS VersionGraph, Json, IOUtils, SequencesExt

PR == INSTANCE Propagate

Rec == ndJsonDeserialize(IOEnv.TRACE)
VARIABLES l, rej

(* a recorded walk of a change through the graph (src/insert_mappings.rs propagate_change): the world of the record *)
EdgeSet(w) == {<<w.edges[i][1], w.edges[i][2]>> : i \in DOMAIN w.edges}
WorldOf(w) ==
    [n |-> w.n, root |-> 1, edges |-> EdgeSet(w), depth |-> [x \in 1..w.n |-> PR!DepthIn(w.n, EdgeSet(w), 1, x)],
     diff |-> [e \in EdgeSet(w) |-> w.diffs[CHOOSE i \in DOMAIN w.edges : <<w.edges[i][1], w.edges[i][2]>> = e]],
     rootmap |-> w.root, version |-> w.version, barriers |-> {w.barriers[i] : i \in DOMAIN w.barriers},
     level |-> w.level, mode |-> w.mode, change |-> w.change]
CallOf(c) == PR!Call(c.kind, c.p, c.c, c.side, c.insert, c.res)
AcceptWalk(r) ==
    LET w == WorldOf(r.W)
        log == [i \in DOMAIN r.got.calls |-> CallOf(r.got.calls[i])]
    IN /\ \A x \in 1..w.n : r.got.depth[x] = w.depth[x]
       /\ PR!AcceptRun(w, log, {r.got.dirty[i] : i \in DOMAIN r.got.dirty})
ExpectedWalk(r) ==
    LET w == WorldOf(r.W) IN [dirty |-> SetToSortSeq(PR!Closure(w).dirty, <), ncalls |-> Cardinality(PR!ExpectedCalls(w))]

RECURSIVE NormDKids(_)
NormDKids(dk) == [k \in DOMAIN dk |-> [dk[k] EXCEPT !.kids = NormDKids(dk[k].kids)]]
NormD(d) == [d EXCEPT !.kids = NormDKids(d.kids)]
Has(r, k) == k \in DOMAIN r
ContentOf(r) ==
    [n \in {r.files[i].name : i \in 1..Len(r.files)} |->
        LET f == r.files[CHOOSE i \in 1..Len(r.files) : r.files[i].name = n]
        IN [tree |-> IF Has(f, "tree") THEN NormTree(f.tree) ELSE <<>>, diff |-> IF Has(f, "diff") THEN D!Norm(NormD(f.diff)) ELSE <<>>]]   \* the diff travels as text: Edit(a,a) is read as None
IsRes(g) == "ok" \in DOMAIN g /\ "v" \in DOMAIN g
NodeOf(s, v) == CHOOSE i \in 1..Len(s.nodes) : s.nodes[i] = v
VNodes(s) == {s.nodes[i] : i \in 1..Len(s.nodes)}

Expected(r) ==
    IF r.op = "walk" THEN ExpectedWalk(r) ELSE
    LET s == Resolve(r.got.listing)
    IN IF ~s.ok THEN [resolve |-> FALSE, why |-> s.err]
       ELSE [resolve |-> TRUE, apply |-> [v \in VNodes(s) |-> SetToSeq(Answers(s, ContentOf(r), NodeOf(s, v)))]]

Accept(r) ==
    IF r.op = "walk" THEN AcceptWalk(r) ELSE
    LET g == r.got
        files == {r.files[i].name : i \in 1..Len(r.files)}
        s == Resolve(g.listing)
        content == ContentOf(r)
    IN /\ r.op = "graph"
       /\ {g.listing[i] : i \in 1..Len(g.listing)} = files /\ Len(g.listing) = Cardinality(files)
       /\ g.resolve = s.ok
       /\ ScanLaw(files, g.listing)
       /\ s.ok =>
            /\ DOMAIN g.apply = VNodes(s) /\ DOMAIN g.depth = VNodes(s)
            /\ \A n \in DOMAIN g.get : g.get[n] = Get(s, n)
            /\ \A v \in VNodes(s) :
                /\ g.depth[v] = Depth(s, NodeOf(s, v))
                /\ IsRes(g.apply[v])
                /\ \E a \in Answers(s, content, NodeOf(s, v)) : a.ok = g.apply[v].ok /\ (a.ok => NormTree(g.apply[v].v) = a.v)
            \* the answer does not depend on the listing
            /\ CollisionFree(files) =>
                LET s2 == Resolve(Reverse(g.listing))
                IN s2.ok /\ \A v \in VNodes(s) : Answers(s, content, NodeOf(s, v)) = Answers(s2, content, NodeOf(s2, v))

Init == l = 1 /\ rej = 0
Next ==
    /\ l <= Len(Rec)
    /\ l' = l + 1
    /\ IF Accept(Rec[l]) THEN rej' = rej
       ELSE /\ PrintT(ToJson([reject |-> l, exp |-> Expected(Rec[l])]))
            /\ rej' = rej + 1
Spec == Init /\ [][Next]_<<l, rej>>
Consumed == TLCGet("stats").diameter - 1 = Len(Rec)
=============================================================================
