---------------------------- MODULE MC_Propagate ----------------------------
(***************************************************************************)
(* Bounded instance of Propagate (src/insert_mappings.rs).                 *)
(*                                                                         *)
(* Family "walk": every rooted acyclic graph over <= 3 versions (thorough: *)
(* the diamond, the diamond with a shortcut, the chain of 4 and the fork   *)
(* as well) x every start version x every propagation direction (None, Up, *)
(* Down, Both: as sets of barrier versions) x what each edge's diff and    *)
(* the root state about the entry (nothing / introduces a / removes a /    *)
(* renames to a / renames a away) x the change (rename a->b, add b, remove *)
(* a) at class level, plus a reduced product at field level and for the    *)
(* comment.  The walk is run as a machine, one poll per step, with EVERY   *)
(* order in which the neighbours of the polled version can be enumerated;  *)
(* TLC checks in every state that the queues stay sorted by depth and no   *)
(* version is polled twice in a direction, and at the end that versions    *)
(* visited, versions dirty and calls made equal the least fixpoint of the  *)
(* declarative rules whatever the orders were (confluence).                *)
(* Family "edge" / "root": the node-level functions as exhaustive tables.  *)
(* Family "ids": get_id_class / get_id_field / get_id_method on strings.   *)
(* One vector per case for the replay through the real code.               *)
(***************************************************************************)
EXTENDS Propagate, Json, SequencesExt, FiniteSetsExt

CONSTANT Tier
VARIABLES stage, fam, W, s, canon, item
vars == <<stage, fam, W, s, canon, item>>

Vals == {NoVal, "a", "b", "c"}

---------------------------------------------------------------------------
(* graphs: nodes 1..n, root 1, edges i -> j with i < j, every node reachable *)
RECURSIVE ReachFrom(_, _, _)
ReachFrom(E, S, fuel) == IF fuel = 0 THEN S ELSE ReachFrom(E, S \cup {e[2] : e \in {e \in E : e[1] \in S}}, fuel - 1)
AllEdges(n) == {<<i, j>> \in (1..n) \X (1..n) : i < j}
Graphs(n) == {E \in SUBSET AllEdges(n) : ReachFrom(E, {1}, n) = 1..n}
Big == { {<<1, 2>>, <<1, 3>>, <<2, 4>>, <<3, 4>>},                    \* diamond
         {<<1, 2>>, <<1, 3>>, <<2, 4>>, <<3, 4>>, <<1, 4>>},          \* diamond with a shortcut
         {<<1, 2>>, <<2, 3>>, <<3, 4>>},                              \* chain
         {<<1, 2>>, <<2, 3>>, <<2, 4>>, <<1, 4>>} }                   \* fork below a chain, one leaf with a second, shorter way
GraphChoices == {<<n, E>> : n \in {2, 3}, E \in Graphs(2) \cup Graphs(3)} \cup (IF Tier = 0 THEN {} ELSE {<<4, E>> : E \in Big})
WellSized(g) == \A e \in g[2] : e[2] <= g[1]
UsesAll(g) == {e[1] : e \in g[2]} \cup {e[2] : e \in g[2]} = 1..g[1]

Barriers(E, v, d) ==
    (IF d \in {"None", "Down"} THEN {v} ELSE {}) \cup (IF d \in {"None", "Up"} THEN {e[2] : e \in {e \in E : e[1] = v}} ELSE {})

(* what an edge's diff says about the entry (at the level of the change) *)
NodeShapes == { Absent, DNode(<<NoVal, "a">>, ActNone), DNode(<<"a", NoVal>>, ActNone), DNode(<<"c", "a">>, ActNone), DNode(<<"a", "c">>, ActNone) }
DocShapes == { Absent, DNode(ActNone, <<NoVal, "a">>), DNode(<<NoVal, "a">>, <<NoVal, "a">>), DNode(<<"a", NoVal>>, <<"a", NoVal>>), DNode(ActNone, <<"a", "c">>), DNode(ActNone, <<"c", "a">>) }
EdgeShapes(level, mode) ==
    LET ns == IF mode = "M" THEN NodeShapes ELSE DocShapes IN
    IF level = "c" THEN {EdgeDiff(IF x = Absent THEN Absent ELSE ClsEntry(x, Absent)) : x \in ns}
    ELSE {EdgeDiff(Absent)} \cup {EdgeDiff(ClsEntry(DefaultNode, x)) : x \in ns \ {Absent}}
FewEdgeShapes == {EdgeDiff(Absent), EdgeDiff(ClsEntry(DNode(<<NoVal, "a">>, ActNone), Absent)), EdgeDiff(ClsEntry(DNode(<<"a", "c">>, ActNone), Absent))}
RootShapes(level) ==
    IF level = "c" THEN {[cls |-> Absent], [cls |-> [name |-> "a", doc |-> "a", fld |-> Absent]]}
    ELSE {[cls |-> Absent], [cls |-> [name |-> "k", doc |-> NoVal, fld |-> Absent]], [cls |-> [name |-> "k", doc |-> NoVal, fld |-> MEntry("a", "a")]]}
Changes(mode) ==
    IF mode = "M" THEN {DNode(<<"a", "b">>, ActNone), DNode(<<NoVal, "b">>, ActNone), DNode(<<"a", NoVal>>, ActNone)}
    ELSE {DNode(ActNone, <<"a", "b">>), DNode(ActNone, <<NoVal, "b">>), DNode(ActNone, <<"a", NoVal>>)}
LevelModes == {<<"c", "M">>, <<"f", "M">>, <<"c", "J">>, <<"f", "J">>}

World(g, v, d, lm, ch, rootmap, diff) ==
    [n |-> g[1], root |-> 1, edges |-> g[2], depth |-> [x \in 1..g[1] |-> DepthIn(g[1], g[2], 1, x)], diff |-> diff, rootmap |-> rootmap,
     version |-> v, barriers |-> Barriers(g[2], v, d), level |-> lm[1], mode |-> lm[2], change |-> ch, dir |-> d]
W0 == [n |-> 0]

---------------------------------------------------------------------------
Init == stage = "family" /\ fam = "" /\ W = W0 /\ s = <<>> /\ canon = TRUE /\ item = <<>>

PickFamily == stage = "family" /\ \E f \in {"walk", "edge", "root", "ids"} : fam' = f /\ stage' = "draw" /\ UNCHANGED <<W, s, canon, item>>

(* walk: the graph, start and direction first, the contents second (two steps, so that TLC's workers share the product) *)
DrawGraph ==
    /\ stage = "draw" /\ fam = "walk"
    /\ \E g \in {g \in GraphChoices : WellSized(g) /\ UsesAll(g)}, v \in 1..3, d \in {"None", "Up", "Down", "Both"}, lm \in LevelModes :
          /\ v <= g[1]
          /\ (lm # <<"c", "M">> => d \in {"None", "Both"})              \* the reduced product for the other levels / the comment
          /\ (lm # <<"c", "M">> /\ Tier = 0 => Cardinality(g[2]) <= 2)
          /\ (g[1] = 4 => lm = <<"c", "M">>)                            \* the four-version shapes: class names only
          /\ item' = [g |-> g, v |-> v, d |-> d, lm |-> lm]
    /\ stage' = "content" /\ UNCHANGED <<fam, W, s, canon>>
DrawContent ==
    /\ stage = "content"
    /\ \E ch \in Changes(item.lm[2]), rm \in RootShapes(item.lm[1]),
          diff \in [item.g[2] -> IF item.g[1] = 4 THEN FewEdgeShapes ELSE EdgeShapes(item.lm[1], item.lm[2])] :
          /\ W' = World(item.g, item.v, item.d, item.lm, ch, rm, diff)
          /\ s' = S0(W')
    /\ stage' = "run" /\ UNCHANGED <<fam, canon, item>>

(* one poll; the neighbours in any order.  `canon` stays TRUE on the run that always takes the ascending order *)
Perms(S) == {p \in [1..Cardinality(S) -> S] : \A i, j \in 1..Cardinality(S) : i # j => p[i] # p[j]}
Ascending(p) == \A i, j \in DOMAIN p : i < j => p[i] < p[j]
Step ==
    /\ stage = "run" /\ ~Done(s)
    /\ \E order \in Perms(Neighbours(W, s)) :
          /\ s' = Poll(W, s, order)
          /\ canon' = (canon /\ Ascending(order))
    /\ UNCHANGED <<stage, fam, W, item>>
Finish == stage = "run" /\ Done(s) /\ stage' = "done" /\ UNCHANGED <<fam, W, s, canon, item>>

(* node-level tables *)
ActsOver(S) == {<<a, b>> : a \in S, b \in S}
DrawEdge ==
    /\ stage = "draw" /\ fam = "edge"
    /\ \E level \in {"c", "f"}, mode \in {"M", "J"}, side \in {"A", "B"}, insert \in BOOLEAN,
          tinfo \in ActsOver({NoVal, "a", "c"}), tdoc \in ActsOver({NoVal, "a"}), present \in BOOLEAN,
          ch \in {DNode(i, j) : i \in {<<"a", "b">>, <<NoVal, "b">>, <<"a", NoVal>>}, j \in {<<"a", "b">>, <<NoVal, "b">>, <<"a", NoVal>>}} :
          /\ (~present => tinfo = ActNone /\ tdoc = ActNone)
          /\ (tinfo[1] = tinfo[2] => tinfo = ActNone) /\ (tdoc[1] = tdoc[2] => tdoc = ActNone)      \* Edit(x,x) does not survive the text form
          /\ (mode = "M" => tdoc = ActNone)
          /\ item' = [level |-> level, mode |-> mode, side |-> side, insert |-> insert, change |-> ch,
                      D |-> IF ~present THEN EdgeDiff(Absent)
                            ELSE IF level = "c" THEN EdgeDiff(ClsEntry(DNode(tinfo, tdoc), Absent))
                            ELSE EdgeDiff(ClsEntry(DefaultNode, DNode(tinfo, tdoc)))]
    /\ stage' = "done" /\ UNCHANGED <<fam, W, s, canon>>
DrawRoot ==
    /\ stage = "draw" /\ fam = "root"
    /\ \E level \in {"c", "f"}, mode \in {"M", "J"}, present \in BOOLEAN, name \in {NoVal, "a", "c"}, doc \in {NoVal, "a", "c"},
          ch \in {DNode(i, j) : i \in {<<"a", "b">>, <<NoVal, "b">>, <<"a", NoVal>>}, j \in {<<"a", "b">>, <<NoVal, "b">>, <<"a", NoVal>>}} :
          /\ (~present => name = NoVal /\ doc = NoVal)
          /\ item' = [level |-> level, mode |-> mode, change |-> ch,
                      M |-> IF level = "c" THEN [cls |-> IF present THEN [name |-> name, doc |-> doc, fld |-> Absent] ELSE Absent]
                            ELSE [cls |-> [name |-> "k", doc |-> NoVal, fld |-> IF present THEN MEntry(name, doc) ELSE Absent]]]
    /\ stage' = "done" /\ UNCHANGED <<fam, W, s, canon>>

Tokens == {"a", "/", "C_", "$", "1", "f_", "m_"}
DrawIds ==
    /\ stage = "draw" /\ fam = "ids"
    /\ \E t1 \in Tokens, t2 \in Tokens \cup {""}, t3 \in Tokens \cup {""}, t4 \in Tokens \cup {""} :
          /\ (t2 = "" => t3 = "") /\ (t3 = "" => t4 = "")
          /\ item' = [str |-> t1 \o t2 \o t3 \o t4]
    /\ stage' = "done" /\ UNCHANGED <<fam, W, s, canon>>

Next == PickFamily \/ DrawGraph \/ DrawContent \/ Step \/ Finish \/ DrawEdge \/ DrawRoot \/ DrawIds
Spec == Init /\ [][Next]_vars

---------------------------------------------------------------------------
(* laws *)
Running == stage \in {"run", "done"} /\ fam = "walk"
InvQueues == Running => Sorted(W, s.qUp) /\ Sorted(W, s.qDown)
                        /\ {s.qUp[i] : i \in DOMAIN s.qUp} \subseteq s.seenUp /\ {s.qDown[i] : i \in DOMAIN s.qDown} \subseteq s.seenDown
InvOnce == Running => LawOnce(s) /\ LawBounded(W, s)
InvDirty == Running => s.dirty \subseteq 1..W.n
InvConfluent == (stage = "done" /\ fam = "walk") => LawConfluent(W, s)
(* a version stays clean unless a file that states its value took the change *)
InvDirtyMeans == (stage = "done" /\ fam = "walk") =>
    \A x \in s.dirty : \E i \in DOMAIN s.calls : s.calls[i].res = "edited" /\ s.calls[i].c = x
(* the recorded log of every run is accepted by the replay that reads the neighbour order off the log *)
InvReplay == (stage = "done" /\ fam = "walk") => AcceptRun(W, s.calls, s.dirty)
(* node level: an application that reports `same` or `err` leaves the diff as it was, as far as it states anything *)
InvEdgeSame == (stage = "done" /\ fam = "edge") =>
    LET r == ApplyToEdge(item.level, item.D, item.change, item.side, item.insert, item.mode)
    IN r.res \in {"same", "err"} => (r.v = item.D \/ (item.level = "f" /\ item.D.cls = Absent /\ r.v.cls = ClsEntry(DefaultNode, Absent)))
(* flipping a diff and applying on the other side is the same as applying and flipping (the two sides are symmetric) *)
FlipNode(d) == DNode(Flip(d.info), Flip(d.doc))
InvEdgeSymmetric == (stage = "done" /\ fam = "edge" /\ item.level = "c" /\ item.D.cls # Absent /\ item.mode = "M") =>
    LET d == item.D.cls.node
        r1 == ApplyChangeDiffs(d, item.change, "A", item.insert, "M")
        r2 == ApplyChangeDiffs(FlipNode(d), item.change, "B", item.insert, "M")
    IN r1.res = r2.res /\ FlipNode(r1.v) = r2.v

---------------------------------------------------------------------------
(* vectors *)
SetSeq(S) == SetToSortSeq(S, <)
ActJ(x) == <<x[1], x[2]>>
NodeJ(d) == IF d = Absent THEN <<>> ELSE [info |-> ActJ(d.info), doc |-> ActJ(d.doc)]
EdgeJ(D) == IF D.cls = Absent THEN [cls |-> <<>>] ELSE [cls |-> [node |-> NodeJ(D.cls.node), fld |-> NodeJ(D.cls.fld)]]
RootJ(M) == IF M.cls = Absent THEN [cls |-> <<>>]
            ELSE [cls |-> [name |-> M.cls.name, doc |-> M.cls.doc, fld |-> IF M.cls.fld = Absent THEN <<>> ELSE [name |-> M.cls.fld.name, doc |-> M.cls.fld.doc]]]
CallKey(c) == c.p * 100 + c.c * 10 + (IF c.side = "A" THEN 1 ELSE IF c.side = "B" THEN 2 ELSE 0)
CallJ(c) == [kind |-> c.kind, p |-> c.p, c |-> c.c, side |-> c.side, insert |-> c.insert, res |-> c.res]
CallsJ(S) == LET q == SetToSortSeq(S, LAMBDA x, y : CallKey(x) < CallKey(y)) IN [i \in DOMAIN q |-> CallJ(q[i])]
WorldJ(w) == [n |-> w.n, edges |-> SetToSortSeq(w.edges, LAMBDA x, y : x[1] * 10 + x[2] < y[1] * 10 + y[2]),
              diffs |-> LET q == SetToSortSeq(w.edges, LAMBDA x, y : x[1] * 10 + x[2] < y[1] * 10 + y[2]) IN [i \in DOMAIN q |-> EdgeJ(w.diff[q[i]])],
              root |-> RootJ(w.rootmap), version |-> w.version, barriers |-> SetSeq(w.barriers), level |-> w.level, mode |-> w.mode,
              change |-> NodeJ(w.change), depth |-> [i \in 1..w.n |-> w.depth[i]], dir |-> w.dir]

Emit ==
    /\ (stage = "done" /\ fam = "walk" /\ canon) =>
          PrintT(ToJson([op |-> "walk", W |-> WorldJ(W),
                         exp |-> [dirty |-> SetSeq(s.dirty), callset |-> CallsJ(CallSet(s.calls)), depth |-> [i \in 1..W.n |-> W.depth[i]]]]))
    /\ (stage = "done" /\ fam = "edge") =>
          LET r == ApplyToEdge(item.level, item.D, item.change, item.side, item.insert, item.mode) IN
          PrintT(ToJson([op |-> "edge", level |-> item.level, mode |-> item.mode, side |-> item.side, insert |-> item.insert,
                         change |-> NodeJ(item.change), D |-> EdgeJ(item.D), exp |-> [res |-> r.res, after |-> EdgeJ(r.v)]]))
    /\ (stage = "done" /\ fam = "root") =>
          PrintT(ToJson([op |-> "root", level |-> item.level, mode |-> item.mode, change |-> NodeJ(item.change), M |-> RootJ(item.M),
                         exp |-> [res |-> ApplyToRoot(item.level, item.M, item.change, item.mode)]]))
    /\ (stage = "done" /\ fam = "ids") =>
          PrintT(ToJson([op |-> "ids", str |-> item.str,
                         exp |-> [cls |-> IdClass(item.str), fld |-> IdMember(item.str, "f_"), mth |-> IdMember(item.str, "m_")]]))
=============================================================================
