-------------------------- MODULE MC_VersionGraph --------------------------
(***************************************************************************)
(* Bounded instance for C05: version strings a, b, c~d, e~f; any root      *)
(* (one, none, two), any set of edges among them (<= 4 edges in the quick  *)
(* tier, all 4096 sets in the thorough tier): chains, trees, diamonds,     *)
(* cycles through and beside the root, disconnected parts; listings: both  *)
(* directions of a fixed order, and every permutation for directories of   *)
(* <= 3 files; four families of edit histories along the edges (class     *)
(* additions; comment additions that conflict when two meet on a path;     *)
(* inner classes whose names are contracted in the diffs and extended in   *)
(* the answer; members added below a class that has no named name, which the edges leaving version a name).  A family with colliding names (a and a~b) is explored for *)
(* totality only.                                                          *)
(***************************************************************************)
EXTENDS VersionGraph, Json, SequencesExt

T == INSTANCE TinyV2

CONSTANT Tier
VARIABLES phase, dir, listing
vars == <<phase, dir, listing>>

V == {"a", "b", "c~d", "e~f"}
Pairs == {<<p, c>> \in V \X V : p # c}
MaxEdges == IF Tier = 0 THEN 2 ELSE 3
NSM == <<"intermediary", "named">>

(* the root file (extended inner names, as published) *)
RootTree == Root(NSM, <<"about this version">>, MapOf({
    Class(<<"K", "x">>, <<>>, MapOf({Field(<<"f", "fx">>, "I", <<>>)})),
    Class(<<"K$I", "x$i">>, <<>>, <<>>),
    Class(<<"K$I$J", "x$i$j">>, <<>>, <<>>),
    Class(<<"T", "t">>, <<>>, <<>>), Class(<<"T$I", "t$i">>, <<>>, <<>>), Class(<<"T$I$J", "t$i$j">>, <<>>, <<>>),      \* a second chain with the same simple names
    Class(<<"U", "">>, <<>>, MapOf({Field(<<"g", "gx">>, "I", <<>>)}))}))      \* a class without a named name that has a named member

(* the diff on edge e of history family h; eid makes every edge's contribution distinguishable *)
EdgeId(e) == (IF e[1] = "a" THEN "A" ELSE IF e[1] = "b" THEN "B" ELSE IF e[1] = "c~d" THEN "C" ELSE "E")
             \o (IF e[2] = "a" THEN "a" ELSE IF e[2] = "b" THEN "b" ELSE IF e[2] = "c~d" THEN "c" ELSE "e")
AddClass(src, nm) == (("c " \o src) :> D!DNode(D!DKey("c", src, "", 0), D!Add(nm), D!None, <<>>))
EdgeDiff(e, h) ==
    LET id == EdgeId(e) IN
    CASE h = 1 -> D!DRoot(D!None, D!None, AddClass("N" \o id, "n" \o id))
      [] h = 2 -> D!DRoot(D!None, D!None, AddClass("N" \o id, "n" \o id) @@
                          ("c K" :> D!DNode(D!DKey("c", "K", "", 0), D!None, D!Add(<<"doc " \o id>>), <<>>)))
      [] h = 0 -> D!DRoot(D!None, D!None, <<>>)                           \* graph-only family: empty diffs
      [] h = 4 -> D!DRoot(D!None, D!None,                              \* a member added below the class that has no named name;
                          ("c U" :> D!DNode(D!DKey("c", "U", "", 0),   \* an edge that leaves version a also gives that class its name (it keeps its members)
                               IF e[1] = "a" THEN D!Add("u" \o id) ELSE D!None, D!None,
                               (("f n" \o id \o " I") :> D!DNode(D!DKey("f", "n" \o id, "I", 0), D!Add("x" \o id), D!None, <<>>)))))
      [] h = 3 -> D!DRoot(D!None, D!None, AddClass("K$I$" \o id, "in" \o id) @@
                          ("c K$I" :> D!DNode(D!DKey("c", "K$I", "", 0), D!Edit("i", "j" \o id), D!None, <<>>)))

FileOfEdge(e) == e[1] \o "#" \o e[2] \o DIFF
Content(roots, edges, h) ==
    [f \in {r \o TINY : r \in roots} \cup {FileOfEdge(e) : e \in edges} |->
        IF EndsWith(f, TINY) THEN [tree |-> RootTree, diff |-> <<>>]
        ELSE [tree |-> <<>>, diff |-> EdgeDiff(CHOOSE e \in edges : FileOfEdge(e) = f, h)]]

Init == phase = "start" /\ dir = <<>> /\ listing = <<>>

Shapes == {
    {<<"a", "b">>, <<"b", "c~d">>, <<"c~d", "e~f">>},                                   \* chain
    {<<"a", "b">>, <<"a", "c~d">>, <<"c~d", "e~f">>},                                   \* tree
    {<<"a", "b">>, <<"a", "c~d">>, <<"b", "e~f">>, <<"c~d", "e~f">>},                   \* diamond
    {<<"a", "b">>, <<"a", "c~d">>, <<"b", "e~f">>, <<"c~d", "e~f">>, <<"a", "e~f">>},   \* diamond with a shortcut
    {<<"c~d", "a">>, <<"a", "b">>, <<"b", "e~f">>, <<"c~d", "e~f">>},                   \* paths of different length
    {<<"a", "b">>, <<"b", "a">>},                                                       \* cycle through the root (if a is root)
    {<<"a", "b">>, <<"b", "c~d">>, <<"c~d", "b">>},                                     \* cycle beside the root
    {<<"a", "b">>, <<"c~d", "e~f">>, <<"e~f", "c~d">>},                                 \* unreachable cycle
    {<<"a", "b">>, <<"c~d", "e~f">>}}                                                   \* disconnected
PickEdges ==
    /\ phase = "start"
    /\ \E E \in {E \in SUBSET Pairs : Cardinality(E) <= MaxEdges} \cup Shapes : dir' = [edges |-> E]
    /\ phase' = "edges" /\ UNCHANGED listing
(* graph-only family: every edge set of 3..5 edges (thorough: every edge set) with one root and  *)
(* empty diffs - cycles entered at several places, cross edges, long detours                     *)
GraphOnly == IF Tier = 0 THEN {E \in SUBSET Pairs : Cardinality(E) \in 3..5} ELSE SUBSET Pairs
PickGraphEdges ==
    /\ phase = "start"
    /\ \E E \in GraphOnly : dir' = [gedges |-> E]
    /\ phase' = "gedges" /\ UNCHANGED listing
PickGraphOnly ==
    /\ phase = "gedges"
    /\ \E r \in V :
        LET files == {r \o TINY} \cup {FileOfEdge(e) : e \in dir.gedges}
        IN /\ dir' = [files |-> files, content |-> Content({r}, dir.gedges, 0), h |-> 0]
           /\ listing' = SetToSeq(files)
    /\ phase' = "case"
PickRest ==
    /\ phase = "edges"
    /\ \E roots \in {{}} \cup {{r} : r \in V} \cup {{"a", "b"}}, h \in 1..4, extra \in {{}, {"README.md"}, {"a#b.txt", "broken.tinydiff"}} :
        LET files == {r \o TINY : r \in roots} \cup {FileOfEdge(e) : e \in dir.edges} \cup extra
            base == SetToSeq(files)
        IN /\ (extra # {} => h = 1 /\ Cardinality(dir.edges) <= 1)
           /\ dir' = [files |-> files, content |-> Content(roots, dir.edges, h), h |-> h]
           /\ \E ord \in {"fwd", "rev", "perm"} :
                CASE ord = "fwd" -> listing' = base
                  [] ord = "rev" -> listing' = Reverse(base)
                  [] ord = "perm" -> Cardinality(files) <= 3 /\ \E p \in Permutations(1..Len(base)) : listing' = [i \in 1..Len(base) |-> base[p[i]]]
    /\ phase' = "case"
PickCollision ==
    /\ phase = "start"
    /\ \E files \in {{"a.tiny", "a#a~b.tinydiff"}, {"a~b.tiny", "a~b#a~c.tinydiff"}, {"a.tiny", "a#x~a.tinydiff", "x~a#b.tinydiff"}} :
        /\ dir' = [files |-> files, h |-> 1,
                   content |-> [f \in files |-> IF EndsWith(f, TINY) THEN [tree |-> RootTree, diff |-> <<>>]
                                                ELSE [tree |-> <<>>, diff |-> EdgeDiff(<<"a", "b">>, 1)]]]
        /\ \E p \in Permutations(1..Cardinality(files)) : listing' = [i \in 1..Cardinality(files) |-> SetToSeq(files)[p[i]]]
    /\ phase' = "collision"
Next == PickEdges \/ PickRest \/ PickCollision \/ PickGraphEdges \/ PickGraphOnly
Spec == Init /\ [][Next]_vars

---------------------------------------------------------------------------
S == Resolve(listing)
InvScanLaw == phase = "case" => ScanLaw(dir.files, listing)
(* answers do not depend on the listing: they are a function of the set of files *)
VNodes(s) == {s.nodes[i] : i \in 1..Len(s.nodes)}
NodeOf(s, v) == CHOOSE i \in 1..Len(s.nodes) : s.nodes[i] = v
InvListingFree ==
    (phase = "case" /\ S.ok /\ CollisionFree(dir.files)) =>
        LET s2 == Resolve(Reverse(listing))
        IN /\ s2.ok
           /\ \A v \in VNodes(S) : Answers(S, dir.content, NodeOf(S, v)) = Answers(s2, dir.content, NodeOf(s2, v))
           /\ \A v \in VNodes(S) : Depth(S, NodeOf(S, v)) = Depth(s2, NodeOf(s2, v))
(* unreachable versions are errors, reachable ones whose diffs apply are answered *)
InvReach ==
    (phase = "case" /\ S.ok) =>
        \A i \in 1..Len(S.nodes) :
            /\ (ShortestPaths(S, i) = {}) <=> (S.nodes[i] \notin ReachSet(DeclEdges(dir.files), {S.nodes[S.root]}, 20))
            /\ i = S.root => Answers(S, dir.content, i) = {Ok(RootTree)}       \* contract then extend returns the root file

FileLines(f) == IF EndsWith(f, TINY) THEN T!Lines(dir.content[f].tree, FALSE) ELSE IF f \in DOMAIN dir.content /\ dir.content[f].diff # <<>> THEN D!DiffLines(dir.content[f].diff) ELSE <<>>
AnswerExp(i) ==
    LET A == Answers(S, dir.content, i) IN IF Cardinality(A) = 1 THEN CHOOSE x \in A : TRUE ELSE [anyof |-> SetToSeq(A)]
Lookups == UNION {LookupNames(v) : v \in VersionStrings(dir.files)} \cup {"nope", "c~d"}
Emit ==
    /\ phase = "case" =>
        PrintT(ToJson([op |-> "graph", h |-> dir.h, nfiles |-> Cardinality(dir.files),
            files |-> [i \in 1..Len(listing) |-> [name |-> listing[i], lines |-> FileLines(listing[i])]],
            lookups |-> SetToSeq(Lookups),
            shape |-> [ok |-> S.ok, err |-> S.err, diamond |-> (S.ok /\ \E i \in 1..Len(S.nodes) : Cardinality(ShortestPaths(S, i)) > 1),
                       unreachable |-> (S.ok /\ \E i \in 1..Len(S.nodes) : ShortestPaths(S, i) = {}),
                       refused |-> (S.ok /\ \E i \in 1..Len(S.nodes) : ShortestPaths(S, i) # {} /\ Err \in Answers(S, dir.content, i))],
            exp |-> IF ~S.ok THEN [resolve |-> FALSE]
                    ELSE [resolve |-> TRUE,
                          get |-> [n \in Lookups |-> Get(S, n)],
                          depth |-> [v \in VNodes(S) |-> Depth(S, NodeOf(S, v))],
                          apply |-> [v \in VNodes(S) |-> AnswerExp(NodeOf(S, v))]]]))
    /\ phase = "collision" =>
        PrintT(ToJson([op |-> "graph", h |-> 0, nfiles |-> Cardinality(dir.files),
            files |-> [i \in 1..Len(listing) |-> [name |-> listing[i], lines |-> FileLines(listing[i])]],
            lookups |-> <<"a", "b", "c", "x">>, shape |-> [ok |-> TRUE, err |-> "collision", diamond |-> FALSE, unreachable |-> FALSE, refused |-> FALSE],
            exp |-> [done |-> TRUE]]))
=============================================================================
