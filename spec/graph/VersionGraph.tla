---------------------------- MODULE VersionGraph ----------------------------
(***************************************************************************)
(* Property C05.  The version graph (src/version_graph.rs).                *)
(*                                                                         *)
(* A mappings directory is a set of files: one `<v>.tiny` (the root, a     *)
(* mapping set) and `<parent>#<child>.tinydiff` (edges, each a diff).      *)
(* Version names may be split names `client~server`.                      *)
(*                                                                         *)
(* Operational part: the directory scan in listing order with the code's   *)
(* add_node (IndexMap::entry(..).or_insert semantics), the single-root     *)
(* check, the walk with loop detection, get, and apply_diffs (any shortest *)
(* root -> version path, left fold of Apply, then inner-name extension).   *)
(* Declarative part: what a well-formed directory denotes, independent of  *)
(* the listing.                                                            *)
(***************************************************************************)
EXTENDS MappingTree

D == INSTANCE DiffApply
I == INSTANCE InnerNames

TINY == ".tiny"
DIFF == ".tinydiff"
EndsWith(s, x) == Len(s) >= Len(x) /\ SubSeq(s, Len(s) - Len(x) + 1, Len(s)) = x
Stem(s, x) == SubSeq(s, 1, Len(s) - Len(x))
PosOf(s, c) == IF \E i \in 1..Len(s) : SubSeq(s, i, i) = c
               THEN CHOOSE i \in 1..Len(s) : SubSeq(s, i, i) = c /\ \A j \in 1..(i - 1) : SubSeq(s, j, j) # c ELSE 0
(* str::split_once *)
Before(s, c) == SubSeq(s, 1, PosOf(s, c) - 1)
After(s, c) == SubSeq(s, PosOf(s, c) + 1, Len(s))

(* A file: [name |-> file name, tree |-> mapping set (root) or <<>>, diff |-> diff or <<>>] *)

---------------------------------------------------------------------------
(* Operational: scan.  State: versions (name -> <<split, node>>), nodes    *)
(* (sequence of node names, node id = position), edges (set of <<p, c,     *)
(* file name>>), root (0 or node), ok.                                     *)
SS(ok, err, versions, nodes, edges, root) ==
    [ok |-> ok, err |-> err, versions |-> versions, nodes |-> nodes, edges |-> edges, root |-> root]

(* add_node: returns <<state, node>> *)
AddNode(s, v) ==
    IF PosOf(v, "~") # 0
    THEN LET client == Before(v, "~")
             server == After(v, "~")
             s1 == IF client \in DOMAIN s.versions THEN s
                   ELSE [s EXCEPT !.nodes = Append(@, v), !.versions = @ @@ (client :> <<"first", Len(s.nodes) + 1>>)]
             n == s1.versions[client][2]
             s2 == IF server \in DOMAIN s1.versions THEN s1
                   ELSE [s1 EXCEPT !.versions = @ @@ (server :> <<"second", n>>)]
         IN <<s2, n>>
    ELSE IF v \in DOMAIN s.versions THEN <<s, s.versions[v][2]>>
         ELSE <<[s EXCEPT !.nodes = Append(@, v), !.versions = @ @@ (v :> <<"none", Len(s.nodes) + 1>>)], Len(s.nodes) + 1>>

ScanFile(s, name) ==
    IF ~s.ok THEN s
    ELSE IF EndsWith(name, TINY)
         THEN LET r == AddNode(s, Stem(name, TINY))
              IN IF s.root # 0 THEN [r[1] EXCEPT !.ok = FALSE, !.err = "two-roots"]
                 ELSE [r[1] EXCEPT !.root = r[2]]
    ELSE IF EndsWith(name, DIFF)
         THEN LET raw == Stem(name, DIFF)
              IN IF PosOf(raw, "#") = 0 THEN [s EXCEPT !.ok = FALSE, !.err = "bad-diff-name"]
                 ELSE LET rv == AddNode(s, After(raw, "#"))            \* the child first, then the parent
                          rp == AddNode(rv[1], Before(raw, "#"))
                      IN [rp[1] EXCEPT !.edges = @ \cup {<<rp[2], rv[2], name>>}]
    ELSE s                                                              \* other files are ignored

RECURSIVE ScanAll(_, _, _)
ScanAll(s, listing, i) == IF i > Len(listing) THEN s ELSE ScanAll(ScanFile(s, listing[i]), listing, i + 1)
Scan(listing) ==
    LET s == ScanAll(SS(TRUE, "", <<>>, <<>>, {}, 0), listing, 1)
    IN IF s.ok /\ s.root = 0 THEN [s EXCEPT !.ok = FALSE, !.err = "no-root"] ELSE s

Succ(s, n) == {e[2] : e \in {e \in s.edges : e[1] = n}}

(* the walk: every path from the root is extended until a node repeats (the root itself is  *)
(* not on the path, so a cycle through the root is noticed one step later)                   *)
RECURSIVE WalkFrom(_, _, _, _)
WalkFrom(s, path, head, fuel) ==
    IF fuel = 0 THEN FALSE
    ELSE \A v \in Succ(s, head) :
            /\ \A i \in 1..Len(path) : path[i] # v
            /\ WalkFrom(s, Append(path, v), v, fuel - 1)
WalkOK(s) == WalkFrom(s, <<>>, s.root, Len(s.nodes) + 2)

(* VersionGraph::resolve on a listing *)
Resolve(listing) ==
    LET s == Scan(listing)
    IN IF ~s.ok THEN s ELSE IF WalkOK(s) THEN s ELSE [s EXCEPT !.ok = FALSE, !.err = "loop"]

(* VersionGraph::get *)
Get(s, name) == IF name \in DOMAIN s.versions THEN Ok(<<s.versions[name][1], s.nodes[s.versions[name][2]]>>) ELSE Err

---------------------------------------------------------------------------
(* apply_diffs.  Paths are sequences of nodes; all shortest ones are considered. *)
RECURSIVE PathsOfLen(_, _, _, _)
PathsOfLen(s, from, to, k) ==      \* simple or not, it does not matter for shortest ones
    IF k = 0 THEN (IF from = to THEN {<<from>>} ELSE {})
    ELSE UNION {{<<from>> \o p : p \in PathsOfLen(s, v, to, k - 1)} : v \in Succ(s, from)}
RECURSIVE ShortestFrom(_, _, _)
ShortestFrom(s, to, k) ==
    IF k > Len(s.nodes) THEN {}
    ELSE LET P == PathsOfLen(s, s.root, to, k) IN IF P # {} THEN P ELSE ShortestFrom(s, to, k + 1)
ShortestPaths(s, to) == ShortestFrom(s, to, 0)
Depth(s, n) == IF ShortestPaths(s, n) = {} THEN 0 ELSE Len(CHOOSE p \in ShortestPaths(s, n) : TRUE) - 1

EdgeFile(s, a, b) == (CHOOSE e \in s.edges : e[1] = a /\ e[2] = b)[3]

NamedIdx(M) == IF \E i \in 1..Len(M.ns) : M.ns[i] = "named" THEN CHOOSE i \in 1..Len(M.ns) : M.ns[i] = "named" ELSE 0

(* content : file name -> [tree, diff];  fold of the diffs along one path *)
RECURSIVE FoldPath(_, _, _, _, _)
FoldPath(s, content, path, i, m) ==
    IF i >= Len(path) THEN Ok(m)
    ELSE LET d == content[EdgeFile(s, path[i], path[i + 1])].diff
             r == D!Apply(d, m, NamedIdx(m))
         IN IF r.ok THEN FoldPath(s, content, path, i + 1, r.v) ELSE Err

RootMapping(s, content) ==
    LET m == content[s.nodes[s.root] \o TINY].tree
    IN IF NamedIdx(m) = 0 THEN Err ELSE I!Contract(m, NamedIdx(m))

AlongPath(s, content, path) ==
    LET rm == RootMapping(s, content)
    IN IF ~rm.ok THEN Err
       ELSE LET f == FoldPath(s, content, path, 1, rm.v)
            IN IF f.ok THEN I!Extend(f.v, NamedIdx(f.v)) ELSE Err

(* the set of answers apply_diffs may give for node n: one per shortest path *)
Answers(s, content, n) ==
    IF ShortestPaths(s, n) = {} THEN {Err}                              \* unreachable version
    ELSE {AlongPath(s, content, p) : p \in ShortestPaths(s, n)}

---------------------------------------------------------------------------
(* Declarative view of a directory (a set of file names).                  *)
VersionStrings(files) ==
    {Stem(f, TINY) : f \in {f \in files : EndsWith(f, TINY)}}
    \cup UNION {{Before(Stem(f, DIFF), "#"), After(Stem(f, DIFF), "#")} : f \in {f \in files : EndsWith(f, DIFF) /\ PosOf(Stem(f, DIFF), "#") # 0}}
IsSplit(v) == PosOf(v, "~") # 0
LookupNames(v) == IF IsSplit(v) THEN {Before(v, "~"), After(v, "~")} ELSE {v}
(* no name is claimed by two versions: then the scan cannot depend on the listing *)
CollisionFree(files) ==
    \A v, w \in VersionStrings(files) : v # w => LookupNames(v) \cap LookupNames(w) = {}
Roots(files) == {f \in files : EndsWith(f, TINY)}
BadDiffNames(files) == {f \in files : EndsWith(f, DIFF) /\ PosOf(Stem(f, DIFF), "#") = 0}

(* what lookup must answer *)
DeclGet(files, name) ==
    LET V == {v \in VersionStrings(files) : name \in LookupNames(v)}
    IN IF V = {} THEN Err
       ELSE LET v == CHOOSE v \in V : TRUE
            IN Ok(<<IF ~IsSplit(v) THEN "none" ELSE IF name = Before(v, "~") THEN "first" ELSE "second", v>>)

(* edges as pairs of version strings; cycle reachable from the root *)
DeclEdges(files) == {<<Before(Stem(f, DIFF), "#"), After(Stem(f, DIFF), "#")>> : f \in {f \in files : EndsWith(f, DIFF) /\ PosOf(Stem(f, DIFF), "#") # 0}}
RECURSIVE ReachSet(_, _, _)
ReachSet(E, S, fuel) ==
    LET N == S \cup {e[2] : e \in {e \in E : e[1] \in S}}
    IN IF N = S \/ fuel = 0 THEN S ELSE ReachSet(E, N, fuel - 1)
HasReachableCycle(files) ==
    LET E == DeclEdges(files)
        r == Stem(CHOOSE f \in Roots(files) : TRUE, TINY)
        R == ReachSet(E, {r}, 20)
    IN \E n \in R : n \in ReachSet(E, {e[2] : e \in {e \in E : e[1] = n}}, 20)

(* the listing independent verdict on the directory *)
DeclResolveOK(files) ==
    /\ Cardinality(Roots(files)) = 1
    /\ BadDiffNames(files) = {}
    /\ ~HasReachableCycle(files)

(* law connecting the two views, for every listing of a collision-free directory *)
ScanLaw(files, listing) ==
    LET s == Resolve(listing)
    IN CollisionFree(files) =>
        /\ s.ok <=> DeclResolveOK(files)
        /\ s.ok => /\ {s.nodes[i] : i \in 1..Len(s.nodes)} = VersionStrings(files)
                   /\ Len(s.nodes) = Cardinality(VersionStrings(files))
                   /\ \A name \in DOMAIN s.versions \cup UNION {LookupNames(v) : v \in VersionStrings(files)} \cup {"nope"} :
                        Get(s, name) = DeclGet(files, name)
                   /\ {<<s.nodes[e[1]], s.nodes[e[2]]>> : e \in s.edges} = DeclEdges(files)
=============================================================================
