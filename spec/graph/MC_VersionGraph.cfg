SPECIFICATION Spec
CONSTANT Tier = 0
INVARIANT InvScanLaw
INVARIANT InvListingFree
INVARIANT InvReach
INVARIANT Emit
CHECK_DEADLOCK FALSE
