SPECIFICATION Spec
CONSTANT Tier = 0
INVARIANT InvQueues
INVARIANT InvOnce
INVARIANT InvDirty
INVARIANT InvConfluent
INVARIANT InvDirtyMeans
INVARIANT InvReplay
INVARIANT InvEdgeSame
INVARIANT InvEdgeSymmetric
INVARIANT Emit
CHECK_DEADLOCK FALSE
