--------------------------- MODULE PropagateStore ---------------------------
(***************************************************************************)
(* Design check for src/insert_mappings.rs: the walk of Propagate.tla with *)
(* the stores the code leaves as TODO (`// TODO: store diff`,              *)
(* `// TODO: store mappings`, VersionGraph::write is a stub): every        *)
(* successful application is written back to the file it was made on.      *)
(* Nothing of this module is bound to the code (there is nothing to        *)
(* observe yet); it states what the finished feature has to achieve and    *)
(* lets TLC say whether the walk as coded achieves it once results are     *)
(* stored.                                                                 *)
(*                                                                         *)
(* One entry (a class name in the second namespace) over a graph whose     *)
(* files are consistent: every version has a value, the root file states   *)
(* the root's, an edge states <<value of parent, value of child>> when     *)
(* they differ and nothing when they are equal ("transparent").            *)
(* A change a -> b is made in version v (a = v's value).                   *)
(*                                                                         *)
(* Law.  Afterwards the files are consistent again, and the versions whose *)
(* value became b are exactly the region of v: what is connected to v by   *)
(* transparent edges, not going up out of v when the direction excludes    *)
(* `up`, not entering the children of v when it excludes `down`.           *)
(***************************************************************************)
EXTENDS Propagate

(* the files of a consistent world over values val : 1..n -> Vals *)
EdgeOf(val, e) == IF val[e[1]] = val[e[2]] THEN EdgeDiff(Absent) ELSE EdgeDiff(ClsEntry(DNode(<<val[e[1]], val[e[2]]>>, ActNone), Absent))
RootOf(val) == IF val[1] = NoVal THEN [cls |-> Absent] ELSE [cls |-> [name |-> val[1], doc |-> NoVal, fld |-> Absent]]

(* resolution of the entry along a path of versions (C04's ApplyOpt on the one value) *)
InfoOf(D) == IF D.cls = Absent THEN ActNone ELSE D.cls.node.info
ApplyVal(act, x) ==       \* [ok, v]
    IF ~IsDiff(act) /\ act[1] = NoVal THEN [ok |-> TRUE, v |-> x]              \* None
    ELSE IF act[1] = x THEN [ok |-> TRUE, v |-> act[2]] ELSE [ok |-> FALSE, v |-> x]
RootVal(M) == IF M.cls = Absent THEN NoVal ELSE M.cls.name
RECURSIVE Along(_, _, _, _)
Along(diff, path, i, acc) ==
    IF ~acc.ok \/ i >= Len(path) THEN acc
    ELSE Along(diff, path, i + 1, ApplyVal(InfoOf(diff[<<path[i], path[i + 1]>>]), acc.v))
RECURSIVE PathsTo(_, _, _)
PathsTo(E, x, fuel) ==      \* all paths root(1) .. x, as sequences of versions
    IF x = 1 THEN {<<1>>} ELSE IF fuel = 0 THEN {}
    ELSE UNION {{Append(p, x) : p \in PathsTo(E, e[1], fuel - 1)} : e \in {e \in E : e[2] = x}}
Answers(W, diff, rootmap, x) == {Along(diff, p, 1, [ok |-> TRUE, v |-> RootVal(rootmap)]) : p \in PathsTo(W.edges, x, W.n)}
Consistent(W, diff, rootmap) == \A x \in 1..W.n : Cardinality(Answers(W, diff, rootmap, x)) = 1 /\ \A a \in Answers(W, diff, rootmap, x) : a.ok
ValueOf(W, diff, rootmap, x) == (CHOOSE a \in Answers(W, diff, rootmap, x) : TRUE).v

---------------------------------------------------------------------------
(* the walk with stores: state of Propagate plus the files *)
T0(W) == S0(W) @@ [diff |-> W.diff, rootmap |-> W.rootmap]
Now(W, s) == [W EXCEPT !.diff = s.diff, !.rootmap = s.rootmap]

ApplyRootV(M, c) ==       \* ApplyToRoot with the new mapping set
    LET e == IF M.cls = Absent THEN Absent ELSE MEntry(M.cls.name, M.cls.doc)
        r == ApplyToMap(e, c, "M")
    IN R(r.res, IF r.v = Absent THEN [cls |-> Absent] ELSE [cls |-> [name |-> r.v.name, doc |-> r.v.doc, fld |-> Absent]])

StoreEdge(W, s, p, c, side) ==
    LET r == ApplyToEdge(W.level, s.diff[<<p, c>>], W.change, side, c \in W.barriers, W.mode)
    IN IF r.res = "edited" THEN [s EXCEPT !.diff[<<p, c>>] = r.v] ELSE s
StoreRoot(W, s) ==
    LET r == ApplyRootV(s.rootmap, W.change) IN IF r.res = "edited" THEN [s EXCEPT !.rootmap = r.v] ELSE s

UpStepS(W, s, x, p) == StoreEdge(W, UpStep(Now(W, s), s, x, p), p, x, "B")
DownStepS(W, s, x, c) == IF c = W.root THEN StoreRoot(W, DownStep(Now(W, s), s, x, c)) ELSE StoreEdge(W, DownStep(Now(W, s), s, x, c), x, c, "A")
(* the store of a step must use the files as they were when the step was decided: UpStep / DownStep do not touch them *)

RECURSIVE FoldStepsS(_, _, _, _, _)
FoldStepsS(W, s, x, order, up) ==
    IF order = <<>> THEN s
    ELSE FoldStepsS(W, IF up THEN UpStepS(W, s, x, Head(order)) ELSE DownStepS(W, s, x, Head(order)), x, Tail(order), up)
PollS(W, s, order) ==
    LET x == Polled(s) IN
    IF NextIsUp(s)
    THEN LET s1 == [s EXCEPT !.qUp = Tail(@), !.polls = Append(@, <<"up", x>>)]
         IN IF x = W.root
            THEN LET res == ApplyRootV(s.rootmap, W.change).res
                     s2 == [s1 EXCEPT !.calls = Append(@, Call("root", 0, x, "", FALSE, res))]
                 IN IF res = "edited" THEN StoreRoot(W, [OfferDown(W, s2, x) EXCEPT !.dirty = @ \cup {x}]) ELSE s2
            ELSE FoldStepsS(W, s1, x, order, TRUE)
    ELSE FoldStepsS(W, [s EXCEPT !.qDown = Tail(@), !.polls = Append(@, <<"down", x>>)], x, order, FALSE)

---------------------------------------------------------------------------
(* the region of v *)
Transparent(val, e) == val[e[1]] = val[e[2]]
RegionStep(W, val, up, down, S) ==
    S \cup {e[1] : e \in {e \in W.edges : Transparent(val, e) /\ e[2] \in S /\ (e[2] = W.version => up)
                                          /\ ~(~down /\ e[1] = W.version)}}                                  \* upwards over a transparent edge
      \cup {e[2] : e \in {e \in W.edges : Transparent(val, e) /\ e[1] \in S /\ ~(~down /\ e[1] = W.version)
                                          /\ ~(~down /\ e[2] \in Children(W, W.version))
                                          /\ (e[2] = W.version => up)}}                                      \* downwards
RECURSIVE RegionFix(_, _, _, _, _, _)
RegionFix(W, val, up, down, S, fuel) == IF fuel = 0 THEN S ELSE RegionFix(W, val, up, down, RegionStep(W, val, up, down, S), fuel - 1)
Region(W, val, up, down) == RegionFix(W, val, up, down, {W.version}, W.n)

LawStored(W, val, up, down, s) ==
    /\ Consistent(W, s.diff, s.rootmap)
    /\ \A x \in 1..W.n : ValueOf(W, s.diff, s.rootmap, x) = IF x \in Region(W, val, up, down) THEN W.change.info[2] ELSE val[x]
=============================================================================
