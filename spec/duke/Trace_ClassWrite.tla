-------------------------- MODULE Trace_ClassWrite --------------------------
(***************************************************************************)
(* I2S for C02: every recorded run of the real writer is judged here.      *)
(* A record holds the operation (`layout`: an item list of CodeLayout;     *)
(* `pool`: interfaces + constants of ConstPool; `write`: a corpus / sample *)
(* / generated class by id) and `got`, what the harness observed:          *)
(*   res      "ok" | "err"  (a panic is recorded as [panic |-> msg])       *)
(*   parse    verdict of the independent strict parser on the output       *)
(*   raw      its structural summary (module WellFormed)                   *)
(*   diffs    differences between the facts of the tree and the facts read *)
(*            back, outside instruction lists and instruction indices      *)
(*   methods  per method with code: T, the tree's instruction list, and O, *)
(*            the written one, as runs of other instructions (count, hash) *)
(*            separated by jumps / switches (T: target instruction indices *)
(*            of the tree; O: byte offset, form, length, padding, decoded  *)
(*            target offsets); offs: byte offset of written instructions   *)
(*            by index; tabs: <<tree index, designated byte offset>> for   *)
(*            exception bounds, table entries, frames, annotation targets  *)
(* Accepted iff the writer succeeded where a correct file exists and       *)
(* failed cleanly where none does, the output is WellFormed, reads back to *)
(* the same facts, the written instruction list is the tree's (with long   *)
(* conditional jumps replaced by inverted-branch + goto_w), and every      *)
(* branch, switch arm, exception bound and table entry designates the      *)
(* byte offset of the instruction it designated in the tree.               *)
(***************************************************************************)
EXTENDS CodeLayoutLaw, ConstPool, WellFormed, Json, IOUtils, TLC

Rec == ndJsonDeserialize(IOEnv.TRACE)
VARIABLES l, rej

HasF(g, f) == f \in DOMAIN g

-----------------------------------------------------------------------------
(* instruction lists *)

IfOps == {"ifeq", "ifne", "iflt", "ifge", "ifgt", "ifle", "if_icmpeq", "if_icmpne", "if_icmplt", "if_icmpge",
          "if_icmpgt", "if_icmple", "if_acmpeq", "if_acmpne", "ifnull", "ifnonnull"}
Inverse(op) ==
    CASE op = "ifeq" -> "ifne" [] op = "ifne" -> "ifeq" [] op = "iflt" -> "ifge" [] op = "ifge" -> "iflt"
      [] op = "ifgt" -> "ifle" [] op = "ifle" -> "ifgt" [] op = "if_icmpeq" -> "if_icmpne" [] op = "if_icmpne" -> "if_icmpeq"
      [] op = "if_icmplt" -> "if_icmpge" [] op = "if_icmpge" -> "if_icmplt" [] op = "if_icmpgt" -> "if_icmple"
      [] op = "if_icmple" -> "if_icmpgt" [] op = "if_acmpeq" -> "if_acmpne" [] op = "if_acmpne" -> "if_acmpeq"
      [] op = "ifnull" -> "ifnonnull" [] op = "ifnonnull" -> "ifnull" [] OTHER -> "?"

Cnt(it) == IF it.k = "r" THEN it.c ELSE 1

(* Walks T from item k and O from item m; ts / os are the instruction      *)
(* indices the next items must start at.  Result: the sequence of, per T   *)
(* item, [o |-> aligned O item, tr |-> it is written as a trampoline], or  *)
(* a sequence ending in No if the written list is not the tree's.          *)
No == [o |-> 0, tr |-> FALSE]
RECURSIVE Walk(_, _, _, _, _, _)
Walk(T, O, k, m, ts, os) ==
    IF k > Len(T) THEN (IF m = Len(O) + 1 THEN <<>> ELSE <<No>>)
    ELSE IF m > Len(O) \/ T[k].s # ts \/ O[m].s # os THEN <<No>>
    ELSE LET t == T[k]  o == O[m] IN
         IF t.k = "r"
         THEN IF o.k = "r" /\ o.c = t.c /\ o.h = t.h
              THEN <<[o |-> m, tr |-> FALSE]>> \o Walk(T, O, k + 1, m + 1, ts + t.c, os + o.c)
              ELSE <<No>>
         ELSE IF o.k # "j" THEN <<No>>
         ELSE IF o.op = t.op /\ o.h = t.h
              THEN <<[o |-> m, tr |-> FALSE]>> \o Walk(T, O, k + 1, m + 1, ts + 1, os + 1)
         ELSE IF /\ t.op \in IfOps /\ o.op = Inverse(t.op)
                 /\ m + 1 <= Len(O) /\ O[m + 1].k = "j" /\ O[m + 1].op = "goto" /\ O[m + 1].form = "w"
                 /\ O[m + 1].s = os + 1
              THEN <<[o |-> m, tr |-> TRUE]>> \o Walk(T, O, k + 1, m + 2, ts + 1, os + 2)
         ELSE <<No>>

Aligned(T, al) == Len(al) = Len(T) /\ \A i \in DOMAIN al : al[i].o # 0

(* tree index -> written index: shifted by the trampolines in front of it *)
Corr(T, al, t) == t + Cardinality({k \in DOMAIN T : al[k].tr /\ T[k].s < t})
OutOff(m, o) == IF ToString(o) \in DOMAIN m.offs THEN m.offs[ToString(o)] ELSE -1
OffOfTree(m, al, t) == OutOff(m, Corr(m.T, al, t))

SwitchArms(o) == Len(o.d) - 1
SwitchLen(o) == 1 + o.pad + (IF o.op = "tableswitch" THEN 12 + 4 * SwitchArms(o) ELSE 8 + 8 * SwitchArms(o))

(* one tree jump / switch and what was written for it *)
JumpOK(m, al, k) ==
    LET t == m.T[k]  o == m.O[al[k].o] IN
    IF al[k].tr
    THEN LET g == m.O[al[k].o + 1] IN
         /\ o.len = 3 /\ g.len = 5 /\ g.off = o.off + 3
         /\ Len(o.d) = 1 /\ o.d[1] = g.off + 5            \* the inverted branch skips exactly the goto_w
         /\ o.d[1] < m.len                                 \* ... onto an instruction
         /\ Len(g.d) = 1 /\ Len(t.t) = 1
         /\ OffOfTree(m, al, t.t[1]) = g.d[1]              \* the goto_w designates the if's target
    ELSE /\ Len(o.d) = Len(t.t)
         /\ \A s \in DOMAIN t.t : OffOfTree(m, al, t.t[s]) = o.d[s]
         /\ CASE t.op \in IfOps -> o.len = 3 /\ InI16(o.d[1] - o.off)
              [] t.op \in {"goto", "jsr"} ->
                    \/ o.form = "short" /\ o.len = 3 /\ InI16(o.d[1] - o.off)
                    \/ o.form = "w" /\ o.len = 5
              [] t.op \in {"tableswitch", "lookupswitch"} -> o.pad = PadLaw(o.off) /\ o.len = SwitchLen(o)
              [] OTHER -> FALSE

MethodOK(m) ==
    LET al == Walk(m.T, m.O, 1, 1, 0, 0) IN
    /\ Aligned(m.T, al)
    /\ m.len >= 1 /\ m.len <= U16MAX
    /\ OutOff(m, m.no) = m.len
    /\ \A k \in DOMAIN m.T : m.T[k].k = "j" => JumpOK(m, al, k)
    /\ \A i \in DOMAIN m.tabs : OffOfTree(m, al, m.tabs[i][1]) = m.tabs[i][2]

ParseOK(g) == HasF(g, "res") /\ g.res = "ok" /\ HasF(g, "parse") /\ g.parse = "ok"
FactsOK(g) == Len(g.diffs) = 0
LayoutsOK(g) == \A i \in DOMAIN g.methods : MethodOK(g.methods[i])
OutputOK(g) == ParseOK(g) /\ WellFormed(g.raw) /\ FactsOK(g) /\ LayoutsOK(g)
Refused(g) == HasF(g, "res") /\ g.res = "err"
Skipped(g) == HasF(g, "skipped")

-----------------------------------------------------------------------------
(* layout vectors: the item list against the real layout *)

ICount(it) == IF it.k = "pad" THEN (it.n \div 6) + (it.n % 6) ELSE 1     \* pad: `wide iinc` (6 bytes) and `nop`
RECURSIVE IStarts(_, _, _)
IStarts(its, i, s) == IF i > Len(its) THEN <<s>> ELSE <<s>> \o IStarts(its, i + 1, s + ICount(its[i]))
OpClass(op) == CASE op \in IfOps -> "if" [] op = "goto" -> "goto" [] op = "jsr" -> "jsr"
                 [] op = "tableswitch" -> "tsw" [] op = "lookupswitch" -> "lsw" [] OTHER -> "?"

(* RealLayoutOK of CodeLayoutLaw - the statement model-checked for the     *)
(* design - evaluated on the layout the real writer produced               *)
ItemsLayoutOK(its, m) ==
    LET al == Walk(m.T, m.O, 1, 1, 0, 0)
        st == IStarts(its, 1, 0)
        n  == Len(its)
        TJ == SelectSeq([k \in DOMAIN m.T |-> k], LAMBDA k : m.T[k].k = "j")
        IJ == SelectSeq([i \in 1..n |-> i], LAMBDA i : IsJump(its[i]) \/ IsSwitch(its[i]))
        KOf(i) == TJ[CHOOSE q \in DOMAIN IJ : IJ[q] = i]
        OOf(i) == m.O[al[KOf(i)].o]
        TrOf(i) == al[KOf(i)].tr
        active(i) == IsJump(its[i]) \/ IsSwitch(its[i])
        off  == [i \in 1..(n + 1) |-> IF i = n + 1 THEN m.len ELSE OffOfTree(m, al, st[i])]
        form == [i \in 1..n |-> IF ~active(i) THEN "plain"
                                ELSE IF TrOf(i) THEN "tramp"
                                ELSE IF IsSwitch(its[i]) THEN "switch"
                                ELSE IF OOf(i).len = 5 THEN "wide" ELSE "narrow"]
        dec  == [i \in 1..n |-> IF ~active(i) THEN <<>> ELSE IF TrOf(i) THEN m.O[al[KOf(i)].o + 1].d ELSE OOf(i).d]
        skip == [i \in 1..n |-> IF active(i) /\ TrOf(i) THEN OOf(i).d[1] ELSE 0]
        pad  == [i \in 1..n |-> IF active(i) THEN OOf(i).pad ELSE 0]
    IN /\ Aligned(m.T, al)
       /\ m.nt = st[n + 1]
       (* the harness materialised the list faithfully: same jumps, same targets *)
       /\ Len(TJ) = Len(IJ)
       /\ \A q \in DOMAIN IJ :
            LET it == its[IJ[q]]  t == m.T[TJ[q]] IN
            /\ t.s = st[IJ[q]] /\ OpClass(t.op) = it.k
            /\ Len(t.t) = Len(it.t) /\ \A s \in DOMAIN it.t : t.t[s] = st[it.t[s]]
       /\ RealLayoutOK(its, off, form, dec, skip, pad)

LayoutAccept(r) ==
    LET g == r.got IN
    IF Skipped(g) THEN TRUE
    ELSE IF ExistsFit(r.items)
         THEN OutputOK(g) /\ ItemsLayoutOK(r.items, g.methods[Len(g.methods)])
         ELSE Refused(g)

-----------------------------------------------------------------------------
(* pool vectors *)

IsRen(r) == HasF(r, "ren") /\ r.ren
PoolFits(r) == Representable(OutNames(IsRen(r)), r.pre, OutPuts(IsRen(r), r.puts))

PoolAccept(r) ==
    LET g == r.got IN
    IF Skipped(g) THEN TRUE
    ELSE IF PoolFits(r)
         THEN /\ OutputOK(g)
              /\ Len(g.put_idx) = Len(r.puts)
              (* a one byte index only for what fits one byte; ldc2_w for category 2 *)
              /\ \A k \in DOMAIN r.puts : g.put_form[k] = "short" => g.put_idx[k] <= 255 /\ ~Cat2(r.puts[k])
         ELSE Refused(g)

-----------------------------------------------------------------------------
(* a class duke has read must be written; only the hand-made local variable *)
(* variant may find nothing to work on                                      *)
(* variant linepc: the tree holds a line number whose label no instruction carries (a start_pc inside an instruction): *)
(* the writer refuses it or writes a well-formed file, never a malformed one (seed C02-12)                            *)
WriteAccept(r) == IF Skipped(r.got) THEN r.variant \in {"lvt", "linepc"}
                  ELSE IF r.variant = "linepc" /\ Refused(r.got) THEN TRUE
                  ELSE OutputOK(r.got)

Accept(r) ==
    /\ HasF(r, "got") /\ ~HasF(r.got, "panic")
    /\ CASE r.op = "layout" -> LayoutAccept(r)
         [] r.op = "pool"   -> PoolAccept(r)
         [] r.op = "write"  -> WriteAccept(r)
         [] OTHER -> FALSE

(* for the report of a rejected record: what the specification wanted and  *)
(* which part of the judgement failed                                      *)
Must(r) == CASE r.op = "layout" -> (IF ExistsFit(r.items) THEN "ok" ELSE "err")
             [] r.op = "pool" -> (IF PoolFits(r) THEN "ok" ELSE "err")
             [] OTHER -> "ok"
BadMethods(g) == {g.methods[i].m : i \in {j \in DOMAIN g.methods : ~MethodOK(g.methods[j])}}
Expected(r) ==
    LET g == r.got IN
    IF ~ParseOK(g) THEN [res |-> Must(r), parse |-> "ok"]
    ELSE [res |-> Must(r), parse |-> "ok", wf |-> WellFormed(g.raw), facts |-> FactsOK(g),
          layout |-> LayoutsOK(g), bad_methods |-> BadMethods(g),
          items |-> IF r.op = "layout" /\ ExistsFit(r.items) /\ LayoutsOK(g) THEN ItemsLayoutOK(r.items, g.methods[Len(g.methods)]) ELSE TRUE]

Init == l = 1 /\ rej = 0
Next ==
    /\ l <= Len(Rec)
    /\ l' = l + 1
    /\ IF Accept(Rec[l]) THEN rej' = rej
       ELSE /\ PrintT(ToJson([reject |-> l, exp |-> Expected(Rec[l])]))
            /\ rej' = rej + 1
Spec == Init /\ [][Next]_<<l, rej>>

Consumed == TLCGet("stats").diameter - 1 = Len(Rec)
=============================================================================
