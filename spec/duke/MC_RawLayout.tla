--------------------------- MODULE MC_RawLayout ---------------------------
(***************************************************************************)
(* Bounded instance for C20.  Every case is a whole ClassFile raw value    *)
(* (the crate's API reads and writes whole classes only); the families:    *)
(*   attr    each attribute kind of enum AttributeInfo, its tables filled  *)
(*           generically from the layout table with n elements (and m in   *)
(*           tables nested inside), placed at each level that owns an      *)
(*           attribute table (class, field, method, Code, record           *)
(*           component), over pools without / with two-slot entries before,*)
(*           between and after the names the attributes are found by       *)
(*   pool    every sequence of constants up to length 2 over all 17 kinds, *)
(*           up to length 3 over {Utf8, Long, Double}, before the names    *)
(*   header  0..3 interfaces x fields x methods x class attributes         *)
(*   frame   every stack_map_frame kind x verification_type_info kind x    *)
(*           element counts, tags at both ends of their ranges             *)
(*   ev      every element_value kind, nested to depth 2, in each of the   *)
(*           five attributes that carry one                                *)
(*   pair    every ordered pair of attribute kinds side by side (thorough: *)
(*           at every level)                                               *)
(*   wf      one attribute kind with 0..3 rows in a class that is well      *)
(*           formed in every respect an independent strict reader checks:  *)
(*           what is written must be accepted by other readers             *)
(*   incons  attributes whose name index denotes another name: outside the *)
(*           round-trip law, the write-side laws still apply               *)
(* Cases are drawn in two steps of Next so that TLC's workers share them.  *)
(* Laws: RoundTrip, LengthLaw, CountLaw (RawLayout).  Emit prints one      *)
(* vector per case.                                                        *)
(***************************************************************************)
EXTENDS RawLayout, Json

CONSTANT Tier        \* 0 = quick, 1 = thorough

VARIABLES phase, key, x, wf, cls, before
vars == <<phase, key, x, wf, cls, before>>

---------------------------------------------------------------------------
(* constants of the pool *)
Utf8E(bs) == [k |-> "Utf8", bytes |-> bs]
LongE   == [k |-> "Long", high_bytes |-> <<1, 515>>, low_bytes |-> <<1029, 1543>>]
DoubleE == [k |-> "Double", high_bytes |-> <<16368, 1>>, low_bytes |-> <<2, 3>>]
IntE    == [k |-> "Integer", bytes |-> <<4660, 22136>>]
NameA   == <<65>>                \* "A"
DescI   == <<73>>                \* "I"
DescV   == <<40, 41, 86>>        \* "()V"
OtherName == <<88, 121>>         \* "Xy": names no modelled attribute
NameOf(a) == IF a = "Other" THEN OtherName ELSE AttrName[a]

RECURSIVE FindUtf8(_, _, _)
FindUtf8(pool, bs, i) ==
    IF i > Len(pool) THEN 0
    ELSE IF pool[i].k = "Utf8" /\ pool[i].bytes = bs THEN IndexOfPos(pool, i)
    ELSE FindUtf8(pool, bs, i + 1)
Idx(pool, bs) == FindUtf8(pool, bs, 1)

---------------------------------------------------------------------------
(* generic values from the layout table: the j-th element of a table at nesting depth d has    *)
(* Cnt(c, d + 1) elements in its own tables; numbers differ by field position and element      *)
Cnt(c, d) == IF d <= Len(c.n) THEN c.n[d] ELSE 0
ValU(w, i, e) == IF w = 1 THEN i + 8 * e ELSE 256 * i + e + 16
PickVariant(t, e) ==
    CASE t = "VerificationTypeInfo" -> IF e % 2 = 1 THEN "Object" ELSE "Integer"
      [] t = "StackMapFrame" -> "FullFrame"
      [] t = "ElementValue" -> IF e % 2 = 1 THEN "Short" ELSE "Enum"
      [] t = "CpInfo" -> "Integer"

RECURSIVE Fill(_, _, _, _), FillFs(_, _, _, _, _)
FillSeq(el, c, d, i) ==
    IF el = "AttributeInfo" THEN c.inner
    ELSE IF IsScalarT(el) THEN [j \in 1..Cnt(c, d) |-> ValU(ScalarW(el), i, j)]
    ELSE [j \in 1..Cnt(c, d) |-> Fill(el, c, d + 1, j)]
FillFs(fs, i, c, d, e) ==
    IF i > Len(fs) THEN <<>>
    ELSE LET f == fs[i] IN
         (CASE f.ty = "u" -> (f.n :> ValU(f.w, i, e))
            [] f.ty = "h" -> (f.n :> <<i, 256 * i + e + 16>>)
            [] f.ty = "vec" -> (f.n :> FillSeq(f.el, c, d, i))
            [] f.ty = "rest" -> (f.n :> [j \in 1..Cnt(c, d) |-> 16 * j + e])
            [] f.ty = "one" -> (f.n :> Fill(f.el, c, d, e))
            [] OTHER -> <<>>)
         @@ FillFs(fs, i + 1, c, d, e)
Fill(t, c, d, e) ==
    IF t \in StructNames THEN FillFs(Struct[t], 1, c, d, e)
    ELSE LET k == PickVariant(t, e) IN ("k" :> k) @@ FillFs(Union[t].vs[k].fs, 1, c, d, e)

(* attribute of kind a, found through name index idx, tables sized by c.n, attribute tables inside = c.inner *)
MkAttr(a, idx, n, inner) ==
    ("k" :> a) @@ ("attribute_name_index" :> idx) @@ FillFs(AttrVariants[a].fs, 1, [n |-> n, inner |-> inner], 1, 0)

Member(name, desc, attrs) == [access_flags |-> 1025, name_index |-> name, descriptor_index |-> desc, attributes |-> attrs]
Cls(pool, this, ifs, flds, mths, attrs) ==
    [minor_version |-> 3, major_version |-> 65, constant_pool |-> pool, access_flags |-> 1057, this_class |-> this,
     super_class |-> 0, interfaces |-> ifs, fields |-> flds, methods |-> mths, attributes |-> attrs]

---------------------------------------------------------------------------
(* pools: the names the attributes need, with two-slot constants around them *)
PoolVariantsAll == {"plain", "wide-start", "wide-mid", "wide-end", "wide-both"}
PoolVariants(level) == IF Tier = 1 \/ level = "class" THEN PoolVariantsAll ELSE {"plain", "wide-mid"}
NameEntries(names) == [i \in 1..Len(names) |-> Utf8E(NameOf(names[i]))]
PoolFor(pv, names) ==
    LET base == <<Utf8E(NameA), [k |-> "Class", name_index |-> 0]>>     \* name_index patched below
        ns == NameEntries(names)
        raw == CASE pv = "plain" -> base \o ns
                 [] pv = "wide-start" -> <<LongE>> \o base \o ns
                 [] pv = "wide-mid" -> base \o <<DoubleE>> \o ns
                 [] pv = "wide-end" -> base \o ns \o <<LongE>>
                 [] pv = "wide-both" -> <<DoubleE>> \o base \o <<LongE>> \o ns \o <<DoubleE>>
    IN [i \in 1..Len(raw) |-> IF raw[i].k = "Class" THEN [k |-> "Class", name_index |-> Idx(raw, NameA)] ELSE raw[i]]
RECURSIVE FindKind(_, _, _)
FindKind(pool, k, i) == IF i > Len(pool) THEN 0 ELSE IF pool[i].k = k THEN IndexOfPos(pool, i) ELSE FindKind(pool, k, i + 1)
ThisOf(pool) == FindKind(pool, "Class", 1)

Levels == {"class", "field", "method", "code", "component"}
NamesFor(a, level) == <<a>> \o (IF level = "code" /\ a # "Code" THEN <<"Code">> ELSE <<>>)
                           \o (IF level = "component" /\ a # "Record" THEN <<"Record">> ELSE <<>>)
(* the attribute at a level *)
Place(level, pool, at) ==
    LET u == Idx(pool, NameA) IN
    CASE level = "class" -> Cls(pool, ThisOf(pool), <<>>, <<>>, <<>>, <<at>>)
      [] level = "field" -> Cls(pool, ThisOf(pool), <<>>, <<Member(u, u, <<at>>)>>, <<>>, <<>>)
      [] level = "method" -> Cls(pool, ThisOf(pool), <<>>, <<>>, <<Member(u, u, <<at>>)>>, <<>>)
      [] level = "code" -> Cls(pool, ThisOf(pool), <<>>, <<>>,
                               <<Member(u, u, <<MkAttr("Code", Idx(pool, AttrName["Code"]), <<1>>, <<at>>)>>)>>, <<>>)
      [] level = "component" -> Cls(pool, ThisOf(pool), <<>>, <<>>, <<>>,
                                    <<MkAttr("Record", Idx(pool, AttrName["Record"]), <<1>>, <<at>>)>>)

NestedKinds == {"StackMapTable", "RuntimeVisibleAnnotations", "RuntimeInvisibleAnnotations",
                "RuntimeVisibleParameterAnnotations", "RuntimeInvisibleParameterAnnotations",
                "BootstrapMethods", "Module"}
(* a Code / Record focus carries one small attribute inside its own attribute table *)
InnerFor(a, pool) == IF a \in {"Code", "Record"} THEN <<MkAttr(a, Idx(pool, NameOf(a)), <<0>>, <<>>)>> ELSE <<>>

AttrCase(a, level, n, m, pv) ==
    LET pool == PoolFor(pv, NamesFor(a, level))
    IN Place(level, pool, MkAttr(a, Idx(pool, NameOf(a)), <<n, m>>, InnerFor(a, pool)))

---------------------------------------------------------------------------
(* pool family *)
CpKinds == DOMAIN CpVariants
CpEntry(k, n) == ("k" :> k) @@ FillFs(CpVariants[k].fs, 1, [n |-> <<n>>, inner |-> <<>>], 1, 0)
NoIndexKinds == {"Utf8", "Integer", "Float", "Long", "Double"}
PoolCase(front) ==
    LET tail == <<Utf8E(NameA), [k |-> "Class", name_index |-> 0], Utf8E(AttrName["SourceFile"])>>
        raw == front \o tail
        pool == [i \in 1..Len(raw) |-> IF i = Len(front) + 2 THEN [k |-> "Class", name_index |-> IndexOfPos(raw, Len(front) + 1)] ELSE raw[i]]
    IN Cls(pool, IndexOfPos(pool, Len(front) + 2), <<>>, <<>>, <<>>,
           <<[k |-> "SourceFile", attribute_name_index |-> IndexOfPos(pool, Len(front) + 3), sourcefile_index |-> IndexOfPos(pool, Len(front) + 1)]>>)
(* the same three entries with `front` before and `back` behind them *)
PoolCaseBack(front, back) ==
    LET c == PoolCase(front) IN [c EXCEPT !.constant_pool = @ \o back]
(* history family: two classes whose attribute name sits at the same pool index behind a different number of two-slot    *)
(* constants, pools of the same size - one is read (and dropped) right before the other.  Reading is a function of the   *)
(* bytes: what an earlier read left behind may not show.                                                                 *)
HistA == PoolCaseBack(<<Utf8E(<<102>>), Utf8E(<<103>>)>>, <<LongE>>)
HistB == PoolCaseBack(<<LongE>>, <<Utf8E(<<102>>), Utf8E(<<103>>)>>)
HistC == PoolCaseBack(<<DoubleE, Utf8E(<<102>>)>>, <<IntE, LongE>>)
HistD == PoolCaseBack(<<Utf8E(<<102>>), IntE, Utf8E(<<103>>)>>, <<DoubleE, LongE>>) 
HistPairs == {<<HistA, HistB>>, <<HistB, HistA>>, <<HistC, HistD>>, <<HistD, HistC>>, <<HistA, HistA>>}
WidePos(front) ==
    LET W == {i \in 1..Len(front) : CpVariants[front[i].k].slots = 2} IN
    IF W = {} THEN "none" ELSE IF 1 \in W THEN "start" ELSE IF Len(front) \in W THEN "end" ELSE "mid"

---------------------------------------------------------------------------
(* header family: a well-formed class *)
HeaderPool == <<Utf8E(NameA), [k |-> "Class", name_index |-> 1], Utf8E(DescI), Utf8E(DescV),
                Utf8E(AttrName["Deprecated"]), Utf8E(AttrName["Synthetic"]), Utf8E(AttrName["SourceFile"])>>
HeaderAttr(j) == CASE j = 1 -> [k |-> "Deprecated", attribute_name_index |-> 5]
                   [] j = 2 -> [k |-> "SourceFile", attribute_name_index |-> 7, sourcefile_index |-> 1]
                   [] j = 3 -> [k |-> "Synthetic", attribute_name_index |-> 6]
HeaderCase(i, f, m, a) ==
    Cls(HeaderPool, 2, [j \in 1..i |-> 2], [j \in 1..f |-> Member(1, 3, [z \in 1..(IF j = 1 THEN a ELSE 0) |-> HeaderAttr(z)])],
        [j \in 1..m |-> Member(1, 4, <<>>)], [j \in 1..a |-> HeaderAttr(j)])

---------------------------------------------------------------------------
(* frame family *)
VtKinds == DOMAIN VtVariants
FrameKinds == DOMAIN FrameVariants
Vt(k, e) == ("k" :> k) @@ FillFs(VtVariants[k].fs, 1, [n |-> <<>>, inner |-> <<>>], 1, e)
Vts(k, n) == [j \in 1..n |-> Vt(k, j)]
FrameSet(fk) ==
    CASE fk = "SameFrame" -> {[k |-> fk, offset_delta |-> o] : o \in {0, 1, 63}}
      [] fk = "SameLocals1StackItemFrame" -> {[k |-> fk, offset_delta |-> o, stack |-> Vt(v, 1)] : o \in {0, 63}, v \in VtKinds}
      [] fk = "SameLocals1StackItemFrameExtended" -> {[k |-> fk, offset_delta |-> 300, stack |-> Vt(v, 1)] : v \in VtKinds}
      [] fk = "ChopFrame" -> {[k |-> fk, chop |-> c, offset_delta |-> 301] : c \in 1..3}
      [] fk = "SameFrameExtended" -> {[k |-> fk, offset_delta |-> 302]}
      [] fk = "AppendFrame" -> {[k |-> fk, offset_delta |-> 303, locals |-> Vts(v, n)] : n \in 1..3, v \in VtKinds}
      [] fk = "FullFrame" -> {[k |-> fk, offset_delta |-> 304, locals |-> Vts(v, n), stack |-> Vts(v, m)] : n \in 0..3, m \in 0..3, v \in VtKinds}
(* ChopFrame's field is called k in the crate; k is the variant key of the abstract value, so the field is "chop" here *)
FrameCase(fr) ==
    LET pool == PoolFor("plain", <<"StackMapTable", "Code">>)
        smt == [k |-> "StackMapTable", attribute_name_index |-> Idx(pool, AttrName["StackMapTable"]),
                entries |-> <<fr, [k |-> "SameFrame", offset_delta |-> 5]>>]
    IN Place("code", pool, smt)

---------------------------------------------------------------------------
(* element_value family *)
EvKinds == DOMAIN EvVariants
EvNested == {"Array", "Annotation"}
EvLeaf(k, e) == ("k" :> k) @@ FillFs(EvVariants[k].fs, 1, [n |-> <<>>, inner |-> <<>>], 1, e)
Anno(e, pairs) == [type_index |-> 768 + e, element_value_pairs |-> pairs]
Pair(e, v) == [element_name_index |-> 1024 + e, value |-> v]
Ev2(k, m, e) ==
    CASE k = "Array" -> [k |-> k, values |-> [j \in 1..m |-> EvLeaf("Integer", j)]]
      [] k = "Annotation" -> [k |-> k, annotation_value |-> Anno(e, [j \in 1..m |-> Pair(j, EvLeaf("String", j))])]
      [] OTHER -> EvLeaf(k, e)
Ev1(k, n, k2, m) ==
    CASE k = "Array" -> [k |-> k, values |-> [j \in 1..n |-> Ev2(k2, m, j)]]
      [] k = "Annotation" -> [k |-> k, annotation_value |-> Anno(9, [j \in 1..n |-> Pair(j, Ev2(k2, m, j))])]
      [] OTHER -> EvLeaf(k, 1)
EvCarriers == {"RuntimeVisibleAnnotations", "RuntimeInvisibleAnnotations", "RuntimeVisibleParameterAnnotations",
               "RuntimeInvisibleParameterAnnotations", "AnnotationDefault"}
EvCase(a, ev) ==
    LET pool == PoolFor("plain", <<a>>)
        idx == Idx(pool, AttrName[a])
        one == <<Anno(1, <<Pair(1, ev)>>)>>
        at == CASE a \in {"RuntimeVisibleAnnotations", "RuntimeInvisibleAnnotations"} -> [k |-> a, attribute_name_index |-> idx, annotations |-> one]
                [] a = "AnnotationDefault" -> [k |-> a, attribute_name_index |-> idx, default_value |-> ev]
                [] OTHER -> [k |-> a, attribute_name_index |-> idx, parameter_annotations |-> <<[annotations |-> one]>>]
    IN Place("method", pool, at)

---------------------------------------------------------------------------
(* two attributes side by side; an attribute found through the wrong name *)
PairCase(a1, a2, level) ==
    LET names == (IF a1 = a2 THEN <<a1>> ELSE <<a1, a2>>)
                 \o (IF level = "code" /\ "Code" \notin {a1, a2} THEN <<"Code">> ELSE <<>>)
                 \o (IF level = "component" /\ "Record" \notin {a1, a2} THEN <<"Record">> ELSE <<>>)
        pool == PoolFor("plain", names)
        mk(a) == MkAttr(a, Idx(pool, NameOf(a)), <<1, 1>>, <<>>)
        u == Idx(pool, NameA)
    IN CASE level = "class" -> Cls(pool, ThisOf(pool), <<>>, <<>>, <<>>, <<mk(a1), mk(a2)>>)
         [] level = "field" -> Cls(pool, ThisOf(pool), <<>>, <<Member(u, u, <<mk(a1), mk(a2)>>)>>, <<>>, <<>>)
         [] level = "method" -> Cls(pool, ThisOf(pool), <<>>, <<>>, <<Member(u, u, <<mk(a1), mk(a2)>>)>>, <<>>)
         [] level = "code" -> Cls(pool, ThisOf(pool), <<>>, <<>>,
                                  <<Member(u, u, <<MkAttr("Code", Idx(pool, AttrName["Code"]), <<1>>, <<mk(a1), mk(a2)>>)>>)>>, <<>>)
         [] level = "component" -> Cls(pool, ThisOf(pool), <<>>, <<>>, <<>>,
                                       <<MkAttr("Record", Idx(pool, AttrName["Record"]), <<1>>, <<mk(a1), mk(a2)>>)>>)
InconsCase(a, b) ==       \* kind a, named as b
    LET pool == PoolFor("plain", <<b>>)
    IN Cls(pool, ThisOf(pool), <<>>, <<>>, <<>>, <<MkAttr(a, Idx(pool, NameOf(b)), <<1, 0>>, <<>>)>>)

---------------------------------------------------------------------------
(* wf family: small classes that are well-formed in every respect the independent strict parser checks (every index  *)
(* denotes a constant of the required kind, descriptors are descriptors, code is code, positions are instruction      *)
(* boundaries), one attribute kind each with n rows, without / with a two-slot constant in front of everything:       *)
(* what the crate writes for them must be accepted by other readers (cfkit, duke)                                     *)
WfKinds == {"SourceFile", "Signature", "Deprecated", "Synthetic", "SourceDebugExtension", "Exceptions", "InnerClasses",
            "EnclosingMethod", "NestHost", "NestMembers", "PermittedSubclasses", "ConstantValue", "MethodParameters", "Record",
            "RuntimeVisibleAnnotations", "RuntimeInvisibleAnnotations", "RuntimeVisibleParameterAnnotations",
            "RuntimeInvisibleParameterAnnotations", "AnnotationDefault", "Code", "LineNumberTable", "LocalVariableTable",
            "LocalVariableTypeTable", "StackMapTable", "Other"}
WfCase(a, n, wide) ==
    LET front == IF wide THEN <<LongE>> ELSE <<>>
        raw == front \o <<Utf8E(NameA), [k |-> "Class", name_index |-> 0], Utf8E(DescI), Utf8E(DescV), IntE,
                          Utf8E(NameOf(a)), Utf8E(AttrName["Code"])>>
        o == Len(front)
        ix(i) == IndexOfPos(raw, o + i)
        pool == [i \in 1..Len(raw) |-> IF i = o + 2 THEN [k |-> "Class", name_index |-> ix(1)] ELSE raw[i]]
        u == ix(1)  c == ix(2)  d == ix(3)  m == ix(4)  int == ix(5)  nm == ix(6)  code == IF a = "Code" THEN ix(6) ELSE ix(7)
        ev == [k |-> "Integer", const_value_index |-> int]
        anno == [type_index |-> d, element_value_pairs |-> <<[element_name_index |-> u, value |-> ev]>>]
        rows(r) == [j \in 1..n |-> r]
        at(body) == ("k" :> a) @@ ("attribute_name_index" :> nm) @@ body
        codeAttr(inner) == [k |-> "Code", attribute_name_index |-> code, max_stack |-> 1, max_locals |-> 1, code |-> <<0, 177>>,       \* nop; return
                            exception_table |-> (IF a = "Code" THEN rows([start_pc |-> 0, end_pc |-> 1, handler_pc |-> 1, catch_type |-> 0]) ELSE <<>>),
                            attributes |-> inner]
        mk(fl, me, at0) == Cls(pool, c, <<>>, fl, me, at0)
        onClass(body) == mk(<<>>, <<>>, <<at(body)>>)
        onField(body) == mk(<<[access_flags |-> 25, name_index |-> u, descriptor_index |-> d, attributes |-> <<at(body)>>]>>, <<>>, <<>>)
        onAbstract(body) == mk(<<>>, <<Member(u, m, <<at(body)>>)>>, <<>>)
        onCode(inner) == mk(<<>>, <<[access_flags |-> 9, name_index |-> u, descriptor_index |-> m, attributes |-> <<codeAttr(inner)>>]>>, <<>>)
    IN CASE a = "SourceFile" -> onClass([sourcefile_index |-> u])
         [] a = "Signature" -> onClass([signature_index |-> u])
         [] a \in {"Deprecated", "Synthetic"} -> onClass(<<>>)
         [] a = "SourceDebugExtension" -> onClass([debug_extension |-> [j \in 1..n |-> 64 + j]])
         [] a = "Exceptions" -> onAbstract([exception_index_table |-> rows(c)])
         [] a = "InnerClasses" -> onClass([classes |-> rows([inner_class_info_index |-> c, outer_class_info_index |-> 0, inner_name_index |-> 0, inner_class_access_flags |-> 1])])
         [] a = "EnclosingMethod" -> onClass([class_index |-> c, method_index |-> 0])
         [] a = "NestHost" -> onClass([host_class_index |-> c])
         [] a \in {"NestMembers", "PermittedSubclasses"} -> onClass([classes |-> rows(c)])
         [] a = "ConstantValue" -> onField([constantvalue_index |-> int])
         [] a = "MethodParameters" -> onAbstract([parameters |-> rows([name_index |-> u, access_flags |-> 16])])
         [] a = "Record" -> onClass([components |-> rows([name_index |-> u, descriptor_index |-> d, attributes |-> <<>>])])
         [] a \in {"RuntimeVisibleAnnotations", "RuntimeInvisibleAnnotations"} -> onClass([annotations |-> rows(anno)])
         [] a \in {"RuntimeVisibleParameterAnnotations", "RuntimeInvisibleParameterAnnotations"} ->
                onAbstract([parameter_annotations |-> rows([annotations |-> <<anno>>])])
         [] a = "AnnotationDefault" -> onAbstract([default_value |-> ev])
         [] a = "Code" -> onCode(<<>>)
         [] a = "LineNumberTable" -> onCode(<<at([line_number_table |-> [j \in 1..n |-> [start_pc |-> 0, line_number |-> j]]])>>)
         [] a = "LocalVariableTable" -> onCode(<<at([local_variable_table |-> [j \in 1..n |-> [start_pc |-> 0, length |-> 1, name_index |-> u, descriptor_index |-> d, index |-> j - 1]]])>>)
         [] a = "LocalVariableTypeTable" -> onCode(<<at([local_variable_type_table |-> [j \in 1..n |-> [start_pc |-> 0, length |-> 1, name_index |-> u, signature_index |-> d, index |-> j - 1]]])>>)
         [] a = "StackMapTable" -> onCode(<<at([entries |-> [j \in 1..(IF n > 0 THEN 1 ELSE 0) |-> [k |-> "SameFrame", offset_delta |-> 0]]])>>)
         [] a = "Other" -> onClass([info |-> [j \in 1..n |-> 200 + j]])

---------------------------------------------------------------------------
Init == phase = "start" /\ key = <<>> /\ x = <<>> /\ wf = FALSE /\ cls = "" /\ before = <<>>

Pick1(k) == phase = "start" /\ phase' = "key" /\ key' = k /\ UNCHANGED <<x, wf, cls, before>>
Case(v, w, c) == x' = v /\ wf' = w /\ cls' = c /\ phase' = "case" /\ UNCHANGED <<key, before>>
PickHist == phase = "start" /\ \E p \in HistPairs : x' = p[2] /\ before' = p[1] /\ wf' = TRUE /\ cls' = "hist" /\ phase' = "case" /\ key' = <<"hist">>

Step1 ==
    \/ \E a \in AttrKinds, level \in Levels : Pick1(<<"attr", a, level>>)
    \/ \E k \in CpKinds \cup {"-"} : Pick1(<<"pool", k>>)
    \/ \E i \in 0..3, f \in 0..3 : Pick1(<<"header", i, f>>)
    \/ \E fk \in FrameKinds : Pick1(<<"frame", fk>>)
    \/ \E a \in EvCarriers, k \in EvKinds : Pick1(<<"ev", a, k>>)
    \/ \E a \in AttrKinds : Pick1(<<"pair", a>>)
    \/ \E a \in AttrKinds : Pick1(<<"incons", a>>)
    \/ \E a \in WfKinds : Pick1(<<"wf", a>>)

Step2 ==
    /\ phase = "key"
    /\ CASE key[1] = "attr" ->
              \E n \in 0..3, m \in 0..3, pv \in PoolVariants(key[3]) :
                 /\ (key[2] \notin NestedKinds => m = 0)
                 /\ Case(AttrCase(key[2], key[3], n, m, pv), FALSE, "attr/" \o key[2] \o "/" \o key[3])
         [] key[1] = "pool" ->
              IF key[2] = "-" THEN Case(PoolCase(<<>>), TRUE, "pool/empty")
              ELSE \E n \in 0..3 :
                   \/ Case(PoolCase(<<CpEntry(key[2], n)>>), key[2] \in NoIndexKinds, "cp/" \o key[2])
                   \/ \E k2 \in CpKinds :
                        LET front == <<CpEntry(key[2], n), CpEntry(k2, 1)>> IN
                        /\ (key[2] # "Utf8" => n = 0)
                        /\ Case(PoolCase(front), {key[2], k2} \subseteq NoIndexKinds, "pool/" \o WidePos(front))
                   \/ \E k2 \in {"Utf8", "Long", "Double"}, k3 \in {"Utf8", "Long", "Double"} :
                        LET front == <<CpEntry(key[2], 1), CpEntry(k2, 1), CpEntry(k3, 1)>> IN
                        /\ key[2] \in {"Utf8", "Long", "Double"} /\ n = 0
                        /\ Case(PoolCase(front), TRUE, "pool/" \o WidePos(front))
         [] key[1] = "header" -> \E m \in 0..3, a \in 0..3 : Case(HeaderCase(key[2], key[3], m, a), TRUE, "header")
         [] key[1] = "frame" -> \E fr \in FrameSet(key[2]) : Case(FrameCase(fr), FALSE, "frame/" \o key[2])
         [] key[1] = "ev" ->
              IF key[3] \notin EvNested THEN Case(EvCase(key[2], Ev1(key[3], 0, "Byte", 0)), FALSE, "ev/" \o key[3])
              ELSE \E n \in 0..3, k2 \in EvKinds, m \in 0..3 :
                     /\ (k2 \notin EvNested => m = 0)
                     /\ (n = 0 => k2 = "Byte")
                     /\ Case(EvCase(key[2], Ev1(key[3], n, k2, m)), FALSE, "ev/" \o key[3])
         [] key[1] = "pair" -> \E a2 \in AttrKinds, level \in (IF Tier = 1 THEN Levels ELSE {"class"}) :
                                   Case(PairCase(key[2], a2, level), FALSE, "pair")
         [] key[1] = "wf" -> \E n \in 0..3, w \in BOOLEAN : Case(WfCase(key[2], n, w), TRUE, "wf/" \o key[2])
         [] key[1] = "incons" -> \E b \in AttrKinds \ {key[2]} :
                                   /\ (Tier = 0 => b \in {"Other", "Signature", "Code", "Deprecated"})
                                   /\ Case(InconsCase(key[2], b), FALSE, "incons")

Next == Step1 \/ Step2 \/ PickHist
Spec == Init /\ [][Next]_vars

---------------------------------------------------------------------------
IsCase == phase = "case"
InvInRange   == IsCase => InRange(x)
InvConsistent == IsCase => (Consistent(x) <=> key[1] # "incons")
InvRoundTrip == IsCase => RoundTrip(x)
InvLength    == IsCase => LengthLaw(x)
InvCounts    == IsCase => CountLaw(x)
(* the slot rule is what makes the difference: with a two-slot constant the count exceeds the number of entries + 1 *)
InvSlots     == IsCase => (x.constant_pool # <<>> => (HasWide(x) <=> Slots(x.constant_pool) > Len(x.constant_pool)))

(* the layout handed to the driver: role and width of every cell (role "" for plain data) *)
Lay(cells) == [i \in 1..Len(cells) |-> <<IF cells[i].c \in {"count", "len"} THEN cells[i].r ELSE "", cells[i].w>>]

Emit ==
    IsCase =>
      LET cells == Encode(x)
          base == [len |-> LenOf(x), announced |-> LenOf(x), bytes |-> Flatten(cells), counts |-> CountCells(cells), write_same |-> TRUE]
          rt == IF Consistent(x) THEN [back_equal |-> TRUE] ELSE <<>>
          cross == IF wf THEN [cfkit_ok |-> TRUE, duke_ok |-> TRUE] ELSE <<>>
          \* how the stream hands out the bytes of the read-back: all that is asked for (0) or at most 1 / 3 / 64 per call
          frag == <<0, 1, 3, 64>>[(LenOf(x) % 4) + 1]
      IN PrintT(ToJson([op |-> "value", cls |-> cls, wide |-> HasWide(x), wf |-> wf, x |-> x, lay |-> Lay(cells), frag |-> frag, before |-> before,
                        exp |-> base @@ rt @@ cross]))
=============================================================================
