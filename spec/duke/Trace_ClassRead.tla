--------------------------- MODULE Trace_ClassRead ---------------------------
(***************************************************************************)
(* I2S for C01.  One record per class file read by the real reader.  The   *)
(* record carries RAW material only (harness/src/drivers/c01.rs): per      *)
(* method with code the raw layout as the independent parser saw it (byte  *)
(* offsets, relative branch offsets, table rows as in the file) and the    *)
(* positions duke's tree states; for the rest of the class the list of     *)
(* differences between the reference facts and duke's facts.               *)
(*                                                                         *)
(* The specification runs the reader machine of ClassRead over the raw     *)
(* layout and requires its result = what duke states (ClassFacts!SameCode),*)
(* and requires that no reported difference is a difference of facts       *)
(* (ClassFacts!IsFactDifference).  Each way a record fails is an atom      *)
(* "kind:path"; a record is accepted iff it has no atom.  Class files      *)
(* outside the property (not well-formed in a way the lenient reference    *)
(* parser lets through, version outside 45.3..67) are only required not to *)
(* make the reader panic.                                                  *)
(***************************************************************************)
EXTENDS ClassRead, Json, IOUtils

Rec == ndJsonDeserialize(IOEnv.TRACE)
VARIABLES l, rej

CodePath(c) == "/methods/#/attrs/Code/" \o c

(* positions of one method: the machine's result against duke's *)
MethodAtoms(m, s) ==
    LET res == Result(s, m.raw) IN
    {CompDiffKind(res, m.duke, CodeComponents[q]) \o ":" \o CodePath(CodeComponents[q]) :
        q \in {z \in DOMAIN CodeComponents : CompDiffKind(res, m.duke, CodeComponents[z]) # ""}}

ExcEndsAtCodeEnd(R) == \E q \in DOMAIN R.exc : R.exc[q][2] = R.len
LocalvarStartsAtCodeEnd(R) ==
    \E q \in DOMAIN R.attrs : /\ R.attrs[q][1] \in {"RuntimeVisibleTypeAnnotations", "RuntimeInvisibleTypeAnnotations"}
                              /\ \E z \in DOMAIN R.attrs[q][2] : /\ R.attrs[q][2][z][1] \in LocalvarKinds
                                                                 /\ \E y \in DOMAIN R.attrs[q][2][z][2] : R.attrs[q][2][z][2][y][1] = R.len

(* why a refusal of a well-formed class file is wrong: the places where the file uses what JVMS allows *)
(* (one atom; a file that uses several of them cannot be attributed to one)                             *)
RefusalAtoms(g) ==
    LET a == (IF \E q \in DOMAIN g.methods : ExcEndsAtCodeEnd(g.methods[q].raw) THEN <<"exception end_pc = code_length">> ELSE <<>>)
             \o (IF \E q \in DOMAIN g.methods : LocalvarStartsAtCodeEnd(g.methods[q].raw) THEN <<"localvar_target start_pc = code_length">> ELSE <<>>)
             \o (IF g.version = <<67, 65535>> THEN <<"class file version 67.65535">> ELSE <<>>)
        RECURSIVE Join(_, _)
        Join(q, z) == IF z > Len(q) THEN "" ELSE (IF z > 1 THEN " + " ELSE "") \o q[z] \o Join(q, z + 1)
    IN IF a = <<>> THEN {"refused:other"} ELSE {"refused:" \o Join(a, 1)}

Atoms(r) ==
    LET g == r.got IN
    IF "skipped" \in DOMAIN g THEN {}
    ELSE IF "ok" \notin DOMAIN g THEN {"panic"}
    ELSE IF g.panic THEN {"panic"}
    ELSE LET runs == [q \in DOMAIN g.methods |-> Run(g.methods[q].raw)]
             wf == /\ g.obs = <<>>
                   /\ VersionInScope(g.version[1], g.version[2])
                   /\ \A q \in DOMAIN g.methods : WellFormedRun(runs[q], g.methods[q].raw) /\ ~RowStartsAtEnd(g.methods[q].raw)
         IN IF ~wf THEN {}
            ELSE IF ~g.ok THEN RefusalAtoms(g)
            ELSE IF g.proj_error # "" THEN {"tree-inconsistent"}
            ELSE UNION {MethodAtoms(g.methods[q], runs[q]) : q \in DOMAIN g.methods}
                 \cup {g.diffs[q][2] \o ":" \o g.diffs[q][1] : q \in {z \in DOMAIN g.diffs : IsFactDifference(g.diffs[z])}}
                 \cup (IF (g.ref_hash = g.duke_hash) # (g.diffs = <<>>) THEN {"record-inconsistent"} ELSE {})

Accept(r) == r.op = "class" /\ Atoms(r) = {}
Expected(r) == IF r.op = "class" THEN [atoms |-> Atoms(r)] ELSE [atoms |-> {"unknown-op"}]

Init == l = 1 /\ rej = 0
Next ==
    /\ l <= Len(Rec)
    /\ l' = l + 1
    /\ IF Accept(Rec[l]) THEN rej' = rej
       ELSE /\ PrintT(ToJson([reject |-> l, exp |-> Expected(Rec[l])]))
            /\ rej' = rej + 1
Spec == Init /\ [][Next]_<<l, rej>>

Consumed == TLCGet("stats").diameter - 1 = Len(Rec)
=============================================================================
