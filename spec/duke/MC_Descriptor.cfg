SPECIFICATION Spec
CONSTANT Tier = 0
INVARIANT InvOpIsDecl
INVARIANT InvPrintParse
INVARIANT InvGrammarForm
INVARIANT InvFieldInReturn
INVARIANT InvParsePrint
INVARIANT InvDisjoint
INVARIANT Emit
CHECK_DEADLOCK FALSE
