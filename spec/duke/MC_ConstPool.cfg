SPECIFICATION Spec
CONSTANT Tier = 0
INVARIANT InvHashConsed
INVARIANT InvDense
INVARIANT InvRefs
INVARIANT InvLaw
INVARIANT InvCountBound
INVARIANT InvLdc
INVARIANT InvRenGrows
INVARIANT EmitVec
CHECK_DEADLOCK FALSE
