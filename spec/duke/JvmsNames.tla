------------------------------ MODULE JvmsNames ------------------------------
(***************************************************************************)
(* Property C18, name half.  The validity predicates behind duke's checked *)
(* name newtypes (make_string_str_like! in duke/src/macros.rs: is_valid,   *)
(* TryFrom), as their documentation states them, over character sequences. *)
(*                                                                         *)
(*   type (duke)           documentation                                   *)
(*   ObjClassName          "internal binary names" JVMS 4.2.1; names::     *)
(*                         is_valid_obj_class_name: "doesn't start with [, *)
(*                         a list of identifiers split by /, each          *)
(*                         identifier must be an unqualified name"         *)
(*   ArrClassName          "Array class names always start with `[`        *)
(*                         followed by a field descriptor", ArrayType of   *)
(*                         JVMS 4.3.2 (whose array descriptors have at     *)
(*                         most 255 dimensions); names::is_valid_arr_      *)
(*                         class_name "valid array class name according to *)
(*                         JVMS 4.2.1" (= the descriptor of the array type)*)
(*   ClassName             "can both be an array class name as allowed by  *)
(*                         ArrClassName and an object class name as        *)
(*                         allowed by ObjClassName"                        *)
(*   FieldName, ParameterName, LocalVariableName                           *)
(*                         unqualified name JVMS 4.2.2: at least one code  *)
(*                         point, none of . ; [ /                          *)
(*   MethodName            JVMS 4.2.2: <init>, <clinit>, or an unqualified *)
(*                         name without < and >                            *)
(*                                                                         *)
(* Inner-class helpers of ObjClassName(Slice): get_inner_class_name "the   *)
(* part after the last `$`, in the last (`/`-separated) section",          *)
(* get_inner_class_parent "the part before the last `$`, in the last       *)
(* section", both object class names; from_inner_class "joining together   *)
(* an inner class parent name and an inner class name" with `$`.           *)
(***************************************************************************)
EXTENDS Descriptor

Range(f) == {f[i] : i \in DOMAIN f}
Has(n, c) == \E i \in 1..Len(n) : n[i] = c

(* the pieces of n between occurrences of c (Rust's split(c): k occurrences give k+1 pieces) *)
RECURSIVE Pieces(_, _)
Pieces(n, c) ==
    IF Has(n, c)
    THEN LET i == CHOOSE i \in 1..Len(n) : n[i] = c /\ \A j \in 1..(i - 1) : n[j] # c
         IN <<Take(n, i - 1)>> \o Pieces(Drop(n, i), c)
    ELSE <<n>>

IsObjClassName(n) ==
    /\ (n = <<>> \/ n[1] # "[")
    /\ \A p \in Range(Pieces(n, "/")) : IsUnqualifiedName(p)

IsArrClassName(n) == n # <<>> /\ n[1] = "[" /\ IsFieldType(n)

IsClassName(n) == IsObjClassName(n) \/ IsArrClassName(n)

INIT == <<"<", "i", "n", "i", "t", ">">>
CLINIT == <<"<", "c", "l", "i", "n", "i", "t", ">">>
IsMethodName(n) ==
    \/ n = INIT
    \/ n = CLINIT
    \/ IsUnqualifiedName(n) /\ ~Has(n, "<") /\ ~Has(n, ">")

NameKinds == {"class", "arr_class", "obj_class", "field", "method", "param", "local"}
NameValid(kind, n) ==
    CASE kind = "class" -> IsClassName(n)
      [] kind = "arr_class" -> IsArrClassName(n)
      [] kind = "obj_class" -> IsObjClassName(n)
      [] kind = "method" -> IsMethodName(n)
      [] kind \in {"field", "param", "local"} -> IsUnqualifiedName(n)

---------------------------------------------------------------------------
(* Inner-class split and join.  An optional pair is <<>> or <<parent, inner>>. *)

(* an inner class name: an object class name within one section and without a further `$` *)
IsInnerName(i) == IsObjClassName(i) /\ ~Has(i, "/") /\ ~Has(i, "$")

Join(p, i) == p \o <<"$">> \o i

(* declarative: the ways to read n as parent $ inner *)
SplitCuts(n) == {k \in 1..Len(n) : /\ n[k] = "$"
                                   /\ IsObjClassName(Take(n, k - 1))
                                   /\ IsInnerName(Drop(n, k))}
Split(n) ==
    IF SplitCuts(n) = {} THEN <<>>
    ELSE LET k == CHOOSE k \in SplitCuts(n) : TRUE IN <<Take(n, k - 1), Drop(n, k)>>

(* operational: split_inner_class_parent_and_name: rsplit_once('$') and the four tests *)
OpSplit(n) ==
    IF ~Has(n, "$") THEN <<>>
    ELSE LET k == CHOOSE k \in 1..Len(n) : n[k] = "$" /\ \A j \in (k + 1)..Len(n) : n[j] # "$"
             parent == Take(n, k - 1)
             inner == Drop(n, k)
         IN IF parent # <<>> /\ inner # <<>> /\ Last(parent) # "/" /\ ~Has(inner, "/")
            THEN <<parent, inner>> ELSE <<>>

(* what the API answers: the receiver must be an object class name to exist at all *)
SplitRes(n) == IF IsObjClassName(n) THEN Ok(Split(n)) ELSE Err
JoinRes(p, i) == IF IsObjClassName(p) /\ IsObjClassName(i) THEN Ok(Join(p, i)) ELSE Err

(* expectations on the wire: a refused receiver has no result; otherwise the optional pair and *)
(* what get_inner_class_parent / get_inner_class_name return; for join the joined name and its  *)
(* own split                                                                                    *)
OptOf(sp, j) == IF sp = <<>> THEN <<>> ELSE <<sp[j]>>
SplitExp(n) == LET r == SplitRes(n)
               IN IF r.ok THEN [res |-> r, parent |-> OptOf(r.v, 1), inner |-> OptOf(r.v, 2)] ELSE [res |-> Err]
JoinExp(p, i) == LET r == JoinRes(p, i)
                 IN IF r.ok THEN [res |-> r, split |-> Split(r.v)] ELSE [res |-> Err]
NameExp(kind, n) == LET b == NameValid(kind, n) IN [valid |-> b, ctor |-> b, octor |-> b]

---------------------------------------------------------------------------
(* Laws *)
LawObjIsBinary(n) == IsObjClassName(n) = IsBinaryClassName(n)       \* the two readings of JVMS 4.2.1 agree
LawClassForms(n) == ~(IsObjClassName(n) /\ IsArrClassName(n))
LawOpSplit(n) == IsObjClassName(n) => /\ \A a, b \in SplitCuts(n) : a = b
                                      /\ OpSplit(n) = Split(n)
LawJoinSplit(n) == (IsObjClassName(n) /\ Split(n) # <<>>) =>
                        /\ IsObjClassName(Split(n)[1]) /\ IsInnerName(Split(n)[2])
                        /\ Join(Split(n)[1], Split(n)[2]) = n
LawJoinValid(p, i) == (IsObjClassName(p) /\ IsObjClassName(i)) => IsObjClassName(Join(p, i))
LawSplitJoin(p, i) == (IsObjClassName(p) /\ IsInnerName(i)) => Split(Join(p, i)) = <<p, i>>
=============================================================================
