-------------------------- MODULE Trace_RawLayout --------------------------
(***************************************************************************)
(* I2S for C20: every recorded run of raw_class_file's real code is        *)
(* re-judged by the layout specification.  One TLC step per record.        *)
(*                                                                         *)
(* op "value": a raw value x (seeded random, larger than the bounded       *)
(*   model: every attribute kind at every level, tables up to 6, numbers   *)
(*   over their whole width, pools with two-slot constants) was written by *)
(*   to_bytes()/write(), measured by length() and read back.  Accepted iff *)
(*   the bytes are Bytes(x), written and announced length are LenOf(x),    *)
(*   write() and to_bytes() agree, the value read back is equal (when x is *)
(*   Consistent and InRange), and - for values marked well-formed - the    *)
(*   independent strict reader accepts what was written.  The spec's own   *)
(*   RoundTrip law is re-checked on x as well.                             *)
(* op "bytes": a class file (hand-written samples under every standard     *)
(*   encoding of the independent assembler, javac / JDK corpus) was read   *)
(*   and written back.  Accepted iff: when the independent strict reader   *)
(*   accepts the input and every constant kind in it is one the crate      *)
(*   models (unknown attributes are kept as bytes by the crate, so no      *)
(*   attribute is outside the model), the crate reads it, writes the same  *)
(*   number of bytes, no byte differs, length() announces that number;     *)
(*   what another reader (duke) makes of the output is what it makes of    *)
(*   the input; and - small classes - the raw value the crate read, laid   *)
(*   out by THIS specification, has the input's size and exactly the count *)
(*   / length fields the independent reader found in the input (the latter *)
(*   unless the input carries a modelled attribute name in a location      *)
(*   where the JVMS does not define it: the independent reader skips such  *)
(*   a body, the crate may read it structurally).                          *)
(***************************************************************************)
EXTENDS RawLayout, Integers, Json, IOUtils

Rec == ndJsonDeserialize(IOEnv.TRACE)
VARIABLES l, rej

Has(g, k) == k \in DOMAIN g
Flag(r, k) == Has(r, k) /\ r[k] = TRUE
Elems(s) == {s[i] : i \in 1..Len(s)}
Lay(cells) == [i \in 1..Len(cells) |-> <<IF cells[i].c \in {"count", "len"} THEN cells[i].r ELSE "", cells[i].w>>]
WV(s) == [i \in 1..Len(s) |-> <<s[i][2], s[i][3]>>]

InLaw(x) == Consistent(x) /\ InRange(x)

ExpValue(r) ==
    LET x == r.x
        cells == Encode(x)
    IN [len |-> LenOf(x), announced |-> LenOf(x), bytes |-> Flatten(cells), write_same |-> TRUE, lay |-> Lay(cells)]
       @@ (IF InLaw(x) THEN [back_equal |-> TRUE] ELSE <<>>)
       @@ (IF Flag(r, "wf") THEN [cfkit_ok |-> TRUE] ELSE <<>>)
       @@ (IF Flag(r, "wfd") THEN [duke_ok |-> TRUE] ELSE <<>>)

AcceptValue(r) ==
    LET x == r.x
        g == r.got
    IN /\ ~Has(g, "panic")
       /\ g.len = LenOf(x)
       /\ g.announced = LenOf(x)
       /\ g.write_same
       /\ g.bytes = Bytes(x)
       /\ InLaw(x) => g.back_equal
       /\ Flag(r, "wf") => g.cfkit_ok
       /\ Flag(r, "wfd") => g.duke_ok
       /\ RoundTrip(x)
       /\ LengthLaw(x)

Judged(g) == g.in_ok /\ Elems(g.in_kinds) \subseteq DOMAIN CpVariants

ExpBytes(r) ==
    IF Judged(r.got) THEN [read_ok |-> TRUE, out_n |-> r.got.n, first_diff |-> -1, announced |-> r.got.n, out_cfkit_ok |-> TRUE,
                           out_duke_ok |-> r.got.in_duke_ok]
         @@ (IF r.got.has_x THEN [size |-> LenOf(r.got.x), cells |-> WV(Prescribed(r.got.x))] ELSE <<>>)
    ELSE <<>>

AcceptBytes(r) ==
    LET g == r.got IN
    /\ ~Has(g, "panic")
    /\ ~g.read_panic
    /\ Judged(g) =>
         /\ g.read_ok
         /\ g.out_n = g.n
         /\ g.first_diff = -1
         /\ g.announced = g.n
         /\ g.out_cfkit_ok
         /\ g.out_duke_ok = g.in_duke_ok
         /\ g.has_x => /\ LenOf(g.x) = g.n
                       /\ (g.in_foreign = <<>> => WV(Prescribed(g.x)) = WV(g.in_cells))

Expected(r) ==
    CASE r.op = "value" -> ExpValue(r)
      [] r.op = "bytes" -> ExpBytes(r)
      [] OTHER -> <<>>

Accept(r) ==
    CASE r.op = "value" -> AcceptValue(r)
      [] r.op = "bytes" -> AcceptBytes(r)
      [] OTHER -> FALSE

Init == l = 1 /\ rej = 0
Next ==
    /\ l <= Len(Rec)
    /\ l' = l + 1
    /\ IF Accept(Rec[l]) THEN rej' = rej
       ELSE /\ PrintT(ToJson([reject |-> l, exp |-> Expected(Rec[l])]))
            /\ rej' = rej + 1
Spec == Init /\ [][Next]_<<l, rej>>

(* every line was consumed *)
Consumed == TLCGet("stats").diameter - 1 = Len(Rec)
=============================================================================
