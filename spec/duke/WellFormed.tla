------------------------------ MODULE WellFormed ------------------------------
(***************************************************************************)
(* C02, part 3: structural validity of a class file, judged on the         *)
(* summary the independent parser records of it (cfkit FACTS.md 7.4):      *)
(*   pool     kind of every constant pool slot, slot 0 first; "-" for      *)
(*            slot 0 and for the unusable slot after a Long / Double       *)
(*   uses     <<expected kinds, indices>>: every index field of the file   *)
(*            (inside and outside the pool), grouped by the kinds the      *)
(*            place expects; "0" among the kinds where the format allows   *)
(*            index 0                                                      *)
(*   lengths  <<declared, measured>> for every attribute_length,           *)
(*            code_length and Utf8 length                                  *)
(*   limits   cp_count, numbers of members, largest code_length, file      *)
(*            length and bytes consumed                                    *)
(* "every index in range and of the right kind, every length field exact,  *)
(* code within limits".                                                    *)
(***************************************************************************)
EXTENDS Integers, Sequences, FiniteSets

Kinds == {"Utf8", "Integer", "Float", "Long", "Double", "Class", "String", "Fieldref", "Methodref",
          "InterfaceMethodref", "NameAndType", "MethodHandle", "MethodType", "Dynamic", "InvokeDynamic",
          "Module", "Package"}
TwoSlot == {"Long", "Double"}
RangeOf(s) == {s[i] : i \in DOMAIN s}

(* pool[i + 1] is the kind of slot i *)
PoolOK(pool) ==
    /\ Len(pool) >= 1 /\ Len(pool) <= 65535
    /\ pool[1] = "-"
    /\ \A i \in 2..Len(pool) :
        /\ pool[i] \in Kinds \cup {"-"}
        /\ (pool[i] \in TwoSlot => i + 1 <= Len(pool) /\ pool[i + 1] = "-")
        /\ (pool[i] = "-" => pool[i - 1] \in TwoSlot)

UseOK(pool, idx, exp) ==
    IF idx = 0 THEN "0" \in exp
    ELSE /\ idx >= 1 /\ idx < Len(pool)          \* in range: 1 .. constant_pool_count - 1
         /\ pool[idx + 1] # "-"                  \* not the second slot of a long / double
         /\ pool[idx + 1] \in exp                \* of an expected kind

GroupOK(pool, grp) == \A j \in DOMAIN grp[2] : UseOK(pool, grp[2][j], RangeOf(grp[1]))

LengthsOK(lengths) == \A i \in DOMAIN lengths : lengths[i][1] = lengths[i][2]

LimitsOK(lim, pool) ==
    /\ lim.cp_count = Len(pool)
    /\ lim.max_code_length >= 0 /\ lim.max_code_length <= 65535
    /\ lim.fields <= 65535 /\ lim.methods <= 65535 /\ lim.interfaces <= 65535
    /\ lim.consumed = lim.file_len               \* nothing behind the class
    /\ lim.major >= 45

WellFormed(raw) ==
    /\ PoolOK(raw.pool)
    /\ \A i \in DOMAIN raw.uses : GroupOK(raw.pool, raw.uses[i])
    /\ LengthsOK(raw.lengths)
    /\ LimitsOK(raw.limits, raw.pool)

(* first offending row, for diagnostics: 0 if none *)
BadLength(raw) == IF LengthsOK(raw.lengths) THEN 0
                  ELSE CHOOSE i \in DOMAIN raw.lengths : raw.lengths[i][1] # raw.lengths[i][2]
=============================================================================
