----------------------------- MODULE ClassFacts -----------------------------
(***************************************************************************)
(* Property C01.  What a class file STATES, independent of how it is laid  *)
(* out (cfkit/FACTS.md in TLA+ terms), and - separately - the ENCODING     *)
(* choices that turn the same facts into different byte layouts.           *)
(*                                                                         *)
(* "The facts are independent of constant-pool layout, attribute order and *)
(* instruction encoding variant" is the statement that nothing in the      *)
(* first half of this module (Code, Pos, SameCode, ...) mentions an        *)
(* Encoding; Layout(C, E) is the only place where the two meet.            *)
(*                                                                         *)
(*   code facts C  insns   sequence of instructions; every position        *)
(*                         operand is an INSTRUCTION INDEX (0-based); the  *)
(*                         position behind the last instruction ("end")    *)
(*                         is Len(insns)                                   *)
(*                 exc     exception rows [start, end, handler, catch]     *)
(*                 lines   <<insn, line>> rows              (a set)        *)
(*                 lvt     <<start, end, slot, name, desc>> (a multiset)   *)
(*                 lvtt    <<start, end, slot, name, sig>>  (a multiset)   *)
(*                 frames  <<at, locals, stack>> fully expanded, in order  *)
(*                 tav/tai type annotations <<kind, args>>, in order       *)
(*                 unk     unrecognised attributes [name, bytes]           *)
(*   vt            <<"int">> .. | <<"object", name>> | <<"uninit", insn>>   *)
(***************************************************************************)
EXTENDS Integers, Sequences, FiniteSets, TLC, Bitwise

Range(s) == {s[q] : q \in DOMAIN s}
Count(s, x) == Cardinality({q \in DOMAIN s : s[q] = x})
SameBag(s, t) == Len(s) = Len(t) /\ \A q \in DOMAIN s : Count(s, s[q]) = Count(t, s[q])
SameSet(s, t) == Range(s) = Range(t)

---------------------------------------------------------------------------
(* Instructions.  A record [op, sh, operands..]; sh names the operand     *)
(* shape (spec-internal, not part of the facts).                           *)
BranchShapes == {"if", "goto", "jsr", "tswitch", "lswitch"}
IsBranch(I) == I.sh \in BranchShapes

(* all position operands of an instruction, in the order of the file *)
Targets(I) ==
    CASE I.sh \in {"if", "goto", "jsr"} -> <<I.target>>
      [] I.sh = "tswitch" -> <<I.default>> \o I.targets
      [] I.sh = "lswitch" -> <<I.default>> \o [q \in 1..Len(I.pairs) |-> I.pairs[q][2]]
      [] OTHER -> <<>>

Code(insns, exc, lines, lvt, lvtt, frames, tav, tai, unk) ==
    [insns |-> insns, exc |-> exc, lines |-> lines, lvt |-> lvt, lvtt |-> lvtt, frames |-> frames,
     tav |-> tav, tai |-> tai, unk |-> unk]

LocalvarKinds == {"local_variable", "resource_variable"}
OffsetKinds == {"instanceof", "new", "constructor_reference", "method_reference", "cast",
                "constructor_invocation_type_argument", "method_invocation_type_argument",
                "constructor_reference_type_argument", "method_reference_type_argument"}

(* positions used by a list of verification types *)
VtPositions(vts) == {vts[q][2] : q \in {z \in DOMAIN vts : vts[z][1] = "uninit"}}

(* JVMS 4.7.3, 4.7.4, 4.7.12-14, 4.7.20.1, 4.10.1.9: where positions may point *)
WellFormedCode(C) ==
    LET n == Len(C.insns)
        Insn == 0..(n - 1)
        InsnOrEnd == 0..n
    IN /\ n >= 1
       /\ \A q \in DOMAIN C.insns : \A z \in DOMAIN Targets(C.insns[q]) : Targets(C.insns[q])[z] \in Insn
       /\ \A q \in DOMAIN C.exc : /\ C.exc[q].start \in Insn /\ C.exc[q].end \in InsnOrEnd
                                   /\ C.exc[q].handler \in Insn /\ C.exc[q].start < C.exc[q].end
       /\ \A q \in DOMAIN C.lines : C.lines[q][1] \in Insn
       /\ \A q \in DOMAIN C.lvt : C.lvt[q][1] \in Insn /\ C.lvt[q][2] \in InsnOrEnd /\ C.lvt[q][1] <= C.lvt[q][2]
       /\ \A q \in DOMAIN C.lvtt : C.lvtt[q][1] \in Insn /\ C.lvtt[q][2] \in InsnOrEnd /\ C.lvtt[q][1] <= C.lvtt[q][2]
       /\ \A q \in DOMAIN C.frames : /\ C.frames[q][1] \in Insn
                                      /\ (q > 1 => C.frames[q - 1][1] < C.frames[q][1])
                                      /\ VtPositions(C.frames[q][2]) \cup VtPositions(C.frames[q][3]) \subseteq Insn
       /\ LET TaOK(ta) == CASE ta[1] \in LocalvarKinds ->
                                     \A z \in DOMAIN ta[2] : ta[2][z][1] \in InsnOrEnd /\ ta[2][z][2] \in InsnOrEnd /\ ta[2][z][1] <= ta[2][z][2]
                               [] ta[1] \in OffsetKinds -> ta[2][1] \in Insn
                               [] OTHER -> TRUE
          IN (\A q \in DOMAIN C.tav : TaOK(C.tav[q])) /\ (\A q \in DOMAIN C.tai : TaOK(C.tai[q]))

(* The position structure of code facts: everything that refers to a place in the code. *)
BranchIdx(insns) == SelectSeq([q \in 1..Len(insns) |-> q], LAMBDA q : IsBranch(insns[q]))
Pos(C) ==
    LET bi == BranchIdx(C.insns) IN
    [n |-> Len(C.insns),
     tg |-> [z \in 1..Len(bi) |-> <<bi[z] - 1, Targets(C.insns[bi[z]])>>],
     exc |-> [q \in 1..Len(C.exc) |-> <<C.exc[q].start, C.exc[q].end, C.exc[q].handler>>],
     lines |-> C.lines, lvt |-> C.lvt, lvtt |-> C.lvtt, frames |-> C.frames, tav |-> C.tav, tai |-> C.tai]

(* Two position structures state the same facts.  Row order of the debug tables is not a fact *)
(* (FACTS.md 1.4); an attribute with zero rows states nothing.                               *)
CodeComponents == <<"insns", "exceptions", "attrs/LineNumberTable", "attrs/LocalVariableTable", "attrs/LocalVariableTypeTable",
                    "attrs/StackMapTable", "attrs/RuntimeVisibleTypeAnnotations", "attrs/RuntimeInvisibleTypeAnnotations">>
CompOf(p, c) ==
    CASE c = "insns" -> <<p.n, p.tg>>
      [] c = "exceptions" -> p.exc
      [] c = "attrs/LineNumberTable" -> p.lines
      [] c = "attrs/LocalVariableTable" -> p.lvt
      [] c = "attrs/LocalVariableTypeTable" -> p.lvtt
      [] c = "attrs/StackMapTable" -> p.frames
      [] c = "attrs/RuntimeVisibleTypeAnnotations" -> p.tav
      [] c = "attrs/RuntimeInvisibleTypeAnnotations" -> p.tai
SameComp(a, b, c) ==
    CASE c = "attrs/LineNumberTable" -> SameSet(a.lines, b.lines)
      [] c = "attrs/LocalVariableTable" -> SameBag(a.lvt, b.lvt)
      [] c = "attrs/LocalVariableTypeTable" -> SameBag(a.lvtt, b.lvtt)
      [] OTHER -> CompOf(a, c) = CompOf(b, c)
SameCode(a, b) == \A q \in DOMAIN CodeComponents : SameComp(a, b, CodeComponents[q])

(* how the components of an implementation's structure differ from the expected one *)
CompDiffKind(exp, impl, c) ==
    IF SameComp(exp, impl, c) THEN ""
    ELSE IF c # "insns" /\ CompOf(impl, c) = <<>> THEN "missing-in-duke"
    ELSE IF c # "insns" /\ CompOf(exp, c) = <<>> THEN "extra-in-duke"
    ELSE "different"

---------------------------------------------------------------------------
(* Stack map frames: the facts are the fully expanded frames; the file     *)
(* holds them compressed against the previous frame (JVMS 4.7.4).          *)
(* A file frame is <<type, k, locals, stack>>, type in same same1 chop     *)
(* append full.                                                            *)
RECURSIVE ExpandFrom(_, _, _)
ExpandFrom(fs, q, cur) ==     \* fs: <<at, file frame>> rows; cur: locals of the previous frame
    IF q > Len(fs) THEN <<>>
    ELSE LET f == fs[q][2]
             nl == CASE f[1] \in {"same", "same1"} -> cur
                     [] f[1] = "chop" -> SubSeq(cur, 1, Len(cur) - f[2])
                     [] f[1] = "append" -> cur \o f[3]
                     [] OTHER -> f[3]
             ns == IF f[1] \in {"same1", "full"} THEN f[4] ELSE <<>>
         IN <<<<fs[q][1], nl, ns>>>> \o ExpandFrom(fs, q + 1, nl)
ExpandFrames(fs, initial) == ExpandFrom(fs, 1, initial)

(* the compressed form an assembler may choose for frame q, given the locals of the previous one *)
CompressFrame(locals, stack, prev) ==
    LET nl == Len(locals)
        np == Len(prev)
    IN IF stack = <<>> /\ locals = prev THEN <<"same", 0, <<>>, <<>>>>
       ELSE IF Len(stack) = 1 /\ locals = prev THEN <<"same1", 0, <<>>, stack>>
       ELSE IF stack = <<>> /\ nl < np /\ np - nl <= 3 /\ locals = SubSeq(prev, 1, nl) THEN <<"chop", np - nl, <<>>, <<>>>>
       ELSE IF stack = <<>> /\ nl > np /\ nl - np <= 3 /\ prev = SubSeq(locals, 1, np) THEN <<"append", nl - np, SubSeq(locals, np + 1, nl), <<>>>>
       ELSE <<"full", 0, locals, stack>>

---------------------------------------------------------------------------
(* What is NOT a fact outside the code (rules the trace specification      *)
(* applies to differences reported on the rest of the class).              *)

(* JVMS tables 4.1-B, 4.5-A, 4.6-A, 4.7.6-A, 4.7.24, 4.7.25: the flag bits that are assigned a meaning.   *)
(* "All bits not assigned are reserved for future use ... should be ignored by JVM implementations":    *)
(* reserved bits state nothing, a reader that drops them states the same facts.                          *)
FlagMask(gpath) ==
    CASE gpath = "/access" -> 63025                                            \* 0xF631
      [] gpath = "/fields/#/access" -> 20703                                   \* 0x50DF
      [] gpath = "/methods/#/access" -> 7679                                   \* 0x1DFF
      [] gpath = "/attrs/InnerClasses/#/access" -> 30239                       \* 0x761F
      [] gpath = "/methods/#/attrs/MethodParameters/#/access" -> 36880         \* 0x9010
      [] gpath = "/attrs/Module/access" -> 36896                               \* 0x9020
      [] gpath = "/attrs/Module/requires/#/access" -> 36960                    \* 0x9060
      [] gpath \in {"/attrs/Module/exports/#/access", "/attrs/Module/opens/#/access"} -> 36864   \* 0x9000
      [] OTHER -> -1

EndsWith(str, suf) == Len(str) >= Len(suf) /\ SubSeq(str, Len(str) - Len(suf) + 1, Len(str)) = suf

(* an attribute with an empty table that states nothing: absent and empty are the same facts *)
EmptyStatesNothing == <<"/RuntimeVisibleAnnotations", "/RuntimeInvisibleAnnotations", "/RuntimeVisibleTypeAnnotations",
                        "/RuntimeInvisibleTypeAnnotations", "/RuntimeVisibleParameterAnnotations", "/RuntimeInvisibleParameterAnnotations",
                        "/StackMapTable", "/LineNumberTable", "/LocalVariableTable", "/LocalVariableTypeTable">>

(* one reported difference d = <<generalised path, kind, "int" | "", reference value, duke's value>> *)
IsFactDifference(d) ==
    LET gp == d[1] IN
    IF EndsWith(gp, "/unreferenced_bootstrap") THEN FALSE      \* BootstrapMethods is encoding (FACTS.md 4.3): entries are facts only through their users
    ELSE IF d[2] = "missing-in-duke(empty-list)" THEN ~\E q \in DOMAIN EmptyStatesNothing : EndsWith(gp, EmptyStatesNothing[q])
    ELSE IF d[2] = "different" /\ d[3] = "int" THEN
         IF FlagMask(gp) # -1 THEN (d[4] & FlagMask(gp)) # (d[5] & FlagMask(gp))
         (* element values of type Z B C S hold an int constant; its value as the declared type is the fact *)
         (* (the Java platform's own annotation parser narrows the same way)                                *)
         ELSE IF EndsWith(gp, "/Z") THEN (d[4] = 0) # (d[5] = 0)
         ELSE IF EndsWith(gp, "/B") THEN (d[4] - d[5]) % 256 # 0
         ELSE IF EndsWith(gp, "/C") \/ EndsWith(gp, "/S") THEN (d[4] - d[5]) % 65536 # 0
         ELSE TRUE
    ELSE TRUE

(* class file versions of the property's quantifier: 45.3 .. 67, JVMS 4.1 *)
VersionInScope(major, minor) ==
    /\ major \in 45..67
    /\ (major = 45 => minor >= 3)
    /\ (major >= 56 => minor \in {0, 65535})

---------------------------------------------------------------------------
(* ENCODING.  E = [forms, aorder, split, fform, pool]                      *)
(*   forms   per instruction: "short" | "plain" | "wide" | "w"             *)
(*   aorder  the Code attribute's attributes in file order                 *)
(*   split   number of LineNumberTable attributes the rows are dealt to    *)
(*   fform   "compact" | "extended" | "full" stack map frame forms         *)
(*   pool    constant-pool layout [order, seed, pad, dedup] (opaque here:  *)
(*           no position depends on it)                                    *)

FormsOf(I, wideIndex) ==     \* wideIndex: constant pool indices above 255 (padding in front)
    CASE I.sh = "ldc" -> IF I.cat = 2 \/ wideIndex THEN {"w"} ELSE {"short", "w"}
      [] I.sh \in {"load", "store"} -> (IF I.var <= 3 THEN {"short"} ELSE {}) \cup (IF I.var <= 255 THEN {"plain"} ELSE {}) \cup {"wide"}
      [] I.sh = "ret" -> (IF I.var <= 255 THEN {"plain"} ELSE {}) \cup {"wide"}
      [] I.sh = "iinc" -> (IF I.var <= 255 /\ I.by >= -128 /\ I.by <= 127 THEN {"plain"} ELSE {}) \cup {"wide"}
      [] I.sh \in {"goto", "jsr"} -> {"short", "w"}
      [] OTHER -> {"plain"}

SwitchPad(off) == (3 - (off % 4)) % 4     \* bytes between the opcode at `off` and the next multiple of 4

Size(I, form, off) ==
    CASE I.sh = "plain" -> 1
      [] I.sh = "bipush" -> 2
      [] I.sh = "sipush" -> 3
      [] I.sh = "ldc" -> IF form = "short" THEN 2 ELSE 3
      [] I.sh \in {"load", "store"} -> IF form = "short" THEN 1 ELSE IF form = "plain" THEN 2 ELSE 4
      [] I.sh = "ret" -> IF form = "plain" THEN 2 ELSE 4
      [] I.sh = "iinc" -> IF form = "plain" THEN 3 ELSE 6
      [] I.sh = "if" -> 3
      [] I.sh \in {"goto", "jsr"} -> IF form = "short" THEN 3 ELSE 5
      [] I.sh = "tswitch" -> 1 + SwitchPad(off) + 12 + 4 * Len(I.targets)
      [] I.sh = "lswitch" -> 1 + SwitchPad(off) + 8 + 8 * Len(I.pairs)
      [] I.sh \in {"field", "invoke", "class"} -> 3
      [] I.sh \in {"invokeinterface", "indy"} -> 5
      [] I.sh = "newarray" -> 2
      [] I.sh = "multianewarray" -> 4

RECURSIVE OffsFrom(_, _, _, _)
OffsFrom(insns, forms, q, off) ==
    IF q > Len(insns) THEN <<off>>
    ELSE <<off>> \o OffsFrom(insns, forms, q + 1, off + Size(insns[q], forms[q], off))

(* The RAW structure of a Code attribute (what is in the file): byte offsets, relative branch  *)
(* offsets, table rows with start_pc / length / handler_pc / offset_delta.                     *)
(*   [len, offs, br: <<insn, <<relative offsets>>>>, exc: <<start_pc, end_pc, handler_pc>>,    *)
(*    init: locals of the initial frame, attrs: <<name, rows>> in file order]                  *)
Layout(C, E, initial) ==
    LET n == Len(C.insns)
        offsE == OffsFrom(C.insns, E.forms, 1, 0)
        Off(k) == offsE[k + 1]                               \* k in 0..n; Off(n) = code_length
        bi == BranchIdx(C.insns)
        VtOff(vts) == [q \in 1..Len(vts) |-> IF vts[q][1] = "uninit" THEN <<"uninit", Off(vts[q][2])>> ELSE vts[q]]
        FileFrame(q) ==
            LET f == C.frames[q]
                prev == IF q = 1 THEN initial ELSE C.frames[q - 1][2]
                delta == IF q = 1 THEN Off(f[1]) ELSE Off(f[1]) - Off(C.frames[q - 1][1]) - 1
                cf == IF E.fform = "full" THEN <<"full", 0, f[2], f[3]>> ELSE CompressFrame(f[2], f[3], prev)
            IN <<cf[1], cf[2], delta, VtOff(cf[3]), VtOff(cf[4])>>
        TaRow(ta) ==
            CASE ta[1] \in LocalvarKinds ->
                    <<ta[1], [z \in 1..Len(ta[2]) |-> <<Off(ta[2][z][1]), Off(ta[2][z][2]) - Off(ta[2][z][1]), ta[2][z][3]>>]>>
              [] ta[1] \in OffsetKinds -> <<ta[1], <<Off(ta[2][1])>>>>
              [] OTHER -> ta
        LineRows == [q \in 1..Len(C.lines) |-> <<Off(C.lines[q][1]), C.lines[q][2]>>]
        Dealt(k) == LET idx == SelectSeq([q \in 1..Len(LineRows) |-> q], LAMBDA q : ((q - 1) % E.split) + 1 = k)
                    IN [z \in 1..Len(idx) |-> LineRows[idx[z]]]
        Attr(name) ==
            CASE name = "LineNumberTable" -> [k \in 1..E.split |-> <<name, Dealt(k)>>]
              [] name = "LocalVariableTable" -> <<<<name, [q \in 1..Len(C.lvt) |-> <<Off(C.lvt[q][1]), Off(C.lvt[q][2]) - Off(C.lvt[q][1]), C.lvt[q][3], C.lvt[q][4], C.lvt[q][5]>>]>>>>
              [] name = "LocalVariableTypeTable" -> <<<<name, [q \in 1..Len(C.lvtt) |-> <<Off(C.lvtt[q][1]), Off(C.lvtt[q][2]) - Off(C.lvtt[q][1]), C.lvtt[q][3], C.lvtt[q][4], C.lvtt[q][5]>>]>>>>
              [] name = "StackMapTable" -> <<<<name, [q \in 1..Len(C.frames) |-> FileFrame(q)]>>>>
              [] name = "RuntimeVisibleTypeAnnotations" -> <<<<name, [q \in 1..Len(C.tav) |-> TaRow(C.tav[q])]>>>>
              [] name = "RuntimeInvisibleTypeAnnotations" -> <<<<name, [q \in 1..Len(C.tai) |-> TaRow(C.tai[q])]>>>>
              [] OTHER -> <<<<name, <<>>>>>>                   \* unrecognised: opaque bytes, no position
        RECURSIVE Attrs(_)
        Attrs(q) == IF q > Len(E.aorder) THEN <<>> ELSE Attr(E.aorder[q]) \o Attrs(q + 1)
    IN [len |-> Off(n),
        offs |-> SubSeq(offsE, 1, n),
        br |-> [z \in 1..Len(bi) |-> <<bi[z] - 1, [q \in 1..Len(Targets(C.insns[bi[z]])) |-> Off(Targets(C.insns[bi[z]])[q]) - Off(bi[z] - 1)]>>],
        exc |-> [q \in 1..Len(C.exc) |-> <<Off(C.exc[q].start), Off(C.exc[q].end), Off(C.exc[q].handler)>>],
        init |-> initial,
        attrs |-> Attrs(1)]

(* the attributes a Code attribute needs for these facts (any permutation is a valid aorder) *)
PresentAttrs(C) ==
    (IF C.lines # <<>> THEN {"LineNumberTable"} ELSE {}) \cup (IF C.lvt # <<>> THEN {"LocalVariableTable"} ELSE {})
    \cup (IF C.lvtt # <<>> THEN {"LocalVariableTypeTable"} ELSE {}) \cup (IF C.frames # <<>> THEN {"StackMapTable"} ELSE {})
    \cup (IF C.tav # <<>> THEN {"RuntimeVisibleTypeAnnotations"} ELSE {}) \cup (IF C.tai # <<>> THEN {"RuntimeInvisibleTypeAnnotations"} ELSE {})
    \cup {C.unk[q].name : q \in DOMAIN C.unk}
=============================================================================
