----------------------------- MODULE Descriptor -----------------------------
(***************************************************************************)
(* Property C18, descriptor half.  Field, method and return descriptors of *)
(* JVMS 4.3 over CHARACTER SEQUENCES (a string is a sequence of one-       *)
(* character strings, <<"L","a",";">>; TLC strings are atomic).            *)
(*                                                                         *)
(*   FieldDescriptor:  FieldType                                           *)
(*   FieldType:        BaseType | "L" ClassName ";" | "[" ComponentType    *)
(*   BaseType:         B C D F I J S Z                                     *)
(*   MethodDescriptor: "(" FieldType* ")" ReturnDescriptor                 *)
(*   ReturnDescriptor: FieldType | "V"                                     *)
(*   4.3.2: an array type descriptor is valid only if it represents 255 or *)
(*          fewer dimensions                                               *)
(*   4.2.1: ClassName is a binary class name in internal form: identifiers *)
(*          separated by "/"; 4.2.2: each identifier is an unqualified     *)
(*          name: at least one code point, none of  . ; [ /                *)
(*                                                                         *)
(* Type structure:  [dims |-> 0..255, base |-> "B".."Z" | "L", name |-> n] *)
(*   name is the class name (character sequence) for base "L" and <<>>     *)
(*   otherwise (one record shape: TLC cannot compare a string with a       *)
(*   tuple).  An optional type (return: void or a type) is <<>> or <<t>>.  *)
(*   Method structure: [params |-> <<t1..tk>>, ret |-> <<>> | <<t>>].      *)
(*                                                                         *)
(* Two formulations, and TLC checks that they coincide on every string of  *)
(* the bounded universe (MC_Descriptor):                                   *)
(*   - declarative  Is* / Parse* : the grammar as a statement about the    *)
(*     whole string (there is a split into ... such that ...)              *)
(*   - operational  Step / Run / Op* : the recursive-descent reader of     *)
(*     duke/src/tree/descriptor.rs (read_field_type and the three parse()  *)
(*     functions): one step per character consumed, explicit cursor,       *)
(*     dimension counter with the 255 cap, class-name accumulator.  Where  *)
(*     the code trusts whatever stands between L and ; the model does what *)
(*     the grammar demands (the name is checked while it is read).         *)
(* Printer Print* and the two round-trip laws are at the end.              *)
(***************************************************************************)
EXTENDS Integers, Sequences

Err == [ok |-> FALSE, v |-> <<>>]
Ok(x) == [ok |-> TRUE, v |-> x]

Prim == {"B", "C", "D", "F", "I", "J", "S", "Z"}
MaxDims == 255

Ty(d, b, n) == [dims |-> d, base |-> b, name |-> n]
Meth(ps, r) == [params |-> ps, ret |-> r]

Last(s) == s[Len(s)]
Drop(s, k) == SubSeq(s, k + 1, Len(s))         \* s without its first k characters
Take(s, k) == SubSeq(s, 1, k)

---------------------------------------------------------------------------
(* Declarative grammar *)

(* JVMS 4.2.2 unqualified name *)
IsUnqualifiedName(n) == n # <<>> /\ \A i \in 1..Len(n) : n[i] \notin {".", ";", "[", "/"}

(* JVMS 4.2.1 binary class name in internal form: there is a way to cut n at slashes into *)
(* unqualified names; equivalently none of . ; [ anywhere and no empty piece between slashes *)
IsBinaryClassName(n) ==
    /\ n # <<>>
    /\ \A i \in 1..Len(n) : n[i] \notin {".", ";", "["}
    /\ n[1] # "/" /\ Last(n) # "/"
    /\ \A i \in 1..(Len(n) - 1) : ~(n[i] = "/" /\ n[i + 1] = "/")

(* a non-array field type *)
IsScalarType(r) ==
    \/ Len(r) = 1 /\ r[1] \in Prim
    \/ Len(r) >= 3 /\ r[1] = "L" /\ Last(r) = ";" /\ IsBinaryClassName(SubSeq(r, 2, Len(r) - 1))

(* the grammar as written: d times "[" followed by a scalar type, d <= 255 *)
Min(a, b) == IF a <= b THEN a ELSE b
IsFieldTypeG(s) ==
    \E d \in 0..Min(MaxDims, Len(s)) :
        /\ \A i \in 1..d : s[i] = "["
        /\ IsScalarType(Drop(s, d))

(* the same, with d named: a scalar type does not start with "[", so d can only be the number *)
(* of leading "[" (cheaper for TLC on long strings; MC checks IsFieldType = IsFieldTypeG)      *)
RECURSIVE BracketsFrom(_, _)
BracketsFrom(s, i) == IF i <= Len(s) /\ s[i] = "[" THEN 1 + BracketsFrom(s, i + 1) ELSE 0
LeadingBrackets(s) == BracketsFrom(s, 1)

IsFieldType(s) == LET d == LeadingBrackets(s) IN d <= MaxDims /\ IsScalarType(Drop(s, d))

(* the structure the grammar assigns (d is unique: a scalar type does not start with "[") *)
TypeOf(s) ==
    LET d == LeadingBrackets(s)
        r == Drop(s, d)
    IN IF r[1] = "L" THEN Ty(d, "L", SubSeq(r, 2, Len(r) - 1)) ELSE Ty(d, r[1], <<>>)

ParseField(s) == IF IsFieldType(s) THEN Ok(TypeOf(s)) ELSE Err

IsReturn(s) == s = <<"V">> \/ IsFieldType(s)
ParseReturn(s) == IF s = <<"V">> THEN Ok(<<>>) ELSE IF IsFieldType(s) THEN Ok(<<TypeOf(s)>>) ELSE Err

(* FieldType*: the string can be cut into field types.  Field types are prefix free (a scalar *)
(* ends at its base letter or at the first ";"), so there is at most one cut.                 *)
(* (a field type ends with a base letter or with ";": only such k need to be tried)           *)
TypeEnds(s) == {k \in 1..Len(s) : s[k] \in Prim \cup {";"}}
RECURSIVE IsParams(_)
IsParams(s) == s = <<>> \/ \E k \in TypeEnds(s) : IsFieldType(Take(s, k)) /\ IsParams(Drop(s, k))

RECURSIVE ParamsOf(_)
ParamsOf(s) ==
    IF s = <<>> THEN <<>>
    ELSE LET k == CHOOSE k \in TypeEnds(s) : IsFieldType(Take(s, k))    \* unique: field types are prefix free
         IN <<TypeOf(Take(s, k))>> \o ParamsOf(Drop(s, k))

(* "(" params ")" return: j is the position of the closing parenthesis.  ")" may occur inside *)
(* a class name (only . ; [ / are excluded there), so j is not simply the first ")".          *)
MethodCuts(s) == {j \in 2..Len(s) : s[j] = ")" /\ IsParams(SubSeq(s, 2, j - 1)) /\ IsReturn(Drop(s, j))}
IsMethod(s) == Len(s) >= 3 /\ s[1] = "(" /\ MethodCuts(s) # {}
ParseMethod(s) ==
    IF IsMethod(s)
    THEN LET j == CHOOSE j \in MethodCuts(s) : TRUE
         IN Ok(Meth(ParamsOf(SubSeq(s, 2, j - 1)), ParseReturn(Drop(s, j)).v))
    ELSE Err

Parse(kind, s) ==
    CASE kind = "field" -> ParseField(s)
      [] kind = "method" -> ParseMethod(s)
      [] kind = "return" -> ParseReturn(s)

---------------------------------------------------------------------------
(* Well-formed structures *)
IsType(t) ==
    /\ DOMAIN t = {"dims", "base", "name"}
    /\ t.dims \in 0..MaxDims
    /\ \/ t.base \in Prim /\ t.name = <<>>
       \/ t.base = "L" /\ IsBinaryClassName(t.name)
IsOptType(r) == r = <<>> \/ (Len(r) = 1 /\ IsType(r[1]))
IsMethodStruct(m) ==
    /\ DOMAIN m = {"params", "ret"}
    /\ \A i \in 1..Len(m.params) : IsType(m.params[i])
    /\ IsOptType(m.ret)
IsStruct(kind, x) ==
    CASE kind = "field" -> IsType(x)
      [] kind = "method" -> IsMethodStruct(x)
      [] kind = "return" -> IsOptType(x)

---------------------------------------------------------------------------
(* Printer (write_field_type and the three write() functions) *)
Brackets(d) == [i \in 1..d |-> "["]
PrintField(t) == Brackets(t.dims) \o (IF t.base = "L" THEN <<"L">> \o t.name \o <<";">> ELSE <<t.base>>)
PrintReturn(r) == IF r = <<>> THEN <<"V">> ELSE PrintField(r[1])
RECURSIVE PrintParams(_)
PrintParams(ps) == IF ps = <<>> THEN <<>> ELSE PrintField(ps[1]) \o PrintParams(Drop(ps, 1))
PrintMethod(m) == <<"(">> \o PrintParams(m.params) \o <<")">> \o PrintReturn(m.ret)
PrintDesc(kind, x) ==
    CASE kind = "field" -> PrintField(x)
      [] kind = "method" -> PrintMethod(x)
      [] kind = "return" -> PrintReturn(x)

---------------------------------------------------------------------------
(* Operational reader: the code's recursive descent as a machine.                          *)
(*   pc    where the reader stands:                                                        *)
(*           "open"  MethodDescriptorSlice::parse before next_if_eq('(')                   *)
(*           "param" top of the parameter loop: next_if_eq(')') or read_field_type         *)
(*           "ret"   start of a return descriptor: next_if_eq('V') or read_field_type      *)
(*           "type"  read_field_type: the `while next_if_eq('[')` loop and the base letter *)
(*           "name"  the `while char != ';'` loop collecting the class name                *)
(*           "end"   the final `chars.peek().is_some()` test                               *)
(*           "done" / "err"                                                                *)
(*   i     cursor (index of the next character), dims  array_dimension,                    *)
(*   name  the JavaString s being collected, into  where a finished type goes              *)
(*         ("field" | "param" | "ret"), params / val  results so far                       *)
(***************************************************************************)
M0(kind) == [pc |-> (CASE kind = "method" -> "open" [] kind = "return" -> "ret" [] kind = "field" -> "type"),
             i |-> 1, dims |-> 0, name |-> <<>>,
             into |-> (CASE kind = "method" -> "param" [] kind = "return" -> "ret" [] kind = "field" -> "field"),
             params |-> <<>>, val |-> <<>>]

Fail(m) == [m EXCEPT !.pc = "err"]

(* a field type is complete: hand it to whoever asked for it; the cursor moves past its last character *)
Deliver(m, t) ==
    CASE m.into = "param" -> [m EXCEPT !.pc = "param", !.i = @ + 1, !.dims = 0, !.name = <<>>, !.params = Append(@, t)]
      [] m.into = "ret" -> [m EXCEPT !.pc = "end", !.i = @ + 1, !.val = <<t>>]
      [] m.into = "field" -> [m EXCEPT !.pc = "end", !.i = @ + 1, !.val = t]

Step(s, m) ==
    LET more == m.i <= Len(s)
        c == s[m.i]
    IN
    CASE m.pc = "open" ->
            IF more /\ c = "(" THEN [m EXCEPT !.pc = "param", !.i = @ + 1] ELSE Fail(m)
      [] m.pc = "param" ->
            IF ~more THEN Fail(m)                                  \* read_field_type: abrupt ending
            ELSE IF c = ")" THEN [m EXCEPT !.pc = "ret", !.i = @ + 1, !.into = "ret"]
            ELSE [m EXCEPT !.pc = "type"]                          \* no character consumed: enter read_field_type
      [] m.pc = "ret" ->
            IF more /\ c = "V" THEN [m EXCEPT !.pc = "end", !.i = @ + 1, !.val = <<>>]
            ELSE [m EXCEPT !.pc = "type", !.into = "ret"]
      [] m.pc = "type" ->
            IF ~more THEN Fail(m)
            ELSE IF c = "[" THEN (IF m.dims = MaxDims THEN Fail(m) ELSE [m EXCEPT !.dims = @ + 1, !.i = @ + 1])
            ELSE IF c \in Prim THEN Deliver(m, Ty(m.dims, c, <<>>))
            ELSE IF c = "L" THEN [m EXCEPT !.pc = "name", !.i = @ + 1, !.name = <<>>]
            ELSE Fail(m)
      [] m.pc = "name" ->
            IF ~more THEN Fail(m)
            ELSE IF c = ";" THEN (IF m.name = <<>> \/ Last(m.name) = "/" THEN Fail(m)      \* empty name / empty last identifier
                                  ELSE Deliver(m, Ty(m.dims, "L", m.name)))
            ELSE IF c \in {".", "["} THEN Fail(m)                                           \* not in an unqualified name
            ELSE IF c = "/" /\ (m.name = <<>> \/ Last(m.name) = "/") THEN Fail(m)           \* empty identifier
            ELSE [m EXCEPT !.name = Append(@, c), !.i = @ + 1]
      [] m.pc = "end" ->
            IF more THEN Fail(m) ELSE [m EXCEPT !.pc = "done"]

RECURSIVE Run(_, _)
Run(s, m) == IF m.pc \in {"done", "err"} THEN m ELSE Run(s, Step(s, m))

OpParse(kind, s) ==
    LET f == Run(s, M0(kind))
    IN IF f.pc = "err" THEN Err
       ELSE IF kind = "method" THEN Ok(Meth(f.params, f.val)) ELSE Ok(f.val)

(* expectation on the wire: the structure and what write() of it must give back; or a refusal *)
ParseExp(kind, s) == LET r == Parse(kind, s)
                     IN IF r.ok THEN [res |-> r, printed |-> PrintDesc(kind, r.v), wpanic |-> FALSE] ELSE [res |-> Err]
PrintExp(kind, x) == [printed |-> PrintDesc(kind, x), reparsed |-> Ok(x)]

---------------------------------------------------------------------------
(* Laws *)
(* the machine reads exactly the grammar and builds the structure the grammar assigns *)
LawOpIsDecl(kind, s) == OpParse(kind, s) = Parse(kind, s)
(* printing a parsed descriptor reproduces the original string; the structure is well formed *)
LawPrintParse(kind, s) == LET r == Parse(kind, s) IN r.ok => IsStruct(kind, r.v) /\ PrintDesc(kind, r.v) = s
(* parsing a printed structure reproduces the structure *)
LawParsePrint(kind, x) == IsStruct(kind, x) => Parse(kind, PrintDesc(kind, x)) = Ok(x)
(* field descriptors are the return descriptors other than V *)
LawGrammarForm(s) == IsFieldType(s) = IsFieldTypeG(s)
LawFieldInReturn(s) == LET f == ParseField(s)
                       IN ParseReturn(s) = (IF s = <<"V">> THEN Ok(<<>>) ELSE IF f.ok THEN Ok(<<f.v>>) ELSE Err)
=============================================================================
