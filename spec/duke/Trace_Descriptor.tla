-------------------------- MODULE Trace_Descriptor --------------------------
(***************************************************************************)
(* I2S for C18: every recorded call of the real code (parse / write of the *)
(* three descriptor kinds, is_valid / TryFrom of the seven name types,     *)
(* split_inner_class_parent_and_name, from_inner_class) is re-judged by    *)
(* the specification from the recorded CHARACTERS.  One TLC step per       *)
(* record; a record the specification does not allow is reported with the  *)
(* specification's own expectation.                                        *)
(***************************************************************************)
EXTENDS JvmsNames, Json, IOUtils, TLC

Rec == ndJsonDeserialize(IOEnv.TRACE)
VARIABLES l, rej

Has2(g, a, b) == a \in DOMAIN g /\ b \in DOMAIN g
IsRes(x) == Has2(x, "ok", "v")
HasRes(g) == "res" \in DOMAIN g /\ IsRes(g.res)

DescKinds == {"field", "method", "return"}
NameOp(k) == "name:" \o k

(* parse(): the verdict and the structure are the grammar's; write() of the real structure gave *)
(* back the characters that were parsed, and the specification's printer says the same of it    *)
AcceptParse(k, r) ==
    LET e == Parse(k, r.s)
        g == r.got
    IN /\ HasRes(g)
       /\ g.res.ok = e.ok
       /\ e.ok => /\ g.res.v = e.v
                  /\ Has2(g, "printed", "wpanic") /\ ~g.wpanic
                  /\ g.printed = r.s
                  /\ PrintDesc(k, g.res.v) = r.s

(* write() of a structure and parse() of what was written *)
AcceptPrint(r) ==
    LET k == r.kind
        g == r.got
    IN IsStruct(k, r.x) =>
          /\ Has2(g, "printed", "reparsed") /\ IsRes(g.reparsed)
          /\ g.printed = PrintDesc(k, r.x)
          /\ g.reparsed.ok /\ g.reparsed.v = r.x
          /\ Parse(k, g.printed) = Ok(r.x)

AcceptName(k, r) ==
    LET g == r.got
    IN /\ DOMAIN g = {"valid", "ctor", "octor"}
       /\ g = NameExp(k, r.s)

AcceptSplit(r) ==
    LET e == SplitExp(r.s)
        g == r.got
    IN /\ HasRes(g)
       /\ g.res.ok = e.res.ok
       /\ e.res.ok => /\ g.res.v = e.res.v
                      /\ Has2(g, "parent", "inner") /\ g.parent = e.parent /\ g.inner = e.inner
                      /\ (g.res.v # <<>> => Join(g.res.v[1], g.res.v[2]) = r.s)      \* join of the real split is the name

AcceptJoin(r) ==
    LET e == JoinExp(r.p, r.i)
        g == r.got
    IN /\ HasRes(g)
       /\ g.res.ok = e.res.ok
       /\ e.res.ok => /\ g.res.v = e.res.v
                      /\ "split" \in DOMAIN g /\ g.split = e.split
                      /\ (IsInnerName(r.i) => g.split = <<r.p, r.i>>)                 \* split of the real join gives the parts back

Expected(r) ==
    CASE r.op \in DescKinds -> ParseExp(r.op, r.s)
      [] r.op = "print" -> IF IsStruct(r.kind, r.x) THEN PrintExp(r.kind, r.x) ELSE <<>>
      [] r.op = "split" -> SplitExp(r.s)
      [] r.op = "join" -> JoinExp(r.p, r.i)
      [] \E k \in NameKinds : r.op = NameOp(k) -> NameExp(CHOOSE k \in NameKinds : r.op = NameOp(k), r.s)
      [] OTHER -> <<>>

Accept(r) ==
    /\ "got" \in DOMAIN r /\ "panic" \notin DOMAIN r.got
    /\ CASE r.op \in DescKinds -> AcceptParse(r.op, r)
         [] r.op = "print" -> AcceptPrint(r)
         [] r.op = "split" -> AcceptSplit(r)
         [] r.op = "join" -> AcceptJoin(r)
         [] \E k \in NameKinds : r.op = NameOp(k) -> AcceptName(CHOOSE k \in NameKinds : r.op = NameOp(k), r)
         [] OTHER -> FALSE

Init == l = 1 /\ rej = 0
Next ==
    /\ l <= Len(Rec)
    /\ l' = l + 1
    /\ IF Accept(Rec[l]) THEN rej' = rej
       ELSE /\ PrintT(ToJson([reject |-> l, exp |-> Expected(Rec[l])]))
            /\ rej' = rej + 1
Spec == Init /\ [][Next]_<<l, rej>>

(* every line was consumed *)
Consumed == TLCGet("stats").diameter - 1 = Len(Rec)
=============================================================================
