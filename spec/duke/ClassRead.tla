------------------------------ MODULE ClassRead ------------------------------
(***************************************************************************)
(* Property C01.  The reader of a Code attribute as the code is built      *)
(* (duke/src/class_reader.rs read_code, class_reader/labels.rs), as a      *)
(* machine over the RAW layout R of ClassFacts!Layout:                     *)
(*                                                                         *)
(*   labels : bytecode offset -> method-local label id  (NoLabel = none)   *)
(*                                                                         *)
(*   Pass1(i)    first pass over the instructions: a label for every       *)
(*               branch / switch target                                    *)
(*   ExcRow(j)   exception table row: get_or_create for start, end, handler*)
(*   TableRow    one row of one attribute, attributes in FILE ORDER:       *)
(*               line number, local variable range (exclusive end may be   *)
(*               code_length), stack map frame (running offset_delta sum:  *)
(*               first frame offset_delta, then previous + delta + 1),     *)
(*               type annotation target                                    *)
(*   Pass2(i)    second pass: instruction event with label?, frame?,       *)
(*               operands as labels                                        *)
(*   Last        the label at code_length, if any                          *)
(*   Tables      exception table, line numbers, local variables            *)
(*                                                                         *)
(* Where JVMS and the code disagree the machine follows JVMS (4.7.3:       *)
(* end_pc may equal code_length; 4.7.20.1: a localvar_target row may start *)
(* at code_length; 4.7.13: local variables are delivered); the deviation   *)
(* shows when the implementation is compared.                              *)
(*                                                                         *)
(* Result(s, R) is what the delivered events state, in the terms of        *)
(* ClassFacts!Pos: every label resolved to the index of the instruction it *)
(* was attached to (or "end" for the last label).                          *)
(***************************************************************************)
EXTENDS ClassFacts

NoLabel == -1

MInit(R, log) ==       \* log: keep the list of visitor calls (ghost; the bounded model looks at it)
    [log |-> log, ph |-> "pass1", i |-> 1, j |-> 1, ok |-> TRUE, why |-> "",
     labels |-> [pc \in 0..R.len |-> NoLabel], next |-> 0,
     exc |-> <<>>, lines |-> <<>>, lvt |-> <<>>, lvtt |-> <<>>, tav |-> <<>>, tai |-> <<>>,
     frames |-> <<>>, fsum |-> 0,          \* frames read: <<label, file frame>>; offset of the last one
     b |-> 1, f |-> 1,                     \* second pass: next branch row, next undelivered frame
     at |-> <<>>,                          \* label id -> index of the instruction it was attached to (-1: nowhere)
     tg |-> <<>>, dfr |-> <<>>,            \* delivered: <<insn, operand labels>>, <<insn, frame>>
     ev |-> <<>>]                          \* every visitor call, in order

In(R, pc) == pc >= 0 /\ pc < R.len        \* Labels::get_or_create / create
InE(R, pc) == pc >= 0 /\ pc <= R.len      \* Labels::get_or_create_check_exclusive
Add(s, pc) == IF s.labels[pc] # NoLabel THEN s ELSE [s EXCEPT !.labels[pc] = s.next, !.next = s.next + 1]
RECURSIVE AddAll(_, _, _)
AddAll(s, pcs, q) == IF q > Len(pcs) THEN s ELSE AddAll(Add(s, pcs[q]), pcs, q + 1)
Fail(s, why) == [s EXCEPT !.ok = FALSE, !.why = why, !.ph = "done"]
AllIn(R, pcs) == \A q \in DOMAIN pcs : In(R, pcs[q])

---------------------------------------------------------------------------
Pass1(s, R) ==
    IF s.i > Len(R.br) THEN [s EXCEPT !.ph = "exc", !.i = 1]
    ELSE LET e == R.br[s.i]
             pcs == [q \in 1..Len(e[2]) |-> R.offs[e[1] + 1] + e[2][q]]
         IN IF AllIn(R, pcs) THEN [AddAll(s, pcs, 1) EXCEPT !.i = s.i + 1]
            ELSE Fail(s, "branch target outside the code")

ExcRow(s, R) ==
    IF s.i > Len(R.exc) THEN [s EXCEPT !.ph = "attrs", !.i = 1, !.j = 1]
    ELSE LET r == R.exc[s.i] IN
         IF In(R, r[1]) /\ InE(R, r[2]) /\ In(R, r[3])             \* JVMS 4.7.3: end_pc is exclusive, may be code_length
         THEN LET t == AddAll(s, <<r[1], r[2], r[3]>>, 1)
              IN [t EXCEPT !.exc = Append(@, <<t.labels[r[1]], t.labels[r[2]], t.labels[r[3]]>>), !.i = s.i + 1]
         ELSE Fail(s, "exception table row outside the code")

UninitPcs(vts) == LET u == SelectSeq(vts, LAMBDA v : v[1] = "uninit") IN [q \in 1..Len(u) |-> u[q][2]]
LabelVts(vts, t) == [q \in 1..Len(vts) |-> IF vts[q][1] = "uninit" THEN <<"uninit", t.labels[vts[q][2]]>> ELSE vts[q]]

TaRow(s, R, name, r) ==
    LET vis == name = "RuntimeVisibleTypeAnnotations"
        Put(t, row) == IF vis THEN [t EXCEPT !.tav = Append(@, row), !.ev = Append(@, <<"type_annotation", TRUE, row>>), !.j = s.j + 1]
                       ELSE [t EXCEPT !.tai = Append(@, row), !.ev = Append(@, <<"type_annotation", FALSE, row>>), !.j = s.j + 1]
    IN CASE r[1] \in LocalvarKinds ->
              (* JVMS 4.7.20.1: [start_pc, start_pc + length), no requirement that start_pc is an opcode index *)
              IF \A z \in DOMAIN r[2] : InE(R, r[2][z][1]) /\ InE(R, r[2][z][1] + r[2][z][2])
              THEN LET pcs == [q \in 1..2 * Len(r[2]) |-> IF q % 2 = 1 THEN r[2][(q + 1) \div 2][1]
                                                           ELSE r[2][q \div 2][1] + r[2][q \div 2][2]]
                       t == AddAll(s, pcs, 1)
                   IN Put(t, <<r[1], [z \in 1..Len(r[2]) |-> <<t.labels[r[2][z][1]], t.labels[r[2][z][1] + r[2][z][2]], r[2][z][3]>>]>>)
              ELSE Fail(s, "localvar_target outside the code")
         [] r[1] \in OffsetKinds ->
              IF In(R, r[2][1]) THEN LET t == Add(s, r[2][1]) IN Put(t, <<r[1], <<t.labels[r[2][1]]>>>>)
              ELSE Fail(s, "offset_target outside the code")
         [] OTHER -> Put(s, r)

TableRow(s, R) ==
    LET a == R.attrs[s.i]
        name == a[1]
    IN IF s.j > Len(a[2]) THEN [s EXCEPT !.i = s.i + 1, !.j = 1]
       ELSE LET r == a[2][s.j] IN
       CASE name = "LineNumberTable" ->
               IF In(R, r[1]) THEN LET t == Add(s, r[1]) IN [t EXCEPT !.lines = Append(@, <<t.labels[r[1]], r[2]>>), !.j = s.j + 1]
               ELSE Fail(s, "line number outside the code")
         [] name \in {"LocalVariableTable", "LocalVariableTypeTable"} ->
               (* JVMS 4.7.13: start_pc is an opcode index, start_pc + length an opcode index or code_length *)
               IF In(R, r[1]) /\ InE(R, r[1] + r[2])
               THEN LET t == AddAll(s, <<r[1], r[1] + r[2]>>, 1)
                        row == <<t.labels[r[1]], t.labels[r[1] + r[2]], r[3], r[4], r[5]>>
                    IN IF name = "LocalVariableTable" THEN [t EXCEPT !.lvt = Append(@, row), !.j = s.j + 1]
                       ELSE [t EXCEPT !.lvtt = Append(@, row), !.j = s.j + 1]
               ELSE Fail(s, "local variable range outside the code")
         [] name = "StackMapTable" ->
               LET off == IF s.j = 1 THEN r[3] ELSE s.fsum + r[3] + 1       \* JVMS 4.7.4
                   ups == UninitPcs(r[4]) \o UninitPcs(r[5])
               IN IF In(R, off) /\ AllIn(R, ups)
                  THEN LET t == Add(AddAll(s, ups, 1), off)
                       IN [t EXCEPT !.frames = Append(@, <<t.labels[off], <<r[1], r[2], LabelVts(r[4], t), LabelVts(r[5], t)>>>>),
                                    !.fsum = off, !.j = s.j + 1]
                  ELSE Fail(s, "stack map frame outside the code")
         [] name \in {"RuntimeVisibleTypeAnnotations", "RuntimeInvisibleTypeAnnotations"} -> TaRow(s, R, name, r)
         [] OTHER -> [s EXCEPT !.j = s.j + 1]

Pass2(s, R) ==
    IF s.i > Len(R.offs) THEN [s EXCEPT !.ph = "last"]
    ELSE LET off == R.offs[s.i]
             lab == s.labels[off]
             isBr == s.b <= Len(R.br) /\ R.br[s.b][1] = s.i - 1
             ids == IF isBr THEN [q \in 1..Len(R.br[s.b][2]) |-> s.labels[off + R.br[s.b][2][q]]] ELSE <<>>
             hasF == s.f <= Len(s.frames) /\ lab # NoLabel /\ s.frames[s.f][1] = lab
         IN IF \E q \in DOMAIN ids : ids[q] = NoLabel THEN Fail(s, "no label at a branch target")
            ELSE [s EXCEPT !.i = s.i + 1,
                           !.b = IF isBr THEN s.b + 1 ELSE s.b,
                           !.f = IF hasF THEN s.f + 1 ELSE s.f,
                           !.at = IF lab # NoLabel THEN [@ EXCEPT ![lab] = s.i - 1] ELSE @,
                           !.tg = IF isBr THEN Append(@, <<s.i - 1, ids>>) ELSE @,
                           !.dfr = IF hasF THEN Append(@, <<s.i - 1, s.frames[s.f][2]>>) ELSE @,
                           !.ev = IF s.log THEN Append(@, <<"instruction", s.i - 1, lab, IF hasF THEN <<s.frames[s.f][2]>> ELSE <<>>, ids>>) ELSE @]

Last(s, R) ==
    LET lab == s.labels[R.len] IN
    IF lab = NoLabel THEN [s EXCEPT !.ph = "tables"]
    ELSE [s EXCEPT !.ph = "tables", !.at = [@ EXCEPT ![lab] = Len(R.offs)], !.ev = Append(@, <<"last_label", lab>>)]

Tables(s, R) ==
    [s EXCEPT !.ph = "done",
              !.ev = @ \o <<<<"exception_table", s.exc>>>>
                       \o (IF s.lines # <<>> THEN <<<<"line_numbers", s.lines>>>> ELSE <<>>)
                       \o (IF s.lvt # <<>> \/ s.lvtt # <<>> THEN <<<<"local_variables", s.lvt, s.lvtt>>>> ELSE <<>>)]

Step(s, R) ==
    CASE s.ph = "pass1" -> Pass1(s, R)
      [] s.ph = "exc" -> ExcRow(s, R)
      [] s.ph = "attrs" -> IF s.i > Len(R.attrs)
                           THEN [s EXCEPT !.ph = "pass2", !.i = 1, !.at = [id \in 0..(s.next - 1) |-> -1]]
                           ELSE TableRow(s, R)
      [] s.ph = "pass2" -> Pass2(s, R)
      [] s.ph = "last" -> Last(s, R)
      [] s.ph = "tables" -> Tables(s, R)
      [] OTHER -> s

(* run to the end: 2^k steps by halving, so that the evaluation depth stays logarithmic (Step is the identity on "done") *)
RECURSIVE RunN(_, _, _)
RunN(s, R, k) == IF s.ph = "done" THEN s ELSE IF k = 0 THEN Step(s, R) ELSE RunN(RunN(s, R, k - 1), R, k - 1)
RunLog(R, log) == RunN(MInit(R, log), R, 24)
Run(R) == RunLog(R, FALSE)

---------------------------------------------------------------------------
(* What the delivered events state (the tree built from them, read back as facts). *)
ResIds(s, ids) == [q \in 1..Len(ids) |-> s.at[ids[q]]]
ResVts(s, vts) == [q \in 1..Len(vts) |-> IF vts[q][1] = "uninit" THEN <<"uninit", s.at[vts[q][2]]>> ELSE vts[q]]
ResTa(s, r) ==
    CASE r[1] \in LocalvarKinds -> <<r[1], [z \in 1..Len(r[2]) |-> <<s.at[r[2][z][1]], s.at[r[2][z][2]], r[2][z][3]>>]>>
      [] r[1] \in OffsetKinds -> <<r[1], <<s.at[r[2][1]]>>>>
      [] OTHER -> r
Result(s, R) ==
    [n |-> Len(R.offs),
     tg |-> [q \in 1..Len(s.tg) |-> <<s.tg[q][1], ResIds(s, s.tg[q][2])>>],
     exc |-> [q \in 1..Len(s.exc) |-> ResIds(s, s.exc[q])],
     lines |-> [q \in 1..Len(s.lines) |-> <<s.at[s.lines[q][1]], s.lines[q][2]>>],
     lvt |-> [q \in 1..Len(s.lvt) |-> <<s.at[s.lvt[q][1]], s.at[s.lvt[q][2]], s.lvt[q][3], s.lvt[q][4], s.lvt[q][5]>>],
     lvtt |-> [q \in 1..Len(s.lvtt) |-> <<s.at[s.lvtt[q][1]], s.at[s.lvtt[q][2]], s.lvtt[q][3], s.lvtt[q][4], s.lvtt[q][5]>>],
     frames |-> ExpandFrames([q \in 1..Len(s.dfr) |-> <<s.dfr[q][1], <<s.dfr[q][2][1], s.dfr[q][2][2], ResVts(s, s.dfr[q][2][3]), ResVts(s, s.dfr[q][2][4])>>>>], R.init),
     tav |-> [q \in 1..Len(s.tav) |-> ResTa(s, s.tav[q])],
     tai |-> [q \in 1..Len(s.tai) |-> ResTa(s, s.tai[q])]]

---------------------------------------------------------------------------
(* Declarative part. *)

(* the label table is a partial injection offset -> id onto 0..next-1 *)
LabelsInjective(s, R) ==
    /\ \A p, q \in 0..R.len : (s.labels[p] # NoLabel /\ s.labels[p] = s.labels[q]) => p = q
    /\ {s.labels[p] : p \in {q \in 0..R.len : s.labels[q] # NoLabel}} = 0..(s.next - 1)

(* labels only at instruction boundaries or at code_length (well-formed input) *)
LabelsAtBoundaries(s, R) == \A p \in 0..R.len : s.labels[p] # NoLabel => (p = R.len \/ \E q \in DOMAIN R.offs : R.offs[q] = p)

(* at the end every label was attached to exactly one place and every frame read was delivered *)
AllAttached(s) == \A id \in DOMAIN s.at : s.at[id] # -1
AllFramesDelivered(s) == s.f = Len(s.frames) + 1

(* the raw structure of a well-formed Code attribute: everything points where JVMS allows *)
RowStartsAtEnd(R) == \E q \in DOMAIN R.attrs : R.attrs[q][1] \in {"LocalVariableTable", "LocalVariableTypeTable"}
                                                /\ \E z \in DOMAIN R.attrs[q][2] : R.attrs[q][2][z][1] = R.len
WellFormedRun(s, R) == s.ok /\ AllAttached(s) /\ AllFramesDelivered(s)

(* events: instruction i is visited exactly once, in order; a frame travels with the instruction at its offset *)
InsnEvents(s) == SelectSeq(s.ev, LAMBDA e : e[1] = "instruction")
EachInstructionOnce(s, R) == LET ie == InsnEvents(s) IN Len(ie) = Len(R.offs) /\ \A q \in DOMAIN ie : ie[q][2] = q - 1
EventCount(s, kind) == Len(SelectSeq(s.ev, LAMBDA e : e[1] = kind))
=============================================================================
