--------------------------- MODULE MC_CodeLayout ---------------------------
(***************************************************************************)
(* Bounded instance for C02 (code layout).  A case is an item list of at   *)
(* most 7 items; it is drawn in two Next steps (shape, then pad sizes) and *)
(* then laid out by the operational part of CodeLayout, one TLC state per  *)
(* loop iteration of write_code.  Families:                                *)
(*   one    - one far jump (if / goto / jsr), forward and backward, at     *)
(*            every alignment, optionally with a grow / near jump / far    *)
(*            jump / switch inside its span; the big pad straddles the     *)
(*            16 bit limits                                                *)
(*   any    - a jump in a three/four item list, target at every index      *)
(*   two    - two jumps and two big pads in every nesting: cascades where  *)
(*            widening one jump pushes the other over the limit            *)
(*   sw     - switches at each alignment with near and far arms, forward   *)
(*            and backward, and switches inside the span of a far jump     *)
(*   lim    - code sizes around 65535 bytes, with and without jumps,       *)
(*            including a far backward `if` at the last possible places    *)
(*   grow   - `ldc`s that the input holds in two bytes and the output needs *)
(*   grow2    three for, in front of / inside jumps at the limits: such    *)
(*            methods are readable as short jumps and must be written as   *)
(*            long ones (goto_w / jsr_w / inverted branch + goto_w)        *)
(* Every finished run is judged by the invariants and emitted as a vector. *)
(***************************************************************************)
EXTENDS CodeLayout, Json, TLC

CONSTANT Tier        \* 0 = quick, 1 = thorough

VARIABLES shape      \* the shape drawn in the first step (kept for the vector)
mvars == <<vars, shape>>

JK == {"if", "goto", "jsr"}
J(k, t) == [k |-> k, n |-> 0, t |-> <<t>>]
Sw(k, d, a) == [k |-> k, n |-> 0, t |-> <<d, a>>]
SK == {"tsw", "lsw"}
Opt(n) == IF n = 0 THEN <<>> ELSE <<Pad(n)>>
B(n) == IF n = 0 THEN 0 ELSE 1

Small == {1, 2, 3}
Pre == 0..3
Big  == IF Tier = 0 THEN {32759, 32762, 32764, 32765, 32767, 32768} ELSE 32758..32768
Big2 == IF Tier = 0 THEN {32760, 32764, 32765, 32768} ELSE {32758, 32760, 32762, 32763, 32764, 32765, 32766, 32767, 32768}
Huge == IF Tier = 0 THEN {65520, 65527, 65529, 65530, 65531, 65532, 65533, 65534, 65535} ELSE 65520..65535
(* pads that put a switch of 17..20 bytes (or a trampoline) plus the pad at the limit *)
BigS == IF Tier = 0 THEN {32744, 32745, 32747, 32749} ELSE 32740..32752

---------------------------------------------------------------------------
(* Shapes: records; Lists(sh) is the set of item lists of a shape.         *)

(* what may sit inside the span of the far jump of family `one`; `self` is *)
(* the index the item gets, `back` an index in front of it, `far` the      *)
(* index of the far end                                                    *)
Mids == {"none", "grow", "near", "far", "tsw", "lsw"}
Mid(m, self, back, far) ==
    CASE m = "none" -> <<>>
      [] m = "grow" -> <<Grow>>
      [] m = "near" -> <<J("goto", self)>>
      [] m = "far"  -> <<J("if", far)>>
      [] m = "tsw"  -> <<Sw("tsw", back, far)>>
      [] m = "lsw"  -> <<Sw("lsw", far, back)>>

ShapesOne == {sh \in [f : {"one"}, dir : {"fwd", "bwd"}, k : JK, s : Pre, m : Mids] :
                Tier = 0 /\ sh.m \notin {"tsw", "lsw"} => sh.s \in {0, 3}}
ListsOne(sh) ==
    LET b == B(sh.s)  ml == IF sh.m = "none" THEN 0 ELSE 1
        ns == IF sh.m \in {"tsw", "lsw", "far"} THEN BigS \cup Big2 ELSE Big IN
    IF sh.dir = "fwd"
    THEN (* [pre] J mid Pad(n) End *)
         LET last == b + 1 + ml + 2 IN
         {Opt(sh.s) \o <<J(sh.k, last)>> \o Mid(sh.m, b + 2, b + 1, last) \o <<Pad(n), Pad(1)>> : n \in ns}
    ELSE (* [pre] Tgt mid Pad(n) J [End] *)
         LET jx == b + 1 + ml + 2 IN
         {Opt(sh.s) \o <<Pad(1)>> \o Mid(sh.m, b + 2, b + 1, jx) \o <<Pad(n), J(sh.k, b + 1)>> \o tl :
            n \in ns, tl \in (IF Tier = 0 /\ sh.s # 0 THEN {<<Pad(2)>>} ELSE {<<>>, <<Pad(2)>>})}

(* a jump with its target at every index of a short list *)
ShapesAny == [f : {"any"}, k : JK, jx : 1..4, t : 1..4]
ListsAny(sh) ==
    {[i \in 1..4 |-> IF i = sh.jx THEN J(sh.k, sh.t) ELSE Pad(IF i = a THEN n ELSE 1)] :
        a \in (1..4) \ {sh.jx}, n \in (IF Tier = 0 THEN {32764, 32768} ELSE Big2)}

(* two jumps, two big pads: items  x1 P1 x2 P2 x3  with the jumps at two of *)
(* the x places and a one byte pad at the third; targets at x places        *)
XPos == {1, 3, 5}
ShapesTwo == {[f |-> "two", k1 |-> k1, k2 |-> k2, a |-> a, b |-> b, ta |-> ta, tb |-> tb] :
                k1 \in JK, k2 \in JK, a \in XPos, b \in XPos, ta \in {1, 2, 3, 5}, tb \in {1, 3, 4, 5}}
ShapeTwoOK(sh) == /\ sh.a < sh.b
                  /\ (Tier = 0 => sh.ta \in XPos /\ sh.tb \in XPos /\ (sh.k1 = "if" \/ sh.k2 = "if"))
ListsTwo(sh) ==
    {[i \in 1..5 |-> CASE i = sh.a -> J(sh.k1, sh.ta)
                       [] i = sh.b -> J(sh.k2, sh.tb)
                       [] i = 2 -> Pad(n1)
                       [] i = 4 -> Pad(n2)
                       [] OTHER -> Pad(1)] : n1 \in (IF Tier = 0 THEN {32764, 32765} ELSE Big2), n2 \in (IF Tier = 0 THEN {7, 32764, 32768} ELSE {7, 32760, 32763, 32764, 32765, 32768})}

(* adjacent jumps in front of / behind a big pad: the first's span holds the second *)
ShapesAdj == {[f |-> "adj", k1 |-> k1, k2 |-> k2, dir |-> d, s |-> s] : k1 \in JK, k2 \in JK, d \in {"fwd", "bwd", "mix"}, s \in {0, 1}}
ListsAdj(sh) ==
    LET b == B(sh.s) IN
    CASE sh.dir = "fwd" -> {Opt(sh.s) \o <<J(sh.k1, b + 4), J(sh.k2, b + 4), Pad(n), Pad(1)>> : n \in Big}
      [] sh.dir = "bwd" -> {Opt(sh.s) \o <<Pad(1), Pad(n), J(sh.k1, b + 1), J(sh.k2, b + 1), Pad(1)>> : n \in Big}
      [] sh.dir = "mix" -> {Opt(sh.s) \o <<Pad(1), Pad(n), J(sh.k1, b + 5), J(sh.k2, b + 1), Pad(m), Pad(1)>> :
                              n \in Big2, m \in Big2}

(* switches: alignment 0..3 in front, arms near / far, forward / backward *)
ShapesSw == [f : {"sw"}, k : SK, s : Pre, v : {"near", "farfwd", "farbwd", "both", "self"}]
ListsSw(sh) ==
    LET b == B(sh.s) IN
    CASE sh.v = "near"   -> {Opt(sh.s) \o <<Sw(sh.k, b + 2, b + 1), Pad(1)>>}
      [] sh.v = "self"   -> {Opt(sh.s) \o <<Sw(sh.k, b + 1, b + 1)>>}
      [] sh.v = "farfwd" -> {Opt(sh.s) \o <<Sw(sh.k, b + 3, b + 2), Pad(n), Pad(1)>> : n \in {32764, 32768, 65500}}
      [] sh.v = "farbwd" -> {Opt(sh.s) \o <<Pad(1), Pad(n), Sw(sh.k, b + 1, b + 2)>> : n \in {32764, 32768, 65500}}
      [] sh.v = "both"   -> {Opt(sh.s) \o <<Pad(1), Pad(n), Sw(sh.k, b + 1, b + 5), Pad(m), Pad(1)>> :
                               n \in {3, 32767}, m \in {2, 32700}}

(* sizes around the 65535 limit *)
ShapesLim == {[f |-> "lim", v |-> v, k |-> k, s |-> s] :
                v \in {"pad", "self", "bwd", "fwd", "sw", "grow", "edge"}, k \in JK, s \in 0..1}
ShapeLimOK(sh) == (sh.v \in {"pad", "sw", "grow"} => sh.k = "if")
ListsLim(sh) ==
    LET b == B(sh.s) IN
    CASE sh.v = "pad"  -> {Opt(sh.s) \o <<Pad(h)>> : h \in Huge}
      [] sh.v = "self" -> {Opt(sh.s) \o <<J(sh.k, b + 1), Pad(h)>> : h \in Huge}
      [] sh.v = "bwd"  -> {Opt(sh.s) \o <<Pad(h), J(sh.k, b + 1)>> : h \in Huge}
                          \cup {Opt(sh.s) \o <<Pad(n), Pad(m), J(sh.k, b + 2)>> : n \in {32765, 32766, 32767}, m \in Big}
      [] sh.v = "fwd"  -> {Opt(sh.s) \o <<J(sh.k, b + 3), Pad(h), Pad(1)>> : h \in Huge}
                          \cup {Opt(sh.s) \o <<Pad(n), J(sh.k, b + 4), Pad(m), Pad(1)>> : n \in {32760, 32763, 32766}, m \in Big}
      [] sh.v = "sw"   -> {Opt(sh.s) \o <<Pad(h - 20), Sw(k, b + 1, b + 2)>> : h \in Huge, k \in SK}
      [] sh.v = "grow" -> {Opt(sh.s) \o <<Pad(h - 3), Grow>> : h \in Huge} \cup {Opt(sh.s) \o <<Grow, Pad(h - 3)>> : h \in Huge}
      (* a far backward jump at the last places of a full method; the grow makes *)
      (* it readable as a short jump                                             *)
      [] sh.v = "edge" -> {Opt(sh.s) \o <<Pad(n), Grow, Pad(m), J(sh.k, t)>> \o tl :
                              n \in {32762, 32763, 32764, 32765}, m \in {32763, 32764, 32765, 32766, 32767}, t \in {b + 1, b + 2},
                              tl \in {<<>>, <<Pad(1)>>}}

(* g grow items inside the span of a jump that the input holds as a short  *)
(* one: the pads run over the window in which the input fits and the       *)
(* output does not                                                         *)
Grows(g) == [i \in 1..g |-> Grow]
ShapesGrow == [f : {"grow"}, k : JK, dir : {"fwd", "bwd"}, g : 1..3, s : {0, 1}, v : {"in", "out", "last"}]
ShapeGrowOK(sh) == /\ (sh.v = "last" => sh.dir = "bwd")
                   /\ (Tier = 0 /\ sh.v # "in" => sh.g = 1 /\ sh.s = 0)
ListsGrow(sh) ==
    LET b == B(sh.s)  g == sh.g IN
    IF sh.dir = "fwd"
    THEN IF sh.v = "in"
         THEN {Opt(sh.s) \o <<J(sh.k, b + g + 3)>> \o Grows(g) \o <<Pad(n), Pad(1)>> : n \in (32764 - 3 * g)..(32765 - 2 * g)}
         ELSE {Opt(sh.s) \o Grows(g) \o <<J(sh.k, b + g + 3), Pad(n), Pad(1)>> : n \in {32764, 32765}}
    ELSE CASE sh.v = "in"   -> {Opt(sh.s) \o <<Pad(1)>> \o Grows(g) \o <<Pad(n), J(sh.k, b + 1), Pad(1)>> : n \in (32767 - 3 * g)..(32768 - 2 * g)}
           [] sh.v = "out"  -> {Opt(sh.s) \o Grows(g) \o <<Pad(1), Pad(n), J(sh.k, b + g + 1), Pad(1)>> : n \in {32767, 32768}}
           (* the long jump is the last instruction *)
           [] sh.v = "last" -> {Opt(sh.s) \o <<Pad(1)>> \o Grows(g) \o <<Pad(n), J(sh.k, b + 1)>> : n \in (32767 - 3 * g)..(32768 - 2 * g)}

(* which conditional a jump of kind "if" is does not matter to the layout, but ifnull / ifnonnull lie apart from the other   *)
(* fourteen opcodes: n = 15 / 16 of a jump item asks the driver for them (n = 0: its own choice by position).  Every list of *)
(* the grow family with an `if` is also drawn with its if being ifnull and ifnonnull.                                        *)
NullIfs(L) == {[i \in DOMAIN L |-> IF L[i].k = "if" THEN [L[i] EXCEPT !.n = c] ELSE L[i]] : c \in {15, 16}}
ListsGrowN(sh) == LET base == ListsGrow(sh) IN IF sh.k = "if" THEN base \cup UNION {NullIfs(L) : L \in base} ELSE base

(* a grow inside the span of a short forward jump that also holds a second *)
(* jump: J1 Grow Pad(n1) X Pad(n2) J2 End                                  *)
ShapesGrow2 == {[f |-> "grow2", k1 |-> k1, k2 |-> k2, t2 |-> t2] : k1 \in JK, k2 \in JK, t2 \in {1, 4}}
ShapeGrow2OK(sh) == Tier = 0 => sh.k1 = "if" \/ sh.k2 = "if"
ListsGrow2(sh) ==
    {<<J(sh.k1, 4), Grow, Pad(n1), Pad(1), Pad(n2), J(sh.k2, sh.t2), Pad(1)>> :
        n1 \in 32760..32763, n2 \in (IF Tier = 0 THEN {5, 32762, 32766} ELSE {5, 32761, 32762, 32763, 32765, 32766, 32767})}

Shapes == ShapesOne \cup ShapesAny \cup {sh \in ShapesTwo : ShapeTwoOK(sh)} \cup ShapesAdj \cup ShapesSw
          \cup {sh \in ShapesLim : ShapeLimOK(sh)} \cup {sh \in ShapesGrow : ShapeGrowOK(sh)}
          \cup {sh \in ShapesGrow2 : ShapeGrow2OK(sh)}

Lists(sh) ==
    CASE sh.f = "one"  -> ListsOne(sh)
      [] sh.f = "any"  -> ListsAny(sh)
      [] sh.f = "two"  -> ListsTwo(sh)
      [] sh.f = "adj"  -> ListsAdj(sh)
      [] sh.f = "sw"   -> ListsSw(sh)
      [] sh.f = "lim"  -> ListsLim(sh)
      [] sh.f = "grow" -> ListsGrowN(sh)
      [] sh.f = "grow2" -> ListsGrow2(sh)

---------------------------------------------------------------------------
Init == /\ shape = <<>> /\ items = <<>> /\ pc = "shape" /\ attempt = 0 /\ wide = {} /\ pos = 0 /\ nxt = 0
        /\ offsetOf = <<>> /\ unresolved = <<>> /\ out = <<>> /\ result = ""

PickShape ==
    /\ pc = "shape"
    /\ \E sh \in Shapes : shape' = sh
    /\ pc' = "list"
    /\ UNCHANGED <<items, attempt, wide, pos, nxt, offsetOf, unresolved, out, result>>

PickList ==
    /\ pc = "list"
    /\ \E its \in Lists(shape) :
        /\ items' = its /\ pc' = "emit" /\ attempt' = 1 /\ wide' = {} /\ pos' = 0 /\ nxt' = 1
        /\ offsetOf' = <<>> /\ unresolved' = <<>> /\ out' = <<>> /\ result' = ""
    /\ UNCHANGED shape

Run == pc \in {"emit", "resolve"} /\ Step /\ UNCHANGED shape

Next == PickShape \/ PickList \/ Run
Spec == Init /\ [][Next]_mvars /\ WF_mvars(Next)

---------------------------------------------------------------------------
Running == pc \in {"emit", "resolve", "done"}

InvWellTargeted  == Running => WellTargeted(items)
InvLayoutCorrect == Running => LayoutCorrect
InvOkOnlyIfFits  == Running => OkOnlyIfFits
InvErrOnlyIfNone == Running => ErrOnlyIfNone
InvOverflowConfined == Running => OverflowConfined
InvSkipPastEndConfined == Running => SkipPastEndConfined
InvAttemptBound  == Running => AttemptBound /\ WideOnlyJumps
(* during an attempt the labels are those of this attempt only *)
InvLabelsOfAttempt == pc = "emit" => Len(offsetOf) = nxt - 1 /\ Len(out) = nxt - 1

WideMonotone == [][wide \subseteq wide']_mvars
Terminates == <>(pc = "done")

(* the vector: the list, the law's verdict, and (for classification only)  *)
(* the layout the operational part arrived at                              *)
Law(its) == IF ExistsFit(its) THEN "ok" ELSE "err"
(* emitted: the lists some class file can hold (the others are still model *)
(* checked above)                                                          *)
EmitVec ==
    (Done /\ InputFit(items)) => PrintT(ToJson([op |-> "layout", fam |-> shape.f, items |-> items,
                           model |-> [res |-> result, attempts |-> attempt,
                                      forms |-> [i \in 1..Len(out) |-> out[i].form],
                                      off |-> offsetOf, len |-> pos,
                                      dir |-> [i \in 1..Len(items) |->
                                                  IF IsJump(items[i]) THEN (IF items[i].t[1] <= i THEN "bwd" ELSE "fwd") ELSE "-"],
                                      pads |-> [i \in 1..Len(out) |-> out[i].pad]],
                           exp |-> [anyof |-> <<[res |-> Law(items)], [skipped |-> TRUE]>>]]))
=============================================================================
