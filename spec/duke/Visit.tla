------------------------------- MODULE Visit -------------------------------
(***************************************************************************)
(* Property C17.  The visiting protocol of duke's class reader              *)
(* (duke/src/class_reader.rs read / read_field / read_method / read_code /  *)
(* read_record_component / skip_attributes, lib.rs with_pos) and of the     *)
(* tree -> visitor replay (duke/src/tree/*.rs accept).                      *)
(*                                                                         *)
(* An abstract class file is a layout: sizes of the fixed parts and, per    *)
(* attribute table, the attributes [name, len, endref] in file order (Code  *)
(* and Record carry nested tables).  The reader is a machine over a stream  *)
(* of such class files with the stream cursor explicit; one step per        *)
(* critical section of `read`:                                              *)
(*    ReadHeader  ReadPool  SkipMembers  ClassAttr(k)  SkipClassAttrs       *)
(*    SeekBack  Field(i)  MethodsCount  Method(i)  Finish  NextClass        *)
(* An attribute is delivered when the visitor's interest flag for it is     *)
(* set and skipped by its attribute_length otherwise; a declined member is  *)
(* left by skip_attributes; a declined code by the rest of the Code body.   *)
(*                                                                         *)
(* Declarative part: Filter (what a visitor with a mask and decline choices *)
(* is entitled to see of the full read's events), the layout offsets every  *)
(* phase must find the cursor at, and the comparison of two event streams   *)
(* up to commutation of independent events (SameUpToCommutation).           *)
(***************************************************************************)
EXTENDS Naturals, Sequences, FiniteSets, TLC

SeqSet(s) == {s[i] : i \in DOMAIN s}

RECURSIVE SumSeq(_)
SumSeq(s) == IF s = <<>> THEN 0 ELSE Head(s) + SumSeq(Tail(s))

RECURSIVE Flatten(_)
Flatten(ss) == IF ss = <<>> THEN <<>> ELSE Head(ss) \o Flatten(Tail(ss))

MapSeq(s, Op(_)) == [i \in DOMAIN s |-> Op(s[i])]

---------------------------------------------------------------------------
(* Interest masks: one record of booleans per level, exactly the fields of *)
(* ClassInterests, FieldInterests, MethodInterests, CodeInterests and      *)
(* RecordComponentInterests.                                               *)
Levels == {"class", "field", "method", "code", "rc"}
Flags ==
    [class  |-> {"inner_classes", "enclosing_method", "signature", "source_file", "source_debug_extension",
                 "runtime_visible_annotations", "runtime_invisible_annotations",
                 "runtime_visible_type_annotations", "runtime_invisible_type_annotations",
                 "module", "module_packages", "module_main_class", "nest_host", "nest_members",
                 "permitted_subclasses", "record", "unknown_attributes", "fields", "methods"},
     field  |-> {"constant_value", "signature", "runtime_visible_annotations", "runtime_invisible_annotations",
                 "runtime_visible_type_annotations", "runtime_invisible_type_annotations", "unknown_attributes"},
     method |-> {"code", "exceptions", "signature", "runtime_visible_annotations", "runtime_invisible_annotations",
                 "runtime_visible_type_annotations", "runtime_invisible_type_annotations",
                 "runtime_visible_parameter_annotations", "runtime_invisible_parameter_annotations",
                 "annotation_default", "method_parameters", "unknown_attributes"},
     code   |-> {"stack_map_table", "line_number_table", "local_variable_table", "local_variable_type_table",
                 "runtime_visible_type_annotations", "runtime_invisible_type_annotations", "unknown_attributes"},
     rc     |-> {"signature", "runtime_visible_annotations", "runtime_invisible_annotations",
                 "runtime_visible_type_annotations", "runtime_invisible_type_annotations", "unknown_attributes"}]

AllFlagPairs == UNION {{<<l, f>> : f \in Flags[l]} : l \in Levels}     \* 51 flags

MaskConst(b) == [l \in Levels |-> [f \in Flags[l] |-> b]]
MaskAll  == MaskConst(TRUE)
MaskNone == MaskConst(FALSE)
(* base mask with the flags of `flip` (a set of <<level, flag>>) inverted *)
MaskFlip(b, flip) == [l \in Levels |-> [f \in Flags[l] |-> IF <<l, f>> \in flip THEN ~b ELSE b]]

(* The interests are asked of every member visitor: a class visitor may hand out differently configured ones.  A mask *)
(* may therefore carry a second mask `alt`, reported by the visitors of the members (fields, methods with their code,   *)
(* record components) whose ordinal is even; the class level knows one mask only.                                        *)
HasAlt(M) == "alt" \in DOMAIN M
WithAlt(M, A) == [x \in Levels \cup {"alt"} |-> IF x = "alt" THEN A ELSE M[x]]
MemberMask(M, mi) == IF HasAlt(M) /\ mi % 2 = 0 THEN [l \in Levels |-> IF l = "class" THEN M.class ELSE M.alt[l]] ELSE M

NoDeclines == [classes |-> {}, fields |-> {}, methods |-> {}, codes |-> {}, rcs |-> {}]

(* a SimpleClassVisitor is a ClassVisitor that is interested in fields and methods only *)
SimpleMask(M) == [M EXCEPT !.class = [f \in Flags.class |-> f \in {"fields", "methods"}]]

---------------------------------------------------------------------------
(* Events.  [lvl, ev, c, mk, mi, vis, frame] (+ arg, n on recorded ones):  *)
(* lvl = the trait that received the call, ev = its method, c = ordinal of  *)
(* the class in the stream, mk/mi = member kind and ordinal, vis = "v"/"i"  *)
(* for (type) annotation events, frame = stack map frame of an instruction. *)
Ev(lvl, ev, c, mk, mi, vis, frame) ==
    [lvl |-> lvl, ev |-> ev, c |-> c, mk |-> mk, mi |-> mi, vis |-> vis, frame |-> frame]

(* the interest flag that governs an event at its level; "" = none (always delivered), "?" = not an event of this level *)
AnnoFlag(e) ==
    CASE e.ev \in {"visit_annotations", "finish_annotations"} ->
            IF e.vis = "v" THEN "runtime_visible_annotations" ELSE "runtime_invisible_annotations"
      [] e.ev \in {"visit_type_annotations", "finish_type_annotations"} ->
            IF e.vis = "v" THEN "runtime_visible_type_annotations" ELSE "runtime_invisible_type_annotations"
      [] e.ev = "visit_unknown_attribute" -> "unknown_attributes"
      [] OTHER -> "?"
EvFlag(e) ==
    CASE e.lvl = "class" ->
           CASE e.ev = "visit_deprecated_and_synthetic_attribute" -> ""
             [] e.ev = "visit_inner_classes" -> "inner_classes"
             [] e.ev = "visit_enclosing_method" -> "enclosing_method"
             [] e.ev = "visit_signature" -> "signature"
             [] e.ev = "visit_source_file" -> "source_file"
             [] e.ev = "visit_source_debug_extension" -> "source_debug_extension"
             [] e.ev = "visit_module" -> "module"
             [] e.ev = "visit_module_packages" -> "module_packages"
             [] e.ev = "visit_module_main_class" -> "module_main_class"
             [] e.ev = "visit_nest_host_class" -> "nest_host"
             [] e.ev = "visit_nest_members" -> "nest_members"
             [] e.ev = "visit_permitted_subclasses" -> "permitted_subclasses"
             [] OTHER -> AnnoFlag(e)
      [] e.lvl = "field" ->
           CASE e.ev = "visit_deprecated_and_synthetic_attribute" -> ""
             [] e.ev = "visit_constant_value" -> "constant_value"
             [] e.ev = "visit_signature" -> "signature"
             [] OTHER -> AnnoFlag(e)
      [] e.lvl = "rc" ->
           CASE e.ev = "visit_signature" -> "signature"
             [] OTHER -> AnnoFlag(e)
      [] e.lvl = "method" ->
           CASE e.ev = "visit_deprecated_and_synthetic_attribute" -> ""
             [] e.ev \in {"visit_code", "finish_code"} -> "code"
             [] e.ev = "visit_exceptions" -> "exceptions"
             [] e.ev = "visit_signature" -> "signature"
             [] e.ev \in {"visit_annotation_default", "finish_annotation_default"} -> "annotation_default"
             [] e.ev = "visit_parameters" -> "method_parameters"
             [] OTHER -> AnnoFlag(e)
      [] e.lvl = "code" ->
           CASE e.ev \in {"visit_max_stack_and_max_locals", "visit_instruction", "visit_exception_table", "visit_last_label"} -> ""
             [] e.ev = "visit_line_numbers" -> "line_number_table"
             [] e.ev = "visit_local_variables" -> "local_variables"
             [] OTHER -> AnnoFlag(e)
      [] OTHER -> "?"

Interested(M, e) ==
    LET f == EvFlag(e) IN
    CASE f = "" -> TRUE
      [] f = "?" -> FALSE
      [] f = "local_variables" -> M.code.local_variable_table \/ M.code.local_variable_type_table
      [] OTHER -> M[e.lvl][f]

(* Is the visitor with mask M and decline choices D entitled to this event of the full read? *)
Keep(e, M, D) ==
    IF e.lvl = "multi" THEN e.ev = "visit_class" \/ e.c \notin D.classes
    ELSE /\ e.c \notin D.classes
         /\ CASE e.lvl = "class" /\ e.mk = ""  -> Interested(M, e)
              [] e.lvl = "class" /\ e.mk = "r" -> M.class.record  /\ (e.ev = "visit_record_component" \/ e.mi \notin D.rcs)
              [] e.lvl = "class" /\ e.mk = "f" -> M.class.fields  /\ (e.ev = "visit_field" \/ e.mi \notin D.fields)
              [] e.lvl = "class" /\ e.mk = "m" -> M.class.methods /\ (e.ev = "visit_method" \/ e.mi \notin D.methods)
              [] e.lvl = "rc"     -> M.class.record  /\ e.mi \notin D.rcs     /\ Interested(MemberMask(M, e.mi), e)
              [] e.lvl = "field"  -> M.class.fields  /\ e.mi \notin D.fields  /\ Interested(MemberMask(M, e.mi), e)
              [] e.lvl = "method" -> M.class.methods /\ e.mi \notin D.methods /\ Interested(MemberMask(M, e.mi), e)
                                     /\ (e.ev = "finish_code" => e.mi \notin D.codes)
              [] e.lvl = "code"   -> M.class.methods /\ e.mi \notin D.methods /\ MemberMask(M, e.mi).method.code /\ e.mi \notin D.codes
                                     /\ Interested(MemberMask(M, e.mi), e)
              [] OTHER -> FALSE

(* the stack map frame travels on the instruction event and is subject to its own flag.  The rows of          *)
(* LocalVariableTable ("t") and LocalVariableTypeTable ("y") travel in one visit_local_variables event, each  *)
(* subject to the flag of its table: `vis` names the kinds of rows present; recorded events carry the digest  *)
(* of the "t" rows in `arg` and that of the "y" rows in `frame`.                                              *)
LvKinds(t, y) == (IF t THEN "t" ELSE "") \o (IF y THEN "y" ELSE "")
Adjust(e, M) ==
    IF e.lvl = "code" /\ e.ev = "visit_instruction" /\ ~M.code.stack_map_table THEN [e EXCEPT !.frame = ""]
    ELSE IF e.lvl = "code" /\ e.ev = "visit_local_variables" THEN
        LET t == M.code.local_variable_table /\ e.vis \in {"t", "ty"}
            y == M.code.local_variable_type_table /\ e.vis \in {"y", "ty"}
            e1 == [e EXCEPT !.vis = LvKinds(t, y), !.frame = IF y THEN @ ELSE ""]
        IN IF "arg" \in DOMAIN e THEN [e1 EXCEPT !.arg = IF t THEN @ ELSE ""] ELSE e1
    ELSE e

Filter(es, M, D) ==
    LET kept == SelectSeq(es, LAMBDA e : Keep(e, M, D)) IN [i \in DOMAIN kept |-> Adjust(kept[i], MemberMask(M, kept[i].mi))]

(* A label is a name for a code position.  Its definition (visit_last_label, the label argument of        *)
(* visit_instruction) is delivered when something the reader parsed refers to the position, so it is not   *)
(* an item of the class: event streams are compared without visit_last_label (recorded digests carry       *)
(* positions, not label ids).                                                                               *)
(* Likewise a visit_local_variables call without rows (vis = "") carries no item.                           *)
Items(es) == SelectSeq(es, LAMBDA e : ~(e.lvl = "code" /\ (e.ev = "visit_last_label" \/ (e.ev = "visit_local_variables" /\ e.vis = ""))))

Renumber(es, k) == [i \in DOMAIN es |-> [es[i] EXCEPT !.c = k]]

(* what a consumer can observe of the events it is entitled to: the recording consumer everything; a      *)
(* SimpleClassVisitor only its member calls (the class level calls end in duke's blanket implementation)  *)
ConsumerView(consumer, es) ==
    IF consumer = "simple" THEN SelectSeq(es, LAMBDA e : ~(e.lvl = "class" /\ e.mk = ""))
    ELSE IF consumer = "unit" THEN <<>> ELSE es
ConsumerMask(consumer, M) == IF consumer = "simple" THEN SimpleMask(M) ELSE M

Expect(consumer, full, M, D) == Items(ConsumerView(consumer, Filter(full, ConsumerMask(consumer, M), D)))

Skel(es) == [i \in DOMAIN es |-> <<es[i].lvl, es[i].ev, es[i].c, es[i].mk, es[i].mi, es[i].vis, es[i].frame>>]

---------------------------------------------------------------------------
(* Abstract class files.                                                    *)
(*   attr   = [name, len, endref, sub]    len = attribute_length; endref: refers to the position behind the *)
(*            last instruction; sub = nested attribute table (Code), components (Record), else <<>>          *)
(*   member = [fixed |-> 6, attrs]  (access, name, descriptor)                                               *)
(*   class  = [hdr, pool, mid, fields, methods, attrs]  hdr = magic+version, mid = access..interfaces        *)
CodePre == 11          \* max_stack, max_locals, code_length, one instruction, exception_table_length
CodeInsns == 1
ExcRow == 8            \* one row of the exception table (the shapes have none or one, ending at code_length)
ExcLen(a) == IF a.excend THEN ExcRow ELSE 0
AttrSize(a) == 6 + a.len
AttrsSize(as) == 2 + SumSeq([i \in DOMAIN as |-> AttrSize(as[i])])
MemberSize(m) == m.fixed + AttrsSize(m.attrs)
MembersSize(ms) == 2 + SumSeq([i \in DOMAIN ms |-> MemberSize(ms[i])])
CompSize(comp) == 4 + AttrsSize(comp.attrs)

FileLen(c) == c.hdr + c.pool + c.mid + MembersSize(c.fields) + MembersSize(c.methods) + AttrsSize(c.attrs)

(* offsets (relative to the start of the class file) the phases of the reader must find the cursor at *)
OffMembers(c) == c.hdr + c.pool + c.mid
OffField(c, i) == OffMembers(c) + 2 + SumSeq([j \in 1..(i - 1) |-> MemberSize(c.fields[j])])
OffMethodsCount(c) == OffMembers(c) + MembersSize(c.fields)
OffMethod(c, i) == OffMethodsCount(c) + 2 + SumSeq([j \in 1..(i - 1) |-> MemberSize(c.methods[j])])
OffClassAttrs(c) == OffMethodsCount(c) + MembersSize(c.methods)
OffClassAttr(c, i) == OffClassAttrs(c) + 2 + SumSeq([j \in 1..(i - 1) |-> AttrSize(c.attrs[j])])

(* attribute_length agrees with the nested structure *)
WellFormedAttr(lvl, a) ==
    CASE lvl = "method" /\ a.name = "Code" -> a.len = CodePre + ExcLen(a) + AttrsSize(a.sub)
      [] lvl = "class" /\ a.name = "Record" -> a.len = 2 + SumSeq([i \in DOMAIN a.sub |-> CompSize(a.sub[i])])
      [] a.name \in {"Deprecated", "Synthetic"} -> a.len = 0
      [] OTHER -> a.sub = <<>>
WellFormed(c) ==
    /\ \A i \in DOMAIN c.attrs : WellFormedAttr("class", c.attrs[i])
    /\ \A i \in DOMAIN c.fields : \A j \in DOMAIN c.fields[i].attrs : WellFormedAttr("field", c.fields[i].attrs[j])
    /\ \A i \in DOMAIN c.methods : \A j \in DOMAIN c.methods[i].attrs : WellFormedAttr("method", c.methods[i].attrs[j])

(* How the reader treats attribute `name` at a level: <<kind, flag, event>>.                                     *)
(*   simple  one event       pair  visit_/finish_ with visibility    silent  parsed when interested, nothing delivered *)
(*   marker  Deprecated/Synthetic (reported by visit_deprecated_and_synthetic_attribute after the table)              *)
(*   bsm     BootstrapMethods: always parsed, never delivered    code / record  nested    lines / frames  see ReadCode  *)
Common(name) ==
    CASE name = "RuntimeVisibleAnnotations"       -> <<"pair", "runtime_visible_annotations", "annotations", "v">>
      [] name = "RuntimeInvisibleAnnotations"     -> <<"pair", "runtime_invisible_annotations", "annotations", "i">>
      [] name = "RuntimeVisibleTypeAnnotations"   -> <<"pair", "runtime_visible_type_annotations", "type_annotations", "v">>
      [] name = "RuntimeInvisibleTypeAnnotations" -> <<"pair", "runtime_invisible_type_annotations", "type_annotations", "i">>
      [] OTHER -> <<"simple", "unknown_attributes", "visit_unknown_attribute", "">>
Treat(lvl, name) ==
    IF name \in {"Deprecated", "Synthetic"} /\ lvl \in {"class", "field", "method"} THEN <<"marker", "", "", "">>
    ELSE IF name = "Signature" /\ lvl \in {"class", "field", "method", "rc"} THEN <<"simple", "signature", "visit_signature", "">>
    ELSE CASE lvl = "class" ->
           CASE name = "InnerClasses"         -> <<"simple", "inner_classes", "visit_inner_classes", "">>
             [] name = "EnclosingMethod"      -> <<"simple", "enclosing_method", "visit_enclosing_method", "">>
             [] name = "SourceFile"           -> <<"simple", "source_file", "visit_source_file", "">>
             [] name = "SourceDebugExtension" -> <<"simple", "source_debug_extension", "visit_source_debug_extension", "">>
             [] name = "Module"               -> <<"simple", "module", "visit_module", "">>
             [] name = "ModulePackages"       -> <<"simple", "module_packages", "visit_module_packages", "">>
             [] name = "ModuleMainClass"      -> <<"simple", "module_main_class", "visit_module_main_class", "">>
             [] name = "NestHost"             -> <<"simple", "nest_host", "visit_nest_host_class", "">>
             [] name = "NestMembers"          -> <<"simple", "nest_members", "visit_nest_members", "">>
             [] name = "PermittedSubclasses"  -> <<"simple", "permitted_subclasses", "visit_permitted_subclasses", "">>
             [] name = "Record"               -> <<"record", "record", "", "">>
             [] name = "BootstrapMethods"     -> <<"bsm", "", "", "">>
             [] OTHER -> Common(name)
      [] lvl = "field" ->
           CASE name = "ConstantValue" -> <<"simple", "constant_value", "visit_constant_value", "">>
             [] OTHER -> Common(name)
      [] lvl = "method" ->
           CASE name = "Code"              -> <<"code", "code", "", "">>
             [] name = "Exceptions"        -> <<"simple", "exceptions", "visit_exceptions", "">>
             [] name = "AnnotationDefault" -> <<"pair", "annotation_default", "annotation_default", "">>
             [] name = "MethodParameters"  -> <<"simple", "method_parameters", "visit_parameters", "">>
             [] name = "RuntimeVisibleParameterAnnotations"   -> <<"silent", "runtime_visible_parameter_annotations", "", "">>
             [] name = "RuntimeInvisibleParameterAnnotations" -> <<"silent", "runtime_invisible_parameter_annotations", "", "">>
             [] OTHER -> Common(name)
      [] lvl = "code" ->
           CASE name \in {"StackMapTable", "StackMap"} -> <<"frames", "stack_map_table", "", "">>
             [] name = "LineNumberTable"        -> <<"lines", "line_number_table", "", "">>
             [] name = "LocalVariableTable"     -> <<"locals", "local_variable_table", "", "">>
             [] name = "LocalVariableTypeTable" -> <<"locals", "local_variable_type_table", "", "">>
             [] name \in {"RuntimeVisibleTypeAnnotations", "RuntimeInvisibleTypeAnnotations"} -> Common(name)
             [] OTHER -> <<"simple", "unknown_attributes", "visit_unknown_attribute", "">>
      [] OTHER -> Common(name)       \* rc

FrameDigest == "Same"     \* the frame the shapes of the bounded model carry on their instruction

---------------------------------------------------------------------------
(* The reader.  Attribute tables are folded left to right; `cur` advances by exactly the bytes the code     *)
(* consumes on the path it takes.  Returned: [cur, evs, dep, syn, ...].                                     *)

(* events of one delivered attribute (not Code / Record) *)
DeliverEvents(lvl, t, c, mk, mi) ==
    IF t[1] = "simple" THEN <<Ev(lvl, t[3], c, mk, mi, "", "")>>
    ELSE IF t[1] = "pair" THEN <<Ev(lvl, "visit_" \o t[3], c, mk, mi, t[4], ""), Ev(lvl, "finish_" \o t[3], c, mk, mi, t[4], "")>>
    ELSE <<>>

(* the nested table of a Code attribute: what is parsed leaves traces for the instruction loop *)
RECURSIVE ReadCodeAttrs(_, _, _, _, _)
ReadCodeAttrs(as, M, c, mi, acc) ==
    IF as = <<>> THEN acc
    ELSE LET a == Head(as)
             t == Treat("code", a.name)
             want == M.code[t[2]]
             acc2 == [acc EXCEPT !.cur = @ + AttrSize(a),                       \* header + (parsed or skipped) body
                                 !.evs = IF want THEN @ \o DeliverEvents("code", t, c, "m", mi) ELSE @,
                                 !.frames = @ \/ (want /\ t[1] = "frames"),
                                 !.lines = @ \/ (want /\ t[1] = "lines"),
                                 !.lvt = @ \/ (want /\ a.name = "LocalVariableTable"),        \* both tables end up in one list;
                                 !.lvtt = @ \/ (want /\ a.name = "LocalVariableTypeTable"),   \* which rows it has is the event's `vis`
                                 !.endlabel = @ \/ (want /\ a.endref)]
         IN ReadCodeAttrs(Tail(as), M, c, mi, acc2)

(* read_code: max_stack/max_locals, code, exception table, nested attributes, then the instruction loop *)
ReadCode(a, M, c, mi, cur) ==
    LET nested == ReadCodeAttrs(a.sub, M, c, mi, [cur |-> cur + CodePre + ExcLen(a) + 2, evs |-> <<>>, frames |-> FALSE, lines |-> FALSE, lvt |-> FALSE, lvtt |-> FALSE,
                                                 endlabel |-> a.excend])      \* the exception table is always parsed: its exclusive end may be the end of the code
        insns == [i \in 1..CodeInsns |-> Ev("code", "visit_instruction", c, "m", mi, "", IF nested.frames /\ i = 1 THEN FrameDigest ELSE "")]
    IN [cur |-> nested.cur,
        evs |-> <<Ev("code", "visit_max_stack_and_max_locals", c, "m", mi, "", "")>> \o nested.evs \o insns
                \o (IF nested.endlabel THEN <<Ev("code", "visit_last_label", c, "m", mi, "", "")>> ELSE <<>>)
                \o <<Ev("code", "visit_exception_table", c, "m", mi, "", "")>>
                \o (IF nested.lines THEN <<Ev("code", "visit_line_numbers", c, "m", mi, "", "")>> ELSE <<>>)
                \o (IF nested.lvt \/ nested.lvtt
                    THEN <<Ev("code", "visit_local_variables", c, "m", mi, LvKinds(nested.lvt, nested.lvtt), "")>> ELSE <<>>)]

(* skip_attributes: attributes_count, then per attribute name index, length and `length` bytes *)
SkipAttributes(as, cur) == cur + AttrsSize(as)

(* the attribute loop of read_field / read_method / read_record_component (the member was accepted) *)
RECURSIVE ReadMemberAttrs(_, _, _, _, _, _, _, _)
ReadMemberAttrs(lvl, as, M, D, c, mk, mi, acc) ==
    IF as = <<>> THEN acc
    ELSE LET a == Head(as)
             t == Treat(lvl, a.name)
             hdr == acc.cur + 6                    \* attribute_name_index, attribute_length
             step ==
               CASE t[1] = "marker" -> [acc EXCEPT !.cur = hdr + a.len]
                 [] t[1] = "code" ->
                      IF ~M.method.code THEN [acc EXCEPT !.cur = hdr + a.len]                       \* skip(length)
                      ELSE IF mi \in D.codes
                           THEN [acc EXCEPT !.cur = hdr + a.len,                                    \* declined: the body must be skipped
                                            !.evs = @ \o <<Ev("method", "visit_code", c, mk, mi, "", "")>>]
                           ELSE LET r == ReadCode(a, M, c, mi, hdr) IN
                                [acc EXCEPT !.cur = r.cur,
                                            !.evs = @ \o <<Ev("method", "visit_code", c, mk, mi, "", "")>> \o r.evs
                                                      \o <<Ev("method", "finish_code", c, mk, mi, "", "")>>]
                 [] OTHER ->
                      IF M[lvl][t[2]] THEN [acc EXCEPT !.cur = hdr + a.len, !.evs = @ \o DeliverEvents(lvl, t, c, mk, mi)]
                      ELSE [acc EXCEPT !.cur = hdr + a.len]                                         \* skip(length)
         IN ReadMemberAttrs(lvl, Tail(as), M, D, c, mk, mi, step)

DepSyn(lvl, c, mk, mi) == <<Ev(lvl, "visit_deprecated_and_synthetic_attribute", c, mk, mi, "", "")>>

(* read_field / read_method: fixed part, visit, then the attributes or skip_attributes.  A visitor that declared *)
(* no interest in fields (methods) is not offered them: the member is passed over like a declined one.          *)
ReadMember(mk, m, i, M, D, c, cur) ==
    LET lvl == IF mk = "f" THEN "field" ELSE "method"
        open == Ev("class", IF mk = "f" THEN "visit_field" ELSE "visit_method", c, mk, i, "", "")
        close == Ev("class", IF mk = "f" THEN "finish_field" ELSE "finish_method", c, mk, i, "", "")
        declined == IF mk = "f" THEN i \in D.fields ELSE i \in D.methods
        wanted == IF mk = "f" THEN M.class.fields ELSE M.class.methods
    IN IF ~wanted THEN [cur |-> SkipAttributes(m.attrs, cur + m.fixed), evs |-> <<>>]
       ELSE IF declined THEN [cur |-> SkipAttributes(m.attrs, cur + m.fixed), evs |-> <<open>>]
       ELSE LET r == ReadMemberAttrs(lvl, m.attrs, MemberMask(M, i), D, c, mk, i, [cur |-> cur + m.fixed + 2, evs |-> <<>>])      \* this member visitor's interests
            IN [cur |-> r.cur, evs |-> <<open>> \o r.evs \o DepSyn(lvl, c, mk, i) \o <<close>>]

(* read_record_component *)
ReadComponent(comp, i, M, D, c, cur) ==
    LET open == Ev("class", "visit_record_component", c, "r", i, "", "")
        close == Ev("class", "finish_record_component", c, "r", i, "", "")
    IN IF i \in D.rcs THEN [cur |-> SkipAttributes(comp.attrs, cur + 4), evs |-> <<open>>]
       ELSE LET r == ReadMemberAttrs("rc", comp.attrs, MemberMask(M, i), D, c, "r", i, [cur |-> cur + 4 + 2, evs |-> <<>>])
            IN [cur |-> r.cur, evs |-> <<open>> \o r.evs \o <<close>>]

RECURSIVE ReadComponents(_, _, _, _, _, _)
ReadComponents(comps, i, M, D, c, acc) ==
    IF i > Len(comps) THEN acc
    ELSE LET r == ReadComponent(comps[i], i, M, D, c, acc.cur)
         IN ReadComponents(comps, i + 1, M, D, c, [cur |-> r.cur, evs |-> acc.evs \o r.evs])

(* one class attribute *)
ReadClassAttr(a, M, D, c, cur) ==
    LET t == Treat("class", a.name)
        hdr == cur + 6
    IN CASE t[1] \in {"marker", "bsm"} -> [cur |-> hdr + a.len, evs |-> <<>>]          \* parsed regardless of the mask
         [] t[1] = "record" ->
              IF M.class.record THEN ReadComponents(a.sub, 1, M, D, c, [cur |-> hdr + 2, evs |-> <<>>])
              ELSE [cur |-> hdr + a.len, evs |-> <<>>]
         [] OTHER ->
              IF M.class[t[2]] THEN [cur |-> hdr + a.len, evs |-> DeliverEvents("class", t, c, "", 0)]
              ELSE [cur |-> hdr + a.len, evs |-> <<>>]

---------------------------------------------------------------------------
(* The machine.  State: the stream `file` (sequence of class files), the read in progress `k`, where it      *)
(* started (`base`), the cursor, the visitor's mask and declines, the events delivered per read, the phase   *)
(* <<name, index>> and what `read` remembers (fields_start, the marker to return to).                        *)
InitState(file, M, D) ==
    [file |-> file, k |-> 1, base |-> 0, cursor |-> 0, mask |-> M, declines |-> D,
     events |-> [i \in DOMAIN file |-> <<>>], phase |-> <<"start", 0>>, fields_start |-> 0, ret |-> 0, prev |-> 0]

Cls(s) == s.file[s.k]
Log(s, evs) == [s.events EXCEPT ![s.k] = @ \o evs]
Go(s, cur, ph) == [s EXCEPT !.prev = s.cursor, !.cursor = cur, !.phase = ph]

ReadHeader(s) == Go(s, s.cursor + Cls(s).hdr, <<"header", 0>>)                        \* magic, minor, major
ReadPool(s) == Go(s, s.cursor + Cls(s).pool + Cls(s).mid, <<"pool", 0>>)              \* pool; access, this, super, interfaces
(* remember fields_start, skip fields and methods, then ask the visitor *)
SkipMembers(s) ==
    LET c == Cls(s)
        after == s.cursor + MembersSize(c.fields) + MembersSize(c.methods)
        t == [Go(s, after, <<"x", 0>>) EXCEPT !.fields_start = s.cursor,
                                              !.events = Log(s, <<Ev("multi", "visit_class", s.k, "", 0, "", "")>>)]
    IN IF s.k \in s.declines.classes THEN [t EXCEPT !.phase = <<"declined", 0>>]
       ELSE [t EXCEPT !.cursor = after + 2, !.phase = <<"cattr", 1>>]                  \* attributes_count
ClassAttr(s) ==
    LET i == s.phase[2]
        r == ReadClassAttr(Cls(s).attrs[i], s.mask, s.declines, s.k, s.cursor)
    IN [Go(s, r.cur, <<"cattr", i + 1>>) EXCEPT !.events = Log(s, r.evs)]
(* ControlFlow::Break of visit_class *)
SkipClassAttrs(s) == Go(s, SkipAttributes(Cls(s).attrs, s.cursor), <<"classdone", 0>>)
(* after the last class attribute: deprecated/synthetic, then with_pos(fields_start): remember where we are, seek back *)
SeekBack(s) ==
    [Go(s, s.fields_start + 2, <<"field", 1>>) EXCEPT                                   \* fields_count
        !.ret = s.cursor, !.events = Log(s, DepSyn("class", s.k, "", 0))]
Field(s) ==
    LET i == s.phase[2]
        r == ReadMember("f", Cls(s).fields[i], i, s.mask, s.declines, s.k, s.cursor)
    IN [Go(s, r.cur, <<"field", i + 1>>) EXCEPT !.events = Log(s, r.evs)]
MethodsCount(s) == Go(s, s.cursor + 2, <<"method", 1>>)
Method(s) ==
    LET i == s.phase[2]
        r == ReadMember("m", Cls(s).methods[i], i, s.mask, s.declines, s.k, s.cursor)
    IN [Go(s, r.cur, <<"method", i + 1>>) EXCEPT !.events = Log(s, r.evs)]
(* finish_class, then with_pos returns to the marker: the end of this class file *)
Finish(s) ==
    [Go(s, s.ret, <<"classdone", 0>>) EXCEPT !.events = Log(s, <<Ev("multi", "finish_class", s.k, "", 0, "", "")>>)]
(* the next call of read_class_multi on the same stream *)
NextClass(s) ==
    IF s.k = Len(s.file) THEN [s EXCEPT !.phase = <<"done", 0>>]
    ELSE [s EXCEPT !.k = s.k + 1, !.base = s.cursor, !.prev = s.cursor, !.phase = <<"start", 0>>]

Step(s) ==
    LET p == s.phase[1]
        i == s.phase[2]
        c == Cls(s)
    IN CASE p = "start" -> ReadHeader(s)
         [] p = "header" -> ReadPool(s)
         [] p = "pool" -> SkipMembers(s)
         [] p = "declined" -> SkipClassAttrs(s)
         [] p = "cattr" -> IF i <= Len(c.attrs) THEN ClassAttr(s) ELSE SeekBack(s)
         [] p = "field" -> IF i <= Len(c.fields) THEN Field(s) ELSE MethodsCount(s)
         [] p = "method" -> IF i <= Len(c.methods) THEN Method(s) ELSE Finish(s)
         [] p = "classdone" -> NextClass(s)
         [] OTHER -> s

RECURSIVE RunFrom(_)
RunFrom(s) == IF s.phase[1] = "done" THEN s ELSE RunFrom(Step(s))
Run(file, M, D) == RunFrom(InitState(file, M, D))

(* events of the full read of one class, as class number k of a stream *)
FullEvents(c, k) == Renumber(Run(<<c>>, MaskAll, NoDeclines).events[1], k)

---------------------------------------------------------------------------
(* Laws of the machine, state by state.                                     *)
Base(s) == SumSeq([j \in 1..(s.k - 1) |-> FileLen(s.file[j])])

(* where the layout says the phase starts *)
ExpectedOffset(s) ==
    LET c == Cls(s)
        p == s.phase[1]
        i == s.phase[2]
    IN Base(s) +
       CASE p = "start" -> 0
         [] p = "header" -> c.hdr
         [] p = "pool" -> OffMembers(c)
         [] p = "declined" -> OffClassAttrs(c)
         [] p = "cattr" -> OffClassAttr(c, i)
         [] p = "field" -> OffField(c, i)
         [] p = "method" -> OffMethod(c, i)
         [] p \in {"classdone", "done"} -> FileLen(c)

(* every phase finds the cursor where the layout puts its item: nothing skipped or declined before disturbs it *)
LawAligned(s) == s.cursor = ExpectedOffset(s) /\ s.base = Base(s)
(* the cursor never leaves the class file being read *)
LawInClass(s) == s.base <= s.cursor /\ s.cursor <= s.base + FileLen(Cls(s))
(* the only backward move is the seek back to the members *)
LawForward(s) == s.cursor >= s.prev \/ s.phase = <<"field", 1>>
(* after the k-th read: exactly the bytes of k class files are consumed, the k-th read delivered class k, as the filter of its full read *)
LawReadDone(s) ==
    s.phase[1] \in {"classdone", "done"} =>
        /\ s.cursor = SumSeq([j \in 1..s.k |-> FileLen(s.file[j])])
        /\ \A j \in 1..s.k : Items(s.events[j]) = Items(Filter(FullEvents(s.file[j], j), s.mask, s.declines))
        /\ \A j \in (s.k + 1)..Len(s.file) : s.events[j] = <<>>

---------------------------------------------------------------------------
(* Replay: ClassFile::accept.  The in-memory class is what the full read built; accept walks it in its own   *)
(* fixed order, asks the same interests, and leaves out what is declined.                                    *)
Named(as, name) == SelectSeq(as, LAMBDA a : a.name = name)
AcceptOrder ==
    [class |-> <<"InnerClasses", "EnclosingMethod", "Signature", "SourceFile", "SourceDebugExtension",
                 "RuntimeVisibleAnnotations", "RuntimeInvisibleAnnotations", "RuntimeVisibleTypeAnnotations",
                 "RuntimeInvisibleTypeAnnotations", "Module", "ModulePackages", "ModuleMainClass", "NestHost",
                 "NestMembers", "PermittedSubclasses", "Record">>,
     field |-> <<"ConstantValue", "Signature", "RuntimeVisibleAnnotations", "RuntimeInvisibleAnnotations",
                 "RuntimeVisibleTypeAnnotations", "RuntimeInvisibleTypeAnnotations">>,
     method |-> <<"Code", "Exceptions", "Signature", "RuntimeVisibleAnnotations", "RuntimeInvisibleAnnotations",
                  "RuntimeVisibleTypeAnnotations", "RuntimeInvisibleTypeAnnotations", "AnnotationDefault", "MethodParameters">>,
     rc |-> <<"Signature", "RuntimeVisibleAnnotations", "RuntimeInvisibleAnnotations",
              "RuntimeVisibleTypeAnnotations", "RuntimeInvisibleTypeAnnotations">>,
     code |-> <<"RuntimeVisibleTypeAnnotations", "RuntimeInvisibleTypeAnnotations">>]

IsUnknown(lvl, a) == Treat(lvl, a.name)[3] = "visit_unknown_attribute"
Unknowns(lvl, as) == SelectSeq(as, LAMBDA a : IsUnknown(lvl, a))

AcceptCode(a, M, c, mi) ==
    LET has(kind) == \E j \in DOMAIN a.sub : Treat("code", a.sub[j].name)[1] = kind
        hasName(n) == \E j \in DOMAIN a.sub : a.sub[j].name = n
        insns == [i \in 1..CodeInsns |-> Ev("code", "visit_instruction", c, "m", mi, "",
                                            IF has("frames") /\ M.code.stack_map_table /\ i = 1 THEN FrameDigest ELSE "")]
        annos == Flatten([j \in DOMAIN AcceptOrder.code |->
                    IF Named(a.sub, AcceptOrder.code[j]) # <<>> /\ M.code[Treat("code", AcceptOrder.code[j])[2]]
                    THEN DeliverEvents("code", Treat("code", AcceptOrder.code[j]), c, "m", mi) ELSE <<>>])
        unk == IF M.code.unknown_attributes
               THEN Flatten([j \in DOMAIN Unknowns("code", a.sub) |-> DeliverEvents("code", Treat("code", Unknowns("code", a.sub)[j].name), c, "m", mi)])
               ELSE <<>>
    IN <<Ev("code", "visit_max_stack_and_max_locals", c, "m", mi, "", "")>> \o insns
       \o <<Ev("code", "visit_exception_table", c, "m", mi, "", "")>>
       \o (IF a.excend \/ \E j \in DOMAIN a.sub : a.sub[j].endref THEN <<Ev("code", "visit_last_label", c, "m", mi, "", "")>> ELSE <<>>)
       \o (IF has("lines") /\ M.code.line_number_table THEN <<Ev("code", "visit_line_numbers", c, "m", mi, "", "")>> ELSE <<>>)
       \o (LET t == hasName("LocalVariableTable") /\ M.code.local_variable_table          \* rows of a table the visitor did not
                y == hasName("LocalVariableTypeTable") /\ M.code.local_variable_type_table  \* ask for are not replayed either
            IN IF t \/ y THEN <<Ev("code", "visit_local_variables", c, "m", mi, LvKinds(t, y), "")>> ELSE <<>>)
       \o annos \o unk

AcceptAttrs(lvl, as, M, D, c, mk, mi) ==
    LET one(name) ==
          IF Named(as, name) = <<>> THEN <<>>
          ELSE LET t == Treat(lvl, name) IN
               IF t[1] = "code" THEN
                    IF ~M.method.code THEN <<>>
                    ELSE IF mi \in D.codes THEN <<Ev("method", "visit_code", c, mk, mi, "", "")>>
                    ELSE <<Ev("method", "visit_code", c, mk, mi, "", "")>> \o AcceptCode(Named(as, name)[1], M, c, mi)
                         \o <<Ev("method", "finish_code", c, mk, mi, "", "")>>
               ELSE IF t[1] \in {"simple", "pair"} /\ M[lvl][t[2]] THEN DeliverEvents(lvl, t, c, mk, mi)
               ELSE <<>>
        known == Flatten([j \in DOMAIN AcceptOrder[lvl] |-> one(AcceptOrder[lvl][j])])
        unk == IF M[lvl].unknown_attributes
               THEN Flatten([j \in DOMAIN Unknowns(lvl, as) |-> DeliverEvents(lvl, Treat(lvl, Unknowns(lvl, as)[j].name), c, mk, mi)])
               ELSE <<>>
    IN known \o unk

AcceptMember(mk, m, i, M, D, c) ==
    LET lvl == IF mk = "f" THEN "field" ELSE "method"
        open == Ev("class", IF mk = "f" THEN "visit_field" ELSE "visit_method", c, mk, i, "", "")
        close == Ev("class", IF mk = "f" THEN "finish_field" ELSE "finish_method", c, mk, i, "", "")
        declined == IF mk = "f" THEN i \in D.fields ELSE i \in D.methods
    IN IF declined THEN <<open>>
       ELSE <<open>> \o DepSyn(lvl, c, mk, i) \o AcceptAttrs(lvl, m.attrs, MemberMask(M, i), D, c, mk, i) \o <<close>>

AcceptComponent(comp, i, M, D, c) ==
    IF i \in D.rcs THEN <<Ev("class", "visit_record_component", c, "r", i, "", "")>>
    ELSE <<Ev("class", "visit_record_component", c, "r", i, "", "")>> \o AcceptAttrs("rc", comp.attrs, MemberMask(M, i), D, c, "r", i)
         \o <<Ev("class", "finish_record_component", c, "r", i, "", "")>>

AcceptEvents(c, M, D, k) ==
    IF k \in D.classes THEN <<Ev("multi", "visit_class", k, "", 0, "", "")>>
    ELSE LET one(name) ==
               IF Named(c.attrs, name) = <<>> THEN <<>>
               ELSE LET t == Treat("class", name) IN
                    IF t[1] = "record" THEN
                         IF M.class.record
                         THEN Flatten([j \in DOMAIN Named(c.attrs, name)[1].sub |-> AcceptComponent(Named(c.attrs, name)[1].sub[j], j, M, D, k)])
                         ELSE <<>>
                    ELSE IF M.class[t[2]] THEN DeliverEvents("class", t, k, "", 0) ELSE <<>>
             known == Flatten([j \in DOMAIN AcceptOrder.class |-> one(AcceptOrder.class[j])])
             unk == IF M.class.unknown_attributes
                    THEN Flatten([j \in DOMAIN Unknowns("class", c.attrs) |->
                                    DeliverEvents("class", Treat("class", Unknowns("class", c.attrs)[j].name), k, "", 0)])
                    ELSE <<>>
             fs == IF M.class.fields THEN Flatten([j \in DOMAIN c.fields |-> AcceptMember("f", c.fields[j], j, M, D, k)]) ELSE <<>>
             ms == IF M.class.methods THEN Flatten([j \in DOMAIN c.methods |-> AcceptMember("m", c.methods[j], j, M, D, k)]) ELSE <<>>
         IN <<Ev("multi", "visit_class", k, "", 0, "", "")>> \o DepSyn("class", k, "", 0) \o known \o unk \o fs \o ms
            \o <<Ev("multi", "finish_class", k, "", 0, "", "")>>

---------------------------------------------------------------------------
(* Independence.  Two events of one stream have a FIXED relative order in both paths (reading bytes and       *)
(* replaying a tree) iff                                                                                     *)
(*   (a) one opens or closes a scope (class, field, method, code, record component) the other lies in;       *)
(*   (b) they lie in different sections of the class: attributes (with record components) < fields < methods; *)
(*   (c) they belong to different members of the same kind (members keep their order), or                    *)
(*   (d) they lie directly in the same scope and belong to the same slot of it: the same attribute kind and  *)
(*       visibility (a visit_/finish_ pair; the list of unknown attributes), the instruction list with the   *)
(*       label behind it.                                                                                    *)
(* All other pairs are independent: they fill different slots of whatever the visitor builds, and the two    *)
(* paths deliver them in different orders (file order of the attributes vs. the fixed order of accept;       *)
(* visit_deprecated_and_synthetic_attribute after vs. before the attributes; code attributes before vs.      *)
(* after the instructions; exception table after vs. before the last label).                                 *)
Group(e) ==
    CASE e.lvl = "multi" -> "scope"
      [] e.lvl = "class" /\ e.mk # "" -> "members"
      [] e.lvl = "method" /\ e.ev \in {"visit_code", "finish_code"} -> "code"
      [] e.lvl = "code" /\ e.ev \in {"visit_instruction", "visit_last_label"} -> "insns"
      [] e.ev \in {"visit_annotations", "finish_annotations"} -> "annotations" \o e.vis
      [] e.ev \in {"visit_type_annotations", "finish_type_annotations"} -> "type_annotations" \o e.vis
      [] e.ev \in {"visit_annotation_default", "finish_annotation_default"} -> "annotation_default"
      [] OTHER -> e.ev
(* the slot an event fills: (class, scope it lies directly in, group) *)
Slot(e) ==
    CASE e.lvl = "multi" -> <<e.c, "stream", "", 0, "scope">>
      [] e.lvl = "class" /\ e.mk # "" -> <<e.c, "class", e.mk, 0, "members">>
      [] OTHER -> <<e.c, e.lvl, e.mk, e.mi, Group(e)>>

(* (a)-(c): the shape of a stream that both paths guarantee *)
Section(e) ==
    CASE e.lvl = "multi" -> IF e.ev = "visit_class" THEN 0 ELSE 4
      [] e.lvl # "multi" /\ e.mk = "f" -> 2
      [] e.lvl # "multi" /\ e.mk = "m" -> 3
      [] OTHER -> 1
Opens(e)  == e.ev \in {"visit_class", "visit_field", "visit_method", "visit_record_component", "visit_code"}
Closes(e) == e.ev \in {"finish_class", "finish_field", "finish_method", "finish_record_component", "finish_code"}
(* scopes as <<class, member kind, member ordinal, in code>>; <<0, "", 0, 0>> is the stream *)
ScopeOf(e) ==                  \* the scope an event lies directly in
    CASE e.lvl = "multi" -> <<0, "", 0, 0>>
      [] e.lvl = "class" -> <<e.c, "", 0, 0>>
      [] e.lvl = "code" -> <<e.c, "m", e.mi, 1>>
      [] OTHER -> <<e.c, e.mk, e.mi, 0>>
Child(o) ==                    \* the scope an opener opens / a closer closes
    CASE o.lvl = "multi" -> <<o.c, "", 0, 0>>
      [] o.lvl = "class" -> <<o.c, o.mk, o.mi, 0>>
      [] OTHER -> <<o.c, "m", o.mi, 1>>
After(x) == IF Opens(x) THEN Child(x) ELSE ScopeOf(x)
Before(y) == IF Closes(y) THEN Child(y) ELSE ScopeOf(y)
(* (a): every scope is one block between its opener and its closer; a declined item is an opener without block *)
WellNested(es) ==
    \A i \in 1..(Len(es) - 1) :
        \/ After(es[i]) = Before(es[i + 1])
        \/ Opens(es[i]) /\ ScopeOf(es[i]) = Before(es[i + 1])
(* (b), (c): classes, sections and the members of one kind keep their order *)
MembersOf(es, mk) == SelectSeq(es, LAMBDA e : e.lvl # "multi" /\ e.mk = mk)
Sectioned(es) ==
    /\ \A i \in 1..(Len(es) - 1) :
          /\ es[i].c <= es[i + 1].c
          /\ es[i].c = es[i + 1].c => Section(es[i]) <= Section(es[i + 1])
    /\ \A mk \in {"f", "m", "r"} :
          LET ms == MembersOf(es, mk) IN
          \A i \in 1..(Len(ms) - 1) : ms[i].c = ms[i + 1].c => ms[i].mi <= ms[i + 1].mi
Shaped(es) == WellNested(es) /\ Sectioned(es)

(* (d): what a visitor that stores every item in its slot ends up with *)
RECURSIVE BuildInto(_, _, _)
BuildInto(f, es, i) == IF i > Len(es) THEN f ELSE BuildInto([f EXCEPT ![Slot(es[i])] = Append(@, es[i])], es, i + 1)
Built(es) == BuildInto([slot \in {Slot(es[i]) : i \in DOMAIN es} |-> <<>>], es, 1)
(* slot by slot the two streams agree (so every event of one is an event of the other) *)
SameSlots(a, b) == Built(a) = Built(b)

SameUpToCommutation(a, b) == Shaped(a) /\ Shaped(b) /\ SameSlots(a, b)

(* The replay law needs a class the tree can hold: at most one attribute per slot and no empty annotation list  *)
(* (the tree merges repeated annotation attributes and cannot tell an empty one from an absent one).            *)
Replayable(es) ==
    /\ \A i \in DOMAIN es : es[i].ev \in {"finish_annotations", "finish_type_annotations"} => es[i].n > 0
    /\ LET B == Built(es) IN
       \A slot \in DOMAIN B :
          \/ slot[5] \in {"scope", "members", "insns", "visit_unknown_attribute"}
          \/ \A i \in DOMAIN B[slot] : \A j \in (i + 1)..Len(B[slot]) : B[slot][i].ev # B[slot][j].ev
=============================================================================
