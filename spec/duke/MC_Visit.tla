------------------------------ MODULE MC_Visit ------------------------------
(***************************************************************************)
(* Bounded instance for C17.  Cases are drawn in four Next steps (shape(s), *)
(* mask, consumer + decline choices, then the reader machine of Visit.tla   *)
(* step by step); the laws are checked in every machine state and every     *)
(* finished run is emitted as vectors for the real reader / replay:         *)
(*   mask    one class: all masks of the family x decline subsets           *)
(*   concat  2-3 class files on one stream, one read each                   *)
(*   accept  the replay of the same class into the same visitor             *)
(* A shape is what the harness assembles a real class file from: attribute  *)
(* names per table in FILE ORDER (<= 3 per table, <= 2 fields, <= 2 methods *)
(* with and without Code, Code with nested attributes, record components).  *)
(***************************************************************************)
EXTENDS Visit, Json, SequencesExt

CONSTANT Tier        \* 0 = quick, 1 = thorough

VARIABLES stage, fam, descs, mdesc, consumer, m
vars == <<stage, fam, descs, mdesc, consumer, m>>

---------------------------------------------------------------------------
(* shapes *)
Rot(s, r) == IF Len(s) = 0 THEN s ELSE [i \in DOMAIN s |-> s[((i - 1 + r) % Len(s)) + 1]]
RotDesc(d, r) ==
    [cattrs |-> Rot(d.cattrs, r),
     fields |-> [i \in DOMAIN d.fields |-> Rot(d.fields[i], r)],
     methods |-> [i \in DOMAIN d.methods |-> [attrs |-> Rot(d.methods[i].attrs, r), code |-> Rot(d.methods[i].code, r), excend |-> d.methods[i].excend]],
     rcs |-> [i \in DOMAIN d.rcs |-> Rot(d.rcs[i], r)]]

D1 == [cattrs |-> <<"SourceFile", "BootstrapMethods", "Xa">>,
       fields |-> << <<"ConstantValue", "Deprecated">>, <<>> >>,
       methods |-> << [attrs |-> <<"Code", "Exceptions">>, code |-> <<"LineNumberTable", "StackMapTable">>, excend |-> TRUE],   \* an exception range up to the end of the code
                      [attrs |-> <<"Signature">>, code |-> <<>>, excend |-> FALSE] >>,
       rcs |-> <<>>]
D2 == [cattrs |-> <<"Record", "Signature", "RuntimeVisibleAnnotations">>,
       fields |-> << <<"RuntimeInvisibleAnnotations", "Signature", "Xf">> >>,
       methods |-> << [attrs |-> <<"Xm", "Code", "RuntimeVisibleTypeAnnotations">>,
                       code |-> <<"Xc", "RuntimeInvisibleTypeAnnotations", "LocalVariableTable">>, excend |-> FALSE],
                      [attrs |-> <<"Code", "Synthetic", "AnnotationDefault">>, code |-> <<>>, excend |-> FALSE] >>,
       rcs |-> << <<"Signature", "Xr">>, <<>> >>]
D3 == [cattrs |-> <<>>, fields |-> <<>>, methods |-> <<>>, rcs |-> <<>>]
D4 == [cattrs |-> <<"InnerClasses", "Deprecated", "NestMembers">>,
       fields |-> << <<"Synthetic", "RuntimeVisibleTypeAnnotations">>, <<"Xf">> >>,
       methods |-> << [attrs |-> <<"MethodParameters", "RuntimeVisibleParameterAnnotations", "Code">>,
                       code |-> <<"LocalVariableTypeTable", "LineNumberTable", "Xc">>, excend |-> TRUE] >>,
       rcs |-> <<>>]

D5 == [cattrs |-> <<"NestHost", "RuntimeInvisibleTypeAnnotations", "EnclosingMethod">>,
       fields |-> << <<"RuntimeVisibleAnnotations", "ConstantValue", "Signature">>, <<"Deprecated">> >>,
       methods |-> << [attrs |-> <<"RuntimeInvisibleParameterAnnotations", "Exceptions", "RuntimeInvisibleAnnotations">>, code |-> <<>>, excend |-> FALSE],
                      [attrs |-> <<"Code", "Signature", "Deprecated">>,
                       code |-> <<"StackMapTable", "RuntimeVisibleTypeAnnotations", "LineNumberTable">>, excend |-> FALSE] >>,
       rcs |-> <<>>]
(* both local variable tables in one Code attribute (in every rotation: either table first): the rows of the two tables *)
(* describe the same variables and may share entries in a tree (seed C17-11)                                            *)
D6 == [cattrs |-> <<"SourceFile">>, fields |-> <<>>,
       methods |-> << [attrs |-> <<"Code">>, code |-> <<"LocalVariableTable", "LocalVariableTypeTable", "LineNumberTable">>, excend |-> FALSE] >>,
       rcs |-> <<>>]

LenOf(name) ==
    CASE name \in {"Deprecated", "Synthetic"} -> 0
      [] name \in {"SourceFile", "Signature", "ConstantValue", "NestHost"} -> 2
      [] name \in {"Exceptions", "NestMembers", "PermittedSubclasses", "EnclosingMethod"} -> 4
      [] name = "LineNumberTable" -> 6
      [] name = "StackMapTable" -> 3
      [] name \in {"LocalVariableTable", "LocalVariableTypeTable"} -> 12
      [] name = "BootstrapMethods" -> 8
      [] name = "InnerClasses" -> 10
      [] name = "MethodParameters" -> 5
      [] name = "AnnotationDefault" -> 3
      [] name \in {"RuntimeVisibleAnnotations", "RuntimeInvisibleAnnotations"} -> 11
      [] name \in {"RuntimeVisibleTypeAnnotations", "RuntimeInvisibleTypeAnnotations"} -> 9
      [] name \in {"RuntimeVisibleParameterAnnotations", "RuntimeInvisibleParameterAnnotations"} -> 12
      [] OTHER -> 5
Plain(name) == [name |-> name, len |-> LenOf(name), endref |-> name \in {"LocalVariableTable", "LocalVariableTypeTable"}, sub |-> <<>>, excend |-> FALSE]
Plains(ns) == [i \in DOMAIN ns |-> Plain(ns[i])]
CodeAttr(ns, excend) == [name |-> "Code", len |-> CodePre + (IF excend THEN ExcRow ELSE 0) + AttrsSize(Plains(ns)), endref |-> FALSE, sub |-> Plains(ns), excend |-> excend]
RecordAttr(rcs) ==
    LET comps == [i \in DOMAIN rcs |-> [attrs |-> Plains(rcs[i])]]
    IN [name |-> "Record", len |-> 2 + SumSeq([i \in DOMAIN comps |-> CompSize(comps[i])]), endref |-> FALSE, sub |-> comps, excend |-> FALSE]
(* descriptor -> abstract class file *)
BuildClass(d) ==
    [hdr |-> 8, pool |-> 40, mid |-> 8,
     fields |-> [i \in DOMAIN d.fields |-> [fixed |-> 6, attrs |-> Plains(d.fields[i])]],
     methods |-> [i \in DOMAIN d.methods |->
                    [fixed |-> 6, attrs |-> [j \in DOMAIN d.methods[i].attrs |->
                        IF d.methods[i].attrs[j] = "Code" THEN CodeAttr(d.methods[i].code, d.methods[i].excend) ELSE Plain(d.methods[i].attrs[j])]]],
     attrs |-> [j \in DOMAIN d.cattrs |-> IF d.cattrs[j] = "Record" THEN RecordAttr(d.rcs) ELSE Plain(d.cattrs[j])]]

HasCode(d, i) == \E j \in DOMAIN d.methods[i].attrs : d.methods[i].attrs[j] = "Code"

---------------------------------------------------------------------------
(* masks: the flags that govern something of the shape, one that does not; all / none / one or two flipped *)
RelevantFlags(d) ==
    {<<"class", "fields">>, <<"class", "methods">>, <<"class", "module">>}
    \cup {<<"class", Treat("class", d.cattrs[j])[2]>> : j \in {j \in DOMAIN d.cattrs : Treat("class", d.cattrs[j])[2] # ""}}
    \cup UNION {{<<"field", Treat("field", d.fields[i][j])[2]>> : j \in {j \in DOMAIN d.fields[i] : Treat("field", d.fields[i][j])[2] # ""}} : i \in DOMAIN d.fields}
    \cup UNION {{<<"method", Treat("method", d.methods[i].attrs[j])[2]>> : j \in {j \in DOMAIN d.methods[i].attrs : Treat("method", d.methods[i].attrs[j])[2] # ""}} : i \in DOMAIN d.methods}
    \cup UNION {{<<"code", Treat("code", d.methods[i].code[j])[2]>> : j \in DOMAIN d.methods[i].code} : i \in DOMAIN d.methods}
    \cup UNION {{<<"rc", Treat("rc", d.rcs[i][j])[2]>> : j \in DOMAIN d.rcs[i]} : i \in DOMAIN d.rcs}

MDesc(base, flip) == [base |-> base, flip |-> flip, alt |-> {}]
(* alt: {} or {[base, flip]}: the mask of the visitors of the members with an even ordinal *)
MDescAlt(base, flip, abase, aflip) == [base |-> base, flip |-> flip, alt |-> {[base |-> abase, flip |-> aflip]}]
MaskOfDesc(md) ==
    IF md.alt = {} THEN MaskFlip(md.base = "all", md.flip)
    ELSE LET a == CHOOSE a \in md.alt : TRUE IN WithAlt(MaskFlip(md.base = "all", md.flip), MaskFlip(a.base = "all", a.flip))
(* member visitors with different interests: the first member all / the second nothing and the other way round, and one  *)
(* flag of a member level (of the shape) differing between them, in both directions                                      *)
MemberFlags(d) == {x \in RelevantFlags(d) : x[1] # "class"}
Alts(d) == {MDescAlt("all", {}, "none", {}), MDescAlt("none", {<<"class", "fields">>, <<"class", "methods">>, <<"class", "record">>}, "all", {}),
            MDescAlt("all", {}, "none", {<<"method", "code">>}), MDescAlt("none", {<<"class", "methods">>, <<"method", "code">>}, "all", {})}
           \cup {MDescAlt("all", {}, "all", {x}) : x \in MemberFlags(d)} \cup {MDescAlt("all", {x}, "all", {}) : x \in MemberFlags(d)}
Singles(d) == {MDesc(b, {x}) : b \in {"all", "none"}, x \in RelevantFlags(d)}
Pairs(d, bases) == {MDesc(b, {x, y}) : b \in bases, x \in RelevantFlags(d), y \in RelevantFlags(d)}   \* x = y gives a single again
Plainest == {MDesc("all", {}), MDesc("none", {})}

---------------------------------------------------------------------------
(* decline choices *)
Atoms(d) ==
    {<<"classes", 1>>}
    \cup {<<"fields", i>> : i \in DOMAIN d.fields} \cup {<<"methods", i>> : i \in DOMAIN d.methods}
    \cup {<<"codes", i>> : i \in {i \in DOMAIN d.methods : HasCode(d, i)}} \cup {<<"rcs", i>> : i \in DOMAIN d.rcs}
DeclOf(S) == [k \in {"classes", "fields", "methods", "codes", "rcs"} |-> {a[2] : a \in {a \in S : a[1] = k}}]
AllDeclines(d) == {DeclOf(S) : S \in SUBSET Atoms(d)}
FewDeclines(d) == {DeclOf(S) : S \in {S \in SUBSET Atoms(d) : Cardinality(S) <= 2 \/ S = Atoms(d)}}
OneDeclines(d) == {DeclOf(S) : S \in {S \in SUBSET Atoms(d) : Cardinality(S) <= 1}}

---------------------------------------------------------------------------
Dummy == InitState(<<>>, MaskAll, NoDeclines)

Init == stage = "shape" /\ fam = "" /\ descs = <<>> /\ mdesc = MDesc("all", {}) /\ consumer = "" /\ m = Dummy

MaskShapes == IF Tier = 0 THEN {RotDesc(D1, r) : r \in 0..2} \cup {RotDesc(D2, r) : r \in 0..2} \cup {RotDesc(D6, r) : r \in 0..1}
              ELSE {RotDesc(d, r) : d \in {D1, D2, D4, D5, D6}, r \in 0..2}
ConcatShapes == {D1, RotDesc(D2, 1), D3}
Streams == IF Tier = 0 THEN {<<a, b>> : a \in ConcatShapes, b \in ConcatShapes} \cup {<<D3, D1, RotDesc(D2, 1)>>, <<D1, D1, D3>>}
           ELSE {<<a, b>> : a \in ConcatShapes, b \in ConcatShapes} \cup {<<a, b, c>> : a \in ConcatShapes, b \in ConcatShapes, c \in ConcatShapes}

PickShape ==
    /\ stage = "shape"
    /\ \/ \E d \in MaskShapes : descs' = <<d>> /\ fam' = "mask"
       \/ \E ds \in Streams : descs' = ds /\ fam' = "concat"
    /\ stage' = "mask"
    /\ UNCHANGED <<mdesc, consumer, m>>

PickMask ==
    /\ stage = "mask"
    /\ \E md \in (IF fam = "mask" THEN Plainest \cup Singles(descs[1]) \cup Pairs(descs[1], IF Tier = 0 THEN {"all"} ELSE {"all", "none"})
                                         \cup {MDesc("none", {<<"class", "methods">>, <<"method", "code">>})}      \* the code and nothing optional of it
                                         \cup Alts(descs[1])
                  ELSE Plainest \cup {MDesc("all", {<<"method", "code">>}), MDesc("none", {<<"class", "fields">>, <<"class", "methods">>})}) :
          mdesc' = md
    /\ stage' = "decl"
    /\ UNCHANGED <<fam, descs, consumer, m>>

(* the consumer and what it declines; `()` and SimpleClassVisitor come with their own interests *)
Consumers == IF fam = "mask" /\ (Cardinality(mdesc.flip) > 0 \/ mdesc.alt # {}) THEN {"rec"} ELSE {"rec", "simple", "unit"}
DeclChoices(co) ==
    IF co = "unit" THEN {NoDeclines}
    ELSE IF fam = "mask"
    THEN (IF Cardinality(mdesc.flip) <= 1 /\ mdesc.alt = {} THEN (IF Tier = 0 THEN FewDeclines(descs[1]) ELSE AllDeclines(descs[1]))
          ELSE (IF Tier = 0 THEN OneDeclines(descs[1]) ELSE FewDeclines(descs[1])))
    ELSE {[classes |-> cs, fields |-> {}, methods |-> ms, codes |-> ks, rcs |-> {}] :
             cs \in SUBSET (1..Len(descs)), ms \in {{}, {1}}, ks \in (IF co = "rec" THEN {{}, {1}} ELSE {{}})}
PickDeclines ==
    /\ stage = "decl"
    /\ \E co \in Consumers : \E D \in DeclChoices(co) :
          /\ consumer' = co
          /\ m' = InitState([i \in DOMAIN descs |-> BuildClass(descs[i])],
                            IF co = "unit" THEN MaskAll ELSE ConsumerMask(co, MaskOfDesc(mdesc)), D)
    /\ stage' = "run"
    /\ UNCHANGED <<fam, descs, mdesc>>

RunStep ==
    /\ stage = "run" /\ m.phase[1] # "done"
    /\ m' = Step(m)
    /\ UNCHANGED <<stage, fam, descs, mdesc, consumer>>

Next == PickShape \/ PickMask \/ PickDeclines \/ RunStep
Spec == Init /\ [][Next]_vars

---------------------------------------------------------------------------
Running == stage = "run"
Done == Running /\ m.phase[1] = "done"

InvWellFormed == Running => \A i \in DOMAIN m.file : WellFormed(m.file[i])
InvAligned == Running => LawAligned(m)
InvInClass == Running => LawInClass(m)
InvForward == Running => LawForward(m)
InvReadDone == Running => LawReadDone(m)
(* the replay of the class into the same visitor: same events up to commutation, hence the same thing built *)
InvReplay ==
    (Done /\ consumer = "rec") =>
        \A k \in DOMAIN m.file :
            LET a == Items(AcceptEvents(m.file[k], m.mask, m.declines, k))
                r == Items(m.events[k])
            IN SameUpToCommutation(a, r) /\ Built(a) = Built(r)
(* filtering twice is filtering once; the full mask filters nothing *)
InvFilter ==
    Done => \A k \in DOMAIN m.file :
              /\ Filter(m.events[k], m.mask, m.declines) = m.events[k]
              /\ Items(Items(m.events[k])) = Items(m.events[k])
              /\ Filter(FullEvents(m.file[k], k), MaskAll, NoDeclines) = FullEvents(m.file[k], k)

---------------------------------------------------------------------------
(* vectors *)
SetSeq(S) == SetToSortSeq(S, <)
DJson(D) == [classes |-> SetSeq(D.classes), fields |-> SetSeq(D.fields), methods |-> SetSeq(D.methods),
             codes |-> SetSeq(D.codes), rcs |-> SetSeq(D.rcs)]
MJson(md) == IF md.alt = {} THEN [base |-> md.base, flip |-> SetToSeq(md.flip)]
             ELSE LET a == CHOOSE a \in md.alt : TRUE IN [base |-> md.base, flip |-> SetToSeq(md.flip), alt |-> [base |-> a.base, flip |-> SetToSeq(a.flip)]]
Observed(k) == Items(ConsumerView(consumer, m.events[k]))

Emit ==
    /\ (Done /\ fam = "mask") =>
          PrintT(ToJson([op |-> "mask", cls |-> [shape |-> descs[1]], mask |-> MJson(mdesc), declines |-> DJson(m.declines),
                         consumer |-> consumer,
                         exp |-> [skeleton |-> Skel(Observed(1)), masked |-> [ok |-> TRUE, rest |-> 0]]]))
    /\ (Done /\ fam = "mask" /\ consumer = "rec") =>
          PrintT(ToJson([op |-> "accept", cls |-> [shape |-> descs[1]], mask |-> MJson(mdesc), declines |-> DJson(m.declines),
                         exp |-> [replay |-> [ok |-> TRUE, skeleton |-> Skel(Items(AcceptEvents(m.file[1], m.mask, m.declines, 1)))],
                                  \* a tree in which the rows of both local variable tables share their entries (edited in memory) replays alike
                                  merged |-> [ok |-> TRUE, skeleton |-> Skel(Items(AcceptEvents(m.file[1], m.mask, m.declines, 1)))],
                                  tree_equal |-> TRUE]]))
    /\ (Done /\ fam = "concat") =>
          PrintT(ToJson([op |-> "concat", classes |-> [i \in DOMAIN descs |-> [shape |-> descs[i]]], mask |-> MJson(mdesc),
                         declines |-> DJson(m.declines), consumer |-> consumer,
                         exp |-> [oks |-> [i \in DOMAIN descs |-> TRUE], behinds |-> [i \in DOMAIN descs |-> 0],
                                  skeletons |-> [i \in DOMAIN descs |-> Skel(Observed(i))]]]))
=============================================================================
