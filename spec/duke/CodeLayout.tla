----------------------------- MODULE CodeLayout -----------------------------
(***************************************************************************)
(* C02, part 1: the branch-offset fixpoint of duke's `write_code`          *)
(* (duke/src/simple_class_writer.rs: write_code, if_helper, goto_helper,   *)
(* switch_helper, align_to_4_byte_boundary, compute_signed_offset).        *)
(*                                                                         *)
(* A method body is a list of ITEMS; what matters of an item is its size   *)
(* in bytes and the items it designates:                                   *)
(*    [k |-> "pad",  n |-> N, t |-> <<>>]     N bytes of other instructions *)
(*    [k |-> "grow", n |-> 3, t |-> <<>>]     an `ldc` written as `ldc_w`   *)
(*    [k |-> "if" | "goto" | "jsr", n |-> 0, t |-> <<target>>]              *)
(*    [k |-> "tsw" | "lsw", n |-> 0, t |-> <<default, arm, ...>>]           *)
(* Targets are item indices 1..Len(items) (the first instruction of the    *)
(* item).  The module is written twice:                                    *)
(*   - OPERATIONALLY, as the code is built: one attempt emits the items in *)
(*     order (Emit / EmitSwitch), backward jumps are decided on the spot,  *)
(*     forward jumps reserve narrow or wide space according to `wide`;     *)
(*     after the last item the reserved places are patched (Resolve) or    *)
(*     the instruction is marked wide and everything restarts; Finish      *)
(*     applies the code_length check.  Arithmetic is explicit: a value     *)
(*     the code keeps in a u16 that leaves 0..65535 is either a clean      *)
(*     `Err` (u16::try_from) or an OVERFLOW (`opcode_pos + 1 + 2` on u16:  *)
(*     a panic with overflow checks, a wrap-around without).               *)
(*   - DECLARATIVELY (module CodeLayoutLaw): Offs(its, W) is THE layout in *)
(*     which exactly the jumps in W have the long form; ValidW says every  *)
(*     short jump fits 16 bits; RealLayoutOK states the property about a   *)
(*     concrete layout; LayoutCorrect below applies it to the design.      *)
(***************************************************************************)
EXTENDS CodeLayoutLaw

-----------------------------------------------------------------------------
(***************************** operational part ****************************)

VARIABLES items,      \* the method body (fixed during a run)
          pc,         \* "emit" | "resolve" | "done"
          attempt,    \* number of the current attempt, from 1
          wide,       \* item indices marked wide: grows across attempts
          pos,        \* w.len(): bytes emitted in this attempt
          nxt,        \* next item to emit
          offsetOf,   \* labels of this attempt: offset of every emitted item
          unresolved, \* forward references waiting for their label
          out,        \* emitted layout: per item [off, len, form, base, enc, pad, skip]
          result      \* "" | "ok" | "err" | "overflow"
vars == <<items, pc, attempt, wide, pos, nxt, offsetOf, unresolved, out, result>>

Start(its) ==
    /\ items = its /\ pc = "emit" /\ attempt = 1 /\ wide = {} /\ pos = 0 /\ nxt = 1
    /\ offsetOf = <<>> /\ unresolved = <<>> /\ out = <<>> /\ result = ""

Stop(r) ==
    /\ pc' = "done" /\ result' = r
    /\ UNCHANGED <<items, attempt, wide, pos, nxt, offsetOf, unresolved, out>>

Rec(len, form, base, enc, pd, skip, unres, ovf) ==
    [len |-> len, form |-> form, base |-> base, enc |-> enc, pad |-> pd, skip |-> skip, unres |-> unres, ovf |-> ovf]
Unres(i, s, base, w, t) == [idx |-> i, slot |-> s, base |-> base, wide |-> w, t |-> t]
Ovf == Rec(0, "plain", 0, <<>>, 0, 0, <<>>, TRUE)

(* if_helper / goto_helper for item i at opcode_pos p; offs are the labels *)
(* known now (the label of item i itself is already registered, so a jump  *)
(* to itself is a backward jump of distance 0)                             *)
JumpEmit(i, it, p, offs, w) ==
    LET t == it.t[1] IN
    IF t <= i THEN
        LET br == offs[t] - p IN                      \* compute_signed_offset: i32, cannot overflow
        IF InI16(br) THEN Rec(3, "narrow", p, <<br>>, 0, 0, <<>>, FALSE)
        ELSE IF it.k = "if" THEN
            (* `compute_signed_offset(opcode_pos + 1 + 2, target)`: the sum is a u16 *)
            IF p + 3 > U16MAX THEN Ovf
            ELSE Rec(8, "tramp", p + 3, <<offs[t] - (p + 3)>>, 0, p + 8, <<>>, FALSE)
        ELSE Rec(5, "wide", p, <<br>>, 0, 0, <<>>, FALSE)
    ELSE IF i \in w THEN
        IF it.k = "if" THEN
            (* `opcode_pos: opcode_pos + 1 + 2` in the UnwrittenLabel: a u16 sum again *)
            IF p + 3 > U16MAX THEN Ovf
            ELSE Rec(8, "tramp", p + 3, <<PH32>>, 0, p + 8, <<Unres(i, 1, p + 3, TRUE, t)>>, FALSE)
        ELSE Rec(5, "wide", p, <<PH32>>, 0, 0, <<Unres(i, 1, p, TRUE, t)>>, FALSE)
    ELSE Rec(3, "narrow", p, <<PH16>>, 0, 0, <<Unres(i, 1, p, FALSE, t)>>, FALSE)

(* switch_helper: every target is an i32 relative to the opcode *)
SwitchEmit(i, it, p, offs) ==
    LET pd  == (4 - ((p + 1) % 4)) % 4            \* align_to_4_byte_boundary on w.len() after the opcode
        enc == [s \in 1..Len(it.t) |-> IF it.t[s] <= i THEN offs[it.t[s]] - p ELSE PH32]
        slots == SelectSeq([s \in 1..Len(it.t) |-> s], LAMBDA s : it.t[s] > i)
        unres == [j \in 1..Len(slots) |-> Unres(i, slots[j], p, TRUE, it.t[slots[j]])]
    IN Rec(1 + pd + SwitchBody(it), "switch", p, enc, pd, 0, unres, FALSE)

Push(e) ==
    /\ offsetOf' = Append(offsetOf, pos)
    /\ out' = Append(out, [off |-> pos, len |-> e.len, form |-> e.form, base |-> e.base, enc |-> e.enc,
                           pad |-> e.pad, skip |-> e.skip])
    /\ unresolved' = unresolved \o e.unres
    /\ pos' = pos + e.len
    /\ nxt' = nxt + 1
    /\ pc' = IF nxt = Len(items) THEN "resolve" ELSE "emit"
    /\ UNCHANGED <<items, attempt, wide, result>>

(* one iteration of the instruction loop for a non-switch item *)
Emit(i) ==
    /\ pc = "emit" /\ nxt = i /\ ~IsSwitch(items[i])
    /\ IF pos > U16MAX THEN Stop("err")                          \* u16::try_from(w.len())
       ELSE LET it == items[i] IN
            IF IsJump(it) THEN
                LET e == JumpEmit(i, it, pos, Append(offsetOf, pos), wide) IN
                IF e.ovf THEN Stop("overflow") ELSE Push(e)
            (* a pad stands for several instructions, each of which passes the u16   *)
            (* check at its start; with one-byte instructions the last one starts at *)
            (* pos + n - 1.  (Whichever instruction trips the check, or the           *)
            (* code_length check at the end: the outcome is the same clean error.)    *)
            ELSE IF it.k = "pad" /\ pos + it.n - 1 > U16MAX THEN Stop("err")
            ELSE Push(Rec(it.n, "plain", pos, <<>>, 0, 0, <<>>, FALSE))

EmitSwitch(i) ==
    /\ pc = "emit" /\ nxt = i /\ IsSwitch(items[i])
    /\ IF pos > U16MAX THEN Stop("err")
       ELSE Push(SwitchEmit(i, items[i], pos, Append(offsetOf, pos)))

(* the loop over `unwritten` after the last instruction *)
Resolve(u) ==
    /\ pc = "resolve" /\ unresolved # <<>> /\ u = Head(unresolved)
    /\ LET br == offsetOf[u.t] - u.base IN
       IF u.wide \/ InI16(br)
       THEN /\ out' = [out EXCEPT ![u.idx].enc[u.slot] = br]
            /\ unresolved' = Tail(unresolved)
            /\ UNCHANGED <<items, pc, attempt, wide, pos, nxt, offsetOf, result>>
       ELSE (* does not fit the reserved place: mark wide, next attempt *)
            /\ wide' = wide \cup {u.idx}
            /\ attempt' = attempt + 1
            /\ pos' = 0 /\ nxt' = 1 /\ offsetOf' = <<>> /\ unresolved' = <<>> /\ out' = <<>>
            /\ pc' = "emit"
            /\ UNCHANGED <<items, result>>

Finish ==
    /\ pc = "resolve" /\ unresolved = <<>>
    /\ Stop(IF pos = 0 \/ pos > U16MAX THEN "err" ELSE "ok")     \* the code_length check

Step == \/ \E i \in 1..Len(items) : Emit(i) \/ EmitSwitch(i)
        \/ (unresolved # <<>> /\ Resolve(Head(unresolved)))
        \/ Finish

-----------------------------------------------------------------------------
(************************ the design meets the law *************************)

Done == pc = "done"
Decoded(i, s) == out[i].base + out[i].enc[s]

(* the layout the operational part arrived at, in the form RealLayoutOK takes *)
FinalOff  == offsetOf \o <<pos>>
FinalForm == [i \in 1..Len(out) |-> out[i].form]
FinalDec  == [i \in 1..Len(out) |-> [s \in 1..Len(out[i].enc) |-> Decoded(i, s)]]
FinalSkip == [i \in 1..Len(out) |-> out[i].skip]
FinalPad  == [i \in 1..Len(out) |-> out[i].pad]
FinalWide == {i \in 1..Len(out) : out[i].form \in {"wide", "tramp"}}

(* the writer has no instruction to land on behind a trampoline that ends  *)
(* the method: the inverted branch then designates code_length             *)
SkipsPastEnd == \E i \in 1..Len(out) : out[i].form = "tramp" /\ out[i].skip >= pos

LayoutCorrect ==
    (Done /\ result = "ok" /\ ~SkipsPastEnd) =>
        /\ RealLayoutOK(items, FinalOff, FinalForm, FinalDec, FinalSkip, FinalPad)
        /\ \A i \in 1..Len(items) : out[i].off = offsetOf[i]
        (* it is one of the declarative layouts, and a valid one *)
        /\ FinalOff = Offs(items, FinalWide)
        /\ ValidW(items, FinalWide)
        (* exception bounds and table entries are written from the same labels:   *)
        (* labels.try_get(l) = offsetOf[l], the end label = w.len() <= 65535      *)

(* success is possible exactly when some correct layout fits *)
OkOnlyIfFits  == (Done /\ result = "ok" /\ ~SkipsPastEnd) => ExistsFit(items)
(* the design as coded returns a file whose last branch designates no      *)
(* instruction exactly when the last item is an `if` that needs the long   *)
(* form - and then no correct layout exists at all                         *)
SkipPastEndConfined ==
    (Done /\ result = "ok" /\ SkipsPastEnd) =>
        /\ items[Len(items)].k = "if" /\ out[Len(items)].form = "tramp"
        /\ \A i \in 1..(Len(items) - 1) : out[i].form = "tramp" => out[i].skip < pos
        /\ ~ExistsFit(items)
ErrOnlyIfNone == (Done /\ result = "err") => ~ExistsFit(items)
(* the u16 additions leave their range only when no layout fits anyway: with      *)
(* wrap-around the run ends in the clean code_length error, with overflow checks  *)
(* it panics                                                                      *)
OverflowConfined == (Done /\ result = "overflow") => ~ExistsFit(items)

AttemptBound == attempt <= Cardinality(JumpIdx(items)) + 1
WideOnlyJumps == wide \subseteq JumpIdx(items)

WideMonotoneAct == wide \subseteq wide'
=============================================================================
