--------------------------- MODULE MC_JvmsNames ---------------------------
(***************************************************************************)
(* Bounded instance for C18 (names).  One TLC state per case:              *)
(*   grow  - every string over the name alphabet  a . ; [ / < > $ L  up to *)
(*           MaxLen (a state is a string, Next appends one character)      *)
(*   whole - strings the alphabet cannot spell: <init>, <clinit> and their *)
(*           near misses; array class names with a base type, with 254 /   *)
(*           255 / 256 dimensions, with bad element class names            *)
(*   join  - pairs (parent, inner) for from_inner_class                    *)
(* Every string is judged by the seven documented predicates and by Split; *)
(* one vector per (string, predicate) for is_valid / TryFrom, one for      *)
(* split_inner_class_parent_and_name, one per pair for from_inner_class.   *)
(***************************************************************************)
EXTENDS JvmsNames, Json, TLC

CONSTANT Tier        \* 0 = quick, 1 = thorough

VARIABLES fam, s, q
vars == <<fam, s, q>>

Alpha == {"a", ".", ";", "[", "/", "<", ">", "$", "L"}
MaxLen == 5

Whole ==
    {INIT, CLINIT,
     <<"<", "i", "n", "i", "t">>, <<"i", "n", "i", "t", ">">>, <<"i", "n", "i", "t">>,
     <<"<", "i", "n", "i", "t", ">", "a">>, <<"a", "<", "i", "n", "i", "t", ">">>, <<"<", "<", "i", "n", "i", "t", ">">>,
     <<"<", "I", "n", "i", "t", ">">>, <<"<", "c", "l", "i", "n", "i", "t">>, <<"c", "l", "i", "n", "i", "t", ">">>,
     <<"<", "c", "l", "i", "n", "i", "t", ">", ">">>, <<"<", "x", ">">>, <<"<", "i", "n", "i", "t", ">", "/", "a">>,
     <<"[", "I">>, <<"[", "[", "I">>, <<"[", "Z">>, <<"[", "V">>, <<"[", "I", "I">>, <<"I">>, <<"[", "i">>,
     <<"[", "L", "a", "/", "b", ";">>, <<"[", "L", "a", "$", "b", ";">>, <<"[", "L", "a", ";", "I">>,
     <<"[", "[", "L", "a", "/", "/", "b", ";">>, <<"[", "L", "a", ".", "b", ";">>, <<"[", "L", "[", "I", ";">>,
     <<"L", "a", ";">>, <<"(", ")", "V">>, <<"[", "(", ")", "V">>, <<"j", "a", "v", "a", "/", "l", "a", "n", "g", "/", "O">>}
    \cup {Brackets(d) \o t : d \in {254, 255, 256}, t \in {<<"I">>, <<"L", "a", ";">>, <<>>, <<"L", ";">>, <<"V">>}}

JoinParts == {<<>>, <<"a">>, <<"$">>, <<"/">>, <<"[">>, <<"a", "$">>, <<"$", "a">>, <<"a", "/">>, <<"/", "a">>, <<"a", "$", "b">>,
              <<"a", "/", "b">>, <<"a", "/", "b", "$", "c">>, <<"$", "$">>, <<"a", ".", "b">>, <<"[", "I">>, <<"a", ";">>}
             \cup (IF Tier = 0 THEN {} ELSE {<<"a", "/", "$">>, <<"$", "/", "a">>, <<"a", "$", "b", "$", "c">>, <<"a", "/", "b", "/", "c">>})

---------------------------------------------------------------------------
Init == fam = "start" /\ s = <<>> /\ q = <<>>

Grow ==
    /\ fam \in {"start", "grow"}
    /\ Len(s) < MaxLen
    /\ \E c \in Alpha : s' = Append(s, c)
    /\ fam' = "grow"
    /\ UNCHANGED q

PickWhole == fam = "start" /\ fam' = "whole" /\ \E w \in Whole : s' = w /\ UNCHANGED q
PickJoin == fam = "start" /\ fam' = "join" /\ \E p \in JoinParts, i \in JoinParts : s' = p /\ q' = i

Next == Grow \/ PickWhole \/ PickJoin
Spec == Init /\ [][Next]_vars

---------------------------------------------------------------------------
IsString == fam \in {"start", "grow", "whole"}

InvObjIsBinary == IsString => LawObjIsBinary(s)
InvClassForms == IsString => LawClassForms(s)
InvOpSplit == IsString => LawOpSplit(s)
InvJoinSplit == IsString => LawJoinSplit(s)
InvJoinValid == fam = "join" => LawJoinValid(s, q)
InvSplitJoin == fam = "join" => LawSplitJoin(s, q)
(* containments the documentation states: array and object class names are class names; *)
(* a method name other than the two special ones is an unqualified name                  *)
InvContain == IsString => /\ (IsArrClassName(s) \/ IsObjClassName(s)) = IsClassName(s)
                          /\ (IsMethodName(s) /\ s \notin {INIT, CLINIT} => IsUnqualifiedName(s))
                          /\ (IsUnqualifiedName(s) => IsObjClassName(s))

Emit ==
    /\ IsString => /\ \A k \in NameKinds :
                        PrintT(ToJson([op |-> "name:" \o k, s |-> s, fam |-> fam,
                                       exp |-> NameExp(k, s)]))
                   /\ PrintT(ToJson([op |-> "split", s |-> s, fam |-> fam, exp |-> SplitExp(s)]))
    /\ fam = "join" => PrintT(ToJson([op |-> "join", p |-> s, i |-> q, fam |-> fam, exp |-> JoinExp(s, q)]))
=============================================================================
