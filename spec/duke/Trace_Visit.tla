---------------------------- MODULE Trace_Visit ----------------------------
(***************************************************************************)
(* I2S for C17.  Every record holds event streams the real reader / replay  *)
(* delivered to the recording visitors of the harness (full read, read with *)
(* a mask and decline choices, successive reads on one stream, replay of    *)
(* the in-memory class) together with stream positions and file lengths.    *)
(* The judgement is made here: the masked stream is the Filter of the full  *)
(* one, the read stops at the end of its class file, the k-th read of a     *)
(* stream delivers the k-th class, the replay equals the read up to         *)
(* commutation of independent events and rebuilds the same class.           *)
(* One TLC step per record; a rejected record is printed with what the      *)
(* specification expected.                                                  *)
(***************************************************************************)
EXTENDS Visit, Json, IOUtils

Rec == ndJsonDeserialize(IOEnv.TRACE)
VARIABLES l, rej

(* masks arrive as the full record of flags or as a base with flipped flags; declines as lists of ordinals *)
MaskOf1(m) ==
    IF "base" \in DOMAIN m THEN MaskFlip(m.base = "all", {<<m.flip[i][1], m.flip[i][2]>> : i \in DOMAIN m.flip})
    ELSE [lvl \in Levels |-> [f \in Flags[lvl] |-> m[lvl][f]]]
(* `alt`: the mask the visitors of the members with an even ordinal report *)
MaskOf(m) == IF "alt" \in DOMAIN m THEN WithAlt(MaskOf1(m), MaskOf1(m.alt)) ELSE MaskOf1(m)
DeclOf(d) == [classes |-> SeqSet(d.classes), fields |-> SeqSet(d.fields), methods |-> SeqSet(d.methods),
              codes |-> SeqSet(d.codes), rcs |-> SeqSet(d.rcs)]
ConsumerOf(r) == IF "consumer" \in DOMAIN r THEN r.consumer ELSE "rec"
(* `()` is interested in everything and declines nothing, whatever the record says *)
MaskFor(r) == IF ConsumerOf(r) = "unit" THEN MaskAll ELSE MaskOf(r.mask)
DeclFor(r) == IF ConsumerOf(r) = "unit" THEN NoDeclines ELSE DeclOf(r.declines)

ExpectedMask(r) == Expect(ConsumerOf(r), r.got.full.events, MaskFor(r), DeclFor(r))
ExpectedRead(r, i) == Expect(ConsumerOf(r), Renumber(r.got.fulls[i].events, i), MaskFor(r), DeclFor(r))

(* the class is readable in full (every class of the catalogue is exactly one class file: file_len = its length) *)
MaskPre(r) == r.got.full.ok
AcceptMask(r) ==
    MaskPre(r) =>
        /\ r.got.full.rest = 0                                     \* the full visitor is a visitor too
        /\ r.got.masked.ok
        /\ r.got.masked.rest = 0                                   \* consumed = file length, whatever was skipped
        /\ Items(r.got.masked.events) = ExpectedMask(r)

ConcatPre(r) == \A i \in DOMAIN r.got.fulls : r.got.fulls[i].ok
AcceptConcat(r) ==
    ConcatPre(r) =>
        /\ Len(r.got.reads) = Len(r.got.lens)
        /\ \A i \in DOMAIN r.got.reads :
              /\ r.got.reads[i].ok
              /\ r.got.reads[i].pos = SumSeq(SubSeq(r.got.lens, 1, i))     \* the i-th read ends where the i-th class file ends
              /\ Items(r.got.reads[i].events) = ExpectedRead(r, i)       \* and delivers class i

AcceptReplay(r) ==
    r.got.tree =>
        /\ r.got.read.ok /\ r.got.replay.ok
        /\ Replayable(r.got.read.events) =>
              /\ SameUpToCommutation(Items(r.got.replay.events), Items(r.got.read.events))
              /\ r.got.tree_equal                                          \* the class rebuilt by the replay = the class built by the read

Accept(r) ==
    CASE r.op = "mask" -> AcceptMask(r)
      [] r.op = "concat" -> AcceptConcat(r)
      [] r.op = "accept" -> AcceptReplay(r)
      [] OTHER -> FALSE

(* what the specification expected, in the form of the vectors of MC_Visit (skeleton = events without digests) *)
Expected(r) ==
    CASE r.op = "mask" -> IF MaskPre(r) THEN [skeleton |-> Skel(ExpectedMask(r)), masked |-> [ok |-> TRUE, rest |-> 0]] ELSE <<>>
      [] r.op = "concat" ->
            IF ConcatPre(r) THEN [oks |-> [i \in DOMAIN r.got.fulls |-> TRUE], behinds |-> [i \in DOMAIN r.got.fulls |-> 0],
                                  skeletons |-> [i \in DOMAIN r.got.fulls |-> Skel(ExpectedRead(r, i))]]
            ELSE <<>>
      [] r.op = "accept" -> [read |-> [ok |-> TRUE], replay |-> [ok |-> TRUE], tree_equal |-> TRUE]
      [] OTHER -> <<>>

Init == l = 1 /\ rej = 0
Next ==
    /\ l <= Len(Rec)
    /\ l' = l + 1
    /\ IF Accept(Rec[l]) THEN rej' = rej
       ELSE /\ PrintT(ToJson([reject |-> l, exp |-> Expected(Rec[l])]))
            /\ rej' = rej + 1
Spec == Init /\ [][Next]_<<l, rej>>

(* every line was consumed *)
Consumed == TLCGet("stats").diameter - 1 = Len(Rec)
=============================================================================
