SPECIFICATION Spec
CONSTANT Tier = 0
INVARIANT InvObjIsBinary
INVARIANT InvClassForms
INVARIANT InvOpSplit
INVARIANT InvJoinSplit
INVARIANT InvJoinValid
INVARIANT InvSplitJoin
INVARIANT InvContain
INVARIANT Emit
CHECK_DEADLOCK FALSE
