SPECIFICATION Spec
CONSTANT Tier = 0
INVARIANT InvUniverse
INVARIANT InvLabels
INVARIANT InvAccepts
INVARIANT InvResult
INVARIANT InvAttached
INVARIANT InvFrames
INVARIANT InvOnce
INVARIANT InvEncodingFree
INVARIANT Emit
CHECK_DEADLOCK FALSE
