SPECIFICATION Spec
CONSTANT Tier = 0
INVARIANT InvInRange
INVARIANT InvConsistent
INVARIANT InvRoundTrip
INVARIANT InvLength
INVARIANT InvCounts
INVARIANT InvSlots
INVARIANT Emit
CHECK_DEADLOCK FALSE
