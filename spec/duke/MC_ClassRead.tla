---------------------------- MODULE MC_ClassRead ----------------------------
(***************************************************************************)
(* Bounded instance for C01.  A case is (code facts C, class file version, *)
(* encoding E).  TLC lays the facts out itself (ClassFacts!Layout: sizes   *)
(* per instruction form, switch padding, relative branch offsets, table    *)
(* rows, compressed frames, attribute order), runs the reader machine of   *)
(* ClassRead over the raw layout - one TLC step per machine action - and   *)
(* checks the declarative invariants in every state.  One vector per case  *)
(* is emitted for replay through cfkit::asm::assemble + duke::read_class.  *)
(*                                                                         *)
(* Families (all drawn inside Next, two steps: facts, then encoding):      *)
(*   shape   one representative per operand shape x every form x pools     *)
(*   branch  every branching shape at each switch padding, targets first / *)
(*           self / last instruction, both goto/jsr widths                 *)
(*   pair    <<X, Y, return>>: every shape-form X in front of a branch Y   *)
(*   mix     (thorough) five instructions, sized shapes around a branch    *)
(*   exc     up to two exception rows incl. end = code end                 *)
(*   dbg     line / local variable / local variable type tables touching   *)
(*           start, middle and end x attribute orders                      *)
(*   frm     stack map frames (every compressed kind, uninitialized)       *)
(*           x frame forms x type annotation targets                       *)
(*   all     everything together + an unrecognised attribute x orders      *)
(*   ver     class file versions 45.3 .. 67                                *)
(*   members whole classes: fields and methods in every order with their   *)
(*           own attributes (constant value, signature, annotations of     *)
(*           every element kind, parameter annotations, method parameters, *)
(*           exceptions, annotation default), class attributes (inner      *)
(*           classes, enclosing method, nest, permitted subclasses, source *)
(*           file / debug extension), module, record, unrecognised         *)
(*           attributes at every level x pool layouts x attribute orders   *)
(***************************************************************************)
EXTENDS ClassRead, Json

CONSTANT Tier        \* 0 = quick, 1 = thorough

VARIABLES phase, fam, C, K, ver, E, R, s
vars == <<phase, fam, C, K, ver, E, R, s>>

---------------------------------------------------------------------------
(* instructions *)
P(op) == [op |-> op, sh |-> "plain"]
Nop == P("nop")
Ret == P("return")
Bsm == [kind |-> "invokestatic", owner |-> "k/Boot", name |-> "bsm",
        desc |-> "(Ljava/lang/invoke/MethodHandles$Lookup;Ljava/lang/String;Ljava/lang/Object;[Ljava/lang/Object;)Ljava/lang/Object;", itf |-> FALSE]
Dyn(name, desc, args) == [dynamic |-> [bsm |-> Bsm, args |-> args, name |-> name, desc |-> desc]]
HField == [method_handle |-> [kind |-> "getfield", owner |-> "k/O", name |-> "f", desc |-> "I", itf |-> FALSE]]
HItf == [method_handle |-> [kind |-> "invokeinterface", owner |-> "k/I", name |-> "im", desc |-> "(D)V", itf |-> TRUE]]
Consts1 == <<[int |-> -2147483647], [float |-> 2143289345], [string |-> "str"], [class |-> "[Lk/X;"], [method_type |-> "(I)V"],
             HField, HItf, Dyn("c", "I", <<[int |-> 7], Dyn("inner", "J", <<>>), HField>>)>>
Consts2 == <<[long |-> "-9223372036854775808"], [double |-> "9221120237041090560"], Dyn("d", "D", <<[string |-> "a"]>>)>>
Ldc(c, cat) == [op |-> "ldc", sh |-> "ldc", cat |-> cat, const |-> c]
Var(op, sh, v) == [op |-> op, sh |-> sh, var |-> v]
Iinc(v, by) == [op |-> "iinc", sh |-> "iinc", var |-> v, by |-> by]
Fld(op) == [op |-> op, sh |-> "field", owner |-> "k/O", name |-> "f", desc |-> "[J"]
Inv(op, owner, itf) == [op |-> op, sh |-> "invoke", owner |-> owner, name |-> "m", desc |-> "(JI)Ljava/lang/Object;", itf |-> itf]
Cls(op, c) == [op |-> op, sh |-> "class", class |-> c]
Indy == [op |-> "invokedynamic", sh |-> "indy",
         indy |-> [bsm |-> Bsm, args |-> <<[method_type |-> "()V"], HItf, Dyn("c", "I", <<>>)>>, name |-> "run", desc |-> "()Ljava/lang/Runnable;"]]

(* one representative per operand shape without position operands *)
NB == <<Nop, P("aconst_null"), P("iconst_m1"), P("dup2_x2"), P("lxor"), P("d2f"), P("arraylength"), P("monitorexit"), P("athrow"),
        [op |-> "bipush", sh |-> "bipush", value |-> -128], [op |-> "sipush", sh |-> "sipush", value |-> -32768]>>
      \o [q \in 1..Len(Consts1) |-> Ldc(Consts1[q], 1)] \o [q \in 1..Len(Consts2) |-> Ldc(Consts2[q], 2)]
      \o <<Var("iload", "load", 3), Var("lload", "load", 255), Var("aload", "load", 256), Var("fload", "load", 0), Var("dload", "load", 65535),
           Var("istore", "store", 0), Var("dstore", "store", 200), Var("astore", "store", 65535), Var("lstore", "store", 4), Var("fstore", "store", 3),
           Var("ret", "ret", 5), Var("ret", "ret", 300),
           Iinc(1, -128), Iinc(255, 127), Iinc(256, 1), Iinc(2, 128), Iinc(3, -32768),
           Fld("getstatic"), Fld("putstatic"), Fld("getfield"), Fld("putfield"),
           Inv("invokevirtual", "[I", FALSE), Inv("invokespecial", "k/O", FALSE), Inv("invokespecial", "k/I", TRUE),
           Inv("invokestatic", "k/O", FALSE), Inv("invokestatic", "k/I", TRUE),
           [op |-> "invokeinterface", sh |-> "invokeinterface", owner |-> "k/I", name |-> "m", desc |-> "(JD)V"],
           Indy,
           Cls("new", "k/X"), Cls("anewarray", "[I"), Cls("checkcast", "[Lk/X;"), Cls("instanceof", "k/X"),
           [op |-> "newarray", sh |-> "newarray", type |-> "long"],
           [op |-> "multianewarray", sh |-> "multianewarray", class |-> "[[I", dims |-> 2]>>

If(op, t) == [op |-> op, sh |-> "if", target |-> t]
Goto(t) == [op |-> "goto", sh |-> "goto", target |-> t]
Jsr(t) == [op |-> "jsr", sh |-> "jsr", target |-> t]
TSw(d, low, ts) == [op |-> "tableswitch", sh |-> "tswitch", default |-> d, low |-> low, targets |-> ts]
LSw(d, ps) == [op |-> "lookupswitch", sh |-> "lswitch", default |-> d, pairs |-> ps]

Mk(insns) == Code(insns, <<>>, <<>>, <<>>, <<>>, <<>>, <<>>, <<>>, <<>>)
Nops(k) == [q \in 1..k |-> Nop]

(* branching instructions whose targets range over T *)
Branches(T, full) ==
    {If(op, t) : op \in (IF full THEN {"ifeq", "if_acmpne", "ifnonnull", "if_icmplt", "ifnull"} ELSE {"ifeq"}), t \in T}
    \cup {Goto(t) : t \in T} \cup {Jsr(t) : t \in T}
    \cup {TSw(d, low, <<a, b>>) : d \in T, a \in T, b \in T, low \in (IF full /\ Tier = 1 THEN {-1, 2147483646} ELSE {-1})}
    \cup {TSw(d, 0, <<d>>) : d \in T}
    \cup {LSw(d, <<<<-5, a>>, <<7, b>>>>) : d \in T, a \in T, b \in T}
    \cup {LSw(d, <<>>) : d \in T}
SmallBranches(T) == {If("ifeq", t) : t \in T} \cup {Goto(t) : t \in T} \cup {TSw(t, 0, <<t>>) : t \in T} \cup {LSw(t, <<<<0, t>>>>) : t \in T}

ALoad0 == Var("aload", "load", 0)
New == Cls("new", "k/X")
Base == <<ALoad0, If("ifeq", 3), New, Ret>>          \* 4 instructions; "end" = 4

---------------------------------------------------------------------------
(* tables over Base *)
SubMask(seq, m) == LET idx == SelectSeq([q \in 1..Len(seq) |-> q], LAMBDA q : (m \div (2 ^ (q - 1))) % 2 = 1) IN [z \in 1..Len(idx) |-> seq[idx[z]]]
Exc(a, b, h, c) == [start |-> a, end |-> b, handler |-> h, catch |-> c]
ExcRowsAll == {Exc(a, b, h, c) : a \in 0..2, b \in 1..4, h \in {0, 3}, c \in {<<>>, <<"java/lang/Exception">>}}
ExcRows1 == {x \in ExcRowsAll : x.start < x.end}
ExcRows2 == {x \in ExcRows1 : x.catch = <<>> /\ (Tier = 1 \/ (x.handler = 3 /\ x.end \in {x.start + 1, 4}))}
ExcLists == {<<>>} \cup {<<x>> : x \in ExcRows1} \cup {<<x, y>> : x \in ExcRows2, y \in ExcRows2}

LineAll == <<<<0, 1>>, <<2, 7>>, <<2, 8>>, <<3, 65535>>>>
LineLists == IF Tier = 1 THEN {SubMask(LineAll, m) : m \in 0..15} ELSE {SubMask(LineAll, m) : m \in {0, 6, 9, 15}}
Ranges == {<<0, 4>>, <<1, 3>>, <<2, 2>>, <<3, 4>>, <<0, 0>>}
LvtLists == {a \o b : a \in {<<>>} \cup {<<<<r[1], r[2], 1, "x", "I">>>> : r \in Ranges},
                       b \in {<<>>} \cup {<<<<r[1], r[2], 65535, "y", "J">>>> : r \in Ranges}}
LvttLists == {<<>>, <<<<0, 4, 1, "x", "TT;">>>>} \cup (IF Tier = 1 THEN {<<<<1, 3, 1, "x", "TT;">>>>, <<<<1, 2, 1, "a", "TA;">>, <<0, 4, 2, "b", "TB;">>>>} ELSE {})

VInt == <<"int">>
U2 == <<"uninit", 2>>
Obj == <<"object", "k/X">>
FrameLists == {<<>>,
               <<<<1, <<>>, <<>>>>>>,                                                          \* same
               <<<<3, <<U2, Obj>>, <<>>>>>>,                                                   \* append
               <<<<1, <<>>, <<>>>>, <<2, <<>>, <<VInt>>>>>>,                                    \* same, same1
               <<<<2, <<>>, <<U2>>>>, <<3, <<U2, Obj, <<"long">>>>, <<>>>>>>,                  \* same1(uninit), append 3
               <<<<1, <<VInt, <<"float">>>>, <<>>>>, <<3, <<VInt>>, <<>>>>>>,                    \* append, chop
               <<<<1, <<>>, <<>>>>, <<2, <<<<"null">>>>, <<U2, <<"double">>>>>>, <<3, <<>>, <<>>>>>>,   \* same, full, chop
               <<<<0, <<>>, <<>>>>, <<1, <<Obj>>, <<>>>>, <<3, <<Obj, <<"top">>, <<"uninitialized_this">>, VInt, VInt>>, <<>>>>>>}   \* frame at 0, append, full (4 added)
TaLists == {<<<<>>, <<>>>>,
            <<<<<<"new", <<2>>>>>>, <<>>>>,
            <<<<<<"local_variable", <<<<0, 4, 1>>, <<4, 4, 2>>>>>>>>, <<>>>>,                 \* a row that starts at the end (javac: dead local)
            <<<<<<"local_variable", <<<<1, 3, 1>>>>>>, <<"cast", <<2>>>>>>, <<<<"instanceof", <<0>>>>>>>>,
            <<<<<<"resource_variable", <<>>>>, <<"exception_parameter", <<0>>>>>>, <<<<"method_reference", <<3>>>>>>>>,
            <<<<>>, <<<<"local_variable", <<<<3, 4, 9>>>>>>>>>>}
Unk == <<[name |-> "CodeLevel", bytes |-> "00ff"]>>

Versions == {<<45, 3>>, <<45, 65535>>, <<46, 0>>, <<47, 0>>, <<48, 0>>, <<49, 0>>, <<50, 0>>, <<51, 0>>, <<52, 0>>, <<53, 0>>, <<54, 0>>, <<55, 0>>,
             <<55, 7>>, <<56, 0>>, <<57, 0>>, <<58, 0>>, <<59, 0>>, <<60, 0>>, <<61, 0>>, <<62, 0>>, <<63, 0>>, <<64, 0>>, <<65, 0>>, <<66, 0>>,
             <<66, 65535>>, <<67, 0>>, <<67, 65535>>}

Families == {"shape", "branch", "pair", "exc", "dbg", "frm", "all", "ver", "members"} \cup (IF Tier = 1 THEN {"mix"} ELSE {})

Sized == <<Nop, Var("iload", "load", 3), Ldc(Consts1[1], 1), Goto(4), Iinc(1, 1), Var("ret", "ret", 5)>>

Universe(f) ==
    CASE f = "shape" -> {Mk(<<NB[q], Ret>>) : q \in DOMAIN NB}
      [] f = "branch" -> UNION {{Mk(Nops(k) \o <<b, Nop, Ret>>) : b \in Branches({0, k, k + 2}, k = 0)} : k \in 0..3}
      [] f = "pair" -> {Mk(<<NB[q], y, Ret>>) : q \in DOMAIN NB, y \in SmallBranches(IF Tier = 1 THEN {0, 1, 2} ELSE {0, 2})}
      [] f = "mix" -> {Mk(<<Sized[x], y, Sized[z], Nop, Ret>>) : x \in DOMAIN Sized, z \in DOMAIN Sized, y \in SmallBranches({0, 2, 4})}
      [] f = "exc" -> {[Mk(Base) EXCEPT !.exc = x] : x \in ExcLists}
      [] f = "dbg" -> {[Mk(Base) EXCEPT !.lines = l, !.lvt = v, !.lvtt = t] : l \in LineLists, v \in LvtLists, t \in LvttLists}
      [] f = "frm" -> {[Mk(Base) EXCEPT !.frames = fr, !.tav = ta[1], !.tai = ta[2], !.lines = l] : fr \in FrameLists, ta \in TaLists, l \in {<<>>, LineAll}}
      [] f = "all" -> {[Mk(Base) EXCEPT !.exc = x, !.lines = l, !.lvt = v, !.lvtt = t, !.frames = fr, !.tav = ta[1], !.tai = ta[2], !.unk = u] :
                           x \in {<<>>, <<Exc(0, 4, 3, <<>>)>>, <<Exc(1, 2, 0, <<"k/E">>), Exc(0, 3, 3, <<>>)>>},
                           l \in {<<>>, LineAll}, v \in {<<>>, <<<<0, 4, 1, "x", "I">>, <<3, 4, 2, "y", "J">>>>}, t \in {<<>>, <<<<0, 4, 1, "x", "TT;">>>>},
                           fr \in {<<>>, <<<<2, <<>>, <<U2>>>>, <<3, <<U2, Obj, <<"long">>>>, <<>>>>>>},
                           ta \in {<<<<>>, <<>>>>, <<<<<<"local_variable", <<<<0, 4, 1>>, <<4, 4, 2>>>>>>>>, <<<<"new", <<2>>>>>>>>}, u \in {<<>>, Unk}}
      [] f \in {"ver", "members"} -> {Mk(<<Ret>>)}

---------------------------------------------------------------------------
(* encodings *)
AttrNames == <<"StackMapTable", "LineNumberTable", "LocalVariableTable", "LocalVariableTypeTable",
               "RuntimeVisibleTypeAnnotations", "RuntimeInvisibleTypeAnnotations", "CodeLevel">>
Canon(c) == SelectSeq(AttrNames, LAMBDA a : a \in PresentAttrs(c))
Reverse(q) == [z \in 1..Len(q) |-> q[Len(q) + 1 - z]]
Rotate(q, k) == [z \in 1..Len(q) |-> q[((z - 1 + k) % Len(q)) + 1]]
RECURSIVE SeqsOf(_)
SeqsOf(S) == IF S = {} THEN {<<>>} ELSE UNION {{<<x>> \o t : t \in SeqsOf(S \ {x})} : x \in S}
IndexIn(q, x) == CHOOSE z \in DOMAIN q : q[z] = x
RECURSIVE SeedOf(_, _)
SeedOf(p, z) == IF z > Len(p) THEN 1 ELSE z * z * IndexIn(AttrNames, p[z]) + SeedOf(p, z + 1)
(* <<file order of the Code attribute's attributes, seed for the assembler's own shuffle>> *)
Orders(f, c) ==
    LET a == Canon(c) IN
    IF Len(a) <= 1 THEN {<<a, 0>>}
    ELSE IF f = "dbg" /\ Tier = 1 THEN {<<p, IF p = a THEN 0 ELSE SeedOf(p, 1)>> : p \in SeqsOf(PresentAttrs(c))}
    ELSE IF f = "all" THEN {<<a, 0>>, <<Reverse(a), 7>>, <<Rotate(a, 1), 11>>}
    ELSE {<<a, 0>>, <<Reverse(a), 7>>}

DefPool == [order |-> "first_use", seed |-> 0, pad |-> 0, dedup |-> TRUE]
Pools == {DefPool, [order |-> "reverse", seed |-> 0, pad |-> 0, dedup |-> TRUE],
          [order |-> "shuffle", seed |-> 5, pad |-> 300, dedup |-> TRUE], [order |-> "first_use", seed |-> 0, pad |-> 0, dedup |-> FALSE]}
UsesPool(I) == I.sh \in {"ldc", "field", "invoke", "invokeinterface", "indy", "class", "multianewarray"}

MinForm(I) == IF "short" \in FormsOf(I, FALSE) THEN "short" ELSE IF "plain" \in FormsOf(I, FALSE) THEN "plain"
              ELSE IF "wide" \in FormsOf(I, FALSE) THEN "wide" ELSE "w"
RECURSIVE FormProd(_, _, _, _)
FormProd(c, vary, wideIndex, q) ==
    IF q > Len(c.insns) THEN {<<>>}
    ELSE LET opts == IF q \in vary THEN FormsOf(c.insns[q], wideIndex)
                     ELSE {IF wideIndex /\ c.insns[q].sh = "ldc" THEN "w" ELSE MinForm(c.insns[q])}
         IN {<<x>> \o t : x \in opts, t \in FormProd(c, vary, wideIndex, q + 1)}
FormSeqs(c, vary, wideIndex) == FormProd(c, vary, wideIndex, 1)

Enc(fs, ord, split, ff, pool) == [forms |-> fs, aorder |-> ord[1], seed |-> ord[2], split |-> split, fform |-> ff, pool |-> pool]

Encodings(f, c) ==
    LET n == Len(c.insns) IN
    CASE f = "shape" -> UNION {{Enc(fs, <<<<>>, 0>>, 1, "compact", p) : fs \in FormSeqs(c, {1}, p.pad > 255)} :
                                   p \in (IF UsesPool(c.insns[1]) THEN Pools ELSE {DefPool})}
      [] f = "branch" -> {Enc(fs, <<<<>>, 0>>, 1, "compact", DefPool) : fs \in FormSeqs(c, 1..n, FALSE)}
      [] f \in {"pair", "mix"} -> {Enc(fs, <<<<>>, 0>>, 1, "compact", DefPool) : fs \in FormSeqs(c, IF f = "mix" THEN {1, 2} ELSE 1..n, FALSE)}
      [] f = "exc" -> {Enc(fs, <<<<>>, 0>>, 1, "compact", DefPool) : fs \in FormSeqs(c, {1}, FALSE)}
      [] f = "dbg" -> {Enc(fs, o, sp, "compact", DefPool) : fs \in FormSeqs(c, IF Tier = 1 THEN {} ELSE {1}, FALSE), o \in Orders(f, c),
                                                             sp \in (IF Len(c.lines) > 1 THEN {1, 2} ELSE {1})}
      [] f = "frm" -> {Enc(fs, o, 1, ff, DefPool) : fs \in FormSeqs(c, {1}, FALSE), o \in Orders(f, c), ff \in {"compact", "full", "extended"}}
      [] f = "all" -> {Enc(fs, o, IF o[2] = 0 THEN 1 ELSE 2, IF o[2] = 7 THEN "full" ELSE "compact", IF o[2] = 11 THEN [DefPool EXCEPT !.order = "reverse"] ELSE DefPool) :
                           fs \in FormSeqs(c, {1}, FALSE), o \in Orders(f, c)}
      [] f = "ver" -> {Enc(<<"plain">>, <<<<>>, 0>>, 1, "compact", DefPool)}
      [] f = "members" -> {Enc(<<"plain">>, <<<<>>, sd>>, 1, "compact", p) : p \in Pools, sd \in {0, 7, 11}}

---------------------------------------------------------------------------
(* the class facts JSON of cfkit/FACTS.md *)
Opt(k, v) == IF v = <<>> THEN <<>> ELSE (k :> v)
InsnJson(I) == [k \in DOMAIN I \ {"sh", "cat"} |-> I[k]]
VtJson(v) == CASE v[1] = "object" -> [object |-> v[2]] [] v[1] = "uninit" -> [uninitialized |-> v[2]] [] OTHER -> v[1]
VtsJson(vts) == [q \in 1..Len(vts) |-> VtJson(vts[q])]
TaJson(ta) ==
    [target |-> (CASE ta[1] \in LocalvarKinds -> [kind |-> ta[1], table |-> [z \in 1..Len(ta[2]) |-> [start |-> ta[2][z][1], end |-> ta[2][z][2], slot |-> ta[2][z][3]]]]
                   [] ta[1] = "exception_parameter" -> [kind |-> ta[1], index |-> ta[2][1]]
                   [] ta[1] \in {"instanceof", "new", "constructor_reference", "method_reference"} -> [kind |-> ta[1], insn |-> ta[2][1]]
                   [] OTHER -> [kind |-> ta[1], insn |-> ta[2][1], index |-> 3]),
     path |-> <<<<3, 1>>, <<0, 0>>>>, type |-> "Lk/A;", pairs |-> <<>>]
CodeJson(c) ==
    [max_stack |-> 3, max_locals |-> 9,
     insns |-> [q \in 1..Len(c.insns) |-> InsnJson(c.insns[q])],
     exceptions |-> [q \in 1..Len(c.exc) |-> [start |-> c.exc[q].start, end |-> c.exc[q].end, handler |-> c.exc[q].handler]
                                               @@ (IF c.exc[q].catch = <<>> THEN <<>> ELSE [catch |-> c.exc[q].catch[1]])],
     attrs |-> Opt("LineNumberTable", c.lines)
               @@ Opt("LocalVariableTable", [q \in 1..Len(c.lvt) |-> [start |-> c.lvt[q][1], end |-> c.lvt[q][2], slot |-> c.lvt[q][3], name |-> c.lvt[q][4], desc |-> c.lvt[q][5]]])
               @@ Opt("LocalVariableTypeTable", [q \in 1..Len(c.lvtt) |-> [start |-> c.lvtt[q][1], end |-> c.lvtt[q][2], slot |-> c.lvtt[q][3], name |-> c.lvtt[q][4], sig |-> c.lvtt[q][5]]])
               @@ Opt("StackMapTable", [q \in 1..Len(c.frames) |-> [at |-> c.frames[q][1], locals |-> VtsJson(c.frames[q][2]), stack |-> VtsJson(c.frames[q][3])]])
               @@ Opt("RuntimeVisibleTypeAnnotations", [q \in 1..Len(c.tav) |-> TaJson(c.tav[q])])
               @@ Opt("RuntimeInvisibleTypeAnnotations", [q \in 1..Len(c.tai) |-> TaJson(c.tai[q])])
               @@ Opt("unknown", c.unk)]
ClassJson(c, v) ==
    [version |-> v, access |-> 33, this |-> "k/C", super |-> "java/lang/Object", interfaces |-> <<>>, fields |-> <<>>,
     methods |-> <<[access |-> 9, name |-> "m", desc |-> "()V", attrs |-> [Code |-> CodeJson(c)]]>>, attrs |-> <<>>]
(* whole classes (family "members") *)
Anno0 == [type |-> "Lk/N;", pairs |-> <<>>]
Anno == [type |-> "Lk/A;",
         pairs |-> <<<<"z", [Z |-> 1]>>, <<"i", [I |-> -7]>>, <<"s", [s |-> "txt"]>>, <<"e", [e |-> [type |-> "Lk/E;", name |-> "X"]]>>,
                     <<"c", [c |-> "[I"]>>, <<"a", ("[" :> <<[B |-> 1], [C |-> 65]>>)>>, <<"n", ("@" :> Anno0)>>, <<"j", [J |-> "5"]>>,
                     <<"d", [D |-> "4607182418800017408"]>>, <<"f", [F |-> 1065353216]>>, <<"sh", [S |-> -2]>>>>]
TypeAnno(target) == [target |-> target, path |-> <<<<1, 0>>>>, type |-> "Lk/T;", pairs |-> <<>>]
Fields3 == <<[access |-> 25, name |-> "a", desc |-> "I", attrs |-> [ConstantValue |-> [int |-> 5]]],
             [access |-> 2, name |-> "b", desc |-> "Ljava/util/List;",
              attrs |-> [Signature |-> "Ljava/util/List<Ljava/lang/String;>;", Deprecated |-> TRUE, RuntimeInvisibleAnnotations |-> <<Anno>>,
                         RuntimeVisibleTypeAnnotations |-> <<TypeAnno([kind |-> "field"])>>]],
             [access |-> 4240, name |-> "c", desc |-> "[J", attrs |-> [Synthetic |-> TRUE, unknown |-> <<[name |-> "FieldLevel", bytes |-> "01"]>>]]>>
Methods3 == <<[access |-> 9, name |-> "m", desc |-> "()V", attrs |-> [Code |-> CodeJson(Mk(<<Ret>>))]],
              [access |-> 1025, name |-> "n", desc |-> "(IJ)V",
               attrs |-> [Exceptions |-> <<"java/io/IOException", "k/E">>, Signature |-> "<T:Ljava/lang/Object;>(IJ)V",
                          MethodParameters |-> <<[name |-> "p", access |-> 16], [access |-> 4096]>>,
                          RuntimeVisibleParameterAnnotations |-> <<<<Anno0>>, <<>>>>, RuntimeInvisibleParameterAnnotations |-> <<<<>>, <<Anno0, Anno0>>>>,
                          RuntimeVisibleAnnotations |-> <<Anno0>>,
                          RuntimeInvisibleTypeAnnotations |-> <<TypeAnno([kind |-> "method_formal_parameter", index |-> 1]), TypeAnno([kind |-> "throws", index |-> 0])>>,
                          unknown |-> <<[name |-> "MethodLevel", bytes |-> "cafebabe"]>>]],
              [access |-> 1025, name |-> "d", desc |-> "()I", attrs |-> [AnnotationDefault |-> [I |-> 3], Deprecated |-> TRUE]]>>
ClassAttrs == <<<<>>,
                [SourceFile |-> "C.java", Signature |-> "Ljava/lang/Object;Ljava/lang/Runnable;", SourceDebugExtension |-> "SMAP",
                 InnerClasses |-> <<[inner |-> "k/C$I", outer |-> "k/C", name |-> "I", access |-> 9], [inner |-> "k/C$1", access |-> 0]>>,
                 EnclosingMethod |-> [class |-> "k/O", method |-> [name |-> "m", desc |-> "()V"]], NestHost |-> "k/O", Deprecated |-> TRUE,
                 RuntimeVisibleAnnotations |-> <<Anno>>, RuntimeVisibleTypeAnnotations |-> <<TypeAnno([kind |-> "class_extends", index |-> 65535])>>,
                 unknown |-> <<[name |-> "ClassLevel", bytes |-> ""]>>],
                [NestMembers |-> <<"k/C$I", "k/C$1">>, PermittedSubclasses |-> <<"k/S1">>, EnclosingMethod |-> [class |-> "k/O"], Synthetic |-> TRUE]>>
Perms3 == <<<<1, 2, 3>>, <<1, 3, 2>>, <<2, 1, 3>>, <<2, 3, 1>>, <<3, 1, 2>>, <<3, 2, 1>>>>
PlainClass(fp, mp, ca) ==
    [version |-> <<61, 0>>, access |-> 1057, this |-> "k/C", super |-> "java/lang/Object", interfaces |-> <<"java/lang/Runnable", "k/I">>,
     fields |-> [q \in 1..3 |-> Fields3[Perms3[fp][q]]], methods |-> [q \in 1..3 |-> Methods3[Perms3[mp][q]]], attrs |-> ClassAttrs[ca]]
ModuleClass(open) ==
    [version |-> <<53, 0>>, access |-> 32768, this |-> "module-info", interfaces |-> <<>>, fields |-> <<>>, methods |-> <<>>,
     attrs |-> [Module |-> [name |-> "m.n", access |-> (IF open THEN 32 ELSE 4096), version |-> "1.0",
                            requires |-> <<[name |-> "java.base", access |-> 32768, version |-> "17"], [name |-> "o", access |-> 96]>>,
                            exports |-> <<[package |-> "p/q", access |-> 0, to |-> <<"x", "y">>]>>,
                            opens |-> <<[package |-> "p/r", access |-> 4096, to |-> <<>>]>>,
                            uses |-> <<"k/S">>, provides |-> <<[class |-> "k/S", with |-> <<"k/I1", "k/I2">>]>>],
                ModulePackages |-> <<"p/q", "p/r">>, ModuleMainClass |-> "k/Main"]]
RecordClass(n) ==
    [version |-> <<61, 0>>, access |-> 49, this |-> "k/R", super |-> "java/lang/Record", interfaces |-> <<>>,
     fields |-> [q \in 1..n |-> [access |-> 18, name |-> "x", desc |-> "I", attrs |-> <<>>]], methods |-> <<>>,
     attrs |-> [Record |-> [q \in 1..n |-> [name |-> "x", desc |-> "I", attrs |-> [Signature |-> "TT;", RuntimeVisibleAnnotations |-> <<Anno0>>]]]]]
(* K = <<kind, parameters>> *)
MemberCases == {<<"plain", fp, mp, ca>> : fp \in 1..6, mp \in (IF Tier = 1 THEN 1..6 ELSE {1, 4, 6}), ca \in 1..3}
               \cup {<<"module", 0, 0, 0>>, <<"module", 1, 0, 0>>, <<"record", 0, 0, 0>>, <<"record", 1, 0, 0>>}
MemberClass(k) == CASE k[1] = "plain" -> PlainClass(k[2], k[3], k[4])
                    [] k[1] = "module" -> ModuleClass(k[2] = 1)
                    [] k[1] = "record" -> RecordClass(k[2])
TheClass == IF fam = "members" THEN MemberClass(K) ELSE ClassJson(C, ver)

EncJson(e) ==
    [forms |-> (IF fam = "members" THEN <<>> ELSE [q \in 1..Len(e.forms) |-> <<0, q - 1, e.forms[q]>>]), frame_forms |-> e.fform, split_line_tables |-> e.split,
     pool_order |-> e.pool.order, pool_seed |-> e.pool.seed, pool_pad |-> e.pool.pad, dedup |-> e.pool.dedup]
    @@ (IF e.seed > 0 THEN [attr_order_seed |-> e.seed] ELSE <<>>)

---------------------------------------------------------------------------
Init == phase = "start" /\ fam = "" /\ C = <<>> /\ K = <<>> /\ ver = <<>> /\ E = <<>> /\ R = <<>> /\ s = <<>>

PickFacts ==
    /\ phase = "start"
    /\ \E f \in Families : \E c \in Universe(f) : \E v \in (IF f = "ver" THEN Versions ELSE {<<61, 0>>}) :
       \E k \in (IF f = "members" THEN MemberCases ELSE {<<>>}) :
          fam' = f /\ C' = c /\ ver' = v /\ K' = k
    /\ phase' = "facts"
    /\ UNCHANGED <<E, R, s>>

PickEncoding ==
    /\ phase = "facts"
    /\ \E e \in Encodings(fam, C) :
          /\ E' = e
          /\ R' = Layout(C, e, <<>>)           \* static ()V: the initial frame has no locals
          /\ s' = MInit(Layout(C, e, <<>>), TRUE)
    /\ phase' = "run"
    /\ UNCHANGED <<fam, C, K, ver>>

RunStep ==
    /\ phase = "run" /\ s.ph # "done"
    /\ s' = Step(s, R)
    /\ UNCHANGED <<phase, fam, C, K, ver, E, R>>

Next == PickFacts \/ PickEncoding \/ RunStep
Spec == Init /\ [][Next]_vars

---------------------------------------------------------------------------
Running == phase = "run"
Done == phase = "run" /\ s.ph = "done"

InvUniverse == phase \in {"facts", "run"} => WellFormedCode(C)
(* the label table is an injection in every state of the machine, and points at instructions or the end *)
InvLabels == Running => LabelsInjective(s, R) /\ LabelsAtBoundaries(s, R)
(* the reader accepts every well-formed layout *)
InvAccepts == Running => s.ok
(* every operand and table entry denotes exactly the instruction the facts say; nothing invented, dropped, re-attached; *)
(* Pos(C) does not mention E: the result is the same under every encoding                                           *)
InvResult == Done => SameCode(Result(s, R), Pos(C))
InvAttached == Done => AllAttached(s) /\ AllFramesDelivered(s)
(* a frame is delivered with the instruction at its offset and only there *)
InvFrames == Done => LET ie == InsnEvents(s) IN
                     \A q \in DOMAIN ie : (ie[q][4] # <<>>) <=> (\E z \in DOMAIN C.frames : C.frames[z][1] = q - 1)
(* every fact appears in exactly one event *)
InvOnce == Done => /\ EachInstructionOnce(s, R)
                   /\ EventCount(s, "exception_table") = 1
                   /\ EventCount(s, "line_numbers") = (IF C.lines = <<>> THEN 0 ELSE 1)
                   /\ EventCount(s, "local_variables") = (IF C.lvt = <<>> /\ C.lvtt = <<>> THEN 0 ELSE 1)
                   /\ EventCount(s, "type_annotation") = Len(C.tav) + Len(C.tai)
                   /\ EventCount(s, "last_label") <= 1
(* independence of the encoding, stated directly: the canonical encoding gives the same result *)
CanonEnc == Enc([q \in 1..Len(C.insns) |-> MinForm(C.insns[q])], <<Canon(C), 0>>, 1, "full", DefPool)
InvEncodingFree == Done => LET r0 == Layout(C, CanonEnc, <<>>) IN SameCode(Result(s, R), Result(Run(r0), r0))

Ok(v) == [ok |-> TRUE, v |-> v]
Emit == Done => PrintT(ToJson([op |-> "read", fam |-> fam, facts |-> TheClass, enc |-> EncJson(E),
                               exp |-> IF fam = "members" THEN [res |-> Ok(TheClass)]
                                       ELSE [res |-> Ok(TheClass), offs |-> R.offs, len |-> R.len]]))
=============================================================================
