------------------------------ MODULE ConstPool ------------------------------
(***************************************************************************)
(* C02, part 2: the hash-consed constant pool of duke's writer             *)
(* (simple_class_writer/pool.rs: PoolWrite::put, put_bootstrap_method, the *)
(* put_* helpers) and the BootstrapMethods table.                          *)
(*                                                                         *)
(* OPERATIONALLY a pool is a record                                        *)
(*    [count, inner, bsm, ok]                                              *)
(* count = the constant_pool_count to be written (starts at 1 + base, the  *)
(* slots of entries put before the part that is modelled), inner = the     *)
(* entries in insertion order, each with the index it was given, bsm = the *)
(* bootstrap method table (handle, argument indices), ok = FALSE after an  *)
(* overflow (`checked_add` failed: the whole write fails with Err).        *)
(* Entries refer to other entries by INDEX, as in the code:                *)
(*    <<"Utf8", s>>  <<"Integer", v>>  <<"Float", v>>  <<"Long", v>>       *)
(*    <<"Double", v>>  <<"Class", i>>  <<"String", i>>  <<"MethodType", i>>*)
(*    <<"NameAndType", i, j>>  <<"Fieldref" | "Methodref" |                *)
(*    "InterfaceMethodref", i, j>>  <<"MethodHandle", kind, i>>            *)
(*    <<"Dynamic" | "InvokeDynamic", b, j>>                                *)
(* DECLARATIVELY a constant (facts form of cfkit FACTS.md 2) needs a set   *)
(* of entries BY VALUE (NeedOf); a class file exists iff 1 + the slots of  *)
(* all distinct needed entries is at most 65535.                           *)
(***************************************************************************)
EXTENDS Integers, Sequences, FiniteSets

PoolMax == 65535
Slots(kind) == IF kind \in {"Long", "Double"} THEN 2 ELSE 1

-----------------------------------------------------------------------------
(***************************** operational part ****************************)

NewPool(base) == [count |-> 1 + base, inner |-> <<>>, bsm |-> <<>>, ok |-> TRUE]

Find(p, e) == {i \in DOMAIN p.inner : p.inner[i].e = e}

(* PoolWrite::put: an equal entry keeps its index; a new one takes `count` *)
(* and advances it by its slots; overflow of the u16 is an error.          *)
(* Result: <<pool, index>>; index 0 after a failure.                       *)
Put(p, e) ==
    IF ~p.ok THEN <<p, 0>>
    ELSE IF Find(p, e) # {} THEN <<p, p.inner[CHOOSE i \in Find(p, e) : TRUE].i>>
    ELSE LET c == p.count + Slots(e[1]) IN
         IF c > PoolMax THEN <<[p EXCEPT !.ok = FALSE], 0>>
         ELSE <<[p EXCEPT !.count = c, !.inner = Append(@, [e |-> e, i |-> p.count])], p.count>>

PutUtf8(p, s) == Put(p, <<"Utf8", s>>)
PutOver(p, kind, s) == LET a == PutUtf8(p, s) IN Put(a[1], <<kind, a[2]>>)    \* Class / String / MethodType
PutNat(p, n, d) == LET a == PutUtf8(p, n)  b == PutUtf8(a[1], d) IN Put(b[1], <<"NameAndType", a[2], b[2]>>)
PutRef(p, kind, o, n, d) ==
    LET a == PutOver(p, "Class", o)  b == PutNat(a[1], n, d) IN Put(b[1], <<kind, a[2], b[2]>>)

(* constants in facts form: records with one field *)
Has(c, f) == f \in DOMAIN c
RefKind(h) == IF h.kind \in {"getfield", "getstatic", "putfield", "putstatic"} THEN "Fieldref"
              ELSE IF h.itf THEN "InterfaceMethodref" ELSE "Methodref"
PutHandle(p, h) == LET a == PutRef(p, RefKind(h), h.owner, h.name, h.desc) IN Put(a[1], <<"MethodHandle", h.kind, a[2]>>)

RECURSIVE PutLoadable(_, _), PutArgs(_, _, _)
(* put_bootstrap_method: the arguments are put first, then the pair        *)
(* (handle, argument indices) is looked up in the table                    *)
PutBsm(p, h, args) ==
    LET a == PutArgs(p, args, <<>>)
        key == <<h, a[2]>>
        q == a[1]
        hit == {i \in DOMAIN q.bsm : q.bsm[i] = key}
    IN IF hit # {} THEN <<q, (CHOOSE i \in hit : TRUE) - 1>>
       ELSE <<[q EXCEPT !.bsm = Append(@, key)], Len(q.bsm)>>
PutArgs(p, args, acc) ==
    IF Len(args) = 0 THEN <<p, acc>>
    ELSE LET a == PutLoadable(p, Head(args)) IN PutArgs(a[1], Tail(args), Append(acc, a[2]))
PutDyn(p, kind, d) ==
    LET a == PutNat(p, d.name, d.desc)
        b == PutBsm(a[1], d.bsm, d.args)
    IN Put(b[1], <<kind, b[2], a[2]>>)
PutLoadable(p, c) ==
    CASE Has(c, "int")    -> Put(p, <<"Integer", c.int>>)
      [] Has(c, "float")  -> Put(p, <<"Float", c.float>>)
      [] Has(c, "long")   -> Put(p, <<"Long", c.long>>)
      [] Has(c, "double") -> Put(p, <<"Double", c.double>>)
      [] Has(c, "string") -> PutOver(p, "String", c.string)
      [] Has(c, "class")  -> PutOver(p, "Class", c.class)
      [] Has(c, "method_type")   -> PutOver(p, "MethodType", c.method_type)
      [] Has(c, "method_handle") -> PutHandle(p, c.method_handle)
      [] Has(c, "dynamic")       -> PutDyn(p, "Dynamic", c.dynamic)

(* category 2 constants are loaded with ldc2_w; others with ldc when the   *)
(* index fits one byte, else ldc_w                                         *)
Cat2(c) == Has(c, "long") \/ Has(c, "double") \/ (Has(c, "dynamic") /\ c.dynamic.desc \in {"J", "D"})
LdcForm(c, idx) == IF Cat2(c) THEN "w" ELSE IF idx <= 255 THEN "short" ELSE "w"

(* the BootstrapMethods attribute, written after all members: the handle   *)
(* of every table row is put now (the argument indices exist already)      *)
RECURSIVE WriteBsm(_, _)
WriteBsm(p, k) ==
    IF k > Len(p.bsm) THEN IF Len(p.bsm) = 0 THEN p ELSE PutUtf8(p, "BootstrapMethods")[1]
    ELSE WriteBsm(PutHandle(p, p.bsm[k][1])[1], k + 1)

-----------------------------------------------------------------------------
(****************************** invariants *********************************)

(* equal entries share an index: no entry occurs twice *)
HashConsed(p) == \A i, j \in DOMAIN p.inner : p.inner[i].e = p.inner[j].e => i = j
(* indices are dense: every entry starts where the previous one ended, long *)
(* and double take two slots, count = 1 + base + all slots                 *)
RECURSIVE SlotSum(_, _)
SlotSum(inner, k) == IF k = 0 THEN 0 ELSE SlotSum(inner, k - 1) + Slots(inner[k].e[1])
Dense(p, base) ==
    /\ \A k \in DOMAIN p.inner : p.inner[k].i = 1 + base + SlotSum(p.inner, k - 1)
    /\ p.count = 1 + base + SlotSum(p.inner, Len(p.inner))
    /\ p.count <= PoolMax
(* index operands of entries designate earlier entries of the right kind *)
KindAt(p, i) == LET hit == {k \in DOMAIN p.inner : p.inner[k].i = i} IN
                IF hit = {} THEN "-" ELSE p.inner[CHOOSE k \in hit : TRUE].e[1]
RefsOK(p) ==
    \A k \in DOMAIN p.inner :
        LET e == p.inner[k].e IN
        CASE e[1] \in {"Class", "String", "MethodType"} -> KindAt(p, e[2]) = "Utf8"
          [] e[1] = "NameAndType" -> KindAt(p, e[2]) = "Utf8" /\ KindAt(p, e[3]) = "Utf8"
          [] e[1] \in {"Fieldref", "Methodref", "InterfaceMethodref"} -> KindAt(p, e[2]) = "Class" /\ KindAt(p, e[3]) = "NameAndType"
          [] e[1] = "MethodHandle" -> KindAt(p, e[3]) \in {"Fieldref", "Methodref", "InterfaceMethodref"}
          [] e[1] \in {"Dynamic", "InvokeDynamic"} -> e[2] \in 0..(Len(p.bsm) - 1) /\ KindAt(p, e[3]) = "NameAndType"
          [] OTHER -> TRUE
(* the bootstrap table is de-duplicated by (handle, argument indices) *)
BsmDistinct(p) == \A i, j \in DOMAIN p.bsm : p.bsm[i] = p.bsm[j] => i = j

-----------------------------------------------------------------------------
(****************************** declarative part ***************************)

(* entries a constant needs, by value *)
NatNeed(n, d) == {<<"Utf8", n>>, <<"Utf8", d>>, <<"NameAndType", n, d>>}
HandleNeed(h) == {<<"Utf8", h.owner>>, <<"Class", h.owner>>} \cup NatNeed(h.name, h.desc)
                 \cup {<<RefKind(h), h.owner, h.name, h.desc>>, <<"MethodHandle", h.kind, RefKind(h), h.owner, h.name, h.desc>>}
RECURSIVE NeedOf(_)
ArgsNeed(args) == UNION {NeedOf(args[i]) : i \in DOMAIN args}
NeedOf(c) ==
    CASE Has(c, "int")    -> {<<"Integer", c.int>>}
      [] Has(c, "float")  -> {<<"Float", c.float>>}
      [] Has(c, "long")   -> {<<"Long", c.long>>}
      [] Has(c, "double") -> {<<"Double", c.double>>}
      [] Has(c, "string") -> {<<"Utf8", c.string>>, <<"String", c.string>>}
      [] Has(c, "class")  -> {<<"Utf8", c.class>>, <<"Class", c.class>>}
      [] Has(c, "method_type")   -> {<<"Utf8", c.method_type>>, <<"MethodType", c.method_type>>}
      [] Has(c, "method_handle") -> HandleNeed(c.method_handle)
      [] Has(c, "dynamic") ->
            NatNeed(c.dynamic.name, c.dynamic.desc) \cup ArgsNeed(c.dynamic.args) \cup HandleNeed(c.dynamic.bsm)
            \cup {<<"Utf8", "BootstrapMethods">>, <<"Dynamic", c.dynamic.bsm, c.dynamic.args, c.dynamic.name, c.dynamic.desc>>}

RECURSIVE SumSlots(_)
SumSlots(S) == IF S = {} THEN 0 ELSE LET e == CHOOSE x \in S : TRUE IN Slots(e[1]) + SumSlots(S \ {e})

(* The class of the pool vectors: `pre` interfaces named apart from every  *)
(* other string, one method m()V whose code loads the constants `puts`.    *)
(* nm = the names of the class, its super class and the method.            *)
Names    == [this |-> "gen/Pool", super |-> "java/lang/Object", m |-> "m"]
(* after the prefix renaming of the harness (classes renamed/.., members   *)
(* r_..; a class constant is renamed, a string constant is not)            *)
RenNames == [this |-> "renamed/gen/Pool", super |-> "renamed/java/lang/Object", m |-> "r_m"]
RenConst(c) == IF Has(c, "class") THEN [class |-> "renamed/" \o c.class] ELSE c
RenPuts(puts) == [i \in DOMAIN puts |-> RenConst(puts[i])]

ClassNeed(nm, puts) ==
    {<<"Utf8", nm.this>>, <<"Class", nm.this>>, <<"Utf8", nm.super>>, <<"Class", nm.super>>,
     <<"Utf8", nm.m>>, <<"Utf8", "()V">>, <<"Utf8", "Code">>}
    \cup UNION {NeedOf(puts[i]) : i \in DOMAIN puts}
NeedCount(nm, pre, puts) == 1 + 2 * pre + SumSlots(ClassNeed(nm, puts))
Representable(nm, pre, puts) == NeedCount(nm, pre, puts) <= PoolMax
(* the tree as written: renamed or not *)
OutNames(ren) == IF ren THEN RenNames ELSE Names
OutPuts(ren, puts) == IF ren THEN RenPuts(puts) ELSE puts

(* the writer's own order for that class: this, super, interfaces (the     *)
(* base), method name and descriptor, the code's constants, the attribute  *)
(* name "Code" (put after the body), the bootstrap table                   *)
RECURSIVE PutAll(_, _, _)
PutAll(p, puts, acc) ==
    IF Len(puts) = 0 THEN <<p, acc>>
    ELSE LET a == PutLoadable(p, Head(puts)) IN PutAll(a[1], Tail(puts), Append(acc, a[2]))
WriteClass(nm, pre, puts) ==
    LET p0 == NewPool(2 * pre)
        p1 == PutOver(p0, "Class", nm.this)[1]
        p2 == PutOver(p1, "Class", nm.super)[1]
        p3 == PutUtf8(PutUtf8(p2, nm.m)[1], "()V")[1]
        a  == PutAll(p3, puts, <<>>)
        p4 == PutUtf8(a[1], "Code")[1]
    IN [pool |-> WriteBsm(p4, 1), idx |-> a[2]]
=============================================================================
