----------------------------- MODULE RawLayout -----------------------------
(***************************************************************************)
(* C20 - the class-file layout of JVMS (Java SE 21) chapter 4 AS DATA,     *)
(* for exactly the structures raw_class_file models (raw_class_file/src/   *)
(* lib.rs: ClassFile, CpInfo, FieldInfo, MethodInfo, enum AttributeInfo    *)
(* and the entry structs), and three generic interpreters of that table:   *)
(*                                                                         *)
(*   Encode(x)  the cells <<width, value, role, class>> of a raw value x   *)
(*              (a run of bytes - Utf8, code, opaque bodies - is one cell)  *)
(*              (mirrors the `write` rules of notation!, macros.rs)        *)
(*   LenOf(x)   its size in bytes            (mirrors the `len` rules)     *)
(*   Decode(b)  the raw value of a byte sequence (mirrors the `read`       *)
(*              rules; attribute dispatch on the pool's Utf8 name, lib.rs  *)
(*              pool_has_utf8) - as the JVMS prescribes them: pool indices *)
(*              count slots (a Long/Double takes two, 4.4.5), an attribute *)
(*              ends where its attribute_length says (4.7).  An attribute  *)
(*              whose name is a modelled one but whose body does not have  *)
(*              that layout within its attribute_length is kept as bytes   *)
(*              (Other): JVMS Table 4.7-C defines the predefined names by  *)
(*              location, elsewhere the name means nothing and readers     *)
(*              must skip the body; falling back on the body's shape keeps *)
(*              both halves of the property (every well-formed file is     *)
(*              read, every raw value is read back equal) satisfiable.     *)
(*                                                                         *)
(* A raw value is a record tree that mirrors the crate's public structs    *)
(* field by field (JSON-able): a structure is a record of its fields, a    *)
(* member of a tagged union additionally carries k = the variant, a table  *)
(* is a sequence, u1/u2 are numbers, a u4 DATUM (Integer/Float/Long/Double *)
(* payload, magic) is the pair <<high half, low half>> (TLC integers are   *)
(* 32 bit signed), a u4 count/length is a number.                          *)
(*                                                                         *)
(* Laws (checked by MC_RawLayout on a bounded universe, and - through the  *)
(* vectors and Trace_RawLayout - against ClassFile::{to_bytes, write,      *)
(* length, read}):                                                         *)
(*   RoundTrip   Consistent(x) /\ InRange(x) => Decode(Bytes(x)) = x       *)
(*   LengthLaw   LenOf(x) = Len(Bytes(x))                                  *)
(*   CountLaw    the count / length cells of Encode(x) are Prescribed(x):  *)
(*               every table count is the number of its elements,          *)
(*               constant_pool_count is the number of SLOTS plus one,      *)
(*               every attribute_length is LenOf of the fields after it    *)
(***************************************************************************)
EXTENDS Naturals, Sequences, FiniteSets, TLC

---------------------------------------------------------------------------
(* field descriptors *)
U1(n)  == [n |-> n, ty |-> "u", w |-> 1]
U2(n)  == [n |-> n, ty |-> "u", w |-> 2]
U4H(n) == [n |-> n, ty |-> "h"]                        \* u4 datum, carried as <<hi16, lo16>>
Magic  == [n |-> "magic", ty |-> "const", w |-> 4, val |-> <<51966, 47806>>]      \* 0xCAFE 0xBABE
AttrLen == [n |-> "attribute_length", ty |-> "len", w |-> 4]   \* byte length of ALL fields after it
(* table: a count cell named cn of cw bytes, then the elements (el = "u1" | "u2" | structure | union); *)
(* cc = "count" (number of items) or "len" (the items are bytes, the count is a byte length)          *)
Tab(n, cn, cw, el)  == [n |-> n, ty |-> "vec", cn |-> cn, cw |-> cw, el |-> el, cc |-> "count"]
Run(n, cn, cw)      == [n |-> n, ty |-> "vec", cn |-> cn, cw |-> cw, el |-> "u1", cc |-> "len"]
(* the constant pool: count = slots + 1, elements are CpInfo *)
Pool   == [n |-> "constant_pool", ty |-> "pool", cn |-> "constant_pool_count", cw |-> 2, el |-> "CpInfo"]
Rest(n) == [n |-> n, ty |-> "rest"]                    \* u1 info[attribute_length]: bytes up to the end of the attribute
One(n, el) == [n |-> n, ty |-> "one", el |-> el]       \* one nested structure / union member
TagTab(n, el) == [n |-> n, ty |-> "tagvec", el |-> el] \* table whose count is carried by the tag (append_frame)

AttrTab == Tab("attributes", "attributes_count", 2, "AttributeInfo")

---------------------------------------------------------------------------
(* structures: JVMS 4.1, 4.5, 4.6 and the entry structures of 4.7.x *)
Struct == [
  ClassFile |-> <<Magic, U2("minor_version"), U2("major_version"), Pool,
                  U2("access_flags"), U2("this_class"), U2("super_class"),
                  Tab("interfaces", "interfaces_count", 2, "u2"),
                  Tab("fields", "fields_count", 2, "FieldInfo"),
                  Tab("methods", "methods_count", 2, "MethodInfo"),
                  AttrTab>>,
  FieldInfo  |-> <<U2("access_flags"), U2("name_index"), U2("descriptor_index"), AttrTab>>,
  MethodInfo |-> <<U2("access_flags"), U2("name_index"), U2("descriptor_index"), AttrTab>>,
  ExceptionTableEntry |-> <<U2("start_pc"), U2("end_pc"), U2("handler_pc"), U2("catch_type")>>,
  InnerClassesEntry |-> <<U2("inner_class_info_index"), U2("outer_class_info_index"), U2("inner_name_index"),
                          U2("inner_class_access_flags")>>,
  LineNumberTableEntry |-> <<U2("start_pc"), U2("line_number")>>,
  LocalVariableTableEntry |-> <<U2("start_pc"), U2("length"), U2("name_index"), U2("descriptor_index"), U2("index")>>,
  LocalVariableTypeTableEntry |-> <<U2("start_pc"), U2("length"), U2("name_index"), U2("signature_index"), U2("index")>>,
  Annotation |-> <<U2("type_index"), Tab("element_value_pairs", "num_element_value_pairs", 2, "ElementValuePairsEntry")>>,
  ElementValuePairsEntry |-> <<U2("element_name_index"), One("value", "ElementValue")>>,
  ParameterAnnotationEntry |-> <<Tab("annotations", "num_annotations", 2, "Annotation")>>,
  BootstrapMethodsEntry |-> <<U2("bootstrap_method_ref"), Tab("bootstrap_arguments", "num_bootstrap_arguments", 2, "u2")>>,
  MethodParametersEntry |-> <<U2("name_index"), U2("access_flags")>>,
  ModuleRequiresEntry |-> <<U2("requires_index"), U2("requires_flags"), U2("requires_version_index")>>,
  ModuleExportsEntry |-> <<U2("exports_index"), U2("exports_flags"), Tab("exports_to_index", "exports_to_count", 2, "u2")>>,
  ModuleOpensEntry |-> <<U2("opens_index"), U2("opens_flags"), Tab("opens_to_index", "opens_to_count", 2, "u2")>>,
  ModuleProvidesEntry |-> <<U2("provides_index"), Tab("provides_with_index", "provides_with_count", 2, "u2")>>,
  RecordComponentInfo |-> <<U2("name_index"), U2("descriptor_index"), AttrTab>>
]

---------------------------------------------------------------------------
(* tagged unions.  A variant: tag range lo..hi, how the tag is formed     *)
(*   "const"  tag = lo                                                     *)
(*   "plus"   tag = lo + x[f]        (f is not written, it IS the tag)     *)
(*   "minus"  tag = hi + 1 - x[f]                                          *)
(*   "count"  tag = lo - 1 + Len(x[f])   (f is the TagTab of the variant)  *)
(* and the fields written after the tag.                                   *)
V(lo, fs)            == [lo |-> lo, hi |-> lo, mode |-> "const", f |-> "", slots |-> 1, fs |-> fs]
V2(lo, fs)           == [lo |-> lo, hi |-> lo, mode |-> "const", f |-> "", slots |-> 2, fs |-> fs]
VR(lo, hi, mode, f, fs) == [lo |-> lo, hi |-> hi, mode |-> mode, f |-> f, slots |-> 1, fs |-> fs]

CpVariants == [          \* 4.4, table 4.4-B
  Utf8               |-> V(1, <<Run("bytes", "length", 2)>>),
  Integer            |-> V(3, <<U4H("bytes")>>),
  Float              |-> V(4, <<U4H("bytes")>>),
  Long               |-> V2(5, <<U4H("high_bytes"), U4H("low_bytes")>>),       \* 4.4.5: takes two pool slots
  Double             |-> V2(6, <<U4H("high_bytes"), U4H("low_bytes")>>),
  Class              |-> V(7, <<U2("name_index")>>),
  String             |-> V(8, <<U2("string_index")>>),
  Fieldref           |-> V(9, <<U2("class_index"), U2("name_and_type_index")>>),
  Methodref          |-> V(10, <<U2("class_index"), U2("name_and_type_index")>>),
  InterfaceMethodref |-> V(11, <<U2("class_index"), U2("name_and_type_index")>>),
  NameAndType        |-> V(12, <<U2("name_index"), U2("descriptor_index")>>),
  MethodHandle       |-> V(15, <<U1("reference_kind"), U2("reference_index")>>),
  MethodType         |-> V(16, <<U2("descriptor_index")>>),
  Dynamic            |-> V(17, <<U2("bootstrap_method_attr_index"), U2("name_and_type_index")>>),
  InvokeDynamic      |-> V(18, <<U2("bootstrap_method_attr_index"), U2("name_and_type_index")>>),
  Module             |-> V(19, <<U2("name_index")>>),
  Package            |-> V(20, <<U2("name_index")>>)
]

VtVariants == [          \* 4.7.4 verification_type_info
  Top |-> V(0, <<>>), Integer |-> V(1, <<>>), Float |-> V(2, <<>>), Double |-> V(3, <<>>), Long |-> V(4, <<>>),
  Null |-> V(5, <<>>), UninitializedThis |-> V(6, <<>>),
  Object |-> V(7, <<U2("cpool_index")>>), Uninitialized |-> V(8, <<U2("offset")>>)
]

FrameVariants == [       \* 4.7.4 stack_map_frame
  SameFrame                          |-> VR(0, 63, "plus", "offset_delta", <<>>),
  SameLocals1StackItemFrame          |-> VR(64, 127, "plus", "offset_delta", <<One("stack", "VerificationTypeInfo")>>),
  SameLocals1StackItemFrameExtended  |-> V(247, <<U2("offset_delta"), One("stack", "VerificationTypeInfo")>>),
  ChopFrame                          |-> VR(248, 250, "minus", "chop", <<U2("offset_delta")>>),
  SameFrameExtended                  |-> V(251, <<U2("offset_delta")>>),
  AppendFrame                        |-> VR(252, 254, "count", "locals", <<U2("offset_delta"), TagTab("locals", "VerificationTypeInfo")>>),
  FullFrame                          |-> V(255, <<U2("offset_delta"),
                                                  Tab("locals", "number_of_locals", 2, "VerificationTypeInfo"),
                                                  Tab("stack", "number_of_stack_items", 2, "VerificationTypeInfo")>>)
]

EvConst(tag) == V(tag, <<U2("const_value_index")>>)
EvVariants == [          \* 4.7.16.1 element_value; tags are the ASCII codes of B C D F I J S Z s e c @ [
  Byte |-> EvConst(66), Char |-> EvConst(67), Double |-> EvConst(68), Float |-> EvConst(70), Integer |-> EvConst(73),
  Long |-> EvConst(74), Short |-> EvConst(83), Boolean |-> EvConst(90), String |-> EvConst(115),
  Enum |-> V(101, <<U2("type_name_index"), U2("const_name_index")>>),
  Class |-> V(99, <<U2("class_info_index")>>),
  Annotation |-> V(64, <<One("annotation_value", "Annotation")>>),
  Array |-> V(91, <<Tab("values", "num_values", 2, "ElementValue")>>)
]

(* attributes (4.7.2 - 4.7.31, those of enum AttributeInfo): u2 attribute_name_index (a datum: the *)
(* variant is chosen by the Utf8 constant it points to), u4 attribute_length, then the body.       *)
A(fs) == [fs |-> <<AttrLen>> \o fs]
AttrVariants == [
  ConstantValue |-> A(<<U2("constantvalue_index")>>),
  Code |-> A(<<U2("max_stack"), U2("max_locals"), Run("code", "code_length", 4),
               Tab("exception_table", "exception_table_length", 2, "ExceptionTableEntry"), AttrTab>>),
  StackMapTable |-> A(<<Tab("entries", "number_of_entries", 2, "StackMapFrame")>>),
  Exceptions |-> A(<<Tab("exception_index_table", "number_of_exceptions", 2, "u2")>>),
  InnerClasses |-> A(<<Tab("classes", "number_of_classes", 2, "InnerClassesEntry")>>),
  EnclosingMethod |-> A(<<U2("class_index"), U2("method_index")>>),
  Synthetic |-> A(<<>>),
  Signature |-> A(<<U2("signature_index")>>),
  SourceFile |-> A(<<U2("sourcefile_index")>>),
  SourceDebugExtension |-> A(<<Rest("debug_extension")>>),
  LineNumberTable |-> A(<<Tab("line_number_table", "line_number_table_length", 2, "LineNumberTableEntry")>>),
  LocalVariableTable |-> A(<<Tab("local_variable_table", "local_variable_table_length", 2, "LocalVariableTableEntry")>>),
  LocalVariableTypeTable |-> A(<<Tab("local_variable_type_table", "local_variable_type_table_length", 2, "LocalVariableTypeTableEntry")>>),
  Deprecated |-> A(<<>>),
  RuntimeVisibleAnnotations |-> A(<<Tab("annotations", "num_annotations", 2, "Annotation")>>),
  RuntimeInvisibleAnnotations |-> A(<<Tab("annotations", "num_annotations", 2, "Annotation")>>),
  RuntimeVisibleParameterAnnotations |-> A(<<Tab("parameter_annotations", "num_parameters", 1, "ParameterAnnotationEntry")>>),
  RuntimeInvisibleParameterAnnotations |-> A(<<Tab("parameter_annotations", "num_parameters", 1, "ParameterAnnotationEntry")>>),
  AnnotationDefault |-> A(<<One("default_value", "ElementValue")>>),
  BootstrapMethods |-> A(<<Tab("bootstrap_methods", "num_bootstrap_methods", 2, "BootstrapMethodsEntry")>>),
  MethodParameters |-> A(<<Tab("parameters", "parameters_count", 1, "MethodParametersEntry")>>),          \* 4.7.24: u1
  Module |-> A(<<U2("module_name_index"), U2("module_flags"), U2("module_version_index"),
                 Tab("requires", "requires_count", 2, "ModuleRequiresEntry"),
                 Tab("exports", "exports_count", 2, "ModuleExportsEntry"),
                 Tab("opens", "opens_count", 2, "ModuleOpensEntry"),
                 Tab("uses_index", "uses_count", 2, "u2"),
                 Tab("provides", "provides_count", 2, "ModuleProvidesEntry")>>),
  ModulePackages |-> A(<<Tab("package_index", "package_count", 2, "u2")>>),
  ModuleMainClass |-> A(<<U2("main_class_index")>>),
  NestHost |-> A(<<U2("host_class_index")>>),
  NestMembers |-> A(<<Tab("classes", "number_of_classes", 2, "u2")>>),
  Record |-> A(<<Tab("components", "components_count", 2, "RecordComponentInfo")>>),
  PermittedSubclasses |-> A(<<Tab("classes", "number_of_classes", 2, "u2")>>),
  Other |-> A(<<Rest("info")>>)                 \* any other name: the body is kept as bytes
]

(* the Utf8 bytes (ASCII) that select each attribute variant *)
AttrName == [
    ConstantValue |-> <<67, 111, 110, 115, 116, 97, 110, 116, 86, 97, 108, 117, 101>>,
    Code |-> <<67, 111, 100, 101>>,
    StackMapTable |-> <<83, 116, 97, 99, 107, 77, 97, 112, 84, 97, 98, 108, 101>>,
    Exceptions |-> <<69, 120, 99, 101, 112, 116, 105, 111, 110, 115>>,
    InnerClasses |-> <<73, 110, 110, 101, 114, 67, 108, 97, 115, 115, 101, 115>>,
    EnclosingMethod |-> <<69, 110, 99, 108, 111, 115, 105, 110, 103, 77, 101, 116, 104, 111, 100>>,
    Synthetic |-> <<83, 121, 110, 116, 104, 101, 116, 105, 99>>,
    Signature |-> <<83, 105, 103, 110, 97, 116, 117, 114, 101>>,
    SourceFile |-> <<83, 111, 117, 114, 99, 101, 70, 105, 108, 101>>,
    SourceDebugExtension |-> <<83, 111, 117, 114, 99, 101, 68, 101, 98, 117, 103, 69, 120, 116, 101, 110, 115, 105, 111, 110>>,
    LineNumberTable |-> <<76, 105, 110, 101, 78, 117, 109, 98, 101, 114, 84, 97, 98, 108, 101>>,
    LocalVariableTable |-> <<76, 111, 99, 97, 108, 86, 97, 114, 105, 97, 98, 108, 101, 84, 97, 98, 108, 101>>,
    LocalVariableTypeTable |-> <<76, 111, 99, 97, 108, 86, 97, 114, 105, 97, 98, 108, 101, 84, 121, 112, 101, 84, 97, 98, 108, 101>>,
    Deprecated |-> <<68, 101, 112, 114, 101, 99, 97, 116, 101, 100>>,
    RuntimeVisibleAnnotations |-> <<82, 117, 110, 116, 105, 109, 101, 86, 105, 115, 105, 98, 108, 101, 65, 110, 110, 111, 116, 97, 116, 105, 111, 110, 115>>,
    RuntimeInvisibleAnnotations |-> <<82, 117, 110, 116, 105, 109, 101, 73, 110, 118, 105, 115, 105, 98, 108, 101, 65, 110, 110, 111, 116, 97, 116, 105, 111, 110, 115>>,
    RuntimeVisibleParameterAnnotations |-> <<82, 117, 110, 116, 105, 109, 101, 86, 105, 115, 105, 98, 108, 101, 80, 97, 114, 97, 109, 101, 116, 101, 114, 65, 110, 110, 111, 116, 97, 116, 105, 111, 110, 115>>,
    RuntimeInvisibleParameterAnnotations |-> <<82, 117, 110, 116, 105, 109, 101, 73, 110, 118, 105, 115, 105, 98, 108, 101, 80, 97, 114, 97, 109, 101, 116, 101, 114, 65, 110, 110, 111, 116, 97, 116, 105, 111, 110, 115>>,
    AnnotationDefault |-> <<65, 110, 110, 111, 116, 97, 116, 105, 111, 110, 68, 101, 102, 97, 117, 108, 116>>,
    BootstrapMethods |-> <<66, 111, 111, 116, 115, 116, 114, 97, 112, 77, 101, 116, 104, 111, 100, 115>>,
    MethodParameters |-> <<77, 101, 116, 104, 111, 100, 80, 97, 114, 97, 109, 101, 116, 101, 114, 115>>,
    Module |-> <<77, 111, 100, 117, 108, 101>>,
    ModulePackages |-> <<77, 111, 100, 117, 108, 101, 80, 97, 99, 107, 97, 103, 101, 115>>,
    ModuleMainClass |-> <<77, 111, 100, 117, 108, 101, 77, 97, 105, 110, 67, 108, 97, 115, 115>>,
    NestHost |-> <<78, 101, 115, 116, 72, 111, 115, 116>>,
    NestMembers |-> <<78, 101, 115, 116, 77, 101, 109, 98, 101, 114, 115>>,
    Record |-> <<82, 101, 99, 111, 114, 100>>,
    PermittedSubclasses |-> <<80, 101, 114, 109, 105, 116, 116, 101, 100, 83, 117, 98, 99, 108, 97, 115, 115, 101, 115>>
]
NamedAttrs == DOMAIN AttrName
AttrKinds == DOMAIN AttrVariants

Union == [
  CpInfo               |-> [tw |-> 1, vs |-> CpVariants],
  VerificationTypeInfo |-> [tw |-> 1, vs |-> VtVariants],
  StackMapFrame        |-> [tw |-> 1, vs |-> FrameVariants],
  ElementValue         |-> [tw |-> 1, vs |-> EvVariants]
]
StructNames == DOMAIN Struct
UnionNames == DOMAIN Union
IsScalarT(t) == t \in {"u1", "u2"}
ScalarW(t) == IF t = "u1" THEN 1 ELSE 2

(* role prefix of a structure / variant *)
CtxOf(t, k) == IF t = "AttributeInfo" THEN k ELSE t \o "." \o k

---------------------------------------------------------------------------
(* the pool slot rule, 4.4.5 *)
SlotsOf(e) == CpVariants[e.k].slots
RECURSIVE SlotsFrom(_, _)
SlotsFrom(pool, i) == IF i > Len(pool) THEN 0 ELSE SlotsOf(pool[i]) + SlotsFrom(pool, i + 1)
Slots(pool) == SlotsFrom(pool, 1)

NoEntry == [k |-> "none"]
RECURSIVE PoolWalk(_, _, _, _)
PoolWalk(pool, idx, i, s) ==            \* s = pool index of pool[i]
    IF i > Len(pool) \/ s > idx THEN NoEntry
    ELSE IF s = idx THEN pool[i]
    ELSE PoolWalk(pool, idx, i + 1, s + SlotsOf(pool[i]))
(* the entry a pool index denotes (none for 0, the unusable slot after a Long/Double, out of range) *)
PoolAt(pool, idx) == PoolWalk(pool, idx, 1, 1)

(* pool index of the i-th entry of the sequence *)
RECURSIVE IndexOfPos(_, _)
IndexOfPos(pool, i) == IF i = 1 THEN 1 ELSE IndexOfPos(pool, i - 1) + SlotsOf(pool[i - 1])

(* the attribute variant a name index selects: "?" if it does not denote a Utf8 constant *)
AttrKindAt(pool, idx) ==
    LET e == PoolAt(pool, idx) IN
    IF e.k # "Utf8" THEN "?"
    ELSE IF \E a \in NamedAttrs : AttrName[a] = e.bytes THEN CHOOSE a \in NamedAttrs : AttrName[a] = e.bytes
    ELSE "Other"

---------------------------------------------------------------------------
(* cells *)
Cell(w, v, r, c) == [w |-> w, v |-> v, r |-> r, c |-> c]
IsPair(cell) == cell.w = 4 /\ cell.c \in {"data", "const"}

RECURSIVE CellBytes(_, _)
CellBytes(cells, i) == IF i > Len(cells) THEN 0 ELSE cells[i].w + CellBytes(cells, i + 1)
ByteLen(cells) == CellBytes(cells, 1)

B2(v) == <<v \div 256, v % 256>>
B4(v) == <<v \div 16777216, (v \div 65536) % 256, (v \div 256) % 256, v % 256>>
BytesOfCell(c) ==
    IF c.c = "run" THEN c.v
    ELSE IF c.w = 1 THEN <<c.v>>
    ELSE IF c.w = 2 THEN B2(c.v)
    ELSE IF IsPair(c) THEN B2(c.v[1]) \o B2(c.v[2])
    ELSE B4(c.v)
RECURSIVE FlattenFrom(_, _)
FlattenFrom(cells, i) == IF i > Len(cells) THEN <<>> ELSE BytesOfCell(cells[i]) \o FlattenFrom(cells, i + 1)
Flatten(cells) == FlattenFrom(cells, 1)

---------------------------------------------------------------------------
(* variant lookup *)
VariantOf(t, x) == IF t = "AttributeInfo" THEN AttrVariants[x.k] ELSE Union[t].vs[x.k]
TagOf(v, x) ==
    CASE v.mode = "const" -> v.lo
      [] v.mode = "plus" -> v.lo + x[v.f]
      [] v.mode = "minus" -> v.hi + 1 - x[v.f]
      [] v.mode = "count" -> v.lo - 1 + Len(x[v.f])

---------------------------------------------------------------------------
(* Encode: operational, one case per rule of the writer *)
RECURSIVE EncT(_, _), EncFs(_, _, _, _), EncSeq(_, _, _, _)

EncSeq(el, r, s, i) ==
    IF el = "u1" THEN <<Cell(Len(s), s, r, "run")>>         \* a run of bytes is one cell: its width is its length
    ELSE IF i > Len(s) THEN <<>>
    ELSE (IF IsScalarT(el) THEN <<Cell(ScalarW(el), s[i], r, "data")>> ELSE EncT(el, s[i])) \o EncSeq(el, r, s, i + 1)

EncFs(ctx, fs, i, x) ==
    IF i > Len(fs) THEN <<>>
    ELSE LET f == fs[i]
             r == ctx \o "." \o f.n
         IN CASE f.ty = "u" -> <<Cell(f.w, x[f.n], r, "data")>> \o EncFs(ctx, fs, i + 1, x)
              [] f.ty = "h" -> <<Cell(4, x[f.n], r, "data")>> \o EncFs(ctx, fs, i + 1, x)
              [] f.ty = "const" -> <<Cell(f.w, f.val, r, "const")>> \o EncFs(ctx, fs, i + 1, x)
              [] f.ty = "len" -> LET rest == EncFs(ctx, fs, i + 1, x) IN <<Cell(f.w, ByteLen(rest), r, "len")>> \o rest
              [] f.ty = "vec" -> <<Cell(f.cw, Len(x[f.n]), ctx \o "." \o f.cn, f.cc)>> \o EncSeq(f.el, r, x[f.n], 1)
                                 \o EncFs(ctx, fs, i + 1, x)
              [] f.ty = "pool" -> <<Cell(f.cw, Slots(x[f.n]) + 1, ctx \o "." \o f.cn, "count")>> \o EncSeq(f.el, r, x[f.n], 1)
                                  \o EncFs(ctx, fs, i + 1, x)
              [] f.ty = "rest" -> EncSeq("u1", r, x[f.n], 1) \o EncFs(ctx, fs, i + 1, x)
              [] f.ty = "one" -> EncT(f.el, x[f.n]) \o EncFs(ctx, fs, i + 1, x)
              [] f.ty = "tagvec" -> EncSeq(f.el, r, x[f.n], 1) \o EncFs(ctx, fs, i + 1, x)

EncT(t, x) ==
    IF t \in StructNames THEN EncFs(t, Struct[t], 1, x)
    ELSE IF t = "AttributeInfo"
         THEN <<Cell(2, x.attribute_name_index, x.k \o ".attribute_name_index", "data")>> \o EncFs(x.k, AttrVariants[x.k].fs, 1, x)
    ELSE LET v == Union[t].vs[x.k]
             ctx == CtxOf(t, x.k)
         IN <<Cell(Union[t].tw, TagOf(v, x), ctx \o ".tag", "tag")>> \o EncFs(ctx, v.fs, 1, x)

Encode(x) == EncT("ClassFile", x)
Bytes(x) == Flatten(Encode(x))

---------------------------------------------------------------------------
(* LenOf: the size in bytes, by the table alone (the `len` rules) *)
RECURSIVE LenT(_, _), LenFs(_, _, _), LenSeq(_, _, _)
LenSeq(el, s, i) == IF IsScalarT(el) THEN ScalarW(el) * Len(s)
                    ELSE IF i > Len(s) THEN 0 ELSE LenT(el, s[i]) + LenSeq(el, s, i + 1)
LenFs(fs, i, x) ==
    IF i > Len(fs) THEN 0
    ELSE LET f == fs[i] IN
         (CASE f.ty = "u" -> f.w
            [] f.ty = "h" -> 4
            [] f.ty = "const" -> f.w
            [] f.ty = "len" -> f.w
            [] f.ty = "vec" -> f.cw + LenSeq(f.el, x[f.n], 1)
            [] f.ty = "pool" -> f.cw + LenSeq(f.el, x[f.n], 1)
            [] f.ty = "rest" -> Len(x[f.n])
            [] f.ty = "one" -> LenT(f.el, x[f.n])
            [] f.ty = "tagvec" -> LenSeq(f.el, x[f.n], 1))
         + LenFs(fs, i + 1, x)
LenT(t, x) ==
    IF t \in StructNames THEN LenFs(Struct[t], 1, x)
    ELSE IF t = "AttributeInfo" THEN 2 + LenFs(AttrVariants[x.k].fs, 1, x)
    ELSE Union[t].tw + LenFs(Union[t].vs[x.k].fs, 1, x)
LenOf(x) == LenT("ClassFile", x)

---------------------------------------------------------------------------
(* Prescribed: the count / length fields of x in file order as <<role, width, value>>, stated  *)
(* declaratively from the table: number of elements, slots + 1, LenOf of the following fields. *)
RECURSIVE PreT(_, _), PreFs(_, _, _, _), PreSeq(_, _, _)
PreSeq(el, s, i) == IF IsScalarT(el) \/ i > Len(s) THEN <<>> ELSE PreT(el, s[i]) \o PreSeq(el, s, i + 1)
PreFs(ctx, fs, i, x) ==
    IF i > Len(fs) THEN <<>>
    ELSE LET f == fs[i] IN
         (CASE f.ty = "len" -> <<<<ctx \o "." \o f.n, f.w, LenFs(fs, i + 1, x)>>>>
            [] f.ty = "vec" -> <<<<ctx \o "." \o f.cn, f.cw, Len(x[f.n])>>>> \o PreSeq(f.el, x[f.n], 1)
            [] f.ty = "pool" -> <<<<ctx \o "." \o f.cn, f.cw, Slots(x[f.n]) + 1>>>> \o PreSeq(f.el, x[f.n], 1)
            [] f.ty = "one" -> PreT(f.el, x[f.n])
            [] f.ty = "tagvec" -> PreSeq(f.el, x[f.n], 1)
            [] OTHER -> <<>>)
         \o PreFs(ctx, fs, i + 1, x)
PreT(t, x) ==
    IF t \in StructNames THEN PreFs(t, Struct[t], 1, x)
    ELSE IF t = "AttributeInfo" THEN PreFs(x.k, AttrVariants[x.k].fs, 1, x)
    ELSE PreFs(CtxOf(t, x.k), Union[t].vs[x.k].fs, 1, x)
Prescribed(x) == PreT("ClassFile", x)

RECURSIVE CountCellsFrom(_, _)
CountCellsFrom(cells, i) ==
    IF i > Len(cells) THEN <<>>
    ELSE (IF cells[i].c \in {"count", "len"} THEN <<<<cells[i].r, cells[i].w, cells[i].v>>>> ELSE <<>>) \o CountCellsFrom(cells, i + 1)
CountCells(cells) == CountCellsFrom(cells, 1)

---------------------------------------------------------------------------
(* Decode: bytes -> raw value.  Results are [v |-> value, p |-> next position]; p = 0 is refusal. *)
Bad == [v |-> "bad", p |-> 0]
Fits(b, p, w, lim) == p >= 1 /\ p + w <= lim /\ p + w - 1 <= Len(b)
Rd(b, p, w) == IF w = 1 THEN b[p] ELSE IF w = 2 THEN b[p] * 256 + b[p + 1]
               ELSE ((b[p] * 256 + b[p + 1]) * 256 + b[p + 2]) * 256 + b[p + 3]
RdH(b, p) == <<b[p] * 256 + b[p + 1], b[p + 2] * 256 + b[p + 3]>>
FitsNum(b, p, w, lim) == Fits(b, p, w, lim) /\ (w = 4 => b[p] < 128)

RECURSIVE DecT(_, _, _, _, _), DecFs(_, _, _, _, _, _, _, _), DecSeq(_, _, _, _, _, _, _), DecPool(_, _, _, _, _)

(* n elements of type el from position p *)
DecSeq(el, n, b, p, pool, lim, acc) ==
    IF n = 0 THEN [v |-> acc, p |-> p]
    ELSE IF IsScalarT(el)
         THEN (IF Fits(b, p, ScalarW(el), lim) THEN DecSeq(el, n - 1, b, p + ScalarW(el), pool, lim, Append(acc, Rd(b, p, ScalarW(el)))) ELSE Bad)
         ELSE LET e == DecT(el, b, p, pool, lim) IN
              IF e.p = 0 THEN Bad ELSE DecSeq(el, n - 1, b, e.p, pool, lim, Append(acc, e.v))

(* pool entries until `slots` slots are filled *)
DecPool(slots, b, p, lim, acc) ==
    IF slots = 0 THEN [v |-> acc, p |-> p]
    ELSE IF slots < 0 THEN Bad
    ELSE LET e == DecT("CpInfo", b, p, <<>>, lim) IN
         IF e.p = 0 THEN Bad ELSE DecPool(slots - SlotsOf(e.v), b, e.p, lim, Append(acc, e.v))

DecFs(ctx, fs, i, b, p, acc, pool, lim) ==
    IF i > Len(fs) THEN [v |-> acc, p |-> p]
    ELSE LET f == fs[i] IN
      CASE f.ty = "u" -> IF Fits(b, p, f.w, lim) THEN DecFs(ctx, fs, i + 1, b, p + f.w, acc @@ (f.n :> Rd(b, p, f.w)), pool, lim) ELSE Bad
        [] f.ty = "h" -> IF Fits(b, p, 4, lim) THEN DecFs(ctx, fs, i + 1, b, p + 4, acc @@ (f.n :> RdH(b, p)), pool, lim) ELSE Bad
        [] f.ty = "const" -> IF Fits(b, p, 4, lim) /\ RdH(b, p) = f.val THEN DecFs(ctx, fs, i + 1, b, p + 4, acc, pool, lim) ELSE Bad
        [] f.ty = "len" ->
              IF ~FitsNum(b, p, f.w, lim) THEN Bad
              ELSE LET end == p + f.w + Rd(b, p, f.w)
                       r == IF end <= lim THEN DecFs(ctx, fs, i + 1, b, p + f.w, acc, pool, end) ELSE Bad
                   IN IF r.p = end THEN r ELSE Bad              \* the body fills the announced length exactly
        [] f.ty = "vec" ->
              IF ~FitsNum(b, p, f.cw, lim) THEN Bad
              ELSE LET n == Rd(b, p, f.cw)
                       s == IF f.el = "u1"
                            THEN (IF p + f.cw + n <= lim /\ p + f.cw + n - 1 <= Len(b) THEN [v |-> SubSeq(b, p + f.cw, p + f.cw + n - 1), p |-> p + f.cw + n] ELSE Bad)
                            ELSE DecSeq(f.el, n, b, p + f.cw, pool, lim, <<>>)
                   IN IF s.p = 0 THEN Bad ELSE DecFs(ctx, fs, i + 1, b, s.p, acc @@ (f.n :> s.v), pool, lim)
        [] f.ty = "pool" ->
              IF ~Fits(b, p, f.cw, lim) \/ Rd(b, p, f.cw) = 0 THEN Bad
              ELSE LET s == DecPool(Rd(b, p, f.cw) - 1, b, p + f.cw, lim, <<>>)
                   IN IF s.p = 0 THEN Bad ELSE DecFs(ctx, fs, i + 1, b, s.p, acc @@ (f.n :> s.v), s.v, lim)
        [] f.ty = "rest" -> IF lim - 1 <= Len(b) THEN DecFs(ctx, fs, i + 1, b, lim, acc @@ (f.n :> SubSeq(b, p, lim - 1)), pool, lim) ELSE Bad
        [] f.ty = "one" -> LET e == DecT(f.el, b, p, pool, lim) IN
                           IF e.p = 0 THEN Bad ELSE DecFs(ctx, fs, i + 1, b, e.p, acc @@ (f.n :> e.v), pool, lim)
        [] f.ty = "tagvec" -> LET s == DecSeq(f.el, acc.n_, b, p, pool, lim, <<>>) IN       \* count left by the tag
                              IF s.p = 0 THEN Bad
                              ELSE DecFs(ctx, fs, i + 1, b, s.p, [z \in (DOMAIN acc \ {"n_"}) |-> acc[z]] @@ (f.n :> s.v), pool, lim)

DecT(t, b, p, pool, lim) ==
    IF t \in StructNames THEN DecFs(t, Struct[t], 1, b, p, <<>>, pool, lim)
    ELSE IF t = "AttributeInfo"
    THEN IF ~Fits(b, p, 2, lim) THEN Bad
         ELSE LET idx == Rd(b, p, 2)
                  k == AttrKindAt(pool, idx)
                  dec(kk) == DecFs(kk, AttrVariants[kk].fs, 1, b, p + 2, ("k" :> kk) @@ ("attribute_name_index" :> idx), pool, lim)
              IN IF k = "?" THEN Bad
                 ELSE IF k = "Other" \/ dec(k).p # 0 THEN dec(k)
                 ELSE dec("Other")       \* the name is a modelled one but the body is not of that layout: kept as bytes
    ELSE IF ~Fits(b, p, Union[t].tw, lim) THEN Bad
    ELSE LET tag == Rd(b, p, Union[t].tw)
             vs == Union[t].vs
         IN IF ~\E k \in DOMAIN vs : vs[k].lo <= tag /\ tag <= vs[k].hi THEN Bad
            ELSE LET k == CHOOSE k \in DOMAIN vs : vs[k].lo <= tag /\ tag <= vs[k].hi
                     v == vs[k]
                     acc == ("k" :> k) @@
                            (CASE v.mode = "plus" -> (v.f :> tag - v.lo)
                               [] v.mode = "minus" -> (v.f :> v.hi + 1 - tag)
                               [] v.mode = "count" -> ("n_" :> tag - v.lo + 1)
                               [] OTHER -> <<>>)
                 IN DecFs(CtxOf(t, k), v.fs, 1, b, p + Union[t].tw, acc, pool, lim)

(* a class file is read from the first byte to the last *)
Decode(b) == LET r == DecT("ClassFile", b, 1, <<>>, Len(b) + 1) IN IF r.p = Len(b) + 1 THEN r ELSE Bad

---------------------------------------------------------------------------
(* the domain of raw values: every number fits its field, derived tags stay in their range *)
RECURSIVE RngT(_, _), RngFs(_, _, _)
Max(w) == IF w = 1 THEN 255 ELSE IF w = 2 THEN 65535 ELSE 2147483647
RngSeq(el, s) == IF IsScalarT(el) THEN \A i \in 1..Len(s) : s[i] \in 0..Max(ScalarW(el))
                 ELSE \A i \in 1..Len(s) : RngT(el, s[i])
RngFs(fs, i, x) ==
    IF i > Len(fs) THEN TRUE
    ELSE LET f == fs[i] IN
         /\ CASE f.ty = "u" -> x[f.n] \in 0..Max(f.w)
              [] f.ty = "h" -> x[f.n][1] \in 0..65535 /\ x[f.n][2] \in 0..65535
              [] f.ty = "vec" -> Len(x[f.n]) <= Max(f.cw) /\ RngSeq(f.el, x[f.n])
              [] f.ty = "pool" -> Slots(x[f.n]) + 1 <= Max(f.cw) /\ RngSeq(f.el, x[f.n])
              [] f.ty = "rest" -> RngSeq("u1", x[f.n])
              [] f.ty = "one" -> RngT(f.el, x[f.n])
              [] f.ty = "tagvec" -> RngSeq(f.el, x[f.n])
              [] OTHER -> TRUE
         /\ RngFs(fs, i + 1, x)
RngT(t, x) ==
    IF t \in StructNames THEN RngFs(Struct[t], 1, x)
    ELSE IF t = "AttributeInfo" THEN x.attribute_name_index \in 0..65535 /\ RngFs(AttrVariants[x.k].fs, 1, x)
    ELSE LET v == Union[t].vs[x.k] IN TagOf(v, x) \in v.lo..v.hi /\ RngFs(v.fs, 1, x)
InRange(x) == RngT("ClassFile", x)

(* every attribute is named by the pool: its name index denotes the Utf8 constant of its kind *)
(* (an Other attribute: a Utf8 constant that names none of the modelled kinds)                 *)
RECURSIVE ConsT(_, _, _), ConsFs(_, _, _, _)
ConsSeq(el, s, pool) == IsScalarT(el) \/ \A i \in 1..Len(s) : ConsT(el, s[i], pool)
ConsFs(fs, i, x, pool) ==
    IF i > Len(fs) THEN TRUE
    ELSE LET f == fs[i] IN
         /\ CASE f.ty \in {"vec", "tagvec"} -> ConsSeq(f.el, x[f.n], pool)
              [] f.ty = "one" -> ConsT(f.el, x[f.n], pool)
              [] OTHER -> TRUE
         /\ ConsFs(fs, i + 1, x, pool)
ConsT(t, x, pool) ==
    IF t \in StructNames THEN ConsFs(Struct[t], 1, x, pool)
    ELSE IF t = "AttributeInfo" THEN AttrKindAt(pool, x.attribute_name_index) = x.k /\ ConsFs(AttrVariants[x.k].fs, 1, x, pool)
    ELSE ConsFs(Union[t].vs[x.k].fs, 1, x, pool)
Consistent(x) == ConsT("ClassFile", x, x.constant_pool)

---------------------------------------------------------------------------
(* the laws *)
RoundTrip(x) == (Consistent(x) /\ InRange(x)) => Decode(Bytes(x)) = [v |-> x, p |-> LenOf(x) + 1]
LengthLaw(x) == LenOf(x) = ByteLen(Encode(x)) /\ LenOf(x) = Len(Bytes(x))
CountLaw(x) == CountCells(Encode(x)) = Prescribed(x)

(* does the pool contain an entry that takes two slots *)
HasWide(x) == \E i \in 1..Len(x.constant_pool) : SlotsOf(x.constant_pool[i]) = 2
=============================================================================
