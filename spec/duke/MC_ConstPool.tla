---------------------------- MODULE MC_ConstPool ----------------------------
(***************************************************************************)
(* Bounded instance for C02 (constant pool).  A case is a number `pre` of  *)
(* interfaces (2 pool entries each, put before everything else) and a      *)
(* sequence of at most MaxLen loadable constants, grown one constant per   *)
(* Next step.  `pre` is chosen so that the constants land on both sides of *)
(* index 255 (ldc / ldc_w) and of the 65535 limit.  The constants share    *)
(* sub-entries (a String and a Class over the same Utf8, the method's own  *)
(* name and descriptor, two dynamic constants over one bootstrap row, a    *)
(* long as bootstrap argument).                                            *)
(***************************************************************************)
EXTENDS ConstPool, Json, TLC

CONSTANT Tier
VARIABLES pre, puts, ren
vars == <<pre, puts, ren>>

H == [kind |-> "invokestatic", owner |-> "k/B", name |-> "b", desc |-> "()Ljava/lang/Object;", itf |-> FALSE]
HF == [kind |-> "getstatic", owner |-> "k/B", name |-> "f", desc |-> "I", itf |-> FALSE]
Dyn(args, n, d) == [dynamic |-> [bsm |-> H, args |-> args, name |-> n, desc |-> d]]
Consts ==
    {[int |-> 1], [int |-> 2], [float |-> 1], [long |-> "1"], [double |-> "1"], [string |-> "a"], [class |-> "a"],
     [string |-> "m"], [method_type |-> "()V"], [method_handle |-> H], [method_handle |-> HF],
     Dyn(<<[int |-> 1]>>, "x", "I"), Dyn(<<[int |-> 1]>>, "y", "I"), Dyn(<<[long |-> "1"]>>, "z", "J")}
    \cup (IF Tier = 0 THEN {} ELSE {[long |-> "2"], [string |-> "Code"], [class |-> "k/B"], Dyn(<<[int |-> 1], [string |-> "a"]>>, "x", "I")})
(* renamed trees: constants whose needs change when classes and members get *)
(* new names (a String and a Class over one Utf8, the method's and the      *)
(* class's own name as a string)                                            *)
RenConsts == {[int |-> 1], [long |-> "1"], [string |-> "a"], [class |-> "a"], [string |-> "m"], [method_type |-> "()V"],
              [string |-> "gen/Pool"], [class |-> "gen/Pool"]}
MaxLen == IF Tier = 0 THEN 2 ELSE 3

(* first constant of the code lands at index 7 + 2 * pre *)
PresLow == {0, 122, 123, 124, 125}
PresHigh == IF Tier = 0 THEN {32762} ELSE {32761, 32762, 32763}
HighConsts == {[long |-> "1"], [string |-> "a"], [class |-> "a"]}

Init == pre = -1 /\ puts = <<>> /\ ren = FALSE
PickPre == /\ pre = -1
           /\ \/ pre' \in PresLow /\ ren' \in {FALSE, TRUE}
              \/ pre' \in PresHigh /\ ren' \in {FALSE, TRUE}
           /\ UNCHANGED puts
Grow == /\ pre >= 0 /\ Len(puts) < (IF pre > 1000 THEN 2 ELSE MaxLen)
        /\ \E c \in (IF pre > 1000 THEN HighConsts ELSE IF ren THEN RenConsts ELSE Consts) : puts' = Append(puts, c)
        /\ UNCHANGED <<pre, ren>>
Next == PickPre \/ Grow
Spec == Init /\ [][Next]_vars

NM == OutNames(ren)
OP == OutPuts(ren, puts)
W == WriteClass(NM, pre, OP)
Case == pre >= 0 /\ Len(puts) >= 1

InvHashConsed == Case => HashConsed(W.pool) /\ BsmDistinct(W.pool)
InvDense      == Case /\ W.pool.ok => Dense(W.pool, 2 * pre)
InvRefs       == Case /\ W.pool.ok => RefsOK(W.pool)
(* the operational writer succeeds exactly when the class is representable, *)
(* and then uses exactly the needed number of slots                        *)
InvLaw        == Case => /\ (W.pool.ok <=> Representable(NM, pre, OP))
                         /\ (W.pool.ok => W.pool.count = NeedCount(NM, pre, OP))
InvCountBound == Case => W.pool.count <= PoolMax
InvLdc        == Case /\ W.pool.ok =>
                    \A k \in DOMAIN puts : LdcForm(OP[k], W.idx[k]) = "short" => W.idx[k] <= 255 /\ ~Cat2(OP[k])
(* renaming never merges entries, it can only separate them *)
InvRenGrows   == Case => NeedCount(RenNames, pre, RenPuts(puts)) >= NeedCount(Names, pre, puts)

(* emitted: the cases some input class file can hold (it needs the same     *)
(* entries as the unrenamed tree)                                           *)
EmitVec ==
    (Case /\ Representable(Names, pre, puts)) =>
        PrintT(ToJson([op |-> "pool", pre |-> pre, puts |-> puts, ren |-> ren,
                       pad |-> IF Len(puts) % 2 = 0 \/ pre > 1000 THEN 0 ELSE 300,
                       model |-> [ok |-> W.pool.ok, count |-> W.pool.count, idx |-> W.idx,
                                  forms |-> [k \in DOMAIN puts |-> LdcForm(OP[k], W.idx[k])],
                                  bsm |-> Len(W.pool.bsm)],
                       exp |-> [anyof |-> <<[res |-> IF Representable(NM, pre, OP) THEN "ok" ELSE "err"], [skipped |-> TRUE]>>]]))
=============================================================================
