---------------------------- MODULE MC_ConstPool ----------------------------
(***************************************************************************)
(* Bounded instance for C02 (constant pool).  A case is a number `pre` of  *)
(* interfaces (2 pool entries each, put before everything else) and a      *)
(* sequence of at most MaxLen loadable constants, grown one constant per   *)
(* Next step.  `pre` is chosen so that the constants land on both sides of *)
(* index 255 (ldc / ldc_w) and of the 65535 limit.  The constants share    *)
(* sub-entries (a String and a Class over the same Utf8, the method's own  *)
(* name and descriptor, two dynamic constants over one bootstrap row, a    *)
(* long as bootstrap argument).                                            *)
(***************************************************************************)
EXTENDS ConstPool, Json, TLC

CONSTANT Tier
VARIABLES pre, puts
vars == <<pre, puts>>

H == [kind |-> "invokestatic", owner |-> "k/B", name |-> "b", desc |-> "()Ljava/lang/Object;", itf |-> FALSE]
HF == [kind |-> "getstatic", owner |-> "k/B", name |-> "f", desc |-> "I", itf |-> FALSE]
Dyn(args, n, d) == [dynamic |-> [bsm |-> H, args |-> args, name |-> n, desc |-> d]]
Consts ==
    {[int |-> 1], [int |-> 2], [float |-> 1], [long |-> "1"], [double |-> "1"], [string |-> "a"], [class |-> "a"],
     [string |-> "m"], [method_type |-> "()V"], [method_handle |-> H], [method_handle |-> HF],
     Dyn(<<[int |-> 1]>>, "x", "I"), Dyn(<<[int |-> 1]>>, "y", "I"), Dyn(<<[long |-> "1"]>>, "z", "J")}
    \cup (IF Tier = 0 THEN {} ELSE {[long |-> "2"], [string |-> "Code"], [class |-> "k/B"], Dyn(<<[int |-> 1], [string |-> "a"]>>, "x", "I")})
MaxLen == IF Tier = 0 THEN 2 ELSE 3

(* first constant of the code lands at index 7 + 2 * pre *)
Pres == {0, 122, 123, 124, 125} \cup (IF Tier = 0 THEN {32759, 32761, 32763, 32764} ELSE 32757..32764)

Init == pre = -1 /\ puts = <<>>
PickPre == pre = -1 /\ pre' \in Pres /\ UNCHANGED puts
Grow == pre >= 0 /\ Len(puts) < MaxLen /\ \E c \in Consts : puts' = Append(puts, c) /\ UNCHANGED pre
Next == PickPre \/ Grow
Spec == Init /\ [][Next]_vars

W == WriteClass(pre, puts)
Case == pre >= 0 /\ Len(puts) >= 1

InvHashConsed == Case => HashConsed(W.pool) /\ BsmDistinct(W.pool)
InvDense      == Case /\ W.pool.ok => Dense(W.pool, 2 * pre)
InvRefs       == Case /\ W.pool.ok => RefsOK(W.pool)
(* the operational writer succeeds exactly when the class is representable, *)
(* and then uses exactly the needed number of slots                        *)
InvLaw        == Case => /\ (W.pool.ok <=> Representable(pre, puts))
                         /\ (W.pool.ok => W.pool.count = NeedCount(pre, puts))
InvCountBound == Case => W.pool.count <= PoolMax
InvLdc        == Case /\ W.pool.ok =>
                    \A k \in DOMAIN puts : LdcForm(puts[k], W.idx[k]) = "short" => W.idx[k] <= 255 /\ ~Cat2(puts[k])

EmitVec ==
    Case => PrintT(ToJson([op |-> "pool", pre |-> pre, puts |-> puts,
                           pad |-> IF Len(puts) % 2 = 0 THEN 0 ELSE 300,
                           model |-> [ok |-> W.pool.ok, count |-> W.pool.count, idx |-> W.idx,
                                      forms |-> [k \in DOMAIN puts |-> LdcForm(puts[k], W.idx[k])],
                                      bsm |-> Len(W.pool.bsm)],
                           exp |-> [anyof |-> <<[res |-> IF Representable(pre, puts) THEN "ok" ELSE "err"], [skipped |-> TRUE]>>]]))
=============================================================================
