--------------------------- MODULE MC_Descriptor ---------------------------
(***************************************************************************)
(* Bounded instance for C18 (descriptors).  One TLC state per case, all    *)
(* cases drawn inside Next:                                                *)
(*   grow  - every string over the descriptor alphabet up to MaxLen: a     *)
(*           state is a string, Next appends one character                 *)
(*   edge  - the 255-dimension boundary: 254 / 255 / 256 times "[" before  *)
(*           a tail, bare and as parameter / return type of a method; and  *)
(*           every one-letter string A..Z (all base types, all non-types)  *)
(*   print - type structures, for Parse(PrintDesc(t)) = t                      *)
(* Every string is judged as field, method and return descriptor by the    *)
(* declarative grammar and by the operational reader, which must agree;    *)
(* each (string, kind) is emitted as a vector for the real parse()/write().*)
(***************************************************************************)
EXTENDS Descriptor, Json, TLC

CONSTANT Tier        \* 0 = quick, 1 = thorough

VARIABLES fam, s, tag, x
vars == <<fam, s, tag, x>>

Alpha == {"B", "I", "J", "V", "L", ";", "[", "(", ")", "a", "/", ".", "$"}
MaxLen == IF Tier = 0 THEN 5 ELSE 6
Kinds == {"field", "method", "return"}

---------------------------------------------------------------------------
(* edge family *)
Tails == {<<"I">>, <<"L", "a", ";">>, <<"V">>, <<>>, <<"L", ";">>, <<"[", "I">>, <<"D">>, <<"L", "a", "/", "b", ";">>}
Wrap(w, t) ==
    CASE w = "bare" -> t
      [] w = "param" -> <<"(">> \o t \o <<")", "V">>
      [] w = "ret" -> <<"(", ")">> \o t
      [] w = "both" -> <<"(", "I">> \o t \o t \o <<")">> \o t
Wraps == {"bare", "param", "ret", "both"}
Letters == {"A", "B", "C", "D", "E", "F", "G", "H", "I", "J", "K", "L", "M", "N", "O", "P", "Q", "R", "S", "T",
            "U", "V", "W", "X", "Y", "Z"}

---------------------------------------------------------------------------
(* print family *)
Names == {<<"a">>, <<"a", "/", "b">>, <<"$">>, <<"a", "$", "b">>, <<"L">>, <<")">>, <<"V">>, <<"I">>}
         \cup (IF Tier = 0 THEN {} ELSE {<<"(", "a">>, <<"a", "/", "b", "/", "c">>, <<"<", ">">>})
DimsP == IF Tier = 0 THEN {0, 1, 255} ELSE {0, 1, 2, 254, 255}
Types == {Ty(d, b, <<>>) : d \in DimsP, b \in Prim} \cup {Ty(d, "L", n) : d \in DimsP, n \in Names}
SmallTypes == {Ty(0, "I", <<>>), Ty(0, "J", <<>>), Ty(1, "Z", <<>>), Ty(255, "B", <<>>), Ty(0, "L", <<"a">>),
               Ty(2, "L", <<"a", "/", "b">>), Ty(0, "L", <<")">>), Ty(0, "L", <<"V">>)}
ParamLists == {<<>>} \cup {<<a>> : a \in SmallTypes} \cup {<<a, b>> : a \in SmallTypes, b \in SmallTypes}
              \cup (IF Tier = 0 THEN {} ELSE {<<a, b, c>> : a \in SmallTypes, b \in SmallTypes, c \in SmallTypes})
Opts(S) == {<<>>} \cup {<<t>> : t \in S}

---------------------------------------------------------------------------
Init == fam = "start" /\ s = <<>> /\ tag = "" /\ x = <<>>

Grow ==
    /\ fam \in {"start", "grow"}
    /\ Len(s) < MaxLen
    /\ \E c \in Alpha : s' = Append(s, c)
    /\ fam' = "grow"
    /\ UNCHANGED <<tag, x>>

Edge ==
    /\ fam = "start"
    /\ fam' = "edge"
    /\ x' = <<>>
    /\ \/ \E d \in {254, 255, 256}, t \in Tails, w \in Wraps :
            /\ s' = Wrap(w, Brackets(d) \o t)
            /\ tag' = "dims" \o ToString(d)
       \/ \E l \in Letters, w \in {"bare", "both"} :
            /\ s' = Wrap(w, <<l>>)
            /\ tag' = "letter"

PrintCase ==
    /\ fam = "start"
    /\ fam' = "print"
    /\ s' = <<>>
    /\ \/ \E t \in Types : x' = t /\ tag' = "field"
       \/ \E r \in Opts(Types) : x' = r /\ tag' = "return"
       \/ \E ps \in ParamLists, r \in Opts(SmallTypes) : x' = Meth(ps, r) /\ tag' = "method"

Next == Grow \/ Edge \/ PrintCase
Spec == Init /\ [][Next]_vars

---------------------------------------------------------------------------
IsString == fam \in {"start", "grow", "edge"}

InvOpIsDecl == IsString => \A k \in Kinds : LawOpIsDecl(k, s)
InvPrintParse == IsString => \A k \in Kinds : LawPrintParse(k, s)
InvGrammarForm == IsString => LawGrammarForm(s)
InvFieldInReturn == IsString => LawFieldInReturn(s)
InvParsePrint == fam = "print" => IsStruct(tag, x) /\ LawParsePrint(tag, x)
(* no string is both a field and a method descriptor *)
InvDisjoint == IsString => ~(ParseField(s).ok /\ ParseMethod(s).ok)

Emit ==
    /\ IsString => \A k \in Kinds : PrintT(ToJson([op |-> k, s |-> s, tag |-> tag, exp |-> ParseExp(k, s)]))
    /\ fam = "print" => PrintT(ToJson([op |-> "print", kind |-> tag, x |-> x, exp |-> PrintExp(tag, x)]))
=============================================================================
