SPECIFICATION Spec
CONSTANT Tier = 0
INVARIANT InvWellFormed
INVARIANT InvAligned
INVARIANT InvInClass
INVARIANT InvForward
INVARIANT InvReadDone
INVARIANT InvReplay
INVARIANT InvFilter
INVARIANT Emit
CHECK_DEADLOCK FALSE
