SPECIFICATION Spec
CONSTANT Tier = 0
INVARIANT InvWellTargeted
INVARIANT InvLayoutCorrect
INVARIANT InvOkOnlyIfFits
INVARIANT InvErrOnlyIfNone
INVARIANT InvOverflowConfined
INVARIANT InvSkipPastEndConfined
INVARIANT InvAttemptBound
INVARIANT InvLabelsOfAttempt
INVARIANT EmitVec
PROPERTY WideMonotone
PROPERTY Terminates
CHECK_DEADLOCK FALSE
