--------------------------- MODULE CodeLayoutLaw ---------------------------
(***************************************************************************)
(* C02, the declarative half of CodeLayout: items, sizes, THE layout       *)
(* Offs(its, W) in which exactly the jumps in W have the long form, the    *)
(* existence of a correct layout within the code_length limit, and the     *)
(* property's statement RealLayoutOK about a concrete layout.  No          *)
(* variables: shared by CodeLayout (the design) and Trace_ClassWrite (the  *)
(* real writer's output).                                                  *)
(***************************************************************************)
EXTENDS Integers, Sequences, FiniteSets

U16MAX == 65535
I16MIN == -32768
I16MAX == 32767
InI16(x) == I16MIN <= x /\ x <= I16MAX
PH16 == 32767          \* i16::MAX written into a reserved narrow place
PH32 == 2147483647     \* i32::MAX written into a reserved wide place

Pad(n)      == [k |-> "pad",  n |-> n, t |-> <<>>]
Grow        == [k |-> "grow", n |-> 3, t |-> <<>>]
If(t)       == [k |-> "if",   n |-> 0, t |-> <<t>>]
Goto(t)     == [k |-> "goto", n |-> 0, t |-> <<t>>]
Jsr(t)      == [k |-> "jsr",  n |-> 0, t |-> <<t>>]
TSw(d, a)   == [k |-> "tsw",  n |-> 0, t |-> <<d, a>>]
LSw(d, a)   == [k |-> "lsw",  n |-> 0, t |-> <<d, a>>]

IsJump(it)   == it.k \in {"if", "goto", "jsr"}
IsSwitch(it) == it.k \in {"tsw", "lsw"}
JumpIdx(its) == {i \in 1..Len(its) : IsJump(its[i])}

(* bytes after the opcode and the padding: tableswitch default, low, high, *)
(* one i32 per arm; lookupswitch default, npairs, (key, i32) per arm        *)
SwitchBody(it) == IF it.k = "tsw" THEN 12 + 4 * (Len(it.t) - 1) ELSE 8 + 8 * (Len(it.t) - 1)

(* the padding law of JVMS 4.10 tableswitch/lookupswitch: the operands     *)
(* start at a multiple of four counted from the start of the code          *)
PadLaw(p) == CHOOSE k \in 0..3 : (p + 1 + k) % 4 = 0

WellTargeted(its) ==
    /\ Len(its) >= 1
    /\ \A i \in 1..Len(its) :
        /\ \A s \in 1..Len(its[i].t) : its[i].t[s] \in 1..Len(its)
        /\ (IsJump(its[i]) => Len(its[i].t) = 1)
        /\ (IsSwitch(its[i]) => Len(its[i].t) >= 2)
        /\ (its[i].k = "pad" => its[i].n >= 1)

-----------------------------------------------------------------------------
(***************************** declarative part ****************************)

LongLen(it)  == IF it.k = "if" THEN 8 ELSE 5
(* size of an item at offset p; g = bytes of a grow item (3 as duke writes *)
(* it, 2 in an input file that holds its constant at an index below 256)   *)
SizeAtG(it, p, long, g) ==
    CASE it.k = "pad"  -> it.n
      [] it.k = "grow" -> g
      [] IsJump(it)    -> IF long THEN LongLen(it) ELSE 3
      [] IsSwitch(it)  -> 1 + PadLaw(p) + SwitchBody(it)
SizeAt(it, p, long) == SizeAtG(it, p, long, 3)

(* offsets of all items, and the code length as element Len+1, when        *)
(* exactly the jumps in W have the long form                               *)
RECURSIVE OffsFrom(_, _, _, _, _)
OffsFrom(its, W, g, i, p) ==
    IF i > Len(its) THEN <<p>>
    ELSE <<p>> \o OffsFrom(its, W, g, i + 1, p + SizeAtG(its[i], p, i \in W, g))
OffsG(its, W, g) == OffsFrom(its, W, g, 1, 0)
Offs(its, W) == OffsG(its, W, 3)

(* every short jump fits 16 bits, and a trampoline is followed by an         *)
(* instruction (its inverted branch must land on one)                       *)
ValidWG(its, W, g) ==
    LET o == OffsG(its, W, g) IN
    /\ \A i \in JumpIdx(its) \ W : InI16(o[its[i].t[1]] - o[i])
    /\ \A i \in W : its[i].k = "if" => i < Len(its)
ValidW(its, W) == ValidWG(its, W, 3)
FitW(its, W) == Offs(its, W)[Len(its) + 1] <= U16MAX

(* some choice of long forms gives a correct layout within the limit       *)
ExistsFit(its) == \E W \in SUBSET JumpIdx(its) : ValidW(its, W) /\ FitW(its, W)

(* The list is the body of a method some class file holds - i.e. a tree    *)
(* the reader can produce: a file has goto_w / jsr_w but no long           *)
(* conditional jump, and may hold the constant of a grow item at a one     *)
(* byte index.                                                             *)
InputFit(its) ==
    \E W \in SUBSET {i \in JumpIdx(its) : its[i].k # "if"} :
        ValidWG(its, W, 2) /\ OffsG(its, W, 2)[Len(its) + 1] <= U16MAX

(* A concrete layout, as observed in a written file, is given by           *)
(*   off[i]   offset of item i, off[Len+1] = code_length                   *)
(*   form[i]  "plain" | "narrow" | "wide" | "tramp" | "switch"             *)
(*   dec[i]   the decoded target offsets of item i (<<>> if none)          *)
(*   skip[i]  for a trampoline the decoded target of the inverted branch   *)
(*   pad[i]   number of padding bytes of a switch                          *)
(* RealLayoutOK is the property's statement about it.                      *)
FormOK(it, f) ==
    CASE it.k \in {"pad", "grow"} -> f = "plain"
      [] it.k = "if"              -> f \in {"narrow", "tramp"}
      [] it.k \in {"goto", "jsr"} -> f \in {"narrow", "wide"}
      [] IsSwitch(it)             -> f = "switch"

RealLayoutOK(its, off, form, dec, skip, pad) ==
    LET n == Len(its) IN
    /\ Len(off) = n + 1 /\ Len(form) = n /\ Len(dec) = n
    /\ off[1] = 0
    /\ 1 <= off[n + 1] /\ off[n + 1] <= U16MAX
    /\ \A i \in 1..n :
        LET it == its[i]  long == form[i] \in {"wide", "tramp"} IN
        /\ FormOK(it, form[i])
        /\ IF IsSwitch(it)
           THEN /\ pad[i] = PadLaw(off[i])
                /\ off[i + 1] = off[i] + 1 + pad[i] + SwitchBody(it)
           ELSE off[i + 1] = off[i] + SizeAt(it, off[i], long)
        /\ Len(dec[i]) = Len(it.t)
        (* every branch / switch arm designates the item it designated *)
        /\ \A s \in 1..Len(it.t) : dec[i][s] = off[it.t[s]]
        (* a short form holds a 16 bit offset *)
        /\ (form[i] = "narrow" => InI16(dec[i][1] - off[i]))
        (* the inverted branch of a trampoline skips exactly the goto_w, onto an instruction *)
        /\ (form[i] = "tramp" => skip[i] = off[i] + 3 + 5 /\ skip[i] < off[n + 1])

=============================================================================
