----------------------------- MODULE Trace_Mutate -----------------------------
(* I2S for C16: recorded outcomes of sandboxed parser runs, judged uniformly. *)
EXTENDS Mutate, Json, IOUtils

Rec == ndJsonDeserialize(IOEnv.TRACE)
VARIABLES l, rej
Accept(r) == r.op = "fault" /\ OutcomeOK(r.got)
Init == l = 1 /\ rej = 0
Next ==
    /\ l <= Len(Rec)
    /\ l' = l + 1
    /\ IF Accept(Rec[l]) THEN rej' = rej
       ELSE /\ PrintT(ToJson([reject |-> l, exp |-> [out |-> [anyof |-> <<"ok", "err">>]]]))
            /\ rej' = rej + 1
Spec == Init /\ [][Next]_<<l, rej>>
Consumed == TLCGet("stats").diameter - 1 = Len(Rec)
=============================================================================
