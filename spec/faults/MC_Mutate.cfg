SPECIFICATION Spec
CONSTANT Tier = 0
INVARIANT InvScript
INVARIANT Emit
CHECK_DEADLOCK FALSE
