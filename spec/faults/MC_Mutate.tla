------------------------------ MODULE MC_Mutate ------------------------------
(* Enumerates the fault scripts of every seed handed over by the harness (IOEnv.SEEDS: one  *)
(* JSON record per seed with its span map / line structure): every field at every boundary *)
(* value, truncation at every field boundary and inside every field, neighbouring           *)
(* structural fields pushed to extremes together, a field fault followed by a truncation,   *)
(* self-referential constants; for text every line x every cell / indentation / tag /       *)
(* duplication / deletion / non-UTF-8 fault and pairs on neighbouring lines; for            *)
(* descriptors every position x deletion / duplication / replacement; grown structures      *)
(* (deep nesting, many wide parameters, a label at every offset) at boundary sizes.         *)
EXTENDS Mutate, Json, IOUtils

CONSTANT Tier
Seeds == ndJsonDeserialize(IOEnv.SEEDS)
VARIABLES phase, sid, ops
vars == <<phase, sid, ops>>

Init == phase = "start" /\ sid = 0 /\ ops = <<>>
PickSeed == phase = "start" /\ \E i \in 1..Len(Seeds) : sid' = i /\ phase' = "seed" /\ UNCHANGED ops
Family(seed) ==
    IF IsGrow(seed) THEN GrowFaults(seed, Tier)
    ELSE IF IsBinary(seed) THEN SetFaults(seed) \cup TruncFaults(seed) \cup PairFaults(seed) \cup (IF Tier = 0 THEN {} ELSE SetTruncFaults(seed))
    ELSE IF IsDesc(seed) THEN DescFaults(seed)
    ELSE TextFaults(seed) \cup TextPairFaults(seed)
PickFault == phase = "seed" /\ \E f \in Family(Seeds[sid]) \cup (IF IsGrow(Seeds[sid]) THEN {} ELSE {<<>>}) : ops' = f /\ phase' = "fault" /\ UNCHANGED sid
Next == PickSeed \/ PickFault
Spec == Init /\ [][Next]_vars

InvScript == phase = "fault" => ScriptOK(Seeds[sid], ops)
Good == [anyof |-> <<"ok", "err">>]
Emit ==
    phase = "fault" =>
        PrintT(ToJson([op |-> "fault", target |-> Seeds[sid].target, seed |-> Seeds[sid].id, ops |-> ops,
                       kind |-> IF ops = <<>> THEN "none" ELSE IF Len(ops) = 1 THEN ops[1][1] ELSE ops[1][1] \o "+" \o ops[2][1],
                       exp |-> [out |-> Good, write |-> [anyof |-> <<"ok", "err", "-">>]]]))
=============================================================================
