------------------------------- MODULE Mutate -------------------------------
(***************************************************************************)
(* Property C16.  A fault model for the parsers: which malformed inputs    *)
(* are derived from which well-formed seeds.  The parsers themselves are   *)
(* not modelled; what TLA+ contributes to a totality property is the       *)
(* systematic enumeration of the faults and the uniform judgement of the   *)
(* recorded outcomes.                                                      *)
(*                                                                         *)
(* A binary seed is described by its span map (from the independent        *)
(* parser): every field with offset, width, role class (magic, version,    *)
(* count, length, cp_index, bsm_index, pc, branch, tag, flags, value,      *)
(* bytes), current value and - for constant pool references - the index of *)
(* the pool entry it sits in.  A text seed by its number of cells per      *)
(* line; a descriptor seed by its length.                                  *)
(***************************************************************************)
EXTENDS Naturals, Integers, Sequences, FiniteSets, TLC

MaxOf(w) == IF w = 1 THEN 255 ELSE IF w = 2 THEN 65535 ELSE -1        \* -1 = all bits set (numbers are 32 bit here)
Half(w) == IF w = 1 THEN 128 ELSE IF w = 2 THEN 32768 ELSE 2147483647 \* sign boundary of the field

(* boundary values of a field *)
Values(sp, n) ==
    LET w == IF sp.len > 4 THEN 4 ELSE sp.len
        base == {0, 1, MaxOf(w), IF MaxOf(w) > 0 THEN MaxOf(w) - 1 ELSE -2, Half(w), Half(w) - 1}
        near == IF sp.cls \in {"count", "length", "cp_index", "bsm_index", "pc", "branch", "value"} /\ sp.val >= 0 /\ sp.val < 1000000000
                THEN {sp.val + 1, IF sp.val > 0 THEN sp.val - 1 ELSE 0, sp.val * 2} ELSE {}
        size == IF sp.cls \in {"length", "pc", "branch", "count"} THEN {n, n + 1, IF n > 0 THEN n - 1 ELSE 0} ELSE {}
        self == IF sp.cls = "cp_index" /\ sp.own > 0 THEN {sp.own} ELSE {}     \* a constant naming itself
    IN {v \in base \cup near \cup size \cup self : (w = 1 => v <= 255) /\ (w = 2 => v <= 65535)} \ {sp.val}

Settable(sp) == sp.len \in {1, 2, 4} /\ sp.cls # "bytes"

(* fault scripts of one binary seed *)
SetFaults(seed) ==
    UNION {{<<<<"set", i - 1, v>>>> : v \in Values(seed.spans[i], seed.n)} : i \in {i \in 1..Len(seed.spans) : Settable(seed.spans[i])}}
TruncFaults(seed) ==
    {<<<<"trunc", seed.spans[i].off>>>> : i \in 1..Len(seed.spans)}
    \cup {<<<<"trunc", seed.spans[i].off + 1>>>> : i \in {i \in 1..Len(seed.spans) : seed.spans[i].len > 1}}
    \cup {<<<<"trunc", seed.n - 1>>>>}
(* pairs: two neighbouring structural fields pushed to an extreme together *)
Structural(sp) == Settable(sp) /\ sp.cls \in {"count", "length", "cp_index", "bsm_index", "pc", "branch"}
PairFaults(seed) ==
    UNION {{<<<<"set", i - 1, v>>, <<"set", i, w>>>> : v \in {0, MaxOf(seed.spans[i].len)}, w \in {0, MaxOf(seed.spans[i + 1].len)}} :
                i \in {i \in 1..(Len(seed.spans) - 1) : Structural(seed.spans[i]) /\ Structural(seed.spans[i + 1])}}
(* a field fault followed by a truncation right behind the field *)
SetTruncFaults(seed) ==
    UNION {{<<<<"set", i - 1, v>>, <<"trunc", seed.spans[i].off + seed.spans[i].len>>>> : v \in {MaxOf(seed.spans[i].len), IF seed.spans[i].val < 1000000000 THEN seed.spans[i].val + 1 ELSE 0}} :
                i \in {i \in 1..Len(seed.spans) : Structural(seed.spans[i]) /\ seed.spans[i].cls \in {"count", "length"}}}

(* text seeds *)
TextOps == {"addcell", "tag", "dupline", "delline", "nonutf8", "backslash"}
(* escapes and characters of more than one byte: a backslash followed by each kind of follower (0..2: a character of 2 / 3 / 4 *)
(* bytes in UTF-8, 3: a second backslash, 4..6: n t 0, 7: u), at the end of the line ("esc") and with text behind it       *)
(* ("escz"); a cell replaced by ("unicell") or starting with ("unichar") characters of 2 / 3 / 4 bytes                      *)
EscKinds == 0..7
TextFaults(seed) ==
    UNION {{<<<<op, l - 1>>>> : op \in TextOps}
           \cup {<<<<op, l - 1, k>>>> : op \in {"esc", "escz"}, k \in EscKinds}
           \cup {<<<<op, l - 1, c - 1>>>> : op \in {"unicell", "unichar"}, c \in 1..seed.cells[l]}
           \cup {<<<<"dropcell", l - 1, c - 1>>>> : c \in 1..seed.cells[l]}
           \cup {<<<<"emptycell", l - 1, c - 1>>>> : c \in 1..seed.cells[l]}
           \cup {<<<<"indent", l - 1, d>>>> : d \in {1, 2, -1}} : l \in 1..Len(seed.cells)}
    \cup {<<<<"trunc", k>>>> : k \in 0..(seed.n - 1)}
TextPairFaults(seed) ==
    UNION {{<<<<"indent", l - 1, 1>>, <<op, l>>>> : op \in {"tag", "dupline", "addcell"}} : l \in 1..(Len(seed.cells) - 1)}

(* descriptor seeds *)
Alphabet == {"[", "L", ";", "(", ")", "V", "I", "/", ".", "$"}
DescFaults(seed) ==
    UNION {{<<<<"delchar", i>>>>, <<<<"dupchar", i>>>>} \cup {<<<<"setchar", i, c>>>> : c \in Alphabet}
           \cup {<<<<"setuni", i, k>>>> : k \in 0..2} : i \in 0..(seed.n - 1)}      \* setuni: a character of 2 / 3 / 4 bytes
    \cup {<<<<"trunc", k>>>> : k \in 0..(seed.n - 1)}

(* grown inputs: structures the format allows at sizes no mutation of a small seed reaches - nesting as deep as *)
(* the attribute length permits, a descriptor with as many wide parameters as fit into 255 slots and beyond,    *)
(* a method whose every bytecode offset carries a label, CLASS lines nested line by line.  The seed names the   *)
(* structure (`grow`), the script its size.                                                                      *)
GrowSizes(kind, tier) ==
    CASE kind \in {"anno_array", "anno_anno"} -> {1, 50, 300, 5000} \cup (IF tier = 0 THEN {100000} ELSE {20000, 100000, 400000})
      [] kind = "condy_fanout" -> {1, 2, 8, 16} \cup (IF tier = 0 THEN {30} ELSE {24, 40, 64})     \* the tree denoted has 2^k nodes
      [] kind = "condy_uses" -> {1, 100, 16000}                                  \* a tree of 4095 constants loaded k times by one method
      \* one bootstrap method with k plain arguments used by 13 000 call sites / by a constant loaded 16 000 times: every use
      \* stores its own copy (around the reader's total of 2^20 stored arguments, and the largest the format allows)
      [] kind = "indy_plain_args" -> {1, 80, 81, 1000, 10000, 65535}
      [] kind = "condy_plain_args" -> {1, 65, 66, 1000, 65535}
      [] kind = "ifc_args" -> {1, 126, 127, 128, 200, 255}
      [] kind = "method_args" -> {127, 128, 255, 256}
      [] kind = "ifc_baddesc" -> 0..9                 \* index into a list of strings that are no method descriptors
      [] kind = "labels" -> {0, 1, 2}             \* 0: every pc has a line number; 1: plus an exception range ending at code_length; 2: plus a local variable ending there
      [] kind \in {"tiny_unknown_nest", "tinydiff_unknown_nest"} -> {1, 50, 2000, 6000, 14000}
      [] kind \in {"enigma_nest", "tiny_nest"} -> {1, 50, 2000, 6000} \cup (IF tier = 0 THEN {} ELSE {12000})      \* the text grows with the square
      [] kind \in {"fdesc_dims", "mdesc_dims"} -> {254, 255, 256, 100000}
      [] kind = "desc_args" -> {255, 256, 100000}
      [] OTHER -> {}
IsGrow(seed) == "grow" \in DOMAIN seed /\ seed.grow # ""
GrowFaults(seed, tier) == {<<<<"grow", seed.grow, k>>>> : k \in GrowSizes(seed.grow, tier)}

IsBinary(seed) == Len(seed.spans) > 0
IsDesc(seed) == seed.target \in {"fdesc", "mdesc", "rdesc"}

(* well-formedness of a script for its seed *)
ScriptOK(seed, ops) ==
    \A k \in 1..Len(ops) :
        LET o == ops[k] IN
        CASE o[1] = "grow" -> IsGrow(seed) /\ o[2] = seed.grow /\ o[3] >= 0
          [] o[1] = "set" -> o[2] >= 0 /\ o[2] < Len(seed.spans) /\ Settable(seed.spans[o[2] + 1])
          [] o[1] = "trunc" -> o[2] >= 0 /\ o[2] <= seed.n
          [] o[1] \in {"delchar", "dupchar", "setchar", "setuni"} -> o[2] >= 0 /\ o[2] < seed.n
          [] OTHER -> o[2] >= 0 /\ o[2] < Len(seed.cells)

(* The judgement: a parser returns a value or an error; what the class reader accepted, *)
(* the class writer handles without panicking.                                            *)
OutcomeOK(g) ==
    /\ g.out \in {"ok", "err"}
    /\ g.write \in {"ok", "err", "-"}
    /\ (g.out = "err" => g.write = "-")
=============================================================================
