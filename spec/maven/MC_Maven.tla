----------------------------- MODULE MC_Maven -----------------------------
(***************************************************************************)
(* Bounded instance for C19.  Families of POM universes, all drawn inside  *)
(* Next, one TLC state per case:                                           *)
(*   M  mediation: every dependency graph (explicit versions, compile      *)
(*      scope) over a, b, c, d, x:1, x:2, y:1, y:2 with bounded edges,     *)
(*      grown one edge at a time in canonical order (each graph once)      *)
(*   MX a fixed conflict graph whose edges are optional / test / runtime / *)
(*      provided: what is cut does not take part in mediation              *)
(*   MD an artifact met first below a loser and again, not nearer, below    *)
(*      the winner: the second occurrence keeps its subtree                *)
(*   S  scopes: root scope x two chained edges, each with declared /       *)
(*      managed / omitted scope, optional flag, managed version            *)
(*   S2 the same artifact reached from two roots with different scopes     *)
(*   G  management: an entry for y at any of own / two BOMs / parent /     *)
(*      parent's BOM / grandparent, the dependency on y declared by the    *)
(*      POM, its parent or grandparent, version omitted or literal         *)
(*   GC a dependency inherited from the parent / grandparent next to an    *)
(*      own one on the same group and artifact with another classifier or  *)
(*      type: two artifacts                                                *)
(*   GK management keys: entries for jar / war / classifier, all orders    *)
(*   K  conflict keys: group, classifier, type (omitted/explicit) pairs    *)
(*   R  repositories: every POM served by the first, the second, both or   *)
(*      no repository                                                      *)
(*   T  Display / parse round trips                                        *)
(* Every case is judged by the laws below and emitted as a vector.         *)
(***************************************************************************)
EXTENDS Maven, Json

CONSTANT Tier        \* 0 = quick, 1 = thorough

VARIABLES phase, U, roots, res
vars == <<phase, U, roots, res>>

Scopes == {"compile", "provided", "runtime", "test"}
G == "g"

AsSeq(f) ==
    LET RECURSIVE B(_, _)
        B(i, acc) == IF i > Len(f) THEN acc ELSE B(i + 1, Append(acc, f[i]))
    IN B(1, <<>>)

P(a, v, pk, par, inh, mg, deps) ==
    [g |-> G, a |-> a, v |-> v, pk |-> pk, par |-> par, inh |-> inh, mg |-> mg, deps |-> deps]
Jar(a, v, mg, deps) == P(a, v, "jar", <<>>, FALSE, mg, deps)
Bom(a, mg) == P(a, "1", "pom", <<>>, FALSE, mg, <<>>)
I(a, v) == [g |-> G, a |-> a, v |-> v]
D(a, v, s, o) == [g |-> G, a |-> a, c |-> <<>>, t |-> "", v |-> v, s |-> s, o |-> o]
DK(g, a, c, t, v) == [g |-> g, a |-> a, c |-> c, t |-> t, v |-> v, s |-> "", o |-> ""]
Mg(a, v, s) == [g |-> G, a |-> a, c |-> <<>>, t |-> "", v |-> v, s |-> s]
MgK(a, c, t, v) == [g |-> G, a |-> a, c |-> c, t |-> t, v |-> v, s |-> ""]
Imp(a) == [g |-> G, a |-> a, c |-> <<>>, t |-> "pom", v |-> "1", s |-> "import"]
R(a, v, s) == [g |-> G, a |-> a, v |-> v, c |-> <<>>, t |-> "jar", s |-> s]
Repos(h1, h2) == <<[name |-> "r1", url |-> "mem://r1", has |-> h1], [name |-> "r2", url |-> "mem://r2/", has |-> h2]>>
Ids(poms) == AsSeq([i \in 1..Len(poms) |-> IdOf(poms[i])])
(* default placement: POMs at odd positions in r1, at even positions in r2 *)
Split(poms, par) == SelectSeq(Ids(poms), LAMBDA id : \E i \in 1..Len(poms) : IdOf(poms[i]) = id /\ i % 2 = par)
Univ(poms) == [poms |-> poms, repos |-> Repos(Split(poms, 1), Split(poms, 0))]

---------------------------------------------------------------------------
(* what is computed once per case and kept in the state *)
Tags(ph, u, rs, op, alt, d, allowed) ==
    LET seq == d.seq
        kept == d.kept
        N == DOMAIN seq
        depth(i) == Len(seq[i].path)
        key(i) == KeyOf(seq[i])
        loser(i) == i \notin kept /\ (depth(i) = 1 \/ \E j \in kept : seq[j].path = ParentPath(seq[i].path))
        gone(i) == i \notin kept /\ ~loser(i)
        wins(j, i) == j \in kept /\ key(j) = key(i)
        deps(i) == IF seq[i].ok THEN d.eff[IdOf(seq[i])].deps ELSE <<>>
        oks == {e \in allowed : e.ok}
    IN  {"conflict-depth" : i \in {i \in N : loser(i) /\ \E j \in N : wins(j, i) /\ seq[j].v # seq[i].v /\ depth(j) # depth(i)}}
   \cup {"tie-order" : i \in {i \in N : loser(i) /\ \E j \in N : wins(j, i) /\ seq[j].v # seq[i].v /\ depth(j) = depth(i)}}
   \cup {"dup-same-version" : i \in {i \in N : loser(i) /\ \E j \in N : wins(j, i) /\ seq[j].v = seq[i].v}}
   \cup {"nearer-but-later" : i \in {i \in N : loser(i) /\ \E j \in N : wins(j, i) /\ LexLess(seq[i].path, seq[j].path)}}
   \cup {"loser-subtree-discarded" : i \in {i \in N : gone(i) /\ ~\E j \in kept : key(j) = key(i)}}
   \cup {"late-winner" : i \in {i \in N : gone(i) /\ \E j \in kept : key(j) = key(i) /\ Before(seq[i], seq[j])}}
   \cup {"late-winner-keeps-subtree" : i \in {i \in N : gone(i) /\ \E j \in kept : key(j) = key(i) /\ Before(seq[i], seq[j]) /\ depth(i) <= depth(j)
                                                        /\ \E k \in kept : Len(seq[k].path) > 1 /\ ParentPath(seq[k].path) = seq[j].path}}
   \cup {"mgmt-version" : i \in {i \in kept : seq[i].x.fv}}
   \cup {"mgmt-version-wins-conflict" : i \in {i \in kept : seq[i].x.fv /\ \E j \in N : key(j) = key(i) /\ seq[j].v # seq[i].v}}
   \cup {"mgmt-scope" : i \in {i \in kept : seq[i].x.fs}}
   \cup {"mgmt-from-bom" : i \in {i \in kept : (seq[i].x.fv \/ seq[i].x.fs) /\ seq[i].x.m # <<>> /\ seq[i].x.m[1].imp}}
   \cup {"mgmt-from-parent" : i \in {i \in kept : (seq[i].x.fv \/ seq[i].x.fs) /\ seq[i].x.m # <<>> /\ seq[i].x.m[1].lvl > 1}}
   \cup {"explicit-beats-managed" : i \in {i \in kept : ~seq[i].x.fv /\ seq[i].x.m # <<>> /\ seq[i].x.m[1].e.v # seq[i].v}}
   \cup {"inherited-dep" : i \in {i \in kept : seq[i].x.lvl > 1}}
   \cup {"inherited-dep-child-mgmt" : i \in {i \in kept : seq[i].x.lvl > 1 /\ (seq[i].x.fv \/ seq[i].x.fs)
                                                        /\ seq[i].x.m # <<>> /\ seq[i].x.m[1].lvl < seq[i].x.lvl}}
   \cup {"inherited-next-to-own-other-key" : i \in {i \in kept : seq[i].x.lvl > 1 /\ \E j \in kept :
                /\ seq[j].x.lvl = 1 /\ Len(seq[j].path) = Len(seq[i].path) /\ ParentPath(seq[j].path) = ParentPath(seq[i].path)
                /\ seq[j].g = seq[i].g /\ seq[j].a = seq[i].a /\ KeyOf(seq[j]) # KeyOf(seq[i])}}
   \cup {"inherits-group-version" : i \in {i \in kept : seq[i].ok /\ PomOf(u, IdOf(seq[i])).inh}}
   \cup {"optional-cut" : i \in {i \in kept : \E k \in DOMAIN deps(i) : deps(i)[k].d.o = "true"}}
   \cup {"cut-does-not-compete" : i \in {i \in kept : \E k \in DOMAIN deps(i) :
                /\ (deps(i)[k].d.o = "true" \/ DocTable[seq[i].s][ScopeOf(deps(i)[k].d.s)] = "-")
                /\ \E j \in kept : KeyOf(seq[j]) = KeyOf(deps(i)[k].d) /\ Before([path |-> Append(seq[i].path, k)], seq[j])}}
   \cup {"optional-false-kept" : i \in {i \in kept : \E k \in DOMAIN deps(i) : deps(i)[k].d.o = "false"}}
   \cup UNION {{"table:" \o seq[i].s \o "/" \o ScopeOf(deps(i)[k].d.s) :
                    k \in {k \in DOMAIN deps(i) : deps(i)[k].d.o # "true"}} : i \in kept}
   \cup {"key-classifier" : i \in {i \in kept : \E j \in kept : seq[j].a = seq[i].a /\ seq[j].g = seq[i].g /\ seq[j].t = seq[i].t /\ seq[j].c # seq[i].c}}
   \cup {"key-type" : i \in {i \in kept : \E j \in kept : seq[j].a = seq[i].a /\ seq[j].g = seq[i].g /\ seq[j].c = seq[i].c /\ seq[j].t # seq[i].t}}
   \cup {"key-group" : i \in {i \in kept : \E j \in kept : seq[j].a = seq[i].a /\ seq[j].g # seq[i].g /\ seq[j].c = seq[i].c /\ seq[j].t = seq[i].t}}
   \cup {"repo-second" : i \in {i \in kept : seq[i].ok /\ Min(Serving(u, IdOf(seq[i]))) = 2}}
   \cup {"repo-both-first" : i \in {i \in kept : seq[i].ok /\ Serving(u, IdOf(seq[i])) = {1, 2}}}
   \cup (IF d.keptErr THEN {"missing-needed"} ELSE {})
   \cup (IF ~d.keptErr /\ d.anyErr THEN {"missing-only-discarded"} ELSE {})
   \cup (IF Cardinality(oks) > 1 THEN {"mgmt-order-unspecified"} ELSE {})
   \cup (IF alt # op THEN {"inherited-fill-differs"} ELSE {})
   \cup (IF ~d.keptErr /\ ~d.anyErr /\ Len(d.list) = Len(seq) THEN {"no-conflict"} ELSE {})

Compute(ph, u, rs) ==
    LET op == ResolveOp(u, rs, "child")
        alt == ResolveOp(u, rs, "parent")
        d == ResolveD(u, rs, "level")
        allowed == AllowedFromD(d, u, rs)
    IN [op |-> op, alt |-> alt, seq |-> d.seq, kept |-> d.kept, list |-> d.list, keptErr |-> d.keptErr,
        anyErr |-> d.anyErr, allowed |-> allowed, tags |-> Tags(ph, u, rs, op, alt, d, allowed)]

Case(ph, u, rs) == phase' = ph /\ U' = u /\ roots' = rs /\ res' = Compute(ph, u, rs)

---------------------------------------------------------------------------
(* M: mediation *)
MN == <<"a", "b", "c", "d", "x", "x", "y", "y">>
MV == <<"1", "1", "1", "1", "1", "2", "1", "2">>
MBase == Univ(AsSeq([i \in 1..8 |-> Jar(MN[i], MV[i], <<>>, <<>>)]))
MRoots == IF Tier = 0
          THEN {<<R("a", "1", "compile"), R("b", "1", "compile")>>,
                <<R("a", "1", "compile"), R("x", "2", "runtime")>>}
          ELSE {<<R("a", "1", "compile"), R("b", "1", "compile")>>,
                <<R("a", "1", "compile"), R("x", "2", "runtime")>>,
                <<R("a", "1", "compile"), R("b", "1", "test"), R("c", "1", "compile")>>,
                <<R("x", "1", "compile"), R("x", "2", "compile"), R("c", "1", "compile")>>}
MaxDeps == IF Tier = 0 THEN 2 ELSE 3
MaxEdges == IF Tier = 0 THEN 5
            ELSE IF roots[1].a = "x" THEN 7 ELSE IF Len(roots) = 3 THEN 5 ELSE 6     \* keeps the thorough tier near 7 * 10^5 states
MIx(c) == CHOOSE i \in 1..8 : MN[i] = c.a /\ MV[i] = c.v
MReach ==
    LET RECURSIVE Cl(_)
        Cl(S) == LET T == S \cup UNION {{MIx(U.poms[i].deps[k]) : k \in DOMAIN U.poms[i].deps} : i \in S}
                 IN IF T = S THEN S ELSE Cl(T)
    IN Cl({MIx(roots[k]) : k \in DOMAIN roots})
MCur == LET S == {i \in 1..8 : U.poms[i].deps # <<>>} IN IF S = {} THEN 0 ELSE CHOOSE i \in S : \A j \in S : j <= i
MEdges == LET RECURSIVE Sum(_)
              Sum(i) == IF i = 0 THEN 0 ELSE Len(U.poms[i].deps) + Sum(i - 1)
          IN Sum(8)

PickM == phase = "start" /\ \E rs \in MRoots : Case("M", MBase, rs)
GrowM ==
    /\ phase = "M"
    /\ MEdges < MaxEdges
    /\ \E i \in MReach, t \in 1..8 :
        /\ t > i /\ MN[t] # MN[i] /\ i >= MCur
        /\ Len(U.poms[i].deps) < MaxDeps
        /\ \A k \in DOMAIN U.poms[i].deps : U.poms[i].deps[k].a # MN[t]
        /\ Case("M", [U EXCEPT !.poms[i].deps = Append(@, D(MN[t], MV[t], "", ""))], roots)

---------------------------------------------------------------------------
(* S: scope composition, optional, managed scope / version along r -> m -> n *)
SOpt == {"", "compile", "provided", "runtime", "test"}
EdgeFull == {[s |-> s, o |-> o, v |-> v, mg |-> mg] :
                s \in SOpt, o \in {"", "true", "false"}, v \in {"", "1"}, mg \in {<<>>} \cup {<<ms>> : ms \in SOpt}}
EdgeOK(e) == e.v = "" => e.mg # <<>>
EdgeSimple == {[s |-> s, o |-> o, v |-> "1", mg |-> <<>>] : s \in SOpt, o \in {"", "true"}}
SPom(a, e, to) == Jar(a, "1", IF e.mg = <<>> THEN <<>> ELSE <<Mg(to, "1", e.mg[1])>>, <<D(to, e.v, e.s, e.o)>>)
SCase(s0, e1, e2) ==
    Case("S", Univ(<<SPom("r", e1, "m"), SPom("m", e2, "n"), Jar("n", "1", <<>>, <<>>)>>), <<R("r", "1", s0)>>)
PickS ==
    /\ phase = "start"
    /\ \E s0 \in Scopes, e1 \in EdgeFull, e2 \in EdgeFull :
        /\ EdgeOK(e1) /\ EdgeOK(e2)
        /\ (Tier = 0 => e1 \in EdgeSimple \/ e2 \in EdgeSimple)
        /\ SCase(s0, e1, e2)

PickS2 ==
    /\ phase = "start"
    /\ \E s0 \in Scopes, s1 \in Scopes, sa \in {"compile", "runtime"}, sb \in {"compile", "runtime"} :
        Case("S2", Univ(<<Jar("r", "1", <<>>, <<D("n", "1", sa, "")>>), Jar("q", "1", <<>>, <<D("n", "1", sb, "")>>),
                          Jar("n", "1", <<>>, <<>>)>>), <<R("r", "1", s0), R("q", "1", s1)>>)

(* MX: cutting comes before mediation - an optional / test / provided occurrence does not compete *)
XAttr == {[s |-> "", o |-> ""], [s |-> "", o |-> "true"], [s |-> "test", o |-> ""], [s |-> "runtime", o |-> "false"],
          [s |-> "provided", o |-> ""]}
PickMX ==
    /\ phase = "start"
    /\ \E e1 \in XAttr, e2 \in XAttr, e3 \in XAttr, e4 \in XAttr, s0 \in {"compile", "test"} :
        Case("MX", Univ(<<Jar("a", "1", <<>>, <<D("x", "1", e1.s, e1.o)>>), Jar("b", "1", <<>>, <<D("c", "1", "", ""), D("y", "2", e4.s, e4.o)>>),
                          Jar("c", "1", <<>>, <<D("x", "2", e2.s, e2.o)>>),
                          Jar("x", "1", <<>>, <<>>), Jar("x", "2", <<>>, <<D("y", "1", e3.s, e3.o)>>),
                          Jar("y", "1", <<>>, <<>>), Jar("y", "2", <<>>, <<>>)>>),
             <<R("a", "1", s0), R("b", "1", "compile")>>)

(* MD: an artifact met first (depth first) below an occurrence that loses mediation, and again - not nearer - below the  *)
(* winner: the first occurrence goes with the loser's subtree, the second is the result and keeps what is below it       *)
(* (seed C19-10: a walk that does not descend below an artifact it has met before at the same depth or nearer)           *)
PickMD ==
    /\ phase = "start"
    /\ \E first \in {"b", "l"}, v1 \in {"1", "2"}, v2 \in {"1", "2"}, mid \in BOOLEAN, two \in BOOLEAN :
        LET db == D("b", "1", "", "")
            dl == D("l", "2", "", "")
            rb == R("b", "1", "compile")
            rl == R("l", "2", "compile")
        IN Case("MD", Univ(<<Jar("a", "1", <<>>, IF first = "b" THEN <<db, dl>> ELSE <<dl, db>>),
                             Jar("b", "1", <<>>, <<D("l", "1", "", "")>>),
                             Jar("l", "1", <<>>, <<D("x", v1, "", "")>>),
                             Jar("l", "2", <<>>, IF mid THEN <<D("p", "1", "", "")>> ELSE <<D("x", v2, "", "")>>),
                             Jar("p", "1", <<>>, <<D("x", v2, "", "")>>),
                             Jar("x", "1", <<>>, <<D("w", "1", "", "")>>), Jar("x", "2", <<>>, <<D("z", "1", "", "")>>),
                             Jar("w", "1", <<>>, <<>>), Jar("z", "1", <<>>, <<>>)>>),
                IF two THEN (IF first = "b" THEN <<rb, rl>> ELSE <<rl, rb>>) ELSE <<R("a", "1", "compile")>>)

---------------------------------------------------------------------------
(* G: where the managed entry for y comes from and who declares the dependency on y *)
GOpt == IF Tier = 0 THEN {<<>>, <<"1", "">>, <<"2", "runtime">>}
        ELSE {<<>>, <<"1", "">>, <<"2", "runtime">>, <<"1", "test">>}
GE(o) == IF o = <<>> THEN <<>> ELSE <<Mg("y", o[1], o[2])>>
GCase(own, b1, b2, par, pb, gp, at, dv, ds, ppk) ==
    LET dep == <<D("y", dv, ds, "")>>
        here(w) == IF at = w THEN dep ELSE <<>>
        poms == <<P("x", "1", "jar", <<I("p", "1")>>, TRUE, GE(own) \o <<Imp("b1"), Imp("b2")>>, here("x")),
                  P("p", "1", ppk, <<I("gp", "1")>>, FALSE, GE(par) \o <<Imp("pb")>>, here("p")),
                  P("gp", "1", "pom", <<>>, FALSE, GE(gp), here("gp")),
                  Bom("b1", GE(b1)), Bom("b2", GE(b2)), Bom("pb", GE(pb)),
                  Jar("y", "1", <<>>, <<>>), Jar("y", "2", <<>>, <<>>), Jar("y", "3", <<>>, <<>>)>>
    IN Case("G", Univ(poms), <<R("x", "1", "compile")>>)
PickG ==
    /\ phase = "start"
    /\ \E own \in GOpt, b1 \in GOpt, b2 \in GOpt, par \in GOpt, pb \in GOpt, gp \in GOpt,
          at \in {"x", "p", "gp"}, dv \in {"", "3"}, ds \in (IF Tier = 0 THEN {""} ELSE {"", "provided"}) :
        /\ (dv = "" => \E o \in {own, b1, b2, par, pb, gp} : o # <<>>)
        /\ GCase(own, b1, b2, par, pb, gp, at, dv, ds, "pom")
(* a parent that is not of packaging pom is refused *)
PickGBad == phase = "start" /\ GCase(<<"1", "">>, <<>>, <<>>, <<>>, <<>>, <<>>, "x", "", "", "jar")

(* a BOM that itself has a parent and an import: its whole effective management is imported *)
PickGB ==
    /\ phase = "start"
    /\ \E o1 \in GOpt, o2 \in GOpt, o3 \in GOpt :
        /\ \E o \in {o1, o2, o3} : o # <<>>
        /\ Case("GB", Univ(<<Jar("x", "1", <<Imp("b1")>>, <<D("y", "", "", "")>>),
                             P("b1", "1", "pom", <<I("bp", "1")>>, TRUE, GE(o1) \o <<Imp("b2")>>, <<>>),
                             Bom("bp", GE(o3)), Bom("b2", GE(o2)),
                             Jar("y", "1", <<>>, <<>>), Jar("y", "2", <<>>, <<>>)>>), <<R("x", "1", "test")>>)

(* GC: what a POM inherits and what it declares itself are different artifacts as soon as classifier or type differ *)
(* (the same key on both levels would be a re-declaration, which is outside the supported subset)                 *)
GCVar == {[c |-> c, t |-> t] : c \in {<<>>, <<"s">>}, t \in {"", "jar", "war"}}
EffT(t) == IF t = "" THEN "jar" ELSE t
PickGC ==
    /\ phase = "start"
    /\ \E kp \in GCVar, kx \in GCVar, at \in {"p", "gp"}, first \in BOOLEAN :
        /\ <<kp.c, EffT(kp.t)>> # <<kx.c, EffT(kx.t)>>
        /\ ~(kp.t = "war" /\ kp.c # <<>>) /\ ~(kx.t = "war" /\ kx.c # <<>>)
        /\ LET own == <<DK(G, "y", kx.c, kx.t, "1")>>
               other == <<D("z", "1", "", "")>>
               inh == <<DK(G, "y", kp.c, kp.t, "1")>>
           IN Case("GC", Univ(<<P("x", "1", "jar", <<I("p", "1")>>, FALSE, <<>>, IF first THEN own \o other ELSE other \o own),
                                P("p", "1", "pom", <<I("gp", "1")>>, FALSE, <<>>, IF at = "p" THEN inh ELSE <<>>),
                                P("gp", "1", "pom", <<>>, FALSE, <<>>, IF at = "gp" THEN inh ELSE <<>>),
                                Jar("y", "1", <<>>, <<D("w", "1", "", "")>>), Jar("z", "1", <<>>, <<>>), Jar("w", "1", <<>>, <<>>)>>),
                   <<R("x", "1", "compile")>>)

(* GK: the management key is group, artifact, classifier, type *)
GKEntries == {<<MgK("y", <<>>, "", "1"), MgK("y", <<>>, "war", "2"), MgK("y", <<"s">>, "jar", "3")>>,
              <<MgK("y", <<>>, "war", "2"), MgK("y", <<"s">>, "", "3"), MgK("y", <<>>, "jar", "1")>>,
              <<MgK("y", <<"s">>, "", "3"), MgK("y", <<>>, "", "1"), MgK("y", <<>>, "war", "2")>>}
PickGK ==
    /\ phase = "start"
    /\ \E mg \in GKEntries, t \in {"", "jar", "war"}, c \in {<<>>, <<"s">>} :
        /\ ~(t = "war" /\ c # <<>>)
        /\ Case("GK", Univ(<<Jar("x", "1", mg, <<DK(G, "y", c, t, "")>>),
                             Jar("y", "1", <<>>, <<>>), Jar("y", "2", <<>>, <<>>), Jar("y", "3", <<>>, <<>>)>>),
                <<R("x", "1", "compile")>>)

---------------------------------------------------------------------------
(* K: what makes two coordinates "the same artifact" *)
KVar == {[g |-> g, c |-> c, t |-> t, v |-> v] : g \in {"g", "h"}, c \in {<<>>, <<"s">>}, t \in {"", "jar", "war"}, v \in {"1", "2"}}
PickK ==
    /\ phase = "start"
    /\ \E k1 \in KVar, k2 \in KVar :
        /\ k1.v = "1"
        /\ Case("K", Univ(<<Jar("a", "1", <<>>, <<DK(k1.g, "x", k1.c, k1.t, k1.v)>>),
                            Jar("b", "1", <<>>, <<DK(k2.g, "x", k2.c, k2.t, k2.v)>>),
                            Jar("x", "1", <<>>, <<D("y", "1", "", "")>>), Jar("x", "2", <<>>, <<D("y", "2", "", "")>>),
                            [Jar("x", "1", <<>>, <<>>) EXCEPT !.g = "h"], [Jar("x", "2", <<>>, <<D("y", "2", "", "")>>) EXCEPT !.g = "h"],
                            Jar("y", "1", <<>>, <<>>), Jar("y", "2", <<>>, <<>>)>>),
                <<R("a", "1", "compile"), R("b", "1", "compile")>>)

---------------------------------------------------------------------------
(* R: repositories.  x:2 under b loses against x:1 under a; y:1 is only below the loser *)
RPoms == <<P("a", "1", "jar", <<I("p", "1")>>, FALSE, <<Imp("m")>>, <<D("x", "", "", "")>>),
           P("p", "1", "pom", <<>>, FALSE, <<>>, <<>>),
           Bom("m", <<Mg("x", "1", "")>>),
           Jar("x", "1", <<>>, <<>>),
           Jar("b", "1", <<>>, <<D("x", "2", "", "")>>),
           Jar("x", "2", <<>>, <<D("y", "1", "", "")>>),
           Jar("y", "1", <<>>, <<>>)>>
RAvail == {"1", "2", "12", "-"}
PickR ==
    /\ phase = "start"
    /\ \E av \in [1..7 -> RAvail] :
        /\ (Tier = 0 => av[1] \in {"1", "12"} /\ av[5] = "1")
        /\ Case("R", [poms |-> RPoms,
                      repos |-> Repos(SelectSeq(Ids(RPoms), LAMBDA id : \E i \in 1..7 : IdOf(RPoms[i]) = id /\ av[i] \in {"1", "12"}),
                                      SelectSeq(Ids(RPoms), LAMBDA id : \E i \in 1..7 : IdOf(RPoms[i]) = id /\ av[i] \in {"2", "12"}))],
                <<R("a", "1", "compile"), R("b", "1", "compile")>>)

---------------------------------------------------------------------------
(* T: Display / parse round trips *)
TCoords == {[g |-> g, a |-> "art", v |-> v, c |-> c, t |-> t] :
               g \in {"g", "org.example"}, v \in {"1", "1.0-SNAPSHOT"}, c \in {<<>>, <<"sources">>}, t \in {"jar", "war", "pom"}}
AllScopes == Scopes \cup {"system"}
PickT ==
    /\ phase = "start"
    /\ roots' = <<>> /\ res' = <<>> /\ phase' = "T"
    /\ \/ \E x \in TCoords : U' = [op |-> "coord", x |-> x]
       \/ \E s \in AllScopes : U' = [op |-> "scope", x |-> s]
       \/ \E x \in TCoords, s \in AllScopes, u \in {"mem://r1", "https://repo.example.org/maven2/"} :
             /\ (Tier = 0 => x.v = "1")
             /\ U' = [op |-> "found", x |-> [g |-> x.g, a |-> x.a, v |-> x.v, c |-> x.c, t |-> x.t, s |-> s, u |-> u]]

---------------------------------------------------------------------------
Init == phase = "start" /\ U = <<>> /\ roots = <<>> /\ res = <<>>
Next == PickM \/ GrowM \/ PickMX \/ PickMD \/ PickS \/ PickS2 \/ PickG \/ PickGBad \/ PickGB \/ PickGC \/ PickGK \/ PickK \/ PickR \/ PickT
Spec == Init /\ [][Next]_vars

---------------------------------------------------------------------------
IsCase == phase \notin {"start", "T"}
KeptNodes == {res.seq[i] : i \in res.kept}

(* the operational resolution (the design) gives the declarative result; it looks at every   *)
(* subtree before mediation, so it reports a failure wherever one is                          *)
InvOpEqDecl == IsCase => res.op = IF res.keptErr \/ res.anyErr THEN Err ELSE Ok(res.list)
InvOpAllowed == IsCase => res.op \in res.allowed
(* the two scope tables agree *)
ASSUME TableAgrees == \A l \in Scopes, t \in Scopes : TheScopeTableOp(l, t) = DocTable[l][t]
(* repository fallback: first in list order *)
InvRepo == IsCase => \A i \in DOMAIN U.poms :
               LET id == IdOf(U.poms[i]) IN
               TryResolversOp(U, id, 1) = IF Serving(U, id) = {} THEN 0 ELSE Min(Serving(U, id))
(* nodes were enumerated in breadth-first order: depth, then declaration path *)
InvOrder == IsCase => \A i, j \in DOMAIN res.seq : i < j => Before(res.seq[i], res.seq[j])
(* Kept is the set the property describes *)
InvKept == IsCase => \A i \in DOMAIN res.seq :
               LET n == res.seq[i] IN
               (i \in res.kept) <=>
                  /\ \A j \in DOMAIN res.seq :
                        (IsPrefix(res.seq[j].path, n.path) /\ res.seq[j].path # n.path) => j \in res.kept
                  /\ ~\E j \in res.kept : KeyOf(res.seq[j]) = KeyOf(n) /\ Before(res.seq[j], n)
(* no two results are the same artifact *)
InvNoDup == IsCase /\ res.op.ok =>
               \A i, j \in DOMAIN res.op.v : i # j => KeyOf(res.op.v[i]) # KeyOf(res.op.v[j])
(* every result is reachable from a root through results only *)
InvReach == IsCase => \A n \in KeptNodes : \A k \in 1..(Len(n.path) - 1) :
               \E m \in KeptNodes : m.path = SubSeq(n.path, 1, k)
(* scope of a result in closed form: the root's scope unless that is compile, in which case   *)
(* runtime as soon as one edge on the way is runtime; only compile / runtime edges are passed *)
InvScope == IsCase => \A n \in KeptNodes :
               LET rs == roots[n.path[1]].s IN
               /\ Range(n.es) \subseteq {"compile", "runtime"}
               /\ n.s = IF rs # "compile" THEN rs ELSE IF "runtime" \in Range(n.es) THEN "runtime" ELSE "compile"

(* vectors for the implementation *)
Emit ==
    /\ IsCase => PrintT(ToJson([op |-> "resolve", fam |-> phase, cls |-> res.tags, U |-> U, roots |-> roots,
                                exp |-> ExpJson(res.allowed), alt |-> res.alt]))
    /\ phase = "T" => PrintT(ToJson([op |-> U.op, fam |-> "T", cls |-> {"roundtrip-" \o U.op}, x |-> U.x,
                                     exp |-> RoundTripD(U.x)]))
=============================================================================
