---------------------------- MODULE Trace_Maven ----------------------------
(***************************************************************************)
(* I2S for C19: every recorded operation of the real code is re-judged by  *)
(* the specification.  One TLC step per record.                            *)
(*   resolve  the recorded universe and roots are resolved declaratively   *)
(*            (Maven.tla ResolveD / AllowedD) and the recorded `got` must  *)
(*            be one of the allowed results                                *)
(*   coord / scope / found   parse(print(x)) = x on the components         *)
(* A rejected record is printed with the specification's expectation       *)
(* ({"anyof": allowed results}) and, for the known deviation, the result   *)
(* the code's way of filling inherited dependencies gives (`alt`).         *)
(***************************************************************************)
EXTENDS Maven, Json, IOUtils

Rec == ndJsonDeserialize(IOEnv.TRACE)
VARIABLES l, rej

IsRes(g) == "ok" \in DOMAIN g /\ "v" \in DOMAIN g
SameRes(g, e) == IsRes(g) /\ g.ok = e.ok /\ (e.ok => g.v = e.v)

IsResolve(r) == r.op = "resolve"
IsRoundTrip(r) == r.op \in {"coord", "scope", "found"}

Expected(r) ==
    IF IsResolve(r) THEN [anyof |-> SetAsSeq(AllowedD(r.U, r.roots)), alt |-> ResolveOp(r.U, r.roots, "parent")]
    ELSE IF IsRoundTrip(r) THEN RoundTripD(r.x)
    ELSE <<>>

Accept(r) ==
    IF IsResolve(r) THEN \E e \in AllowedD(r.U, r.roots) : SameRes(r.got, e)
    ELSE IF IsRoundTrip(r) THEN SameRes(r.got, RoundTripD(r.x))
    ELSE FALSE

Init == l = 1 /\ rej = 0
Next ==
    /\ l <= Len(Rec)
    /\ l' = l + 1
    /\ IF Accept(Rec[l]) THEN rej' = rej
       ELSE /\ PrintT(ToJson([reject |-> l, exp |-> Expected(Rec[l])]))
            /\ rej' = rej + 1
Spec == Init /\ [][Next]_<<l, rej>>

(* every line was consumed *)
Consumed == TLCGet("stats").diameter - 1 = Len(Rec)
=============================================================================
