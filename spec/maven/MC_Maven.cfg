SPECIFICATION Spec
CONSTANT Tier = 0
INVARIANT InvOpEqDecl
INVARIANT InvOpAllowed
INVARIANT InvRepo
INVARIANT InvOrder
INVARIANT InvKept
INVARIANT InvNoDup
INVARIANT InvReach
INVARIANT InvScope
INVARIANT Emit
CHECK_DEADLOCK FALSE
