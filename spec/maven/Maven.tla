------------------------------- MODULE Maven -------------------------------
(***************************************************************************)
(* Property C19.  Maven dependency resolution of maven_dependency_resolver *)
(* (lib.rs get_maven_dependencies): effective POMs, expansion with scope   *)
(* composition, nearest-wins mediation, flattening, repository fallback.   *)
(*                                                                         *)
(* Abstract data (all JSON-shaped: records, sequences, strings)            *)
(*   U      [poms |-> <<Pom..>>, repos |-> <<Repo..>>]                     *)
(*   Pom    [g, a, v, pk ("jar"|"pom"), par (<<>>|<<Id>>), inh (BOOLEAN:   *)
(*           groupId/version omitted in the file, taken from the parent),  *)
(*           mg <<Managed..>>, deps <<Dep..>>]                             *)
(*   Id     [g, a, v]                                                      *)
(*   Repo   [name, url, has <<Id..>>]    (list order = fallback order)     *)
(*   Managed [g, a, c (<<>>|<<x>>), t (""|type), v, s (""|scope|"import")] *)
(*   Dep    [g, a, c, t, v (""|version), s (""|scope), o (""|"true"|       *)
(*           "false")]                   ("" = element omitted)            *)
(*   Root   [g, a, v, c, t, s]                                             *)
(*   result Ok(<<[g, a, v, c, t, s, r]..>>) | Err    (r = repository name) *)
(*                                                                         *)
(* Two formulations; TLC checks that they coincide (MC_Maven):             *)
(*   - *Op   operational, one definition per function / loop of the code   *)
(*   - *D    declarative, Maven's documented rules ("Introduction to the   *)
(*           Dependency Mechanism") as stated by the property              *)
(***************************************************************************)
EXTENDS Naturals, Sequences, FiniteSets, TLC

Err == [ok |-> FALSE, v |-> <<>>]
Ok(x) == [ok |-> TRUE, v |-> x]

Min(S) == CHOOSE x \in S : \A y \in S : x <= y
Range(s) == {s[i] : i \in DOMAIN s}
RECURSIVE Cat(_)
Cat(ss) == IF ss = <<>> THEN <<>> ELSE Head(ss) \o Cat(Tail(ss))

IdOf(p) == [g |-> p.g, a |-> p.a, v |-> p.v]
TypeOf(t) == IF t = "" THEN "jar" ELSE t              \* <type> defaults to jar
ScopeOf(s) == IF s = "" THEN "compile" ELSE s         \* <scope> defaults to compile
(* what identifies "one artifact": management key and conflict key *)
KeyOf(d) == <<d.g, d.a, d.c, TypeOf(d.t)>>
Found(c, s, r) == [g |-> c.g, a |-> c.a, v |-> c.v, c |-> c.c, t |-> TypeOf(c.t), s |-> s, r |-> r]

(* the repositories that serve the .pom of id *)
Serving(U, id) == {r \in DOMAIN U.repos : \E k \in DOMAIN U.repos[r].has : U.repos[r].has[k] = id}
HasPom(U, id) == Serving(U, id) # {}
PomOf(U, id) == U.poms[CHOOSE i \in DOMAIN U.poms : IdOf(U.poms[i]) = id]

Imports(p) == SelectSeq(p.mg, LAMBDA e : e.s = "import")
Declared(p) == SelectSeq(p.mg, LAMBDA e : e.s # "import")
BomId(e) == [g |-> e.g, a |-> e.a, v |-> e.v]

(* a dependency-management entry / a dependency after defaults are applied *)
DoneM(e) == [g |-> e.g, a |-> e.a, c |-> e.c, t |-> TypeOf(e.t), v |-> e.v, s |-> e.s, o |-> ""]
DoneD(d, v, s, o) == [g |-> d.g, a |-> d.a, c |-> d.c, t |-> TypeOf(d.t), v |-> v, s |-> s, o |-> o]

---------------------------------------------------------------------------
(*                            OPERATIONAL                                  *)
(* `fa` names where inherited dependencies get their omitted version and   *)
(* scope from:                                                             *)
(*   "child"  - the design: from the management of the POM being built     *)
(*              (what Maven does; equals the declarative statement)        *)
(*   "parent" - from the management of the ancestor that declares them     *)
(*              (what maven_pom_done.rs make_dependencies does today; kept *)
(*              here only to name that deviation precisely, see            *)
(*              FINDINGS.md)                                               *)
(***************************************************************************)

(* resolver.rs try_resolvers: first repository in list order that has the file; 0 = none *)
RECURSIVE TryResolversOp(_, _, _)
TryResolversOp(U, id, r) ==
    IF r > Len(U.repos) THEN 0
    ELSE IF \E k \in DOMAIN U.repos[r].has : U.repos[r].has[k] = id THEN r
    ELSE TryResolversOp(U, id, r + 1)

(* maven_pom_done.rs make_dependencies: `.find` in the management list *)
RECURSIVE FindOp(_, _, _)
FindOp(dm, key, i) ==
    IF i > Len(dm) THEN 0 ELSE IF KeyOf(dm[i]) = key THEN i ELSE FindOp(dm, key, i + 1)

FillOp(dm, d) ==
    LET i == FindOp(dm, KeyOf(d), 1) IN
    IF i > 0 THEN Ok(DoneD(d, IF d.v # "" THEN d.v ELSE dm[i].v,
                              IF d.s # "" THEN d.s ELSE dm[i].s,
                              IF d.o # "" THEN d.o ELSE dm[i].o))
    ELSE IF d.v # "" THEN Ok(DoneD(d, d.v, d.s, d.o))
    ELSE Err                                                  \* "no dependency found matching"

RECURSIVE FillAllOp(_, _, _, _)
FillAllOp(dm, ds, i, acc) ==
    IF i > Len(ds) THEN Ok(acc)
    ELSE LET f == FillOp(dm, ds[i]) IN
         IF ~f.ok THEN Err ELSE FillAllOp(dm, ds, i + 1, Append(acc, f.v))

RECURSIVE MergedPomOp(_, _, _), MakeDMOp(_, _, _, _, _)

(* make_dependency_management: own entries in order, an import replaced in place by the *)
(* imported POM's whole effective management; the caller appends the parent's           *)
MakeDMOp(U, mg, i, acc, fa) ==
    IF i > Len(mg) THEN Ok(acc)
    ELSE IF mg[i].s = "import"
    THEN LET bom == MergedPomOp(U, BomId(mg[i]), fa) IN
         IF ~bom.ok THEN Err ELSE MakeDMOp(U, mg, i + 1, acc \o bom.v.dm, fa)
    ELSE MakeDMOp(U, mg, i + 1, Append(acc, DoneM(mg[i])), fa)

(* merge_parent: parent = <<>> (super POM) or <<merged parent>> *)
MergeParentOp(U, parent, child, fa) ==
    IF parent # <<>> /\ parent[1].t # "pom" THEN Err          \* parent's packaging must be pom
    ELSE IF parent = <<>> /\ child.inh THEN Err               \* no groupId / version and nobody to inherit from
    ELSE LET own == MakeDMOp(U, child.mg, 1, <<>>, fa) IN
         IF ~own.ok THEN Err
         ELSE LET dm == own.v \o (IF parent = <<>> THEN <<>> ELSE parent[1].dm)
                  raw == child.deps \o (IF parent = <<>> THEN <<>> ELSE parent[1].raw)
                  filled == IF fa = "parent" THEN FillAllOp(dm, child.deps, 1, <<>>) ELSE Ok(<<>>)
              IN IF ~filled.ok THEN Err
                 ELSE Ok([t |-> child.pk, dm |-> dm, raw |-> raw,
                          deps |-> filled.v \o (IF parent = <<>> THEN <<>> ELSE parent[1].deps)])

(* get_merged_pom: the `while let Some(coord) = to_get.take()` loop, nearest ancestor first *)
RECURSIVE ParentStackOp(_, _, _)
ParentStackOp(U, pom, acc) ==
    IF pom.par = <<>> THEN Ok(acc)
    ELSE IF TryResolversOp(U, pom.par[1], 1) = 0 THEN Err
    ELSE LET pp == PomOf(U, pom.par[1]) IN ParentStackOp(U, pp, Append(acc, pp))

(* get_merged_pom: `for pom in poms_stack.into_iter().rev()` *)
RECURSIVE MergeChainOp(_, _, _, _, _)
MergeChainOp(U, stack, k, parent, fa) ==
    IF k = 0 THEN Ok(parent)
    ELSE LET m == MergeParentOp(U, parent, stack[k], fa) IN
         IF ~m.ok THEN Err ELSE MergeChainOp(U, stack, k - 1, <<m.v>>, fa)

MergedPomOp(U, id, fa) ==
    IF TryResolversOp(U, id, 1) = 0 THEN Err
    ELSE LET pom == PomOf(U, id)
             stack == ParentStackOp(U, pom, <<>>)
         IN IF ~stack.ok THEN Err
            ELSE LET top == MergeChainOp(U, stack.v, Len(stack.v), <<>>, fa) IN
                 IF ~top.ok THEN Err
                 ELSE LET m == MergeParentOp(U, top.v, pom, fa) IN
                      IF ~m.ok \/ fa = "parent" THEN m
                      ELSE LET f == FillAllOp(m.v.dm, m.v.raw, 1, <<>>) IN
                           IF ~f.ok THEN Err ELSE Ok([m.v EXCEPT !.deps = f.v])

(* lib.rs the_scope_table, as the match is written there; "-" = None *)
TheScopeTableOp(left, top) ==
    IF top = "runtime" /\ left = "compile" THEN "runtime"
    ELSE IF top \in {"compile", "runtime"} THEN left
    ELSE "-"

(* lib.rs get_dependencies_tree *)
RECURSIVE TreeOp(_, _, _, _), KidsOp(_, _, _, _, _, _)
TreeOp(U, c, scope, fa) ==
    LET m == MergedPomOp(U, IdOf(c), fa) IN
    IF ~m.ok THEN Err
    ELSE LET kids == KidsOp(U, m.v.deps, 1, scope, <<>>, fa) IN
         IF ~kids.ok THEN Err
         ELSE Ok([data |-> Found(c, scope, U.repos[TryResolversOp(U, IdOf(c), 1)].name), kids |-> kids.v])
KidsOp(U, deps, i, scope, acc, fa) ==
    IF i > Len(deps) THEN Ok(acc)
    ELSE LET d == deps[i]
             st == TheScopeTableOp(scope, ScopeOf(d.s))
         IN IF d.o = "true" \/ st = "-" THEN KidsOp(U, deps, i + 1, scope, acc, fa)
            ELSE LET t == TreeOp(U, d, st, fa) IN
                 IF ~t.ok THEN Err ELSE KidsOp(U, deps, i + 1, scope, Append(acc, t.v), fa)

RECURSIVE ForestOp(_, _, _, _, _)
ForestOp(U, roots, i, acc, fa) ==
    IF i > Len(roots) THEN Ok(acc)
    ELSE LET t == TreeOp(U, roots[i], roots[i].s, fa) IN
         IF ~t.ok THEN Err ELSE ForestOp(U, roots, i + 1, Append(acc, t.v), fa)

(* nodes of a forest are addressed by their path of child positions *)
NodeAt(forest, p) ==
    LET RECURSIVE Walk(_, _)
        Walk(t, k) == IF k > Len(p) THEN t ELSE Walk(t.kids[p[k]], k + 1)
    IN Walk(forest[p[1]], 2)

RECURSIVE KeysOfTree(_)
KeysOfTree(t) == {KeyOf(t.data)} \cup UNION {KeysOfTree(t.kids[i]) : i \in DOMAIN t.kids}

(* Vec::retain with the closure of clean_up_dependencies: `set.remove(id)` is true once per id *)
RECURSIVE RetainSeqOp(_, _, _, _)
RetainSeqOp(trees, i, set, keep) ==
    IF i > Len(trees) THEN [set |-> set, keep |-> keep]
    ELSE LET k == KeyOf(trees[i].data) IN
         IF k \in set THEN RetainSeqOp(trees, i + 1, set \ {k}, Append(keep, i))
         ELSE RetainSeqOp(trees, i + 1, set, keep)

PathsUnder(p, keep) == [j \in 1..Len(keep) |-> Append(p, keep[j])]

(* tree.rs Forest::breadth_first_retain: one step = `queue.pop_front()`, retain its children, *)
(* push the retained ones                                                                     *)
RECURSIVE RetainLoopOp(_, _, _, _)
RetainLoopOp(forest, queue, set, kept) ==
    IF queue = <<>> THEN kept
    ELSE LET p == Head(queue)
             r == RetainSeqOp(NodeAt(forest, p).kids, 1, set, <<>>)
             ps == PathsUnder(p, r.keep)
         IN RetainLoopOp(forest, Tail(queue) \o ps, r.set, kept \cup Range(ps))

BreadthFirstRetainOp(forest) ==
    LET all == UNION {KeysOfTree(forest[i]) : i \in DOMAIN forest}
        r == RetainSeqOp(forest, 1, all, <<>>)
        ps == PathsUnder(<<>>, r.keep)
    IN RetainLoopOp(forest, ps, r.set, Range(ps))

(* tree.rs Forest::into_breadth_first over what was retained *)
RECURSIVE FlattenLoopOp(_, _, _, _)
FlattenLoopOp(forest, kept, queue, out) ==
    IF queue = <<>> THEN out
    ELSE LET p == Head(queue)
             n == NodeAt(forest, p)
             ks == SelectSeq(PathsUnder(p, [j \in 1..Len(n.kids) |-> j]), LAMBDA q : q \in kept)
         IN FlattenLoopOp(forest, kept, Tail(queue) \o ks, Append(out, n.data))

(* lib.rs get_maven_dependencies *)
ResolveOp(U, roots, fa) ==
    LET f == ForestOp(U, roots, 1, <<>>, fa) IN
    IF ~f.ok THEN Err
    ELSE LET kept == BreadthFirstRetainOp(f.v)
             q0 == SelectSeq(PathsUnder(<<>>, [j \in 1..Len(f.v) |-> j]), LAMBDA q : q \in kept)
         IN Ok(FlattenLoopOp(f.v, kept, q0, <<>>))

---------------------------------------------------------------------------
(*                            DECLARATIVE                                  *)
(***************************************************************************)

(* "Dependency Scope": left column = scope of the dependency we come through, top row = *)
(* scope declared on its dependency; "-" = omitted                                       *)
DocTable ==
    [compile  |-> [compile |-> "compile",  provided |-> "-", runtime |-> "runtime",  test |-> "-"],
     provided |-> [compile |-> "provided", provided |-> "-", runtime |-> "provided", test |-> "-"],
     runtime  |-> [compile |-> "runtime",  provided |-> "-", runtime |-> "runtime",  test |-> "-"],
     test     |-> [compile |-> "test",     provided |-> "-", runtime |-> "test",     test |-> "-"]]

(* the POM, its parent, its parent's parent ...; stops at a POM no repository serves *)
RECURSIVE LineageD(_, _)
LineageD(U, id) ==
    IF ~HasPom(U, id) THEN <<id>>
    ELSE LET p == PomOf(U, id) IN
         IF p.par = <<>> THEN <<id>> ELSE <<id>> \o LineageD(U, p.par[1])

(***************************************************************************)
(* Managed entry for `key` in the effective POM of id: <<>> or             *)
(* <<[e |-> entry, lvl |-> lineage position it came from, imp |-> from an  *)
(* import]>>.  Documented: a POM's own declaration beats its parent's and  *)
(* beats what it imports; imports in declaration order.  The documents do  *)
(* not rank a POM's imports against its parent's declarations:             *)
(*   order = "level"    own, own imports, then the parent's effective      *)
(*                      management (the code's reading)                    *)
(*   order = "lineage"  declarations of the whole lineage (nearest first), *)
(*                      then the imports of the whole lineage (what        *)
(*                      Maven's model builder does)                        *)
(* Both are accepted, see AllowedD.                                        *)
(***************************************************************************)
RECURSIVE ManagedD(_, _, _, _)
ManagedD(U, id, key, order) ==
    LET lin == SelectSeq(LineageD(U, id), LAMBDA i : HasPom(U, i))
        L == Len(lin)
        ownAt(k) == LET ds == Declared(PomOf(U, lin[k]))
                        hit == {j \in DOMAIN ds : KeyOf(ds[j]) = key}
                    IN IF hit = {} THEN <<>> ELSE <<[e |-> DoneM(ds[Min(hit)]), lvl |-> k, imp |-> FALSE]>>
        impAt(k) == LET is == Imports(PomOf(U, lin[k]))
                        hit == {j \in DOMAIN is : ManagedD(U, BomId(is[j]), key, order) # <<>>}
                    IN IF hit = {} THEN <<>>
                       ELSE <<[e |-> ManagedD(U, BomId(is[Min(hit)]), key, order)[1].e, lvl |-> k, imp |-> TRUE]>>
        cand(n) == IF order = "level"
                   THEN (IF n % 2 = 1 THEN ownAt((n + 1) \div 2) ELSE impAt(n \div 2))
                   ELSE (IF n <= L THEN ownAt(n) ELSE impAt(n - L))
        hits == {n \in 1..(2 * L) : cand(n) # <<>>}
    IN IF hits = {} THEN <<>> ELSE cand(Min(hits))

(* dependencies of the effective POM: own, then the parent's, ...; omitted version and scope *)
(* filled from the effective POM's management.  fv / fs: filled; lvl: who declares it        *)
EffDepsD(U, id, order) ==
    LET lin == LineageD(U, id)
        fill(d, k) == LET m == ManagedD(U, id, KeyOf(d), order) IN
                      [d |-> DoneD(d, IF d.v # "" THEN d.v ELSE IF m # <<>> THEN m[1].e.v ELSE "",
                                      IF d.s # "" THEN d.s ELSE IF m # <<>> THEN m[1].e.s ELSE "", d.o),
                       fv |-> d.v = "", fs |-> d.s = "" /\ m # <<>> /\ m[1].e.s # "", lvl |-> k,
                       m |-> m]
    IN Cat([k \in 1..Len(lin) |-> LET ds == PomOf(U, lin[k]).deps IN [j \in 1..Len(ds) |-> fill(ds[j], k)]])

(* the effective POM of id can be built *)
RECURSIVE ResolvableD(_, _)
ResolvableD(U, id) ==
    LET lin == LineageD(U, id) IN
    /\ \A k \in DOMAIN lin : HasPom(U, lin[k])
    /\ \A k \in DOMAIN lin : LET p == PomOf(U, lin[k]) IN
          /\ (k > 1 => p.pk = "pom")
          /\ (p.inh => p.par # <<>>)
          /\ \A e \in Range(Imports(p)) : ResolvableD(U, BomId(e))
    /\ \A x \in Range(EffDepsD(U, id, "level")) : x.d.v # ""

(* per POM id: can it be built, and its effective dependencies; computed once per universe *)
EffTableD(U, order) ==
    TLCEval([id \in {IdOf(U.poms[i]) : i \in DOMAIN U.poms} |->
                LET ok == ResolvableD(U, id) IN
                [ok |-> ok, deps |-> IF ok THEN EffDepsD(U, id, order) ELSE <<>>]])

(* a node of the dependency forest: path = positions in the effective dependency lists *)
NodeD(U, E, path, c, s, es, x) ==
    LET id == IdOf(c) IN
    [path |-> path, g |-> c.g, a |-> c.a, v |-> c.v, c |-> c.c, t |-> TypeOf(c.t), s |-> s,
     es |-> es, x |-> x,
     ok |-> id \in DOMAIN E /\ E[id].ok,
     r |-> IF HasPom(U, id) THEN U.repos[Min(Serving(U, id))].name ELSE ""]

(* optional dependencies and those the table omits are cut; children in declaration order *)
ChildrenD(U, E, n) ==
    IF ~n.ok THEN <<>>
    ELSE LET deps == E[IdOf(n)].deps
             js == SelectSeq([j \in 1..Len(deps) |-> j],
                             LAMBDA j : deps[j].d.o # "true" /\ DocTable[n.s][ScopeOf(deps[j].d.s)] # "-")
         IN [k \in 1..Len(js) |->
                LET x == deps[js[k]] IN
                NodeD(U, E, Append(n.path, js[k]), x.d, DocTable[n.s][ScopeOf(x.d.s)], Append(n.es, ScopeOf(x.d.s)),
                      [fv |-> x.fv, fs |-> x.fs, lvl |-> x.lvl, m |-> x.m])]

(* all nodes, level by level (acyclic universes; a guard stops runaway cyclic input) *)
MaxDepth == 24
RECURSIVE LevelsD(_, _, _, _)
LevelsD(U, E, level, acc) ==
    IF level = <<>> \/ Len(level[1].path) > MaxDepth THEN acc
    ELSE LevelsD(U, E, Cat([k \in 1..Len(level) |-> ChildrenD(U, E, level[k])]), acc \o level)

NoX == [fv |-> FALSE, fs |-> FALSE, lvl |-> 0, m |-> <<>>]
NodesD(U, E, roots) ==
    LevelsD(U, E, [i \in 1..Len(roots) |-> NodeD(U, E, <<i>>, roots[i], roots[i].s, <<>>, NoX)], <<>>)

(* breadth-first order: depth, then declaration path *)
RECURSIVE LexLess(_, _)
LexLess(p, q) ==
    IF p = <<>> \/ q = <<>> THEN p = <<>> /\ q # <<>>
    ELSE IF Head(p) # Head(q) THEN Head(p) < Head(q) ELSE LexLess(Tail(p), Tail(q))
Before(m, n) == Len(m.path) < Len(n.path) \/ (Len(m.path) = Len(n.path) /\ LexLess(m.path, n.path))
ParentPath(p) == SubSeq(p, 1, Len(p) - 1)
IsPrefix(p, q) == Len(p) <= Len(q) /\ SubSeq(q, 1, Len(p)) = p

(* Kept(n) <=> all proper ancestors kept /\ no kept node with the same key precedes n;       *)
(* evaluated along the order (the definition is well-founded on it).  kept: positions in seq *)
RECURSIVE KeptD(_, _, _)
KeptD(seq, i, kept) ==
    IF i > Len(seq) THEN kept
    ELSE LET n == seq[i]
             anc == Len(n.path) = 1 \/ \E j \in kept : seq[j].path = ParentPath(n.path)
             rival == \E j \in kept : KeyOf(seq[j]) = KeyOf(n)
         IN KeptD(seq, i + 1, IF anc /\ ~rival THEN kept \cup {i} ELSE kept)

RECURSIVE PickD(_, _, _, _)
PickD(seq, kept, i, out) ==
    IF i > Len(seq) THEN out
    ELSE PickD(seq, kept, i + 1, IF i \in kept THEN Append(out, Found(seq[i], seq[i].s, seq[i].r)) ELSE out)

(* The declarative resolution under one management order *)
ResolveD(U, roots, order) ==
    LET E == EffTableD(U, order)
        seq == NodesD(U, E, roots)          \* in breadth-first order, see MC_Maven InvOrder
        kept == KeptD(seq, 1, {})
    IN [eff |-> E, seq |-> seq, kept |-> kept, list |-> PickD(seq, kept, 1, <<>>),
        keptErr |-> \E i \in kept : ~seq[i].ok,          \* a POM the result needs cannot be built
        anyErr |-> \E i \in DOMAIN seq : ~seq[i].ok]     \* only discarded subtrees are affected

(* A failure the result does not depend on (a POM needed only below a mediation loser) may or *)
(* may not be reported: the rules do not say whether discarded subtrees are ever looked at.   *)
ExpOfD(d) == IF d.keptErr THEN {Err} ELSE IF d.anyErr THEN {Err, Ok(d.list)} ELSE {Ok(d.list)}

HasImports(U) == \E i \in DOMAIN U.poms : Imports(U.poms[i]) # <<>>
AllowedFromD(d, U, roots) ==
    ExpOfD(d) \cup (IF HasImports(U) THEN ExpOfD(ResolveD(U, roots, "lineage")) ELSE {})
AllowedD(U, roots) == AllowedFromD(ResolveD(U, roots, "level"), U, roots)

(* as an expectation on the wire: a result, or {"anyof": [...]} *)
RECURSIVE SetAsSeq(_)
SetAsSeq(S) == IF S = {} THEN <<>> ELSE LET x == CHOOSE x \in S : TRUE IN <<x>> \o SetAsSeq(S \ {x})
ExpJson(A) == IF Cardinality(A) = 1 THEN CHOOSE x \in A : TRUE ELSE [anyof |-> SetAsSeq(A)]

---------------------------------------------------------------------------
(* Display / parse round trips: printing then parsing is the identity on the components *)
RoundTripD(x) == Ok(x)

===========================================================================
