--------------------------- MODULE DownloadCache ---------------------------
(***************************************************************************)
(* The download cache of the binary crate (src/download/mod.rs,            *)
(* Downloader::download_with_special_404 with the cache on) as the state   *)
(* machine it is: one action per step between two accesses to the shared   *)
(* directory ./download.  `feather-build-rs build --all` runs one task per *)
(* version on a multi-threaded runtime (JoinSet in src/main.rs) with a     *)
(* clone of one Downloader; the tasks ask for the same URLs (libraries,    *)
(* manifests), and the directory outlives the process.  So the interesting *)
(* quantifiers are interleavings of tasks and crash points, which is what  *)
(* TLC enumerates.                                                         *)
(*                                                                         *)
(* A body is K chunks.  The cache file of a URL is Absent or the set of    *)
(* chunks that hold their final bytes (File::create truncates to {}; every *)
(* writer has its own descriptor and position and writes the same bytes).  *)
(* A caller gets "hit" (path only: the body is read from the file later),  *)
(* "new" (path and the bytes in memory), "none" (a recorded 404, only for  *)
(* callers that ask for it) or "err".  Which of path / memory a caller     *)
(* reads depends on what it does with the result (`kind`):                 *)
(*   json, xml  parse_as_json / parse_as_xml : memory when new, file when hit; the whole body must parse *)
(*   vec        to_vec (nests)               : memory when new, file when hit; any prefix of lines reads *)
(*   jar        into_file_jar / mappings_from_zip_file : always the file, opened later            *)
(***************************************************************************)
EXTENDS Naturals, FiniteSets, TLC

CONSTANTS Tasks, Urls, K,
          Atomic,      \* FALSE: as coded (File::create on the final path, then copy); TRUE: private temporary file, then rename
          MayCrash     \* the process may die between any two steps and is started again (the directory stays)

Absent == {0}            \* not a set of chunks (chunks are 1..K); a set, so that TLC can compare it with one
Full == 1..K
Kinds == {"json", "xml", "vec", "jar"}
NoSeen == {K + 1}

VARIABLES file, marker, server, pc, url, special, kind, pos, res, seen, tmp, asked
vars == <<file, marker, server, pc, url, special, kind, pos, res, seen, tmp, asked>>

TypeOK ==
    /\ file \in [Urls -> SUBSET Full \cup {Absent}]
    /\ marker \in [Urls -> BOOLEAN]
    /\ server \in [Urls -> {"ok", "404", "500", "down"}]
    /\ pc \in [Tasks -> {"idle", "check", "get", "mark", "create", "write", "use", "done"}]
    /\ res \in [Tasks -> {"-", "hit", "new", "none", "err"}]
    /\ pos \in [Tasks -> 0..K]
    /\ asked \in [Urls -> BOOLEAN]

Init ==
    /\ file \in [Urls -> {Absent}] /\ marker = [u \in Urls |-> FALSE]
    /\ server \in [Urls -> {"ok", "404", "500", "down"}]
    /\ pc = [t \in Tasks |-> "idle"] /\ url \in [Tasks -> Urls] /\ special = [t \in Tasks |-> FALSE] /\ kind = [t \in Tasks |-> "json"]
    /\ pos = [t \in Tasks |-> 0] /\ res = [t \in Tasks |-> "-"] /\ seen = [t \in Tasks |-> NoSeen]
    /\ tmp = [t \in Tasks |-> Absent] /\ asked = [u \in Urls |-> FALSE]

(* download_with_special_404(url, do_special_404) is entered *)
Call(t) ==
    /\ pc[t] = "idle"
    /\ \E u \in Urls, k \in Kinds, sp \in BOOLEAN :
        /\ (k \in {"json", "jar"} => ~sp) /\ (k = "vec" => sp)          \* get_maven_pom (xml) and download_nests (vec) ask for the 404 handling, get_maven_metadata_xml does not
        /\ url' = [url EXCEPT ![t] = u] /\ kind' = [kind EXCEPT ![t] = k]
        /\ special' = [special EXCEPT ![t] = sp]
    /\ pc' = [pc EXCEPT ![t] = "check"] /\ res' = [res EXCEPT ![t] = "-"] /\ seen' = [seen EXCEPT ![t] = NoSeen] /\ pos' = [pos EXCEPT ![t] = 0]
    /\ UNCHANGED <<file, marker, server, tmp, asked>>

(* `if !cache_path.try_exists()? { if do_special_404 && cache_path_404.try_exists()? { return Ok(None) } ...` *)
Check(t) ==
    /\ pc[t] = "check"
    /\ IF file[url[t]] # Absent THEN /\ res' = [res EXCEPT ![t] = "hit"] /\ pc' = [pc EXCEPT ![t] = "use"]
       ELSE IF special[t] /\ marker[url[t]] THEN /\ res' = [res EXCEPT ![t] = "none"] /\ pc' = [pc EXCEPT ![t] = "done"]
       ELSE /\ pc' = [pc EXCEPT ![t] = "get"] /\ UNCHANGED res
    /\ UNCHANGED <<file, marker, server, url, special, kind, pos, seen, tmp, asked>>

(* client.get(url).send(): no client when offline; 404 is special only for those who ask; other failures are errors *)
Get(t) ==
    /\ pc[t] = "get"
    /\ LET s == server[url[t]] IN
       IF s = "down" THEN /\ res' = [res EXCEPT ![t] = "err"] /\ pc' = [pc EXCEPT ![t] = "done"] /\ UNCHANGED asked
       ELSE /\ asked' = [asked EXCEPT ![url[t]] = TRUE]
            /\ IF s = "404" /\ special[t] THEN pc' = [pc EXCEPT ![t] = "mark"] /\ UNCHANGED res
               ELSE IF s # "ok" THEN /\ res' = [res EXCEPT ![t] = "err"] /\ pc' = [pc EXCEPT ![t] = "done"]
               ELSE pc' = [pc EXCEPT ![t] = "create"] /\ UNCHANGED res
    /\ UNCHANGED <<file, marker, server, url, special, kind, pos, seen, tmp>>

(* File::create(cache_path_404) + write!: only the existence of the marker is ever looked at *)
Mark(t) ==
    /\ pc[t] = "mark"
    /\ marker' = [marker EXCEPT ![url[t]] = TRUE]
    /\ res' = [res EXCEPT ![t] = "none"] /\ pc' = [pc EXCEPT ![t] = "done"]
    /\ UNCHANGED <<file, server, url, special, kind, pos, seen, tmp, asked>>

(* File::create(&cache_path): creates or TRUNCATES the final path (as coded); the design variant creates a private file *)
Create(t) ==
    /\ pc[t] = "create"
    /\ IF Atomic THEN tmp' = [tmp EXCEPT ![t] = {}] /\ UNCHANGED file
       ELSE file' = [file EXCEPT ![url[t]] = {}] /\ UNCHANGED tmp
    /\ pc' = [pc EXCEPT ![t] = "write"] /\ pos' = [pos EXCEPT ![t] = 0]
    /\ UNCHANGED <<marker, server, url, special, kind, res, seen, asked>>

(* std::io::copy, one chunk per step; the last chunk ends the call with FileNew {path, bytes} *)
Write(t) ==
    /\ pc[t] = "write"
    /\ IF pos[t] < K
       THEN /\ pos' = [pos EXCEPT ![t] = pos[t] + 1]
            /\ IF Atomic THEN tmp' = [tmp EXCEPT ![t] = tmp[t] \cup {pos[t] + 1}] /\ UNCHANGED file
               ELSE /\ file' = [file EXCEPT ![url[t]] = (IF file[url[t]] = Absent THEN {} ELSE file[url[t]]) \cup {pos[t] + 1}] /\ UNCHANGED tmp
            /\ UNCHANGED <<pc, res>>
       ELSE /\ IF Atomic THEN file' = [file EXCEPT ![url[t]] = tmp[t]] /\ tmp' = [tmp EXCEPT ![t] = Absent]      \* rename: the complete file appears at once
               ELSE UNCHANGED <<file, tmp>>
            /\ res' = [res EXCEPT ![t] = "new"] /\ pc' = [pc EXCEPT ![t] = "use"] /\ UNCHANGED pos
    /\ UNCHANGED <<marker, server, url, special, kind, seen, asked>>

(* the caller reads the body: from memory (new, and not a jar) or from the file at the path it was given *)
FromFile(t) == res[t] = "hit" \/ kind[t] = "jar"
Use(t) ==
    /\ pc[t] = "use"
    /\ seen' = [seen EXCEPT ![t] = IF FromFile(t) THEN file[url[t]] ELSE Full]
    /\ pc' = [pc EXCEPT ![t] = "done"]
    /\ UNCHANGED <<file, marker, server, url, special, kind, pos, res, tmp, asked>>

Return(t) == pc[t] = "done" /\ pc' = [pc EXCEPT ![t] = "idle"] /\ UNCHANGED <<file, marker, server, url, special, kind, pos, res, seen, tmp, asked>>

(* the process dies: every task is gone, what is in memory is gone, the directory is as it is *)
Crash ==
    /\ MayCrash
    /\ pc' = [t \in Tasks |-> "idle"] /\ res' = [t \in Tasks |-> "-"] /\ seen' = [t \in Tasks |-> NoSeen] /\ pos' = [t \in Tasks |-> 0]
    /\ tmp' = [t \in Tasks |-> Absent]
    /\ UNCHANGED <<file, marker, server, url, special, kind, asked>>

(* the remote side changes its mind (a version appears, a server recovers) *)
ServerChange == \E u \in Urls, s \in {"ok", "404", "500", "down"} : server' = [server EXCEPT ![u] = s] /\ UNCHANGED <<file, marker, pc, url, special, kind, pos, res, seen, tmp, asked>>

Next == (\E t \in Tasks : Call(t) \/ Check(t) \/ Get(t) \/ Mark(t) \/ Create(t) \/ Write(t) \/ Use(t) \/ Return(t)) \/ Crash \/ ServerChange
Spec == Init /\ [][Next]_vars

(* what the caller makes of what it read: json / xml need the whole body, nests read whatever lines are there *)
Outcome(t) ==
    IF res[t] \in {"none", "err"} THEN res[t]
    ELSE IF seen[t] = Absent THEN "err"
    ELSE IF kind[t] \in {"json", "xml"} /\ seen[t] # Full THEN "err"
    ELSE "ok"

---------------------------------------------------------------------------
(* Laws *)

(* a body that a caller goes on to use is the whole body *)
NoPartialUse == \A t \in Tasks : seen[t] # NoSeen => seen[t] = Full
(* a cache hit stands for a complete file *)
HitSound == \A t \in Tasks : res[t] = "hit" /\ pc[t] = "use" => file[url[t]] = Full
(* a file that is there is complete whenever nobody is writing it: what a later run finds *)
AtRest == (\A t \in Tasks : pc[t] \notin {"create", "write"}) => \A u \in Urls : file[u] \in {Absent, Full}
(* "none" only on request and only after the remote side said 404, which left the marker *)
NoneSound == \A t \in Tasks : res[t] = "none" => special[t] /\ marker[url[t]]
MarkerSound == \A u \in Urls : marker[u] => asked[u]
(* nothing is asked of the remote side for a URL whose file is there: the cache is used *)
=============================================================================
