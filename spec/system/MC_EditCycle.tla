---------------------------- MODULE MC_EditCycle ----------------------------
(***************************************************************************)
(* Bounded instance of the edit cycle.  S: an outer class (real name or    *)
(* placeholder in the unmapped package) with a field, a method with a      *)
(* parameter and a nested class, every name real or placeholder, comments  *)
(* on or off; a second, plainly named class.  The user's edit on the       *)
(* working set: nothing / rename the outer class (Enigma renames the       *)
(* nested one with it) / name the placeholder field / comment the field /  *)
(* rename the parameter / remove the field's name / remove the comment.    *)
(* The cycle is run as the code composes it; the vector carries S, the     *)
(* edited working set and the changes the specification computes.          *)
(***************************************************************************)
EXTENDS EditCycle, Json

CONSTANT Tier
VARIABLES stage, S, W, edit
vars == <<stage, S, W, edit>>

NS == <<"calamus", "named">>
U == "net/minecraft/unmapped/"

Tree(cn, inn, fn, fdoc, mn, pn, pdoc, cdoc) ==
    LET outerSrc == U \o "C_1"
        outerDst == IF cn = "dummy" THEN U \o "C_1" ELSE "n/Outer"
        innerDst == outerDst \o "$" \o (IF inn = "dummy" THEN "C_2" ELSE "Inner")
        params == IF pn = "none" THEN <<>> ELSE MapOf({Param(0, <<"", IF pn = "dummy" THEN "p_0" ELSE "arg">>, pdoc)})
    IN Root(NS, NoDoc, MapOf(
        {Class(<<outerSrc, outerDst>>, cdoc,
               MapOf({Field(<<"f_1", IF fn = "dummy" THEN "f_1" ELSE "count">>, "I", fdoc),
                      Method(<<"m_1", IF mn = "dummy" THEN "m_1" ELSE "run">>, "(I)V", NoDoc, params)})),
         Class(<<"net/minecraft/Keep", "n/Keep">>, NoDoc, <<>>)}
        \cup (IF inn = "none" THEN {} ELSE {Class(<<outerSrc \o "$C_2", innerDst>>, NoDoc, <<>>)})))

OuterKey == "c " \o U \o "C_1"
InnerKey == "c " \o U \o "C_1$C_2"
FieldKey == "f f_1 I"
MethodKey == "m m_1 (I)V"
Has(w, k) == k \in DOMAIN w.kids

(* the user's edit on the working set (Enigma saves the whole set) *)
Edits == {"none", "rename-outer", "name-field", "comment-field", "rename-param", "unname-field", "uncomment-field", "add-class"}
Applicable(w, e) ==
    CASE e = "none" -> TRUE
      [] e = "rename-outer" -> Has(w, OuterKey)
      [] e \in {"name-field", "comment-field", "unname-field", "uncomment-field"} -> Has(w, OuterKey) /\ FieldKey \in DOMAIN w.kids[OuterKey].kids
      [] e = "rename-param" -> Has(w, OuterKey) /\ MethodKey \in DOMAIN w.kids[OuterKey].kids /\ "p 0" \in DOMAIN w.kids[OuterKey].kids[MethodKey].kids
      [] e = "add-class" -> TRUE
Edited(w, e) ==
    CASE e = "none" -> w
      [] e = "rename-outer" ->
            LET w1 == [w EXCEPT !.kids[OuterKey].names[2] = "n/Renamed"]
            IN IF Has(w, InnerKey) THEN [w1 EXCEPT !.kids[InnerKey].names[2] = "n/Renamed$" \o EN!InnerOf(w.kids[InnerKey].names[2])] ELSE w1
      [] e = "name-field" -> [w EXCEPT !.kids[OuterKey].kids[FieldKey].names[2] = "named"]
      [] e = "comment-field" -> [w EXCEPT !.kids[OuterKey].kids[FieldKey].doc = <<"new doc">>]
      [] e = "rename-param" -> [w EXCEPT !.kids[OuterKey].kids[MethodKey].kids["p 0"].names[2] = "renamed"]
      [] e = "unname-field" -> [w EXCEPT !.kids[OuterKey].kids = [k \in DOMAIN @ \ {FieldKey} |-> @[k]]]       \* Enigma drops an entry without name and comment
      [] e = "uncomment-field" -> [w EXCEPT !.kids[OuterKey].kids[FieldKey].doc = NoDoc]
      [] e = "add-class" -> [w EXCEPT !.kids = @ @@ ("c net/minecraft/New" :> Class(<<"net/minecraft/New", "n/New">>, NoDoc, <<>>))]

Init == stage = "draw" /\ S = <<>> /\ W = <<>> /\ edit = ""
Draw ==
    /\ stage = "draw"
    /\ \E cn \in {"dummy", "real"}, inn \in {"none", "dummy", "real"}, fn \in {"dummy", "real"}, fdoc \in {NoDoc, <<"doc">>},
          mn \in {"dummy", "real"}, pn \in {"none", "dummy", "real"}, pdoc \in {NoDoc, <<"pdoc">>}, cdoc \in {NoDoc, <<"cdoc">>} :
          /\ (pn = "none" => pdoc = NoDoc)
          /\ S' = Tree(cn, inn, fn, fdoc, mn, pn, pdoc, cdoc)
    /\ stage' = "edit" /\ UNCHANGED <<W, edit>>
Edit ==
    /\ stage = "edit"
    /\ \E e \in Edits :
          /\ Applicable(WorkingSet(S).v, e)
          /\ edit' = e
          /\ W' = Edited(WorkingSet(S).v, e)
    /\ stage' = "done" /\ UNCHANGED S
Next == Draw \/ Edit
Spec == Init /\ [][Next]_vars

---------------------------------------------------------------------------
Result == Cycle(S, W, FALSE)
Expr == EN!Expressible(W)
(* the order in which siblings are written does not matter *)
InvFlip == (stage = "done" /\ Expr) => Cycle(S, W, TRUE) = Result
(* the working directory holds what was handed out *)
InvRoundTrip == (stage = "done" /\ Expr) => ReadBack(W, S.ns, FALSE) = Ok(W)
(* the two laws of the cycle.  Faithful holds for the composition as coded and is part of MC_EditCycle.cfg; NoOp does not *)
(* (a nested class below an outer class of the unmapped package is a placeholder by its extended name, is removed on the  *)
(* way out, and its removal comes back as Edit(extended name -> simple inner name): 160 of the 480 unedited cycles of     *)
(* this universe report a change) and is checked by MC_EditCycle_design.cfg only, which is not registered.               *)
RECURSIVE KeysKept(_, _)
KeysKept(sk, rk) == \A k \in DOMAIN sk : k \in DOMAIN rk /\ KeysKept(sk[k].kids, rk[k].kids)
InvNoOp == (stage = "done" /\ edit = "none") => NoOpLaw(S, FALSE)
InvFaithful ==
    (stage = "done" /\ Expr /\ edit # "add-class" /\ Result.ok) =>
        LET r == DM!Apply(Result.v, S, NAMED)
        IN /\ r.ok
           /\ DM!RemoveDummy(r.v, NAMED) = DM!RemoveDummy(W, NAMED)        \* what the user sees next time is what they saved
           /\ KeysKept(S.kids, r.v.kids)                                   \* nothing leaves the graph

Emit ==
    stage = "done" =>
        PrintT(ToJson([op |-> "cycle", S |-> S, W |-> W, edit |-> edit, expressible |-> Expr,
                       exp |-> IF Expr THEN Result ELSE [anyof |-> <<[ok |-> TRUE], [ok |-> FALSE]>>]]))
=============================================================================
