SPECIFICATION Spec
CONSTANTS
  Tasks = {t1}
  Urls = {u1, u2}
  K = 2
  Atomic = FALSE
  MayCrash = FALSE
INVARIANT TypeOK
INVARIANT NoPartialUse
INVARIANT HitSound
INVARIANT AtRest
INVARIANT NoneSound
INVARIANT MarkerSound
CHECK_DEADLOCK FALSE
