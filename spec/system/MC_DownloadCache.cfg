SPECIFICATION Spec
CONSTANTS
  Tasks = {t1, t2}
  Urls = {u1}
  K = 2
  Atomic = TRUE
  MayCrash = TRUE
INVARIANT TypeOK
INVARIANT NoPartialUse
INVARIANT HitSound
INVARIANT AtRest
INVARIANT NoneSound
INVARIANT MarkerSound
CHECK_DEADLOCK FALSE
