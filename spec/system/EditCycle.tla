----------------------------- MODULE EditCycle -----------------------------
(***************************************************************************)
(* The edit cycle of one version (src/main.rs, commands `feather` and      *)
(* `propagate-mappings`) as a composition of the operation specifications: *)
(*                                                                         *)
(*   S  = the resolved mapping set of the version (C05), names extended    *)
(*   out: remove_dummy("named") (C10) -> enigma_dir::write (C12)           *)
(*        ... the user edits the working directory with Enigma ...         *)
(*   in:  enigma_dir::read (C12) -> MappingsDiff::diff(S, read) (C04)      *)
(*        -> insert_dummy_and_contract_inner_names (C10)  = the changes    *)
(*        that insert_mappings (Propagate.tla) walks through the graph     *)
(*                                                                         *)
(* (the nests steps are left out: they are the identity when the version   *)
(* has no nests table).  Each operation is the specification already bound *)
(* to its implementation by its own property; this module adds what only   *)
(* the composition can say:                                                *)
(*   NoOp     an unedited working directory yields no changes              *)
(*   Faithful the changes of an edited directory, applied to S, give S     *)
(*            with exactly the edit (placeholders re-inserted)             *)
(***************************************************************************)
EXTENDS MappingTree

EN == INSTANCE Enigma
DM == INSTANCE Dummy          \* extends DiffApply: Diff, None, ...

NAMED == 2

(* out *)
WorkingSet(S) == DM!RemoveDummy(S, NAMED)                     \* Ok(tree)
WorkingDir(S, flip) == EN!Files(WorkingSet(S).v, flip)        \* sequence of [name, lines]

(* in: `W` is the mapping set Enigma saved (the edited working set), read back from its files *)
FileLines(fs) == [i \in 1..Len(fs) |-> fs[i].lines]
ReadBack(W, ns, flip) == EN!ReadFiles(ns, FileLines(EN!Files(W, flip)))
Changes(S, R) ==          \* R: what was read
    LET d == DM!Diff(S, R, NAMED)
    IN IF ~d.ok THEN Err ELSE Ok(DM!InsertDummy(d.v))
Cycle(S, W, flip) ==
    LET r == ReadBack(W, S.ns, flip)
    IN IF ~r.ok THEN Err ELSE Changes(S, r.v)

NoChanges(c) == c.ok /\ DOMAIN c.v.kids = {} /\ c.v.info = DM!None /\ c.v.doc = DM!None

(* every entry the working set lost is a placeholder entry: what insert_dummy turns its removal into must be no change *)
NoOpLaw(S, flip) == EN!Expressible(WorkingSet(S).v) => NoChanges(Cycle(S, WorkingSet(S).v, flip))
=============================================================================
