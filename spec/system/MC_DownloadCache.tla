-------------------------- MODULE MC_DownloadCache --------------------------
(***************************************************************************)
(* Bounded instances of DownloadCache.                                      *)
(*  MC_DownloadCache.cfg         two tasks, crashes, the design variant     *)
(*                               (temporary file + rename): every law holds *)
(*  MC_DownloadCache_seq.cfg     as coded, one task, no crash, clean        *)
(*                               directory: every law holds                 *)
(*  MC_DownloadCache_dir.cfg     as coded, one task, offline, started on    *)
(*                               EVERY directory a former run can leave     *)
(*                               behind (file absent / a prefix / whole,    *)
(*                               marker on / off): one vector per call,     *)
(*                               replayed through the real Downloader       *)
(*  MC_DownloadCache_ascoded.cfg as coded, two tasks, crashes: NOT          *)
(*                               registered - TLC finds the interleavings   *)
(*                               and crash points that break NoPartialUse,  *)
(*                               HitSound and AtRest (DESIGN.md 9.8)        *)
(***************************************************************************)
EXTENDS DownloadCache, Json, Integers, Sequences

Prefixes == {1..k : k \in 0..K}
InitDir ==
    /\ file \in [Urls -> Prefixes \cup {Absent}] /\ marker \in [Urls -> BOOLEAN]
    /\ server = [u \in Urls |-> "down"]
    /\ pc = [t \in Tasks |-> "idle"] /\ url \in [Tasks -> Urls] /\ special = [t \in Tasks |-> FALSE] /\ kind = [t \in Tasks |-> "json"]
    /\ pos = [t \in Tasks |-> 0] /\ res = [t \in Tasks |-> "-"] /\ seen = [t \in Tasks |-> NoSeen]
    /\ tmp = [t \in Tasks |-> Absent] /\ asked = [u \in Urls |-> FALSE]
NextDir == \E t \in Tasks : Call(t) \/ Check(t) \/ Get(t) \/ Mark(t) \/ Create(t) \/ Write(t) \/ Use(t)
SpecDir == InitDir /\ [][NextDir]_vars

Size(S) == IF S = Absent \/ S = NoSeen THEN -1 ELSE Cardinality(S)
Emit ==
    \A t \in Tasks : pc[t] = "done" =>
        PrintT(ToJson([op |-> "dl", kind |-> kind[t], special |-> special[t], file |-> Size(file[url[t]]), marker |-> marker[url[t]], K |-> K,
                       cls |-> "dl:" \o kind[t] \o ":" \o res[t] \o ":" \o Outcome(t),
                       exp |-> [out |-> Outcome(t), seen |-> IF Outcome(t) = "ok" THEN Size(seen[t]) ELSE -1]]))
(* offline, nothing is ever written: the directory a call finds is the directory it leaves *)
InvOfflineReadOnly == [][\A u \in Urls : file'[u] = file[u] /\ marker'[u] = marker[u]]_vars
=============================================================================
