SPECIFICATION SpecDir
CONSTANTS
  Tasks = {t1}
  Urls = {u1}
  K = 3
  Atomic = FALSE
  MayCrash = FALSE
INVARIANT TypeOK
INVARIANT NoneSound
INVARIANT Emit
PROPERTY InvOfflineReadOnly
CHECK_DEADLOCK FALSE
