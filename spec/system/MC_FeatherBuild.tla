-------------------------- MODULE MC_FeatherBuild --------------------------
(***************************************************************************)
(* Bounded instance of the release build: a mappings directory with a root *)
(* and one diff, two versions; calamus over two classes (one in the        *)
(* unmapped package), a field and two methods, optionally with an entry    *)
(* that has no intermediary name; a jar with or without a bridge method;   *)
(* named names that are real or placeholders at every level.  The build is *)
(* run stage by stage; the composition invariants are evaluated after      *)
(* every stage; the final state is emitted as a vector for the real        *)
(* build_inner (compiled into the harness from src/build.rs).              *)
(***************************************************************************)
EXTENDS FeatherBuild, Json, SequencesExt

T == INSTANCE TinyV2
D == INSTANCE DiffApply

CONSTANT Tier
VARIABLES stage, in, val, unm, calr
vars == <<stage, in, val, unm, calr>>

NSM == <<"intermediary", "named">>
NSC == <<"official", "intermediary">>
U2 == "net/minecraft/unmapped/C_2"

RootTree(cn, fn, mn, bn, inner, extra) == Root(NSM, <<>>, MapOf(
    {Class(<<"ia", cn>>, <<>>, MapOf({Field(<<"f_1", fn>>, "I", <<>>), Method(<<"m_1", mn>>, "()V", <<>>, <<>>)}
                                     \cup (IF extra = "field" THEN {Field(<<"f_7", "unknownToCalamus">>, "J", <<>>)} ELSE {}))),
     Class(<<U2, bn>>, <<>>, <<>>)}
    \cup (IF inner = "nested" THEN {Class(<<"ia$C_3", cn \o "$Inner">>, <<"inner doc">>, <<>>)} ELSE {})
    \cup (IF inner = "flat" THEN {Class(<<"ia$C_3", "n/Flat">>, <<"inner doc">>, <<>>)} ELSE {})    \* nesting depth differs
    \cup (IF extra = "class" THEN {Class(<<"ix", "n/NotInCalamus">>, <<>>, <<>>)} ELSE {})))
DiffOf(dv, cn) ==
    CASE dv = "none" -> D!DRoot(D!None, D!None, <<>>)
      [] dv = "rename" -> D!DRoot(D!None, D!None, ("c ia" :> D!DNode(D!DKey("c", "ia", "", 0), D!Edit(cn, "n/Renamed"), D!None, <<>>)))
      [] dv = "deep" -> D!DRoot(D!None, D!None, ("c ia$C_3" :> D!DNode(D!DKey("c", "ia$C_3", "", 0), D!Edit("Inner", "De$ep"), D!None, <<>>)))
      [] dv = "doc" -> D!DRoot(D!None, D!None, ("c ia" :> D!DNode(D!DKey("c", "ia", "", 0), D!None, D!None,
                            ("f f_1 I" :> D!DNode(D!DKey("f", "f_1", "I", 0), D!None, D!Add(<<"field doc">>), <<>>)))))
Cal(holes, bridge, inner) == Root(NSC, <<>>, MapOf(
    {Class(<<"a", "ia">>, <<>>, MapOf({Field(<<"fa", IF holes THEN "" ELSE "f_1">>, "I", <<>>), Method(<<"ma", "m_1">>, "()V", <<>>, <<>>),
                                        Method(<<"<init>", "<init>">>, "()V", <<>>, <<>>)}
                                       \cup (IF bridge # "none" THEN {Method(<<"br", "m_9">>, "()V", <<>>, <<>>)} ELSE {}))),
     Class(<<"b", U2>>, <<>>, <<>>)}
    \cup (IF inner # "no" THEN {Class(<<"a$c", "ia$C_3">>, <<>>, <<>>)} ELSE {})))
Meth(name, desc, acc, code, calls) == [name |-> name, desc |-> desc, acc |-> acc, code |-> code, calls |-> calls]
MainJar(bridge) ==
    ("a" :> [super |-> "java/lang/Object", itfs |-> <<>>,
             methods |-> <<Meth("ma", "()V", {}, TRUE, {})>> \o
                         (IF bridge = "none" THEN <<>> ELSE <<Meth("br", "()V", {"synthetic", "bridge"}, TRUE, {<<"a", "ma", "()V">>})>>)])
    @@ ("b" :> [super |-> "a", itfs |-> <<>>, methods |-> <<>>])

Init == stage = "start" /\ in = <<>> /\ val = <<>> /\ unm = <<>> /\ calr = <<>>

Pick ==
    /\ stage = "start"
    /\ \E cn \in {"n/A", "ia"}, fn \in {"f_1", "count"}, mn \in {"m_1", "run"}, bn \in {U2, "n/B"}, inner \in {"no", "nested", "flat"}, extra \in {"no", "class", "field"},
          dv \in {"none", "rename", "doc", "deep"}, version \in {"v1", "v2", "vX"}, holes \in BOOLEAN, bridge \in {"none", "named", "unnamed"} :
        LET root0 == RootTree(cn, fn, mn, bn, inner, extra)
            root == IF bridge = "named" THEN [root0 EXCEPT !.kids["c ia"].kids = @ @@ ("m m_9 ()V" :> Method(<<"m_9", "bridgeName">>, "()V", <<>>, <<>>))] ELSE root0
            files == <<"v1.tiny", "v1#v2.tinydiff">>
        IN in' = [dir |-> [listing |-> files,
                           content |-> ("v1.tiny" :> [tree |-> root, diff |-> <<>>]) @@ ("v1#v2.tinydiff" :> [tree |-> <<>>, diff |-> DiffOf(dv, cn)])],
                  version |-> version, cal |-> Cal(holes, bridge, inner), main |-> MainJar(bridge), libs |-> <<>>,
                  tag |-> [dv |-> dv, version |-> version, holes |-> holes, bridge |-> bridge, inner |-> inner, extra |-> extra, real |-> <<cn, fn, mn, bn>>]]
    /\ stage' = "picked" /\ UNCHANGED <<val, unm, calr>>

DoResolve ==
    /\ stage = "picked"
    /\ \E r \in Resolved(in.dir, in.version) : val' = r
    /\ stage' = "resolved" /\ UNCHANGED <<in, unm, calr>>
DoClean == stage = "resolved" /\ val' = Step("clean", val, in) /\ stage' = "clean" /\ UNCHANGED <<in, unm, calr>>
DoBridge == stage = "clean" /\ val' = Step("bridged", val, in) /\ unm' = val' /\ stage' = "bridged" /\ UNCHANGED <<in, calr>>
DoCalamus == stage = "bridged" /\ calr' = (IF val.ok THEN Step("calamus", val, in) ELSE Err) /\ stage' = "calamus" /\ UNCHANGED <<in, val, unm>>
DoMerge ==
    /\ stage = "calamus"
    /\ val' = IF val.ok /\ calr.ok THEN MG!Merge(calr.v, val.v) ELSE Err
    /\ stage' = "merged" /\ UNCHANGED <<in, unm, calr>>
DoFix == stage = "merged" /\ val' = Step("fixed", val, in) /\ stage' = "fixed" /\ UNCHANGED <<in, unm, calr>>
DoOut == stage = "fixed" /\ val' = Step("out", val, in) /\ stage' = "out" /\ UNCHANGED <<in, unm, calr>>
Next == Pick \/ DoResolve \/ DoClean \/ DoBridge \/ DoCalamus \/ DoMerge \/ DoFix \/ DoOut
Spec == Init /\ [][Next]_vars

---------------------------------------------------------------------------
Ran == stage \notin {"start", "picked"}
InvWellKeyed == (Ran /\ val.ok) => WellKeyed(val.v)
(* after cleaning no placeholder entry without comment and children is left (C10's law, here on the resolved set) *)
InvClean == (stage = "clean" /\ val.ok) => DM!RemoveDummy(val.v, 2) = val
InvComplete == (stage \in {"fixed", "out"} /\ val.ok) => Complete(IF stage = "fixed" THEN val.v ELSE RO!Reorder(val.v, <<"intermediary", "official", "named">>).v)
InvPublished == (stage = "out" /\ val.ok) => Published(val.v, in.cal, unm.v)
(* the build fails exactly for: an unknown version, calamus entries without intermediary name, *)
(* a class or field of the version's mappings that calamus does not know, unequal nesting depth *)
Known(u, cal) ==
    \A k \in DOMAIN u.kids :
        LET ck == CHOOSE c \in DOMAIN cal.kids \cup {""} : c = "" \/ cal.kids[c].names[2] = u.kids[k].names[1]
        IN /\ \E c \in DOMAIN cal.kids : cal.kids[c].names[2] = u.kids[k].names[1]
           /\ \A j \in DOMAIN u.kids[k].kids : u.kids[k].kids[j].kind = "f" =>
                \E c \in DOMAIN cal.kids : cal.kids[c].names[2] = u.kids[k].names[1]
                    /\ \E f \in DOMAIN cal.kids[c].kids : cal.kids[c].kids[f].kind = "f" /\ cal.kids[c].kids[f].names[2] = u.kids[k].kids[j].names[1]
InvDefined ==
    stage = "out" =>
        (val.ok <=> /\ in.version \in {"v1", "v2"}
                    /\ ~in.tag.holes
                    /\ unm.ok /\ Known(unm.v, in.cal)
                    /\ \A k \in DOMAIN unm.v.kids : unm.v.kids[k].names[2] = NoName
                                                     \/ CountChar(unm.v.kids[k].names[2], "$") = CountChar(unm.v.kids[k].names[1], "$"))

FileLines(f) == IF VG!EndsWith(f, ".tiny") THEN T!Lines(in.dir.content[f].tree, FALSE) ELSE D!DiffLines(in.dir.content[f].diff)
Emit ==
    stage = "out" =>
        PrintT(ToJson([op |-> "build", tag |-> in.tag, ok |-> val.ok,
                       files |-> [i \in 1..Len(in.dir.listing) |-> [name |-> in.dir.listing[i], lines |-> FileLines(in.dir.listing[i])]],
                       version |-> in.version, cal |-> in.cal, main |-> in.main, libs |-> in.libs,
                       exp |-> IF val.ok THEN [ok |-> TRUE, merged |-> val.v, unmerged |-> unm.v] ELSE [ok |-> FALSE]]))
=============================================================================
