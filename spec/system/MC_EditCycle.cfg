SPECIFICATION Spec
CONSTANT Tier = 0
INVARIANT InvFlip
INVARIANT InvRoundTrip
INVARIANT Emit
CHECK_DEADLOCK FALSE
