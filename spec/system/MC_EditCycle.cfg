SPECIFICATION Spec
CONSTANT Tier = 0
INVARIANT InvFlip
INVARIANT InvRoundTrip
INVARIANT InvFaithful
INVARIANT Emit
CHECK_DEADLOCK FALSE
