SPECIFICATION Spec
CONSTANT Tier = 0
INVARIANT InvWellKeyed
INVARIANT InvClean
INVARIANT InvComplete
INVARIANT InvPublished
INVARIANT InvDefined
INVARIANT Emit
CHECK_DEADLOCK FALSE
