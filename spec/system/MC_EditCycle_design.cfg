SPECIFICATION Spec
CONSTANT Tier = 0
INVARIANT InvNoOp
INVARIANT InvFaithful
CHECK_DEADLOCK FALSE
