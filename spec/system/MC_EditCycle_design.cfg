SPECIFICATION Spec
CONSTANT Tier = 0
INVARIANT InvNoOp
CHECK_DEADLOCK FALSE
