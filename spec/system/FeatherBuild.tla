---------------------------- MODULE FeatherBuild ----------------------------
(***************************************************************************)
(* The release build of one version (src/build.rs build_inner) as a        *)
(* composition of the operation specifications:                            *)
(*                                                                         *)
(*   resolve version (C05)  ->  remove dummy entries (C10)                 *)
(*   [-> undo nests (C14), when a nests table exists]                      *)
(*   -> add bridge names (C15)                      = the "unmerged" output*)
(*   -> reorder calamus to (intermediary, official) (C08)                  *)
(*   -> merge on intermediary (C09) -> fix-up -> reorder to                *)
(*      (official, intermediary, named) (C08)       = the "merged" output  *)
(*                                                                         *)
(* Stage by stage, so that TLC evaluates the invariants in every           *)
(* intermediate state.  Each operation is the specification already bound  *)
(* to its implementation by its own property; this module adds what only   *)
(* the composition can say.                                                *)
(***************************************************************************)
EXTENDS MappingTree

VG == INSTANCE VersionGraph
DM == INSTANCE Dummy
RO == INSTANCE Reorder
MG == INSTANCE Merge
BR == INSTANCE Bridge

RECURSIVE CountChar(_, _)
CountChar(s, c) == IF Len(s) = 0 THEN 0 ELSE (IF SubSeq(s, 1, 1) = c THEN 1 ELSE 0) + CountChar(SubSeq(s, 2, Len(s)), c)
StartsWith(s, p) == Len(s) >= Len(p) /\ SubSeq(s, 1, Len(p)) = p

(* apply_our_fix on a set over (intermediary, official, named) *)
I == 1
O == 2
N == 3
FillFrom(names, to, from) == IF names[to] = NoName THEN [names EXCEPT ![to] = names[from]] ELSE names
AllThere(names) == \A i \in 1..Len(names) : names[i] # NoName
FixClass(c) ==
    LET nm == FillFrom(c.names, N, I)
        kids == [k \in DOMAIN c.kids |->
                    LET m == c.kids[k]
                        n1 == FillFrom(m.names, N, I)
                        n2 == IF m.kind = "m" THEN FillFrom(n1, O, I) ELSE n1
                    IN [m EXCEPT !.names = n2]]
    IN IF CountChar(nm[N], "$") # CountChar(nm[I], "$") \/ ~AllThere(nm) \/ \E k \in DOMAIN kids : ~AllThere(kids[k].names) THEN Err
       ELSE Ok([c EXCEPT !.names = nm, !.kids = kids])
Fix(M) ==
    LET r == [k \in DOMAIN M.kids |-> FixClass(M.kids[k])]
    IN IF M.ns # <<"intermediary", "official", "named">> THEN Err
       ELSE IF \A k \in DOMAIN M.kids : r[k].ok THEN Ok([M EXCEPT !.kids = [k \in DOMAIN M.kids |-> r[k].v]]) ELSE Err

(* the inputs of one build *)
\* dir     : [listing, content]  the mappings directory (see VersionGraph)
\* version : lookup name of the version
\* cal     : calamus, a set over (official, intermediary)
\* main, libs : abstract jars (see Bridge)
Stages == <<"start", "resolved", "clean", "bridged", "calamus", "merged", "fixed", "out">>

Resolved(dir, version) ==
    LET s == VG!Resolve(dir.listing)
    IN IF ~s.ok \/ ~VG!Get(s, version).ok THEN {Err}
       ELSE VG!Answers(s, dir.content, s.versions[version][2])

(* one stage: from the value of the previous stage to the next, Err stays Err *)
Step(stage, prev, in) ==
    IF ~prev.ok THEN Err
    ELSE CASE stage = "clean" -> DM!RemoveDummy(prev.v, 2)
           [] stage = "bridged" -> Ok(BR!Result(in.main, in.libs, in.cal, prev.v))
           [] stage = "calamus" -> RO!Reorder(in.cal, <<"intermediary", "official">>)
           [] stage = "fixed" -> Fix(prev.v)
           [] stage = "out" -> RO!Reorder(prev.v, <<"official", "intermediary", "named">>)

---------------------------------------------------------------------------
(* What only the composition can say. *)
Entries(M, kinds) ==
    UNION {{<<k>>} \cup {<<k, j>> : j \in {j \in DOMAIN M.kids[k].kids : M.kids[k].kids[j].kind \in kinds}} : k \in DOMAIN M.kids}
NodeAt(M, p) == IF Len(p) = 1 THEN M.kids[p[1]] ELSE M.kids[p[1]].kids[p[2]]

(* after the fix-up every class, field and method carries all three names and the nesting *)
(* depth of the named and the intermediary class name agree                                *)
Complete(M) ==
    /\ \A p \in Entries(M, {"f", "m"}) : AllThere(NodeAt(M, p).names)
    /\ \A k \in DOMAIN M.kids : CountChar(M.kids[k].names[N], "$") = CountChar(M.kids[k].names[I], "$")

(* the published merged set is over (official, intermediary, named), well keyed, and carries *)
(* for every calamus class its official and intermediary name and, as named name, the name    *)
(* of the unmerged set where it has one, else the intermediary name                           *)
Published(out, cal, unmerged) ==
    /\ out.ns = <<"official", "intermediary", "named">>
    /\ WellKeyed(out)
    /\ \A k \in DOMAIN cal.kids :
        LET c == cal.kids[k]
            ik == "c " \o c.names[2]
        IN /\ k \in DOMAIN out.kids
           /\ out.kids[k].names[1] = c.names[1] /\ out.kids[k].names[2] = c.names[2]
           /\ out.kids[k].names[3] = (IF ik \in DOMAIN unmerged.kids /\ unmerged.kids[ik].names[2] # NoName
                                      THEN unmerged.kids[ik].names[2] ELSE c.names[2])
    \* nothing but calamus and the version's mappings contributes classes
    /\ \A k \in DOMAIN out.kids : k \in DOMAIN cal.kids \/ ("c " \o out.kids[k].names[2]) \in DOMAIN unmerged.kids
=============================================================================
