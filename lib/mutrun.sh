#!/bin/sh
# usage: lib/mutrun.sh <patch-file|-> <prop> [tier] [--test]
# Rehearsal on scratch copies (never touches /repo or /verif): copies /repo and /verif to /dev/shm/verif-mut, applies the
# patch to the copy of /repo, points the copied harness at it and runs ./check <prop> there.  `-` = no patch (baseline).
# With --test the copied repository's own test suite is run first (a mutation must keep it green).
set -e
PATCH="$1"; PROP="$2"; TIER="${3:-quick}"; TEST="$4"
# MUT_SLOT=<k> selects another pair of scratch copies (own lock, own warm cargo target), so that rehearsals can run side by side;
# VERIF_SRC=<dir> rehearses another checkout of /verif (a git worktree of it) instead of /verif itself.
M=/dev/shm/verif-mut${MUT_SLOT:-}
V=${VERIF_SRC:-/verif}
# one rehearsal at a time per slot: the scratch copies are shared (warm cargo target)
exec 9>$M.lock; flock 9
mkdir -p $M/repo $M/verif $M/work
# rsync keeps modification times: a file put back to an OLDER version (the previous run's patch undone) would look unchanged
# to cargo and the previous mutation would stay compiled in.  Every file rsync rewrites is touched.
rsync -ai --delete --exclude target --exclude .git /repo/ $M/repo/ | grep '^>f' | cut -d' ' -f2- | while read f; do touch "$M/repo/$f"; done
rsync -a --delete --exclude target --exclude .git --exclude evidence --exclude replays $V/ $M/verif/
mkdir -p $M/verif/evidence $M/verif/replays
sed -i "s#/repo/#$M/repo/#g" $M/verif/harness/Cargo.toml $M/verif/harness/src/main.rs $M/verif/cfkit/Cargo.toml
if [ "$PATCH" != "-" ]; then (cd $M/repo && patch -p1 --quiet < "$PATCH"); fi
if [ "$TEST" = "--test" ]; then
  (cd $M/repo && CARGO_TARGET_DIR=$M/repo-target cargo test --workspace --no-fail-fast --offline 2>&1 | grep -E "^test result" | awk '{p+=$4; f+=$6} END {print "repo tests: passed", p, "failed", f}')
fi
cd $M/verif && VERIF_WORK=$M/work ./check "$PROP" --tier "$TIER" 2>&1 | grep -v "^warning" | tail -${TAIL:-8}
