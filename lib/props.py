"""Per-property configuration of ./check: one module lib/propdefs/<id>.py per property exposing P."""
import importlib.util, os, glob

HOOK_COMMITS = ["f882f03"]
NOT_BUILT = {}
PROPS = {}
_d = os.path.join(os.path.dirname(os.path.abspath(__file__)), "propdefs")
for _f in sorted(glob.glob(os.path.join(_d, "C*.py"))):
    _id = os.path.basename(_f)[:-3]
    _s = importlib.util.spec_from_file_location("propdef_" + _id, _f)
    _m = importlib.util.module_from_spec(_s)
    _s.loader.exec_module(_m)
    if getattr(_m, "P", None):
        PROPS[_id] = _m.P
