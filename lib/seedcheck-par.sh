#!/bin/sh
# usage: lib/seedcheck-par.sh <slots> [seed dirs...]   (default: all of seeded/*)
# lib/seedcheck.sh over several rehearsal slots side by side (MUT_SLOT=s1..s<slots>); one line per seed on stdout.
cd "$(dirname "$0")/.."
N="$1"; shift
[ $# -eq 0 ] && set -- seeded/*/
i=0
for d in "$@"; do i=$((i+1)); echo "$d" >> /dev/shm/seedcheck-par.$$.$(( i % N )); done
for k in $(seq 0 $((N-1))); do
  [ -f /dev/shm/seedcheck-par.$$.$k ] || continue
  ( MUT_SLOT=s$k lib/seedcheck.sh $(cat /dev/shm/seedcheck-par.$$.$k); rm -f /dev/shm/seedcheck-par.$$.$k ) &
done
wait
