#!/bin/sh
# usage: lib/seedreverify.sh <seed id, e.g. C13-4> [slot]   (not part of the registered commands)
# Re-confirms a stored seeded change from seeded/<id>/ alone: fresh scratch worktree of /repo under /tmp, lib/seedverify.sh
# (suite green with the patch, demonstration fails with it and passes without it), worktree removed, then the property's quick
# check on scratch copies with the change applied (lib/mutrun.sh).  Output has the format lib/seedmeta.py reads.
cd "$(dirname "$0")/.."
S="$1"; SLOT="${2:-}"
P=${S%-*}
d=$PWD/seeded/$S
KIND=$(python3 -c "import json; m=json.load(open('$d/meta.json')); print(m.get('demo_crate') or 'bin')")
case "$KIND" in feather*|bin|.|"") KIND=bin;; esac
W=/tmp/reseed-$S
git -C /repo worktree remove --force $W 2>/dev/null; rm -rf $W
git -C /repo worktree add --detach -q $W HEAD || exit 2
mkdir -p $W/out; cp $d/* $W/out/
PATCHF=patch.diff; [ -f $d/patch-rebased.diff ] && cp $d/patch-rebased.diff $W/out/patch.diff
echo "=== $S ($W/out)"
WT=$W lib/seedverify.sh $P $KIND
git -C /repo worktree remove --force $W; rm -rf $W
PF=$d/patch.diff; [ -f $d/patch-rebased.diff ] && PF=$d/patch-rebased.diff
MUT_SLOT=$SLOT TAIL=400 lib/mutrun.sh "$PF" "$P" quick 2>&1 | grep -E "^VIOLATION|signature:|done in|TOOL ERROR" | cut -c1-260 | head -12
