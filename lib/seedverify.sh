#!/bin/sh
# usage: [SUB=a] lib/seedverify.sh <ID> <demo-kind: crate dir|bin> [test filter]   (SUB: results under out/$SUB instead of out)
# Confirms a seeded change in its scratch worktree /tmp/seed-<ID>: suite green with the patch, demonstration fails with it and
# passes without it.  Prints one line per step.
ID="$1"; KIND="$2"; FILTER="${3:-}"
W=${WT:-/tmp/seed-$ID}; export CARGO_TARGET_DIR=$W/target; O=out${SUB:+/$SUB}
cd $W || exit 2
put_demo() { if [ "$KIND" = "bin" ]; then python3 $O/apply_demo.py . >/dev/null; else mkdir -p $KIND/tests; cp $O/demo.rs $KIND/tests/seed_demo.rs; fi; }
run_demo() { if [ "$KIND" = "bin" ]; then cargo test --offline -j 6 --bin feather-build-rs $FILTER 2>&1 | grep -E "^test result" | tail -1; else cargo test -p $KIND --test seed_demo --offline -j 6 2>&1 | grep -E "^test result" | tail -1; fi; }
git checkout -q -- . ; rm -f */tests/seed_demo.rs
put_demo; echo "demo without patch: $(run_demo)"
git checkout -q -- . ; rm -f */tests/seed_demo.rs
git apply $O/patch.diff || exit 2
echo "suite with patch: $(cargo test --workspace --no-fail-fast --offline -j 6 2>&1 | grep -E '^test result' | awk '{p+=$4; f+=$6} END {print p " passed, " f " failed"}')"
put_demo; echo "demo with patch: $(run_demo)"
git checkout -q -- . ; rm -f */tests/seed_demo.rs
