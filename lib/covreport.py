#!/usr/bin/env python3
"""usage: lib/covreport.py [lcov file] [--all]   Lists, per anchored file of /repo, the line ranges no quick check executed
(test modules left out).  Not part of the registered commands."""
import json, os, re, sys
V = os.path.dirname(os.path.dirname(os.path.abspath(__file__)))
lcov = next((a for a in sys.argv[1:] if not a.startswith("--")), "/dev/shm/verif-cov/all.lcov")
anch = {}
for l in open(os.path.join(V, "properties.jsonl")):
    p = json.loads(l)
    for f in p["anchors"]["files"]:
        anch.setdefault(f, []).append(p["id"])
cov, cur = {}, None
for l in open(lcov):
    l = l.strip()
    if l.startswith("SF:"):
        cur = l[3:]
        cov.setdefault(cur, {})
    elif l.startswith("DA:") and cur:
        n, c = l[3:].split(",")[:2]
        cov[cur][int(n)] = cov[cur].get(int(n), 0) + int(c)
tot = miss = 0
for f in sorted(cov):
    if not f.startswith("/repo/"):
        continue
    rel = f[len("/repo/"):]
    if "--all" not in sys.argv and rel not in anch:
        continue
    src = open(f, errors="replace").read().split("\n")
    test_from = next((i + 1 for i, s in enumerate(src) if re.match(r"\s*#\[cfg\(test\)\]", s)), 10 ** 9)
    lines = {n: c for n, c in cov[f].items() if n < test_from}
    un = sorted(n for n, c in lines.items() if c == 0)
    tot += len(lines)
    miss += len(un)
    if not un:
        continue
    rng, a = [], un[0]
    for x, y in zip(un, un[1:] + [None]):
        if y != x + 1:
            rng.append((a, x))
            a = y
    print("%s %s: %d of %d lines never executed" % (rel, anch.get(rel, ""), len(un), len(lines)))
    for a, b in rng:
        txt = src[a - 1].strip()[:110]
        print("   %d%s  %s" % (a, "-%d" % b if b != a else "", txt))
print("total: %d of %d instrumented lines of the listed files never executed" % (miss, tot))
