"""C16: parsers fail with an error, never crash."""
import os, subprocess


def _prepare(wd, tier):
    from vlib import BIN, ToolError
    path = os.path.join(wd, "seeds.ndjson")
    os.environ["VERIF_TIER_SEEDS"] = tier
    r = subprocess.run([BIN, "seeds", tier, path], stdout=subprocess.PIPE, stderr=subprocess.STDOUT, text=True)
    if r.returncode != 0:
        raise ToolError("vharness seeds failed: " + r.stdout[-1000:])
    return {"SEEDS": path}


def _cls(r):
    return "%s/%s" % (r.get("target"), r.get("kind"))


def _sig(v):
    rec = v.get("rec") or {}
    g = v.get("got") or {}
    if not isinstance(g, dict):
        return "impl|fault|?"
    if g.get("out") in ("panic", "crash", "timeout"):
        return "impl|fault|%s|%s|%s" % (rec.get("target"), g.get("out"), g.get("where") if g.get("out") == "panic" else str(g.get("where")).split(" (")[0])
    if g.get("write") == "panic":
        return "impl|fault|%s|write-panic|%s" % (rec.get("target"), g.get("wwhere"))
    return "impl|fault|%s|%s/%s" % (rec.get("target"), g.get("out"), g.get("write"))


def _corrupt(recs, seed):
    import copy
    out = []
    for i, r in enumerate(recs[:30]):
        c = copy.deepcopy(r)
        c["got"]["out"] = ["panic", "timeout", "crash"][i % 3]
        out.append(c)
    for r in [r for r in recs if r["got"].get("out") == "ok"][:10]:
        c = copy.deepcopy(r)
        c["got"]["write"] = "panic"
        out.append(c)
    return out


P = {
    "dir": "faults",
    "level": "fault_enumeration",
    "prepare": _prepare,
    "mc": [{"module": "MC_Mutate", "cfg": "MC_Mutate.cfg", "timeout": {"quick": 900, "thorough": 3000}}],
    "trace": {"module": "Trace_Mutate", "cfg": "Trace_Mutate.cfg"},
    "trace_s2i": 300,
    "i2s_n": {"quick": 3000, "thorough": 60000},
    "classify_vec": _cls,
    "signature": _sig,
    "corrupt": _corrupt,
    "required_classes": ["class/none", "class/set", "class/trunc", "class/set+set", "tiny/dropcell", "tiny/indent", "tiny/nonutf8", "tiny/indent+tag",
                         "tinydiff/emptycell", "enigma/tag", "enigma/dupline", "nests/addcell", "nests/trunc", "fdesc/setchar", "mdesc/delchar", "rdesc/dupchar",
                         "class/grow", "enigma/grow", "tiny/grow", "fdesc/grow", "mdesc/grow", "tiny/backslash", "tinydiff/backslash", "tiny/esc", "tinydiff/escz", "enigma/esc", "tiny/unicell", "tinydiff/unichar", "enigma/unichar", "nests/unicell", "fdesc/setuni", "mdesc/setuni"],
    "rule": "every vector is a distinct fault script (TLC state) of the fault model, applied to a seed and run in a sandboxed child; trace records are seeded random byte / field / text edits",
    "level_text": "Fault enumeration driven by a TLA+ fault model (spec/faults/Mutate.tla): for every seed (hand-written feature classes assembled by the independent assembler, small javac classes; Tiny v2, tiny-diff, Enigma and nests texts; field / method / return descriptors) TLC enumerates every length / count / index / offset / tag / flag field (from the independent parser's span map) at boundary values (0, 1, max-1, max, sign boundary, value +-1 and doubled, file length +-1, the pool index of the enclosing constant = self reference), truncation at every field boundary and inside every field, neighbouring structural fields pushed to extremes together, and for text every line x dropped / added / emptied cell, indentation +-, changed tag, duplicated / deleted line, non-UTF-8 bytes, a trailing backslash, a backslash followed by each kind of follower (a character of 2 / 3 / 4 bytes, another backslash, n / t / 0 / u) at the end of the line and inside it, cells replaced by or starting with characters of 2 / 3 / 4 bytes, pairs on neighbouring lines; for descriptors every position x deletion / duplication / replacement (by each letter of the grammar and by characters of 2 / 3 / 4 bytes); and grown inputs that no mutation of a small seed reaches, built byte by byte at boundary sizes: annotations / arrays nested up to 100 000 (thorough 400 000) levels, invokeinterface and method declarations with up to 255 / 256 argument slots, a method of maximal length with a label at every bytecode offset (plus an exception range and a local variable ending at code_length), CLASS lines and Tiny v2 comment lines nested line by line, descriptors with up to 100 000 array dimensions or parameters. Each script is applied to the seed and the real parser (duke::read_class followed by write_class of what it accepted, tiny_v2::read, tiny_v2_diff::read_file, enigma_file::read_into, Nests::read, descriptor parse + write) runs in a child process with limited address space and wall clock; panics, crashes (stack overflow, out of memory, abort) and timeouts are outcomes. Seeded random byte / field / text edits go the same way and are judged by TLC. Grown inputs also cover one bootstrap method with up to 65 535 plain arguments used by 13 000 invokedynamic call sites or by a dynamic constant loaded 16 000 times (around the reader's total of 2^20 stored arguments).",
    "level_note": "This says nothing about inputs that were not generated. Trusted: the independent parser's span map, the fault applicator and the child process protocol in drivers/c16.rs, ulimit for the address space limit (3 GB), 10 s wall clock per case.",
    "assumptions": ["TLC/SANY/CommunityModules", "cfkit span map", "sh ulimit", "catch_unwind in the child"],
}
