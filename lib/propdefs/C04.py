"""C04: diff/apply."""
from vlib import diff_paths


def c04_features(a, b):
    """Why might diff(A,B) be refused although the pair is expressible?  Features of the pair."""
    def kids(n):
        k = n.get("kids")
        return k if isinstance(k, dict) else {}
    def any_absent(n):
        return n["names"][1] == "" or any(any_absent(c) for c in kids(n).values())
    feats = set()
    def walk(x, y):
        for k in set(kids(x)) | set(kids(y)):
            if k in kids(x) and k in kids(y):
                cx, cy = kids(x)[k], kids(y)[k]
                if cx["names"][1] == "" or cy["names"][1] == "":
                    feats.add("shared-entry-without-target-name")
                walk(cx, cy)
            elif k in kids(x):
                if any(any_absent(g) for g in kids(kids(x)[k]).values()):
                    feats.add("removed-subtree-has-unnamed-descendant")
    walk(a, b)
    return feats


def c04_sig(v):
    import importlib
    chk = importlib.import_module("__main__")
    rec = v.get("rec") or {}
    base = chk.default_sig(v)
    if rec.get("op") == "diff" and isinstance(v.get("got"), dict) and v["got"].get("ok") is False:
        f = c04_features(rec["A"], rec["B"])
        # the first feature alone explains a refusal, so it names the cause when present
        cause = "removed-subtree-has-unnamed-descendant" if "removed-subtree-has-unnamed-descendant" in f else ",".join(sorted(f)) or "other"
        return base + "|" + cause
    return base



P = {
    "dir": "quill",
    "mc": [{"module": "MC_DiffApply", "cfg": "MC_DiffApply.cfg"}],
    "trace": {"module": "Trace_DiffApply", "cfg": "Trace_DiffApply.cfg"},
    "i2s_n": {"quick": 300, "thorough": 3000},
    "classify_vec": lambda r: "%s/%s/%s" % (r.get("op"), r.get("ph"), "ok" if (r["exp"].get("ok") if "ok" in r["exp"] else None) else "refuse"),
    "required_classes": ["apply/table/ok", "apply/table/refuse", "apply/pair/ok", "apply/corrupt/ok", "apply/corrupt/refuse",
                         "text/pair/ok", "text/corrupt/refuse", "diff/pair/ok", "diff/undiffable/refuse"],
    "signature": c04_sig,
    "level_text": "The diff/apply design (operational four-case merge = declarative consistent/effect statement; apply(diff(A,B),A)=B for every expressible pair, also through the .tinydiff text) is model-checked exhaustively over the bounded universe (every action x target x old-value case at each of the 5 levels; all pairs of one-key-per-level trees; every single-action corruption of a valid diff); every explored case is replayed through MappingsDiff::apply_to / diff / tiny_v2_diff::read_file and compared with the specification's result; larger seeded random pairs and corrupted diffs executed by the real code are re-judged by TLC (trace validation). Pairs differing only in comments include comments that are the empty string (a value a .tinydiff cannot spell: such diffs are exercised through the API only), and every diff that has comment lines is also read from a text in which the comment line of an element stands behind the lines of its members.",
    "level_note": "Trusted: TLC, the projection Mappings <-> abstract tree and the .tinydiff line joiner in harness/src/proj_quill.rs. Bounded: MC universe has one key per level; I2S inputs up to 12 classes. Parameter source names are outside the diff format and kept equal on both sides.",
    "assumptions": ["TLC/SANY/CommunityModules", "harness projection quill Mappings <-> abstract tree (proj_quill.rs)",
                    "line joiner for .tinydiff text", "bounded universe: one key per level (pairs), one focus node (table)"],
}
