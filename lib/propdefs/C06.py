"""C06: remappers."""


def _cls(r):
    e = r["exp"]
    if r.get("op") == "member":
        a = e["ans"]
        return "member/%s/%s%s" % (r.get("kind"), "hit" if r.get("hit") else "miss", "/ambiguous" if "anyof" in a else "") + ("/rt" if r.get("rt") else "")
    if r.get("op") == "class":
        return "class/" + ("array" if r["c"].startswith("[") else ("back" if r.get("back") else "noback"))
    return "desc/" + str(r.get("kind"))


def _judged(r):
    """The trace specification judges a record's answer only if the tables involved are functions (AllInjective, InjectiveCol).  This is a
    sufficient condition for that, used ONLY to choose which records the binding self-test corrupts: in every column every class name occurs
    once, and inside every class every member name of the from column occurs once."""
    M = r.get("M") or {}
    classes = list((M.get("kids") or {}).values()) if isinstance(M.get("kids"), dict) else []
    n = len(M.get("ns") or [])
    for col in range(n):
        names = [c["names"][col] for c in classes if c["names"][col] != ""]
        if len(set(names)) != len(names):
            return False
    f = r.get("f", 1) - 1
    for c in classes:
        kids = list(c["kids"].values()) if isinstance(c.get("kids"), dict) else []
        for kind in ("f", "m"):
            names = [k["names"][f] for k in kids if k["kind"] == kind and k["names"][f] != ""]
            if len(set(names)) != len(names):
                return False
    return True


def _corrupt(recs, seed):
    """A judged record gets the answer of another record of the same operation whose answer differs."""
    import random
    from vlib import deq
    rnd = random.Random(seed)
    cand = [r for r in recs if "got" in r]
    judged = [r for r in cand if _judged(r)]
    out = []
    for _ in range(min(40, len(judged))):
        a, b = rnd.choice(judged), rnd.choice(cand)
        if a.get("op") == b.get("op") and not deq(a["got"].get("ans", a["got"]), b["got"].get("ans", b["got"])):
            c = dict(a)
            c["got"] = b["got"]
            out.append(c)
    return out


P = {
    "s2i_rev": True,
    "corrupt": _corrupt,
    "dir": "quill",
    "mc": [{"module": "MC_Remapper", "cfg": "MC_Remapper.cfg"}],
    "trace": {"module": "Trace_Remapper", "cfg": "Trace_Remapper.cfg"},
    "trace_s2i": 300,
    "i2s_n": {"quick": 600, "thorough": 6000},
    "classify_vec": _cls,
    "required_classes": ["desc/f", "desc/m", "desc/r", "class/array", "class/back", "class/noback", "member/m/hit", "member/m/miss",
                         "member/f/hit", "member/f/miss", "member/m/hit/ambiguous", "member/m/hit/rt", "member/f/hit/rt"],
    "level_text": "(Every vector of the bounded model is replayed twice, the second time with the entries of every mapping set inserted in the opposite order, and every second recorded case is built that way: the answers may not depend on insertion order.) Remappers are specified from the mapping set: class table (entries named in both namespaces), descriptor rewriting both as the JVMS grammar (parse, map the class names, print) and as the code's single-pass scanner, member tables keyed by (name, descriptor in the from namespace), and the super-type search. TLC checks scanner = grammar and shape preservation on every field type of <= 2 dimensions and every method of <= 2 parameters over class names containing L, $, /, a single character and non-ASCII; own entry wins; depth-first = level-wise search whenever all declaring super types agree (otherwise both readings of 'nearest' are accepted); X -> Y -> X identity under injective naming, for classes (incl. a captured name as counter-case) and members, over three namespaces with any from/to pair, partial name rows, chains, diamonds in both declaration orders, missing links, unknown owners. Every query is replayed through Mappings::remapper_a / remapper_b (JarSuperProv; JarSuperProv::remap for the way back); random larger sets (2-4 namespaces) and their own descriptors run by the real code are recomputed by TLC. The inheritance graphs include a super type that is the first super type of a deeper class and a later direct super type of the owner; the top class carries a sibling member whose name + descriptor are the characters of a queried, unmapped member split elsewhere (tables are keyed by the pair); one class table maps an outer class and leaves its nested classes unmapped.",
    "level_note": "Trusted: TLC (string operators Len, \\o, SubSeq), projection Mappings <-> abstract tree. When the from-column of the class table or a member table is not injective the table depends on IndexMap insertion order; such records are only required not to panic. Cyclic inheritance is not generated.",
    "assumptions": ["TLC/SANY/CommunityModules", "harness projection quill Mappings <-> abstract tree (proj_quill.rs)"],
}
