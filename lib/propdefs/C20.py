"""C20: raw_class_file reads and writes class files byte-exactly."""
import copy, random

ATTR_KINDS = ["ConstantValue", "Code", "StackMapTable", "Exceptions", "InnerClasses", "EnclosingMethod", "Synthetic", "Signature",
              "SourceFile", "SourceDebugExtension", "LineNumberTable", "LocalVariableTable", "LocalVariableTypeTable", "Deprecated",
              "RuntimeVisibleAnnotations", "RuntimeInvisibleAnnotations", "RuntimeVisibleParameterAnnotations",
              "RuntimeInvisibleParameterAnnotations", "AnnotationDefault", "BootstrapMethods", "MethodParameters", "Module",
              "ModulePackages", "ModuleMainClass", "NestHost", "NestMembers", "Record", "PermittedSubclasses", "Other"]
LEVELS = ["class", "field", "method", "code", "component"]
CP_KINDS = ["Utf8", "Integer", "Float", "Long", "Double", "Class", "String", "Fieldref", "Methodref", "InterfaceMethodref",
            "NameAndType", "MethodHandle", "MethodType", "Dynamic", "InvokeDynamic", "Module", "Package"]
FRAME_KINDS = ["SameFrame", "SameLocals1StackItemFrame", "SameLocals1StackItemFrameExtended", "ChopFrame", "SameFrameExtended",
               "AppendFrame", "FullFrame"]
WF_KINDS = ["SourceFile", "Signature", "Deprecated", "Synthetic", "SourceDebugExtension", "Exceptions", "InnerClasses",
            "EnclosingMethod", "NestHost", "NestMembers", "PermittedSubclasses", "ConstantValue", "MethodParameters", "Record",
            "RuntimeVisibleAnnotations", "RuntimeInvisibleAnnotations", "RuntimeVisibleParameterAnnotations",
            "RuntimeInvisibleParameterAnnotations", "AnnotationDefault", "Code", "LineNumberTable", "LocalVariableTable",
            "LocalVariableTypeTable", "StackMapTable", "Other"]
EV_KINDS = ["Byte", "Char", "Double", "Float", "Integer", "Long", "Short", "Boolean", "String", "Enum", "Class", "Annotation", "Array"]


# ---- naming the cause of a disagreement (grouping only: the verdict itself comes from TLC) ----------------
def _cells(lay, exp_bytes, got_bytes):
    """The specification's cells laid over both byte strings: (role, width, offset, expected value, written value | None)."""
    out, off = [], 0
    for c in lay:
        role, w = c[0], c[1]
        e = exp_bytes[off:off + w]
        g = got_bytes[off:off + w]
        val = lambda b: sum(x << (8 * (len(b) - 1 - i)) for i, x in enumerate(b)) if role else 0
        out.append((role, w, off, val(e), val(g) if len(g) == w else None, e == g))
        off += w
    return out


def _value_cause(lay, exp_bytes, got_bytes, x):
    """The first cell of the specification's layout at which the written bytes differ; a differing attribute_length that
    merely encloses the next differing attribute_length is a consequence, the innermost one is named."""
    cells = _cells(lay, exp_bytes, got_bytes)
    bad = [i for i, c in enumerate(cells) if not c[5]]
    if not bad:
        return "trailing-bytes", "d=%+d" % (len(got_bytes) - len(exp_bytes))
    k = 0
    while True:
        role, w, off, e, g, _ = cells[bad[k]]
        if not role.endswith(".attribute_length") or k + 1 >= len(bad):
            break
        nrole, _, noff, _, _, _ = cells[bad[k + 1]]
        if nrole.endswith(".attribute_length") and noff < off + 4 + e:
            k += 1
        else:
            break
    role, w, off, e, g, _ = cells[bad[k]]
    if not role:
        prev = [c[0] for c in cells[:bad[k]] if c[0]]
        return "data-after:" + (prev[-1] if prev else "start"), ""
    if g is None:
        return role, "cut-short"
    if role == "ClassFile.constant_pool_count" and g == len(x.get("constant_pool") or []) + 1:
        return role, "got=entries+1"
    # the offset from the prescribed value identifies a wrong length formula; a wrong count is usually a wrong width, after
    # which the written number is not aligned with the cell and its value says nothing
    return role, ("d=%+d" % (g - e) if role.endswith(".attribute_length") else "")


def c20_sig(v):
    rec = v.get("rec") or {}
    got = v.get("got") if isinstance(v.get("got"), dict) else {}
    exp = v.get("exp") if isinstance(v.get("exp"), dict) else {}
    op = rec.get("op", "?")
    if "panic" in got:
        return "impl|%s|panic" % op
    if op == "value":
        lay = rec.get("lay") or exp.get("lay") or []
        eb, gb = exp.get("bytes"), got.get("bytes")
        if eb is not None and gb != eb:
            return "impl|value|%s|%s" % _value_cause(lay, eb, gb or [], rec.get("x") or {})
        if "len" in exp and (got.get("len") != exp["len"] or got.get("announced") != exp["len"]):
            return "impl|value|length()-announces-another-size"
        if got.get("write_same") is False:
            return "impl|value|write()-differs-from-to_bytes()"
        if exp.get("back_equal") and not got.get("back_equal"):
            return "impl|value|read-back|%s" % ("panics" if got.get("back_panic") else "unequal" if got.get("back_ok") else "refused")
        if exp.get("cfkit_ok") and not got.get("cfkit_ok"):
            return "impl|value|independent-reader-refuses-the-written-class"
        if exp.get("duke_ok") and not got.get("duke_ok"):
            return "impl|value|duke-refuses-the-written-class"
        return "spec|value|own-law-fails"
    if op == "bytes":
        if got.get("read_panic"):
            return "impl|bytes|read-panics"
        if not got.get("read_ok"):
            # every feature of the file that a known defect trips over (a file may have several: all are named, so that an
            # entry of known_findings.json stops matching as soon as its own defect is the only one repaired)
            attrs = got.get("in_attrs") or []
            # (the pool-slot and MethodParameters defects are repaired in /repo: their features no longer explain a refusal)
            feats = (["modelled-attribute-name-in-foreign-location"] if got.get("in_foreign") else [])
            return "impl|bytes|read-refused|" + ("+".join(feats) or "other")
        if got.get("first_diff") != -1 or got.get("out_n") != got.get("n"):
            d = got.get("diff") or {}
            iv, ov = d.get("in_v", -1), d.get("out_v", -1)
            return "impl|bytes|differs|%s.%s|%s" % (d.get("attr") or "-", d.get("role", "?"), "d=%+d" % (ov - iv) if iv >= 0 and ov >= 0 else "")
        if got.get("announced") != got.get("n"):
            return "impl|bytes|length()-announces-another-size"
        if not got.get("out_cfkit_ok") or got.get("out_duke_ok") != got.get("in_duke_ok"):
            return "impl|bytes|other-readers-see-another-structure"
        # the raw value the crate read, laid out by the specification, is not the file: name the first count / length
        # field of the file (the independent parser's role) that the raw value does not have
        ec, ic = exp.get("cells"), got.get("in_cells") or []
        if isinstance(ec, list) and not got.get("in_foreign"):
            for i, c in enumerate(ic):
                if i >= len(ec) or list(ec[i]) != [c[1], c[2]]:
                    return "impl|bytes|raw-value-read-lacks|%s" % c[0]
            return "impl|bytes|raw-value-read-has-extra-fields" if len(ec) > len(ic) else "impl|bytes|raw-value-read-has-another-size"
        return "impl|bytes|raw-value-read-has-another-size"
    return "impl|%s|other" % op


def c20_class(r):
    if r.get("op") == "value":
        return r.get("cls") or "value"
    return r.get("op", "?")


def c20_class_i2s(r):
    g = r.get("got") if isinstance(r.get("got"), dict) else {}
    if "panic" in g:
        return "%s/panic" % r.get("op")
    if r.get("op") == "bytes":
        src = (r.get("id") or "?").split(":")[0]
        res = "refused" if not g.get("read_ok") else ("exact" if g.get("first_diff") == -1 and g.get("out_n") == g.get("n") else "differs")
        return "bytes/%s/%s%s" % (src, res, "/with-raw-value" if g.get("has_x") else "")
    wide = any(e.get("k") in ("Long", "Double") for e in (r.get("x") or {}).get("constant_pool") or [])
    return "value/%s" % ("pool-with-long-or-double" if wide else "one-slot-pool")


def c20_corrupt(recs, seed):
    """Binding self-test: results the implementation did NOT produce (one change each); Trace_RawLayout must reject every one."""
    rnd = random.Random(seed ^ 0xC20)
    out = []
    def add(r, fn):
        c = copy.deepcopy(r)
        fn(c["got"])
        if c["got"] != r["got"]:
            out.append(c)
    vals = [r for r in recs if r.get("op") == "value" and isinstance(r.get("got"), dict) and "panic" not in r["got"]]
    byts = [r for r in recs if r.get("op") == "bytes" and isinstance(r.get("got"), dict) and r["got"].get("read_ok")]
    rnd.shuffle(vals)
    rnd.shuffle(byts)
    for r in vals[:6]:
        n = len(r["got"]["bytes"])
        for pos in sorted({8, 9, n - 1, rnd.randrange(n), rnd.randrange(n)}):
            add(r, lambda g, pos=pos: g["bytes"].__setitem__(pos, (g["bytes"][pos] + 1) % 256))
        add(r, lambda g: g.update({"bytes": g["bytes"] + [0]}))
        add(r, lambda g: g.update({"bytes": g["bytes"][:-1]}))
        add(r, lambda g: g.update({"len": g["len"] + 1}))
        add(r, lambda g: g.update({"announced": g["announced"] - 1}))
        add(r, lambda g: g.update({"back_equal": False}))
        add(r, lambda g: g.update({"write_same": False}))
    for r in byts[:8]:
        add(r, lambda g: g.update({"out_n": g["out_n"] + 1}))
        add(r, lambda g: g.update({"first_diff": 10}))
        add(r, lambda g: g.update({"announced": g["announced"] + 2}))
        add(r, lambda g: g.update({"read_ok": False}))
        add(r, lambda g: g.update({"out_cfkit_ok": False}))
        add(r, lambda g: g.update({"out_duke_ok": not g["in_duke_ok"]}))
    for r in [x for x in byts if x["got"].get("has_x") and x["got"].get("in_cells") and not x["got"].get("in_foreign")][:8]:
        add(r, lambda g: g["in_cells"][-1].__setitem__(2, g["in_cells"][-1][2] + 1))
        add(r, lambda g: g["in_cells"][0].__setitem__(1, 4))
        add(r, lambda g: g.update({"in_cells": g["in_cells"][:-1]}))
        add(r, lambda g: g["x"].update({"interfaces": g["x"]["interfaces"] + [1]}))
        add(r, lambda g: g["x"].update({"constant_pool": g["x"]["constant_pool"] + [{"k": "Long", "high_bytes": [0, 0], "low_bytes": [0, 1]}]}))
    return out


P = {
    "dir": "duke",
    "mc": [{"module": "MC_RawLayout", "cfg": "MC_RawLayout.cfg", "timeout": {"quick": 600, "thorough": 3000}}],
    "trace": {"module": "Trace_RawLayout", "cfg": "Trace_RawLayout.cfg"},
    "trace_s2i": 300,
    "i2s_n": {"quick": 850, "thorough": 8000},
    "classify_vec": c20_class,
    "classify_i2s": c20_class_i2s,
    "required_classes": ["attr/%s/%s" % (a, l) for a in ATTR_KINDS for l in LEVELS]
                        + ["cp/%s" % k for k in CP_KINDS]
                        + ["pool/empty", "pool/none", "pool/start", "pool/mid", "pool/end", "header", "pair", "incons", "hist"]
                        + ["wf/%s" % k for k in WF_KINDS]
                        + ["frame/%s" % k for k in FRAME_KINDS] + ["ev/%s" % k for k in EV_KINDS],
    "signature": c20_sig,
    "corrupt": c20_corrupt,
    "rule": "S2I vectors are distinct TLC states of the bounded model (one whole ClassFile raw value each); I2S records are class files (every hand-written sample of the independent assembler under each of its standard encodings, javac output of JDK 8/11/17, in the thorough tier also the JDK sample) and seeded random raw values; each runs the real read / write / length and is compared byte by byte with the specification",
    "level_text": "The class-file layout of JVMS chapter 4 is written as one table (RawLayout.tla: field sequences with widths, count-prefix width of each table, nested structures, tag dispatch of the four tagged unions, attribute dispatch on the pool's Utf8 name, the pool slot rule, attribute_length = size of the following fields) for exactly the 18 structures, 17 constant kinds, 29 attribute kinds, 7 frame kinds, 9 verification types and 13 element-value kinds raw_class_file models; Encode, LenOf, Decode and the prescribed count/length fields are generic interpreters of that table. TLC checks on every case of the bounded universe (each attribute kind x 0..3 elements (x 0..3 in nested tables) x class/field/method/Code/record-component level x pools with a Long/Double before, between and after the names; every pool up to two constants of all kinds and up to three of Utf8/Long/Double; 0..3 interfaces x fields x methods x attributes; every frame x verification type x counts with tags at both ends of their ranges; element values nested to depth 2 in each of the five carriers; every ordered pair of attribute kinds; attributes found through a foreign name) that Decode(Encode(x)) = x, LenOf(x) = bytes of Encode(x), and that each count / attribute_length emitted is the declaratively prescribed one. Every case is replayed through ClassFile::{to_bytes, write, length, read} and the written bytes are compared byte for byte with the specification's (plus each count / length field cut out along the specification's cell widths, equality of the value read back, and for the well-formed families acceptance by the independent strict parser cfkit and by duke::read_class). Real class files (samples x encodings, javac corpus) are read and written back: TLC judges that every file the strict independent parser accepts is read, reproduced byte for byte with length() = size, and that the raw value the crate read - laid out by the specification - has the file's size and exactly the count / length fields the independent parser found in the file; seeded random raw values (all kinds at all levels, tables up to 6, numbers over their whole width, 25 % with two-slot constants) are judged the same way by trace validation. A value with an attribute variant the layout tables do not have (a repository that models more attributes) is judged by the byte-level laws alone instead of stopping the harness.",
    "level_note": "Layout conformance against a tabular specification plus byte equality on real files: TLA+ contributes the table-driven enumeration and a uniform judgement, not deeper reasoning. Bounded: MC tables have 0..3 elements and nesting depth 2; numbers in MC cases are small distinct values (the random family covers whole widths, three boundary values cover counts of 255/256/300, Utf8 of 65535 bytes and u4 lengths above 65535; u4 data are carried as two halves because TLC integers are 32 bit, u4 counts/lengths above 2^31 are not generated). Bytecode inside Code and the bodies of attributes the crate keeps as bytes (type annotations, unknown names) are opaque to the specification as they are to the crate. The comparison of count/length fields with the independent parser is skipped for files carrying a modelled attribute name in a location where JVMS Table 4.7-C does not define it; raw values of classes larger than 40000 bytes are not shipped to TLC (byte equality is still judged). Trusted: TLC, cfkit (independent parser/assembler: decides which inputs are well-formed and extracts the input's count/length spans), the JSON <-> raw_class_file struct conversion in c20.rs (by field name). Known findings (pool slot rule, NestMembers length, MethodParameters count width, attribute dispatch regardless of body/location) are matched by narrow signatures - first disagreeing cell and its offset from the prescribed value, or the refused file's feature; a class file whose pool holds a Long/Double cannot be examined further until that defect is repaired (15 % of the corpus, and every sample under the two encodings that pad the pool).",
    "assumptions": ["TLC/SANY/CommunityModules", "cfkit strict parser = well-formedness of input class files; cfkit span map = count/length fields of a file",
                    "harness conversion JSON raw value <-> raw_class_file structs by field name (c20.rs)",
                    "bounded universe: tables of 0..3 elements, nesting depth 2, one focus structure per case",
                    "JVMS Java SE 21 chapter 4 as transcribed in RawLayout.tla"],
}
