"""C12: Enigma files and directories."""


def _cls(r):
    if r["op"] == "rt":
        if not r.get("writable"):
            return "rt/%s/unwritable" % r["ph"]
        if r.get("expressible"):
            return "rt/%s/expressible" % r["ph"]
        return "rt/%s/%s" % (r["ph"], "dupfile" if r.get("dupfile") else "inexpressible")
    return "lines/%s/%s/%s" % (r["ph"], r.get("fault") or "-", "ok" if r["exp"].get("ok") else "refuse")


def _features(m):
    """features of a mapping set that explain an Enigma round-trip failure"""
    ks = m.get("kids") if isinstance(m.get("kids"), dict) else {}
    srcs = {k[2:] for k in ks}
    f = set()
    files = {}
    for k, c in ks.items():
        src, dst = c["names"][0], c["names"][1]
        nested = "$" in src and src.rsplit("$", 1)[0] in srcs
        if "$" in src and not nested and src.rsplit("$", 1)[0] and src.rsplit("$", 1)[1] and "/" not in src.rsplit("$", 1)[1] and not src.rsplit("$", 1)[0].endswith("/"):
            f.add("orphan-inner-class")
        if not nested and "$" not in src and "$" in dst:
            f.add("toplevel-target-with-dollar")
        if not nested:
            files.setdefault(dst or src, []).append(src)
    if any(len(v) > 1 for v in files.values()):
        f.add("duplicate-file-name")
    return f


def _sig(v):
    import importlib
    chk = importlib.import_module("__main__")
    rec = v.get("rec") or {}
    base = chk.default_sig(v)
    if rec.get("op") == "rt":
        f = _features(rec["M"])
        return "impl|rt|" + (",".join(sorted(f)) or "other") + "|" + base.split("|", 2)[2]
    return base


def _corrupt(recs, seed):
    """the recorded result of the real stream reader is replaced by that of another record (the text stays)"""
    import random, copy
    from vlib import deq
    rnd = random.Random(seed)
    cand = [r for r in recs if r.get("op") == "rt" and isinstance(r.get("got"), dict) and r["got"].get("write") == "ok"]
    out = []
    for _ in range(min(40, len(cand))):
        a, b = rnd.choice(cand), rnd.choice(cand)
        if not deq(a["got"]["stream"]["back"], b["got"]["stream"]["back"]):
            c = copy.deepcopy(a)
            c["got"]["stream"]["back"] = b["got"]["stream"]["back"]
            out.append(c)
    return out


P = {
    "dir": "quill",
    "mc": [{"module": "MC_Enigma", "cfg": "MC_Enigma.cfg"}],
    "trace": {"module": "Trace_Enigma", "cfg": "Trace_Enigma.cfg"},
    "trace_s2i": 300,
    "i2s_n": {"quick": 200, "thorough": 2000},
    "classify_vec": _cls,
    "signature": _sig,
    "corrupt": _corrupt,
    "required_classes": ["rt/place/expressible", "rt/place/inexpressible", "rt/place/dupfile", "rt/members/expressible", "rt/members/unwritable",
                         "rt/members/inexpressible", "lines/place/-/ok", "lines/members/-/ok", "lines/fault/dup/refuse", "lines/fault/ind+/refuse",
                         "lines/fault/ind-/ok", "lines/fault/ind-/refuse", "lines/fault/tag/refuse", "lines/fault/addcell/ok", "lines/fault/addcell2/refuse",
                         "lines/fault/hash/refuse", "lines/fault/hashend/ok", "lines/fault/blank/ok"],
    "level_text": "The Enigma format is specified with its tokeniser (cut at # unless the line starts with COMMENT, trim, split at every whitespace character), its reader as the code's indentation machine (recursive CLASS nesting, prefix re-attachment with fall back to the parent's source name, one step per line, open path explicit) and its writer (placement of classes into files or under the parent present in the set, prefix stripping for nested classes only, one COMMENT line per comment line). TLC checks, for every set of the bounded universe and both sibling orders, that reading what was written gives the set again in stream and directory form whenever the set is expressible (nested target names follow the nesting, constructors unnamed, parameters with target and without source name, comment lines without tab / form feed / CR, distinct file names), and the placement law (one file per class outside a parent of the set, each class on exactly one CLASS line); single-line faults of written texts are enumerated. Every set is written by the real enigma_file::write_all / write_one / enigma_dir::write from several insertion orders and read back by the real readers; every explored text (valid and faulted) is read by the real read_into and compared with the reader machine. For random larger sets the real text is read by the specification's reader: real reader = reader machine on the real text, round trip, file names, CLASS line count, sortedness.",
    "level_note": "Trusted: TLC string operators; harness line splitter (leading tabs / rest), directory walker, and the is_sorted predicate (siblings of one kind non-decreasing by source name in Rust's string order, files by name). Class names with whitespace or #, names starting with ACC:, comments with tab / form feed / CR are outside the expressible subset and only required not to corrupt silently where stated.",
    "assumptions": ["TLC/SANY/CommunityModules", "harness projection (proj_quill.rs)", "line splitter and sortedness predicate in drivers/c12.rs"],
}
