"""C18: descriptor and name types accept and print exactly the JVMS grammar they claim."""

PRIM = set("BCDFIJSZ")
DESC_OPS = ("field", "method", "return")


# ---- naming the cause of a disagreement (grouping only: the verdict itself comes from TLC) ----------------
def _lenient_type(s, i):
    """One field type as duke's reader currently cuts it (anything up to ';' is a class name).
    Returns (next index, class name or None) or None."""
    d = 0
    while i < len(s) and s[i] == "[":
        d += 1
        i += 1
    if d > 255 or i >= len(s):
        return None
    if s[i] in PRIM:
        return i + 1, None
    if s[i] == "L":
        j = i + 1
        while j < len(s) and s[j] != ";":
            j += 1
        if j >= len(s):
            return None
        return j + 1, s[i + 1:j]
    return None


def _lenient_names(op, s):
    """Class names of s read as descriptor kind op with an unchecked ClassName; None if s is outside even that."""
    names = []
    i = 0
    def one(i):
        r = _lenient_type(s, i)
        if r is None:
            return None
        if r[1] is not None:
            names.append(r[1])
        return r[0]
    if op == "method":
        if not s or s[0] != "(":
            return None
        i = 1
        while True:
            if i >= len(s):
                return None
            if s[i] == ")":
                i += 1
                break
            i = one(i)
            if i is None:
                return None
    if op in ("method", "return") and i < len(s) and s[i] == "V":
        i += 1
    else:
        i = one(i)
        if i is None:
            return None
    return names if i == len(s) else None


def _name_rule(n):
    """The first rule of JVMS 4.2.1/4.2.2 a class name inside L; breaks, or None."""
    if not n:
        return "empty-class-name"
    if "[" in n:
        return "class-name-contains-["
    if "." in n:
        return "class-name-contains-."
    if n[0] == "/" or n[-1] == "/" or any(n[k] == "/" and n[k + 1] == "/" for k in range(len(n) - 1)):
        return "class-name-empty-segment"
    return None


def _accept_cause(op, s, wpanic):
    names = _lenient_names(op, s)
    if names is None:
        return "other"
    if wpanic:
        return "class-name-contains-[|write-panics" if any(n and n[0] == "[" for n in names) else "other|write-panics"
    for n in names:
        r = _name_rule(n)
        if r:
            return r
    return "other"


def _array_name_cause(s):
    """Why a string starting with '[' is not an array class name."""
    if not s or s[0] != "[":
        return "other"
    r = _lenient_type(s, 0)
    d = 0
    while d < len(s) and s[d] == "[":
        d += 1
    if d > 255:
        return "array-form-over-255-dimensions"
    if r is not None and r[0] == len(s) and (r[1] is None or _name_rule(r[1]) is None):
        return "other"          # it IS a field descriptor: not this cause
    return "array-form-not-a-field-descriptor"


def c18_sig(v):
    rec = v.get("rec") or {}
    got = v.get("got") if isinstance(v.get("got"), dict) else {}
    exp = v.get("exp") if isinstance(v.get("exp"), dict) else {}
    op = rec.get("op", "?")
    if "panic" in got:
        return "impl|%s|panic" % op
    if op in DESC_OPS:
        s = rec.get("s") or []
        e_ok = (exp.get("res") or {}).get("ok")
        g_ok = (got.get("res") or {}).get("ok")
        if e_ok is False and g_ok is True:
            return "impl|%s-parse|accepts|%s" % (op, _accept_cause(op, s, bool(got.get("wpanic"))))
        if e_ok is True and g_ok is False:
            d = max([0] + [len(x) for x in "".join(c if c == "[" else " " for c in s).split()])
            return "impl|%s-parse|rejects-valid|%s" % (op, "dims<=255" if d > 200 else "short")
        if e_ok is True and g_ok is True:
            if got.get("wpanic"):
                return "impl|%s-write|panics-on-valid" % op
            if got.get("res", {}).get("v") != exp.get("res", {}).get("v"):
                return "impl|%s-parse|wrong-structure" % op
            return "impl|%s-write|printed-differs" % op
        return "impl|%s|malformed-result" % op
    if op.startswith("name:"):
        s = rec.get("s") or []
        e = exp.get("valid")
        keys = [k for k in ("valid", "ctor", "octor") if got.get(k) != e]
        if e is False and keys:
            cause = _array_name_cause(s) if op in ("name:class", "name:arr_class") else "other"
            return "impl|%s|accepts|%s" % (op, cause)
        if e is True and keys:
            return "impl|%s|rejects-valid" % op
        return "impl|%s|malformed-result" % op
    if op == "print":
        return "impl|print-%s|%s" % (rec.get("kind"), "printed" if got.get("printed") != exp.get("printed") else "reparsed")
    if op in ("split", "join"):
        e_ok = (exp.get("res") or {}).get("ok")
        g_ok = (got.get("res") or {}).get("ok")
        if e_ok != g_ok:
            return "impl|%s|%s" % (op, "accepts-invalid-name" if g_ok else "rejects-valid-name")
        return "impl|%s|wrong-result" % op
    return "impl|%s|other" % op


def c18_class(r):
    op, exp = r.get("op", "?"), r.get("exp") or {}
    if op in DESC_OPS:
        ok = "ok" if exp["res"]["ok"] else "refuse"
        tag = r.get("tag") or ""
        return "%s/%s/%s" % (tag, op, ok) if tag.startswith("dims") else "%s/%s" % (op, ok)
    if op == "print":
        return "print/%s" % r.get("kind")
    if op.startswith("name:"):
        return "%s/%s" % (op, "ok" if exp["valid"] else "refuse")
    if op == "split":
        return "split/refuse" if not exp["res"]["ok"] else ("split/ok" if exp["res"]["v"] else "split/none")
    if op == "join":
        return "join/refuse" if not exp["res"]["ok"] else ("join/inverse" if exp.get("split") == [r.get("p"), r.get("i")] else "join/other")
    return op


def c18_corrupt(recs, seed):
    """Binding self-test: results the implementation did NOT produce (one semantic change each); every one must be
    rejected by Trace_Descriptor."""
    import copy, random
    rnd = random.Random(seed ^ 0xC18)
    out = []
    def add(r, fn):
        c = copy.deepcopy(r)
        fn(c["got"])
        if c["got"] != r["got"]:
            out.append(c)
    def first_type(op, v):
        if op == "field":
            return v
        if op == "return":
            return v[0] if v else None
        ts = list(v["params"]) + list(v["ret"])
        return ts[0] if ts else None
    by = {}
    for r in recs:
        if isinstance(r.get("got"), dict) and "panic" not in r["got"]:
            by.setdefault(r["op"], []).append(r)
    for op, rs in sorted(by.items()):
        rnd.shuffle(rs)
        if op in DESC_OPS:
            oks = [r for r in rs if r["got"]["res"]["ok"]]
            nos = [r for r in rs if not r["got"]["res"]["ok"]]
            for r in oks[:4]:
                add(r, lambda g: g.update({"res": {"ok": False, "v": []}}))
                add(r, lambda g: g.update({"printed": g["printed"][:-1]}))
                add(r, lambda g: g.update({"printed": g["printed"] + [";"]}))
                add(r, lambda g: g.update({"wpanic": True}))
                def dims(g, op=op):
                    t = first_type(op, g["res"]["v"])
                    if t is not None:
                        t["dims"] = t["dims"] + 1 if t["dims"] < 255 else 254
                add(r, dims)
                def base(g, op=op):
                    t = first_type(op, g["res"]["v"])
                    if t is not None:
                        if t["base"] == "L":
                            t["name"] = t["name"] + ["x"]
                        else:
                            t["base"] = "J" if t["base"] != "J" else "I"
                add(r, base)
                if op == "method":
                    add(r, lambda g: g["res"]["v"].update({"params": g["res"]["v"]["params"][1:] if g["res"]["v"]["params"] else [{"dims": 0, "base": "I", "name": []}]}))
                    add(r, lambda g: g["res"]["v"].update({"ret": [] if g["res"]["v"]["ret"] else [{"dims": 0, "base": "I", "name": []}]}))
            for r in nos[:4]:
                if oks:
                    add(r, lambda g: g.update(copy.deepcopy(oks[0]["got"])))
        elif op.startswith("name:"):
            for val in (True, False):
                for r in [x for x in rs if x["got"]["valid"] is val][:2]:
                    for k in ("valid", "ctor", "octor"):
                        add(r, lambda g, k=k: g.update({k: not g[k]}))
        elif op == "split":
            some = [r for r in rs if r["got"]["res"]["ok"] and r["got"]["res"]["v"]]
            none = [r for r in rs if r["got"]["res"]["ok"] and not r["got"]["res"]["v"]]
            ref = [r for r in rs if not r["got"]["res"]["ok"]]
            for r in some[:4]:
                add(r, lambda g: g.update({"res": {"ok": True, "v": []}, "parent": [], "inner": []}))
                add(r, lambda g: g["res"].update({"v": [g["res"]["v"][0] + ["$"], g["res"]["v"][1]]}))
                add(r, lambda g: g.update({"inner": []}))
                add(r, lambda g: g.update({"parent": [g["res"]["v"][1]]}))
                add(r, lambda g: g.update({"res": {"ok": False, "v": []}}))
            for r in none[:3]:
                add(r, lambda g: g.update({"res": {"ok": True, "v": [["a"], ["b"]]}, "parent": [["a"]], "inner": [["b"]]}))
                add(r, lambda g: g.update({"res": {"ok": False, "v": []}}))
            for r in ref[:3]:
                add(r, lambda g: g.update({"res": {"ok": True, "v": []}, "parent": [], "inner": []}))
        elif op == "join":
            oks = [r for r in rs if r["got"]["res"]["ok"]]
            for r in oks[:4]:
                add(r, lambda g: g["res"].update({"v": g["res"]["v"] + ["$"]}))
                add(r, lambda g: g.update({"split": [] if g["split"] else [["a"], ["b"]]}))
                add(r, lambda g: g.update({"res": {"ok": False, "v": []}}))
            for r in [x for x in rs if not x["got"]["res"]["ok"]][:3]:
                add(r, lambda g, r=r: g.update({"res": {"ok": True, "v": r["p"] + ["$"] + r["i"]}, "split": []}))
        elif op == "print":
            for r in [x for x in rs if "printed" in x["got"]][:6]:
                add(r, lambda g: g.update({"printed": g["printed"][1:]}))
                add(r, lambda g: g.update({"reparsed": {"ok": False, "v": []}}))
    return out


_NAME_KINDS = ["class", "arr_class", "obj_class", "field", "method", "param", "local"]

P = {
    "dir": "duke",
    "mc": [{"module": "MC_Descriptor", "cfg": "MC_Descriptor.cfg", "timeout": {"quick": 600, "thorough": 3000}},
           {"module": "MC_JvmsNames", "cfg": "MC_JvmsNames.cfg", "timeout": {"quick": 600, "thorough": 3000}}],
    "trace": {"module": "Trace_Descriptor", "cfg": "Trace_Descriptor.cfg"},
    "trace_s2i": 300,
    "i2s_n": {"quick": 400, "thorough": 4000},
    "classify_vec": c18_class,
    "required_classes": ["field/ok", "field/refuse", "method/ok", "method/refuse", "return/ok", "return/refuse",
                         "dims254/field/ok", "dims255/field/ok", "dims256/field/refuse",
                         "dims255/method/ok", "dims256/method/refuse", "dims255/return/ok", "dims256/return/refuse",
                         "print/field", "print/method", "print/return",
                         "split/ok", "split/none", "split/refuse", "join/inverse", "join/other", "join/refuse"]
                        + ["name:%s/%s" % (k, x) for k in _NAME_KINDS for x in ("ok", "refuse")],
    "signature": c18_sig,
    "corrupt": c18_corrupt,
    "level_text": "The JVMS 4.3 descriptor grammar (field / method / return, 255-dimension cap, binary class names of 4.2.1/4.2.2 inside L;) is specified over character sequences twice - declaratively and as the recursive-descent reader of descriptor.rs (one step per character, cursor, dimension counter) - and TLC checks on every string over {B I J V L ; [ ( ) a / . $} up to length 5 (quick) / 6 (thorough), on the 254/255/256-dimension boundary strings and on every one-letter string that both agree, that Print(Parse(s)) = s for every accepted s and Parse(Print(t)) = t for a universe of structures. The seven documented name predicates, Split and Join are specified likewise and checked on every string over {a . ; [ / < > $ L} up to length 5 plus <init>/<clinit> near misses and array names at the dimension boundary (Split operational = declarative, Split/Join mutually inverse). Every explored (string, kind) is replayed through the real TryFrom + parse() + write(), X::is_valid / both TryFrom forms, split_inner_class_parent_and_name (+ both getters) and from_inner_class and compared with the specification's verdict, structure and printed characters; seeded random longer inputs (up to 300 dimensions, long and unicode class names, one-edit perturbations of valid descriptors, trailing garbage, nested / missing parentheses) run by the real code are re-judged by TLC from the recorded characters (trace validation).",
    "level_note": "Exhaustive only up to the length bound and over the 13- resp. 9-character alphabets (other base types C D F S Z and other letters occur in the one-letter, structure and random families only). Trusted: TLC; the harness conversion characters <-> JavaString and Type <-> {dims, base, name}. The descriptor newtypes' own check_valid is a stub in duke (always Ok) and not part of the property's list of predicates: a refusal by TryFrom or by parse() counts alike. Lone surrogates (JavaString can hold them) are not generated. Known findings (class names inside L; unchecked; array-form class names unchecked) are matched by narrow signatures, every other disagreement is a violation.",
    "assumptions": ["TLC/SANY/CommunityModules", "harness conversion character sequence <-> JavaString, Type <-> abstract structure (c18.rs)",
                    "bounded universe: strings up to length 5/6 over 13 characters (descriptors), up to length 5 over 9 characters (names), plus boundary families",
                    "documentation of the name types = doc comments in duke + the JVMS sections they cite (4.2.1, 4.2.2, 4.3.2)"],
}
