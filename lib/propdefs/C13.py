"""C13: client/server jar merge is a faithful, annotated union (dukebox::merge::merge)."""
import copy
import random

LEVELS = ("interfaces", "fields", "methods")


# ---- vacuity classes ---------------------------------------------------------------------------
def _cls(r):
    if r.get("op") == "store":
        return r.get("cls")
    if r.get("op") == "premarked":
        return "premarked/%s/%s-%s" % (r.get("level"), r.get("side"), r.get("pre"))
    if r.get("op") == "lists":
        return "lists/%s/%s/%s%s" % (r.get("level"), "compatible" if r.get("compatible") else "incompatible", r.get("rel"),
                                     "/byte-identical" if r.get("same") else "")
    return "jars/%s" % r.get("cls")


def _required():
    req = ["premarked/%s/%s-%s" % (lv, a, b) for lv in ("fields", "methods") for a in ("client", "server") for b in ("client", "server")]
    for lv in LEVELS:
        for rel in ("identical", "identical/byte-identical", "prefix", "suffix", "interleaving", "disjoint"):
            req.append("lists/%s/compatible/%s" % (lv, rel))
        for rel in ("permutation", "scrambled"):
            req.append("lists/%s/incompatible/%s" % (lv, rel))
    combs = ("Client", "Server", "Both-equal", "Both-different")
    for row in ("class", "class-default-package", "libclass", "other", "lib-resource", "sf-outside-metainf", "manifest", "signature",
                "sigblock-unfiltered", "nested-sf", "metainf-other"):
        for c in combs:
            req.append("jars/row/%s/%s" % (row, c))
    for c in ("Client", "Server", "Both-equal"):
        req.append("jars/row/dir/%s" % c)
    req.append("jars/pair")
    req += ["store/empty", "store/junk", "store/class-twice", "store/dirs", "store/plain"]
    # marks at member level: one-sided (client / server), shared-equal, shared-different, alone and mixed
    for lv in LEVELS:
        st = ("client", "server", "equal") + (() if lv == "interfaces" else ("different",))
        for s in st:
            req.append("jars/classpair/%s/%s+absent" % (lv, s))
        for pair in ("client+server", "server+client", "equal+client", "equal+server", "client+equal", "server+equal", "equal+equal"):
            req.append("jars/classpair/%s/%s" % (lv, pair))
        if lv != "interfaces":
            for pair in ("different+client", "different+server", "different+different", "equal+different"):
                req.append("jars/classpair/%s/%s" % (lv, pair))
    return req


def _cls_i2s(rec):
    g = rec.get("got")
    kind = "panic" if isinstance(g, dict) and "panic" in g else ("ok" if isinstance(g, dict) and g.get("ok") is True else "refused")
    if rec.get("op") == "lists":
        return "lists/%s/%s" % (rec.get("level"), kind)
    cl, sv = rec.get("client") or {}, rec.get("server") or {}
    both = [n for n in cl if n in sv]
    shape = "disjoint" if not both else ("identical" if set(cl) == set(sv) and all(cl[n] == sv[n] for n in cl) else "overlapping")
    return "jars/%s/%s" % (shape, kind)


# ---- signatures --------------------------------------------------------------------------------
# The VERDICT on a record is TLC's (S2I expectation / trace specification).  What follows only NAMES what is
# wrong with a record TLC refused, so that the known defect is matched narrowly and any other fault in the
# same record changes the signature.  A refused record in which nothing is found is "unexplained" (never known).

def _kind(n):
    return "dir" if n.endswith("/") else ("class" if n.endswith(".class") else "other")


def _codesig(n):
    return n.startswith("META-INF/") and (n.endswith(".SF") or n.endswith(".RSA"))


def _jarsig(n):
    return n.startswith("META-INF/") and n.count("/") == 1 and n.endswith((".SF", ".RSA", ".DSA", ".EC"))


def _lib(n):
    return n.endswith(".class") and not n.startswith("net/minecraft/") and "/" in n


def _keys(ms):
    return [m["k"] for m in ms or []]


def _list_faults(r, a, b, where):
    f = set()
    k, m = (r or {}).get("k"), (r or {}).get("m")
    if not isinstance(k, list) or not isinstance(m, list) or len(k) != len(m):
        return {"shape@" + where}
    union = set(a) | set(b)
    if len(set(k)) != len(k):
        f.add("duplicate-key@" + where)
    if set(k) - union:
        f.add("foreign-key@" + where)
    if union - set(k):
        f.add("missing-key@" + where)
    for x, mk in zip(k, m):
        want = "none" if (x in a and x in b) else ("client" if x in a else "server")
        if x in union and mk != want:
            f.add("mark@%s:%s-for-%s" % (where, mk, want))
    if not f:
        compat = [x for x in a if x in b] == [x for x in b if x in a]
        if compat:
            if [x for x in k if x in a] != a:
                f.add("merge-order|compatible|order-of-client-side-lost")
            if [x for x in k if x in b] != b:
                as_coded = k == a + [x for x in b if x not in a]
                f.add("merge-order|compatible|order-of-server-side-lost" + ("|result=client-then-server-only" if as_coded else ""))
    return f


def _faults(rec, got):
    if isinstance(got, dict) and "panic" in got:
        return {"panic"}
    if not isinstance(got, dict) or got.get("ok") is not True:
        return {"refused"}
    if rec.get("op") == "lists":
        f = set()
        if "bad" in got:
            return {"result-class-unreadable"}
        if got.get("mark") != "none":
            f.add("class-mark")
        if got.get("xitf"):
            f.add("stray-interface-mark")
        if rec.get("same") and not (got.get("eqc") and got.get("eqs")):
            f.add("identical-class-not-passed-through")
        return f | _list_faults(got.get("r"), rec["a"], rec["b"], rec.get("level", "?"))
    cl, sv = rec.get("client") or {}, rec.get("server") or {}
    f = set()
    if got.get("extra"):
        f.add("extra-entry")
    if got.get("dups"):
        f.add("duplicate-entry")
    for n in set(cl) | set(sv):
        e = (got.get("entries") or {}).get(n)
        if not isinstance(e, dict):
            f.add("entry-not-reported")
            continue
        comb = "both" if (n in cl and n in sv) else ("client" if n in cl else "server")
        must_drop = (_codesig(n) and _jarsig(n)) or (n not in cl and _lib(n))
        may_drop = _codesig(n) != _jarsig(n)
        row = "manifest" if n == "META-INF/MANIFEST.MF" else ("metainf" if n.startswith("META-INF/") else _kind(n))
        if must_drop:
            if e.get("in"):
                f.add("kept:%s/%s" % ("signature" if _codesig(n) else "bundled-library", comb))
            continue
        if not e.get("in"):
            if not may_drop:
                f.add("lost:%s/%s" % (row, comb))
            continue
        if n == "META-INF/MANIFEST.MF" or _kind(n) == "dir":
            continue
        if _kind(n) == "other":
            ok = e.get("eqc") if comb == "client" else (e.get("eqs") if comb == "server" else
                                                       ((e.get("eqc") and e.get("eqs")) if cl[n].get("c") == sv[n].get("c") else (e.get("eqc") or e.get("eqs"))))
            if not ok:
                f.add("content:%s/%s" % (row, comb))
            continue
        g = (got.get("classes") or {}).get(n)
        if not isinstance(g, dict) or "bad" in g:
            f.add("result-class-unreadable")
            continue
        if comb != "both":
            c = cl[n] if comb == "client" else sv[n]
            if g.get("mark") != comb:
                f.add("class-mark:%s-for-%s" % (g.get("mark"), comb))
            if g.get("xitf"):
                f.add("stray-interface-mark")
            if (g["itf"].get("k") != list(c.get("itf") or []) or g["fields"].get("k") != _keys(c.get("fields"))
                    or g["methods"].get("k") != _keys(c.get("methods"))):
                f.add("one-sided-class-members-changed")
        elif cl[n] == sv[n]:
            if not (e.get("eqc") and e.get("eqs")):
                f.add("identical-class-not-passed-through")
        else:
            if g.get("mark") != "none":
                f.add("class-mark:%s-for-none" % g.get("mark"))
            if g.get("xitf"):
                f.add("stray-interface-mark")
            f |= _list_faults(g.get("itf"), list(cl[n].get("itf") or []), list(sv[n].get("itf") or []), "interfaces")
            f |= _list_faults(g.get("fields"), _keys(cl[n].get("fields")), _keys(sv[n].get("fields")), "fields")
            f |= _list_faults(g.get("methods"), _keys(cl[n].get("methods")), _keys(sv[n].get("methods")), "methods")
    return f


def _coarse(f):
    """fault name without level / side detail (the replay file has the detail); the order faults stay as they are"""
    if f.startswith("merge-order|"):
        return f
    if f.startswith(("lost:", "kept:", "content:")):
        return f.split("/")[0]
    return f.split("@")[0].split(":")[0]


def _sig(v):
    rec = v.get("rec") or {}
    if rec.get("op") == "store":          # the storage layer: name the places where the observation differs from the specification's
        from vlib import diff_paths
        g = v.get("got")
        return "impl|store|" + ("panic" if isinstance(g, dict) and "panic" in g else ",".join(sorted(set(diff_paths(g, v.get("exp")))))[:200])
    if rec.get("op") == "premarked":
        g = v.get("got") or {}
        return "impl|premarked|%s|%s" % (rec.get("level"), ",".join(k for k in ("found", "has_client", "has_server") if g.get(k) is False) or "other")
    f = {_coarse(x) for x in _faults(rec, v.get("got"))}
    return "impl|" + (",".join(sorted(f)) if f else "unexplained|" + str(rec.get("op")))


# ---- binding self-test -------------------------------------------------------------------------
def _compatible(a, b):
    return [x for x in a if x in b] == [x for x in b if x in a]


def _corrupt_list(rnd, r, a, b):
    """corruptions of a marked list that the law certainly refuses: drop a key, duplicate one, flip a mark,
    an unrecognised mark, and (compatible orders, a side with two keys) the reversed list"""
    out = []
    k, m = r["k"], r["m"]
    if k:
        i = rnd.randrange(len(k))
        out.append({"k": k[:i] + k[i + 1:], "m": m[:i] + m[i + 1:]})
        out.append({"k": k[:i + 1] + k[i:], "m": m[:i + 1] + m[i:]})
        flip = {"none": "client", "client": "server", "server": "none"}
        out.append({"k": list(k), "m": m[:i] + [flip.get(m[i], "none")] + m[i + 1:]})
        out.append({"k": list(k), "m": m[:i] + ["?"] + m[i + 1:]})
        if _compatible(a, b) and (len(a) >= 2 or len(b) >= 2):
            out.append({"k": k[::-1], "m": m[::-1]})
    else:
        out.append({"k": ["zz:I"], "m": ["none"]})
    return out


def _corrupt(recs, seed):
    rnd = random.Random(seed)
    out = []
    cand = [r for r in recs if isinstance(r.get("got"), dict) and r["got"].get("ok") is True and "bad" not in r["got"]]
    rnd.shuffle(cand)
    for r in cand[:60]:
        g = r["got"]
        if r["op"] == "lists":
            for x in _corrupt_list(rnd, g["r"], r["a"], r["b"]):
                c = copy.deepcopy(r)
                c["got"]["r"] = x
                out.append(c)
            c = copy.deepcopy(r)
            c["got"]["mark"] = "client"
            out.append(c)
            c = copy.deepcopy(r)
            c["got"]["xitf"] = ["p/Nowhere"]
            out.append(c)
            if r.get("same"):
                c = copy.deepcopy(r)
                c["got"]["eqs"] = False
                out.append(c)
            continue
        cl, sv = r.get("client") or {}, r.get("server") or {}
        c = copy.deepcopy(r)
        c["got"]["extra"] = ["not/in/either.txt"]
        out.append(c)
        names = sorted(set(cl) | set(sv))
        n = rnd.choice(names)
        c = copy.deepcopy(r)
        c["got"]["dups"] = [n]
        out.append(c)
        plain = [x for x in names if not x.startswith("META-INF/")]
        if plain:
            n = rnd.choice(plain)
            c = copy.deepcopy(r)
            e = c["got"]["entries"][n]
            was = e["in"]
            e["in"] = not was                      # a kept entry lost / a dropped library class kept
            if was:
                c["got"]["classes"].pop(n, None)
            else:
                c["got"]["classes"][n] = {"mark": "server", "itf": {"k": [], "m": []}, "fields": {"k": [], "m": []},
                                          "methods": {"k": [], "m": []}, "xitf": []}
            out.append(c)
        for n in names:
            if n == "META-INF/MANIFEST.MF" or not g["entries"][n]["in"]:
                continue
            if _kind(n) == "other":
                c = copy.deepcopy(r)
                c["got"]["entries"][n]["eqc"] = False
                c["got"]["entries"][n]["eqs"] = False       # content of neither side
                out.append(c)
            elif _kind(n) == "class" and n in g["classes"]:
                gc = g["classes"][n]
                if not (n in cl and n in sv):
                    c = copy.deepcopy(r)
                    c["got"]["classes"][n]["mark"] = {"client": "server", "server": "none"}[gc["mark"]] if gc["mark"] in ("client", "server") else "client"
                    out.append(c)
                    lv = rnd.choice(["fields", "methods", "itf"])
                    if gc[lv]["k"]:
                        c = copy.deepcopy(r)
                        c["got"]["classes"][n][lv] = {"k": gc[lv]["k"][1:], "m": gc[lv]["m"][1:]}
                        out.append(c)
                elif cl[n] == sv[n]:
                    c = copy.deepcopy(r)
                    c["got"]["entries"][n]["eqc"] = False   # re-serialised instead of passed through
                    out.append(c)
                else:
                    for lv, a, b in (("itf", list(cl[n]["itf"]), list(sv[n]["itf"])), ("fields", _keys(cl[n]["fields"]), _keys(sv[n]["fields"])),
                                     ("methods", _keys(cl[n]["methods"]), _keys(sv[n]["methods"]))):
                        xs = _corrupt_list(rnd, gc[lv], a, b)
                        c = copy.deepcopy(r)
                        c["got"]["classes"][n][lv] = rnd.choice(xs)
                        out.append(c)
                    c = copy.deepcopy(r)
                    c["got"]["classes"][n]["mark"] = "client"
                    out.append(c)
        if len(out) > 400:
            break
    return out


P = {
    "dir": "jar",
    "mc": [{"module": "MC_JarMerge", "cfg": "MC_JarMerge.cfg"},
           # the storage layer every jar operation stands on: the four forms of a jar (UnnamedMemJar, NamedMemJar, FileJar, ParsedJar)
           # behind the traits Jar / OpenedJar / JarEntry show one abstract jar (spec/jar/JarStore.tla)
           {"module": "MC_JarStore", "cfg": "MC_JarStore.cfg", "trace": False}],
    "trace": {"module": "Trace_JarMerge", "cfg": "Trace_JarMerge.cfg"},
    "trace_s2i": 4000,
    "i2s_n": {"quick": 600, "thorough": 12000},
    "classify_vec": _cls,
    "classify_i2s": _cls_i2s,
    "required_classes": _required(),
    "signature": _sig,
    "corrupt": _corrupt,
    "level_text": "The merge of a client and a server jar is specified at three levels. Lists: merge_preserve_order as the code's cursor machine (three inner loops, no_change exit, tail append), once as coded and once as the law demands, and the declarative law on a result r of lists a, b: every key of either side exactly once, both sides' orders kept whenever the common keys occur in the same relative order, key only in a marked client, only in b marked server, in both unmarked. TLC checks over all 4225 pairs of duplicate-free lists over 4 symbols that the repaired machine satisfies the law, that the law is satisfiable, that scrambled orders admit no order-keeping result, and states exactly where the routine as coded deviates (closed form a ++ (b minus a); it satisfies the law iff the orders are scrambled or no server-only key precedes a common key in b). Classes: identical files passed through byte-identical, one-sided classes marked, differing classes merged level by level. Entries: the Client / Server / Both table with the manifest, signature-file and bundled-library filters exactly as coded, over a pool of 15 names (all rows, all pairs; triples in the thorough tier). Every pair of lists (at the interface, field and method level), every table row, every name pair and 820 class pairs with one-sided / shared-equal / shared-different members are replayed through dukebox::merge::merge on jars assembled by the independent class-file assembler; the merged jar is re-read (central directory walked, classes parsed by the independent parser, Environment / EnvironmentInterface(s) annotations projected to marks) and compared with the law's extension (any admissible order is accepted). A sample of these results and seeded random jar pairs (disjoint / identical / overlapping class sets, member lists up to 8 keys as interleavings, prefixes, suffixes, permutations, resources equal / different, META-INF content, directories, shuffled entry orders) are judged by TLC with the law itself (trace validation). Below the merge, the jar storage layer every jar operation stands on is specified (JarStore.tla) and bound: the four forms of a jar (UnnamedMemJar, NamedMemJar, FileJar, ParsedJar) behind the traits Jar / OpenedJar / JarEntry show one abstract jar (entry keys, names, lookup by name, kind of an entry by its name alone, the super class provider with its first-position / last-content rule, parsing and writing back with order, contents and last-modified times kept); 2 400 jars of up to three entries are replayed through all four forms.",
    "level_note": "Trusted: TLC and its string operators (prefix / suffix / contains tests on entry names), cfkit (assembler for the inputs, parser for the outputs), the zip crate, the central-directory walker and the annotation-to-mark projection in harness/src/drivers/c13.rs (an annotation of another shape than merge.rs documents is projected as '?', never guessed). Where the property is silent the law accepts the code's choice and the alternatives (content of the merged manifest; which side's differing resource wins; files on which the code's signature filter and the JAR specification disagree: META-INF/*.DSA, *.EC, nested *.SF; member marks inside a one-sided class). Outside the quantifier and not generated: classes whose version, access flags, super class, Deprecated / Synthetic attributes or InnerClasses rows differ between the sides (merge.rs asserts or refuses), duplicate members, unparsable classes. The signature function in lib/propdefs/C13.py names the fault of a record TLC refused (for matching the known finding narrowly); it does not decide.",
    "assumptions": ["TLC/SANY/CommunityModules", "cfkit assembler and parser", "zip crate; central directory walker in drivers/c13.rs",
                    "projection of Environment / EnvironmentInterface(s) annotations to marks (drivers/c13.rs)",
                    "class kinds follow entry names (trailing / = directory, .class = class)",
                    "bounded universe: 4 symbols per list, 15 entry names, two variants per entry"],
}
