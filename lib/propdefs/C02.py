"""C02: the class writer emits a well-formed file denoting exactly the given class."""
import copy, random, re

# ---- vacuity guard ---------------------------------------------------------------------------------------
# A vector exhibits several scenarios (tags, computed from what the MODEL did with the list and from whether
# the implementation really ran it); it is counted under the tag counted least so far, so a class count > 0
# means: TLC explored a case exhibiting the scenario and it went through duke's writer.
_seen = {}


def _tags(r):
    got = r.get("got") if isinstance(r.get("got"), dict) else {}
    op = r.get("op", "?")
    if got.get("skipped"):
        return ["%s/skipped" % op]
    m = r.get("model") or {}
    exp = r.get("exp") or {}
    must = [e.get("res") for e in exp.get("anyof", []) if isinstance(e, dict) and "res" in e]
    must = must[0] if must else "?"
    if op == "layout":
        if m.get("res") == "overflow":
            return ["layout/limit/u16-overflow-in-the-design"]
        if must == "err":
            return ["layout/limit/clean-error" if m.get("res") == "err" else "layout/limit/trampoline-at-end"]
        tags = []
        items = r.get("items") or []
        for it, form, d, pad in zip(items, m.get("forms", []), m.get("dir", []), m.get("pads", [])):
            if it["k"] in ("if", "goto", "jsr"):
                tags.append("layout/%s/%s/%s" % (it["k"], form, d))
            elif it["k"] in ("tsw", "lsw"):
                tags.append("layout/%s/pad%d" % (it["k"], pad))
            elif it["k"] == "grow":
                tags.append("layout/grow")
        if m.get("attempts", 1) >= 3:
            tags.append("layout/cascade/%d-attempts" % min(m["attempts"], 4))
        if m.get("attempts", 1) == 2:
            tags.append("layout/restart")
        if m.get("len", 0) >= 65530:
            tags.append("layout/limit/full-method")
        return tags or ["layout/plain"]
    if op == "pool":
        forms = set(m.get("forms", []))
        tags = ["pool/%s/%s" % (must, "renamed" if r.get("ren") else "plain")]
        if must == "ok":
            tags.append("pool/ldc-forms/%s" % "+".join(sorted(forms)))
            idx = m.get("idx", [])
            if any(i <= 255 for i in idx) and any(i > 255 for i in idx):
                tags.append("pool/crosses-255")
            if m.get("bsm", 0) >= 1:
                tags.append("pool/bootstrap/%d" % min(m["bsm"], 2))
            if r.get("pre", 0) > 1000:
                tags.append("pool/near-65535")
        return tags
    return [op]


def c02_class(r):
    tags = sorted(_tags(r))
    t = min(tags, key=lambda x: (_seen.get(x, 0), x))
    _seen[t] = _seen.get(t, 0) + 1
    return t


REQUIRED = (
    ["layout/if/%s/%s" % (f, d) for f in ("narrow", "tramp") for d in ("fwd", "bwd")]
    + ["layout/%s/%s/%s" % (k, f, d) for k in ("goto", "jsr") for f in ("narrow", "wide") for d in ("fwd", "bwd")]
    + ["layout/%s/pad%d" % (k, p) for k in ("tsw", "lsw") for p in range(4)]
    + ["layout/grow", "layout/restart", "layout/cascade/3-attempts", "layout/limit/full-method", "layout/limit/clean-error",
       "layout/limit/u16-overflow-in-the-design", "layout/limit/trampoline-at-end",
       "pool/ok/plain", "pool/ok/renamed", "pool/err/renamed", "pool/ldc-forms/short", "pool/ldc-forms/w", "pool/ldc-forms/short+w",
       "pool/crosses-255", "pool/bootstrap/1", "pool/bootstrap/2", "pool/near-65535"]
)


def c02_i2s_class(r):
    got = r.get("got") if isinstance(r.get("got"), dict) else {}
    st = "panic" if "panic" in got else "skipped" if got.get("skipped") else got.get("res", "?")
    if r.get("op") == "write":
        i = r.get("id", "")
        fam = "/".join(i.split("/")[:2]) if i.startswith("gen/") else i.split("/")[0]
        return "write/%s/%s/%s" % (fam, r.get("variant", "plain"), st)
    return "%s/random/%s" % (r.get("op"), st)


# ---- naming the cause of a disagreement (grouping only: the verdict comes from TLC) ------------------------
def _norm(msg):
    msg = re.sub(r"class file error at offset \d+: ", "", msg or "")
    msg = re.sub(r"method\[\d+\]\.Code\.insn\[\d+\]: ", "", msg)
    msg = re.sub(r"\d+", "N", msg)
    return msg.strip().replace(" ", "-")[:80]


def c02_sig(v):
    rec = v.get("rec") or {}
    got = v.get("got") if isinstance(v.get("got"), dict) else {}
    exp = v.get("exp") if isinstance(v.get("exp"), dict) else {}
    op = rec.get("op", "?")
    if "panic" in got:
        msg = got.get("panic") or ""
        return "impl|%s|panic|%s" % (op, "u16-add-overflow" if "attempt to add with overflow" in msg else _norm(msg))
    must = exp.get("res")
    if must is None:
        alts = [e.get("res") for e in exp.get("anyof", []) if isinstance(e, dict) and "res" in e]
        must = alts[0] if alts else "ok"
    parts = []
    if got.get("skipped"):
        parts.append("skipped")
    res = got.get("res")
    if res is not None and res != must:
        parts.append("res:%s-for-%s" % (res, must))
    if res == "ok" and got.get("parse") == "err":
        parts.append("unparseable:" + _norm(got.get("msg")))
    if res == "ok" and got.get("parse") == "ok" and must == "ok":
        if exp.get("wf") is False:
            parts.append("ill-formed")
        atoms = sorted("%s:%s" % (a[0], a[1]) for a in got.get("diffs") or [])
        if atoms:
            parts.append("facts:" + "+".join(atoms))
        if exp.get("layout") is False:
            parts.append("layout")
        if exp.get("items") is False:
            parts.append("items-layout")
    return "impl|%s|%s" % (op, "|".join(parts) or "other")


# ---- binding self-test: results the implementation did NOT produce; every one must be rejected ----------------
def c02_corrupt(recs, seed):
    rnd = random.Random(seed ^ 0xC02)
    out = []

    def add(r, fn):
        c = copy.deepcopy(r)
        if fn(c["got"]) is not False:
            out.append(c)

    oks = [r for r in recs if isinstance(r.get("got"), dict) and r["got"].get("res") == "ok" and r["got"].get("parse") == "ok"]
    rnd.shuffle(oks)

    def jumps(g, pred=lambda o: True):
        return [(m, j) for m in g["methods"] for j, o in enumerate(m["O"]) if o["k"] == "j" and pred(o)]

    def shift_target(g):          # a branch that designates the byte after its target
        js = jumps(g)
        if not js:
            return False
        m, j = js[0]
        m["O"][j]["d"][-1] += 1

    def flip_form(g):             # a goto recorded as goto_w although three bytes long (or the reverse)
        js = jumps(g, lambda o: o["op"] in ("goto", "jsr"))
        if not js:
            return False
        m, j = js[0]
        m["O"][j]["form"] = "w" if m["O"][j]["form"] == "short" else "short"

    def pad_plus(g):              # one padding byte more than the alignment rule gives
        js = jumps(g, lambda o: o["op"] in ("tableswitch", "lookupswitch"))
        if not js:
            return False
        m, j = js[0]
        m["O"][j]["pad"] = (m["O"][j]["pad"] + 1) % 4

    def table_entry(g):           # an exception bound / line number entry one byte off
        ms = [m for m in g["methods"] if m["tabs"]]
        if not ms:
            return False
        ms[0]["tabs"][-1][1] += 1

    def run_hash(g):              # another instruction in a run
        for m in g["methods"]:
            for o in m["O"]:
                if o["k"] == "r":
                    o["h"] = "0" * 16
                    return
        return False

    def run_count(g):             # one instruction lost
        for m in g["methods"]:
            for o in m["O"]:
                if o["k"] == "r" and o["c"] > 1:
                    o["c"] -= 1
                    return
        return False

    def other_op(g):              # a conditional jump written with the wrong condition
        js = jumps(g, lambda o: o["op"].startswith("if"))
        if not js:
            return False
        m, j = js[0]
        m["O"][j]["op"] = "ifeq" if m["O"][j]["op"] != "ifeq" else "ifne"

    def tramp_skip(g):            # an inverted branch that lands inside the goto_w
        for m in g["methods"]:
            for j, o in enumerate(m["O"][:-1]):
                nxt = m["O"][j + 1]
                if o["k"] == "j" and nxt["k"] == "j" and nxt["op"] == "goto" and nxt.get("form") == "w" and o["op"].startswith("if") \
                        and o["d"][0] == nxt["off"] + 5:
                    o["d"][0] -= 1
                    return
        return False

    def use_out_of_range(g):
        g["raw"]["uses"][0][1][-1] = len(g["raw"]["pool"])

    def use_wrong_kind(g):
        for u in g["raw"]["uses"]:
            if u[0] == ["Class"]:
                other = [i for i, k in enumerate(g["raw"]["pool"]) if k == "Utf8"]
                if other:
                    u[1][0] = other[0]
                    return
        return False

    def second_slot(g):
        for i, k in enumerate(g["raw"]["pool"]):
            if k in ("Long", "Double"):
                g["raw"]["uses"].append([["Long", "Double"], [i + 1]])
                return
        return False

    def index_zero(g):
        for u in g["raw"]["uses"]:
            if "0" not in u[0]:
                u[1][0] = 0
                return
        return False

    def length_off(g):
        g["raw"]["lengths"][-1][0] += 1

    def count_off(g):
        g["raw"]["limits"]["cp_count"] += 1

    def trailing(g):
        g["raw"]["limits"]["file_len"] += 1

    def long_code(g):
        if not g["methods"]:
            return False
        g["methods"][0]["len"] = 65536
        g["methods"][0]["offs"][str(g["methods"][0]["no"])] = 65536

    def a_diff(g):
        g["diffs"] = [["different", "/methods/#/access"]]

    def refused(g):
        g["res"] = "err"

    def unparsed(g):
        g["parse"] = "err"

    generic = [shift_target, table_entry, run_hash, run_count, use_out_of_range, use_wrong_kind, length_off, count_off, trailing,
               long_code, a_diff, refused, unparsed]
    special = [flip_form, pad_plus, other_op, tramp_skip, second_slot, index_zero]
    for fn in special:
        n = 0
        for r in oks:
            before = len(out)
            add(r, fn)
            if len(out) > before:
                n += 1
                if n >= 3:
                    break
    for k, r in enumerate(oks[:26]):
        add(r, generic[k % len(generic)])
    # a list without any layout that is reported as written / a list with one that is reported as refused
    errs = [r for r in recs if r.get("op") in ("layout", "pool") and isinstance(r.get("got"), dict) and r["got"].get("res") == "err"]
    for r in errs[:3]:
        donors = [o for o in oks if o.get("op") == r.get("op")]
        if donors:
            c = copy.deepcopy(r)
            c["got"] = copy.deepcopy(donors[0]["got"])
            out.append(c)
    return out


P = {
    "dir": "duke",
    "mc": [{"module": "MC_CodeLayout", "cfg": "MC_CodeLayout.cfg", "timeout": {"quick": 600, "thorough": 3000}},
           {"module": "MC_ConstPool", "cfg": "MC_ConstPool.cfg", "timeout": {"quick": 600, "thorough": 3000}}],
    "trace": {"module": "Trace_ClassWrite", "cfg": "Trace_ClassWrite.cfg"},
    "trace_s2i": 10 ** 9,        # every S2I result is also judged by the trace specification (the layout law lives there)
    "i2s_n": {"quick": 370, "thorough": 4400},
    "classify_vec": c02_class,
    "classify_i2s": c02_i2s_class,
    "required_classes": REQUIRED,
    "signature": c02_sig,
    "corrupt": c02_corrupt,
    "level_text": "The branch-offset fixpoint of write_code (attempts, the monotone wide set, narrow / goto_w / jsr_w / inverted-branch trampoline decisions for backward jumps on the spot and for forward jumps at resolution, switch padding, u16 / i16 ranges with an explicit overflow outcome) is specified as actions Emit / EmitSwitch / Resolve / Finish and model-checked against the declarative layout law (every branch, switch arm and the trampoline's skip designate the offset of the designated item; short forms hold 16 bit offsets; padding = (-(p+1)) mod 4; code_length <= 65535; success iff SOME choice of long forms gives a correct layout within the limit; WideMonotone; termination within |jumps|+1 attempts) over structured families of item lists of up to 7 items (one far jump of every kind in both directions at every alignment with a grow / near jump / far jump / switch in its span, target at every index, two jumps and two big pads in every nesting, switches at each alignment with far arms, sizes around 65535, `ldc`s that grow from two to three bytes so that a method readable with short jumps must be written with long ones). The hash-consed pool (Put with two-slot accounting, overflow, de-duplicated bootstrap table written after the members, ldc / ldc_w by index) is specified operationally and against the by-value law (a class is representable iff 1 + slots of its distinct needed entries <= 65535) for pools on both sides of index 255 and of 65535, plain and after renaming. Every explored list / constant sequence that some class file can hold is assembled with the independent assembler, read by duke, written by duke::write_class and parsed by the independent strict parser; TLC (trace validation) judges every such real output - and the outputs for corpus classes (javac 8/11/17 with and without -g, a JDK sample), hand-written samples under ten encodings, generated families (locals crossing 255, pools crossing 255 under four input encodings, renamed trees via dukebox::remap, trees with local_variables set by hand) and seeded random item lists: WellFormed(recorded summary), facts read back = facts of the tree, the written instruction list is the tree's up to trampolines, and the declarative layout law RealLayoutOK holds of the real offsets. Variant linepc: the start_pc of a line number of a corpus / JDK class is moved into an instruction (duke reads it: a label no instruction carries); the writer must refuse such a tree or write a well-formed file.",
    "level_note": "Bounded: item lists of the structured families only (not all lists of length 6: ~10^10), pads materialised as `wide iinc` (6 bytes) + `nop` so that a 65535 byte method has 11k instructions; pool universe of 14-18 constants, sequences of <= 2 (quick) / 3 (thorough). Trusted: TLC; cfkit (independent assembler, strict parser, projection of duke's tree to class facts) - it never decides, it produces inputs and observations; the harness's run-length view of instruction lists (64 bit hashes of the other instructions) and its pairing of index-bearing facts by path. Success is demanded wherever a correct file exists (the property text alone would also allow a writer that always refuses). Known findings (StackMapTable and unknown Code attributes not written; u16 overflow panic / invalid file for a long backward `if` at the very end of a full method) are matched by narrow signatures; every other disagreement is a violation.",
    "assumptions": ["TLC/SANY/CommunityModules", "cfkit: independent JVMS assembler, strict parser, duke tree -> class facts projection",
                    "harness: run-length skeleton of instruction lists (hash equality of runs), pairing of instruction-index facts by JSON path",
                    "bounded universe: structured item-list families up to 7 items; pool sequences up to 3 constants",
                    "pads are `wide iinc`/`nop` mixtures (same bytes, fewer instructions than pure nops)"],
}
