"""C10: dummy mappings."""


def _kids(n):
    k = n.get("kids")
    return k if isinstance(k, dict) else {}


def _count(n):
    return sum(1 + _count(c) for c in _kids(n).values())


def _cls(r):
    if r["op"] == "cycle":
        ch = r["exp"].get("v") if isinstance(r["exp"], dict) else None
        n = len(ch.get("kids", {})) if isinstance(ch, dict) else 0
        return "cycle/%s/%s" % (r["edit"], "changes" if n else "nothing")
    if r["op"] == "remove":
        a, b = _count(r["M"]), _count(r["exp"]["v"])
        return "remove/" + ("none" if a == b else ("all" if b <= 1 else "some"))
    a, b = _count(r["D"]), _count(r["exp"])
    return "insert/" + ("none" if a == b else ("all" if b == 0 else "some"))


P = {
    "s2i_rev": True,
    "dir": "quill",
    "mc": [{"module": "MC_Dummy", "cfg": "MC_Dummy.cfg"},
           # beyond the listed property: the edit cycle (remove_dummy -> enigma dir -> read -> diff -> insert_dummy) as composed by
           # src/main.rs, see spec/system/EditCycle.tla; the law Faithful is an invariant of this model, the law NoOp is checked by
           # MC_EditCycle_design.cfg only (not registered: the composition as coded violates it for nested placeholder classes, DESIGN.md 9.5)
           {"module": "MC_EditCycle", "cfg": "MC_EditCycle.cfg", "dir": "system", "trace": False}],
    "trace": {"module": "Trace_Dummy", "cfg": "Trace_Dummy.cfg"},
    "trace_s2i": 300,
    "i2s_n": {"quick": 300, "thorough": 3000},
    "classify_vec": _cls,
    "required_classes": ["remove/none", "remove/some", "remove/all", "insert/none", "insert/some", "insert/all",
                         "cycle/none/nothing", "cycle/none/changes", "cycle/rename-outer/changes", "cycle/name-field/changes", "cycle/unname-field/changes", "cycle/add-class/nothing"],
    "level_text": "(Every vector of the bounded model is replayed twice, the second time with the entries of every mapping set inserted in the opposite order, and every second recorded case is built that way: the answers may not depend on insertion order.) remove_dummy is specified operationally (nested retain closures, children first) and declaratively from the documented rules (an entry is removed iff its name in the chosen namespace is a placeholder of its kind - f_, m_/<init>/<clinit>, p_, C_/net/minecraft/unmapped/C_ as a prefix -, it carries no comment and all its children are removed; all other entries unchanged; idempotent; never removed with a retained child); the diff-side insert_dummy likewise (removal -> edit back to source name / p_<index> / simple inner name, additions of fields and parameters discarded, additions of methods and classes only kept with remaining children, nodes that change nothing and have no children dropped, idempotent). TLC checks operational = declarative on the exhaustive truth table of names (absent, placeholder, contains the prefix, ends with it, real, <init>/<clinit>, both class prefixes) x comment x children at depth class > method > parameter and class > field, with the chosen namespace last of 2 and of 3, and every action x comment action x children on the diff side for class keys K, A$B, p/A$B$1. Every case is replayed through the real functions; random larger trees with placeholder-like names and real diffs are judged by TLC.",
    "level_note": "Trusted: TLC string operators, projection of mapping and diff trees (proj_quill.rs).",
    "assumptions": ["TLC/SANY/CommunityModules", "harness projection (proj_quill.rs)"],
}
