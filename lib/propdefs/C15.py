"""C15: bridge methods."""


def _cls(r):
    t = r.get("tag", {})
    acc = "+".join(sorted(t.get("acc") or [])) or "plain"
    if r["op"] == "bridges":
        return "bridges/%s/%s/%s" % (acc, t.get("cv"), "yes" if r.get("any") else "no")
    return "mappings/%s/%s/%s/%s" % (t.get("where"), t.get("existing"), "class" if t.get("hasclass") else "noclass", "update" if r.get("any") else "same")


def _req():
    out = []
    for acc in ("bridge+synthetic", "synthetic", "private+synthetic", "static+synthetic", "final+synthetic", "bridge", "plain", "bridge+static+synthetic"):
        out.append("bridges/%s/delegate/%s" % (acc, "yes" if acc in ("bridge+synthetic", "bridge+static+synthetic") else "no") if acc != "synthetic" else "bridges/synthetic/delegate/yes")
    out += ["bridges/synthetic/delegate/no", "bridges/bridge+synthetic/none/no", "bridges/bridge+synthetic/two/no", "bridges/bridge+synthetic/nocode/no",
            "bridges/bridge+synthetic/base/yes", "bridges/bridge+synthetic/outside/yes"]
    for where in ("sub", "base", "top", "nowhere", "shadow"):
        for ex in ("none", "plain", "rich"):
            out.append("mappings/%s/%s/class/update" % (where, ex))
    out += ["mappings/sub/none/noclass/same", "mappings/base/plain/class/same"]
    return out


P = {
    "dir": "jar",
    "mc": [{"module": "MC_Bridge", "cfg": "MC_Bridge.cfg"}],
    "trace": {"module": "Trace_Bridge", "cfg": "Trace_Bridge.cfg"},
    "trace_s2i": 300,
    "i2s_n": {"quick": 300, "thorough": 3000},
    "classify_vec": _cls,
    "required_classes": _req(),
    "level_text": "The bridge predicate (synthetic, body invokes exactly one distinct method on an object class, flagged bridge or inheritable with equal arity and position-wise bridge-compatible parameter and return types: equal, or plain object types not provably unrelated given the classes of the jar) and the effect on the mappings (for every qualifying method, translated official -> intermediary through the calamus remapper with the jars' inheritance, the invoked method's entry inside the bridge's class receives the name the named mappings give the bridge through inheritance; existing entries keep comment and parameters, missing ones are created, classes absent from the mappings are skipped, everything else identical) are specified declaratively and as the code's update loop; TLC checks loop = statement, well-keyedness and 'nothing else changes' over access-flag variants x invoked sets (none, one, one twice, two, a super class method, a method outside, no body) x ten signature pairs (covariant return, erasure to Object / to a bound, reversed bound, primitives, arity, void vs value, arrays) x type classes in the main jar / a library / nowhere / partly x renames in calamus x the bridge named in its class / only in a super class / nowhere x existing delegate entry none / plain / with comment and parameter x class present / absent. Every case is materialised as real jars (classes assembled by the independent assembler) and run through Jar::get_specialized_methods and add_specialized_methods_to_mappings; random class chains with several candidates are judged by TLC. The named mappings may also list the bridge without a target name in its own class while a super class names it (shadow): the name still comes through inheritance.",
    "level_note": "Trusted: TLC, projection of mapping trees, harness/src/jarkit.rs (abstract jar -> class facts -> cfkit assembler -> zip), C06's remapper specification (reused). The module under test is compiled into the harness via #[path] with Official / Intermediary / Named supplied by the harness. Two bridges of one class delegating to the same method (order dependent result) are outside the quantifier and not generated.",
    "assumptions": ["TLC/SANY/CommunityModules", "cfkit assembler", "harness projection (proj_quill.rs)"],
}
