"""C01: the class reader delivers every fact of a valid class file accurately."""
import copy, random


# ---- naming a disagreement (grouping only: the verdict comes from TLC / from the comparison with TLC's expectation) ----
def _walk(e, g, gpath, out):
    """Difference atoms of two facts values, named like cfkit::duke_diff (kind:generalised path)."""
    if e == g:
        return
    if isinstance(e, dict) and isinstance(g, dict):
        for k in sorted(set(e) | set(g)):
            p = gpath + "/" + k
            if k in e and k in g:
                _walk(e[k], g[k], p, out)
            elif k in e:
                out.append(("missing-in-duke(empty-list):" if e[k] == [] else "missing-in-duke:") + p)
            else:
                out.append("extra-in-duke:" + p)
    elif isinstance(e, list) and isinstance(g, list):
        if len(e) == len(g):
            for x, y in zip(e, g):
                _walk(x, y, gpath + "/#", out)
        else:
            out.append(("missing-in-duke:" if len(e) > len(g) else "extra-in-duke:") + gpath + "/#")
    elif (e in ([], {}) and g in ([], {})):
        return
    else:
        out.append("different:" + gpath)


def _codes(facts):
    for m in facts.get("methods") or []:
        c = (m.get("attrs") or {}).get("Code") if isinstance(m.get("attrs"), dict) else None
        if isinstance(c, dict):
            yield c


def _code_attrs(c):
    a = c.get("attrs")
    return a if isinstance(a, dict) else {}


def _ends(facts):
    """Which tables of the vector's facts touch the position behind the last instruction."""
    t = set()
    for c in _codes(facts):
        n = len(c.get("insns") or [])
        a = _code_attrs(c)
        if any(r.get("end") == n for r in c.get("exceptions") or []):
            t.add("exception-end")
        for key, tag in (("LocalVariableTable", "lvt"), ("LocalVariableTypeTable", "lvtt")):
            if any(r.get("end") == n for r in a.get(key) or []):
                t.add(tag + "-end")
        for key in ("RuntimeVisibleTypeAnnotations", "RuntimeInvisibleTypeAnnotations"):
            for ta in a.get(key) or []:
                for r in (ta.get("target") or {}).get("table") or []:
                    if r.get("end") == n:
                        t.add("localvar-target-end")
                    if r.get("start") == n:
                        t.add("localvar-target-start")
    return t


def c01_sig(v):
    rec = v.get("rec") or {}
    got = v.get("got") if isinstance(v.get("got"), dict) else {}
    exp = v.get("exp") if isinstance(v.get("exp"), dict) else {}
    if v.get("kind") == "i2s":                       # the atoms Trace_ClassRead computed
        atoms = exp.get("atoms") or ["?"]
        return ["impl|fact|" + a for a in atoms]
    if "panic" in got:
        return ["impl|fact|panic"]
    if got.get("skipped"):
        return ["harness|read|encoding not encodable: " + str(got.get("why", ""))[:80]]
    e, g = exp.get("res") or {}, got.get("res") or {}
    sigs = []
    if e.get("ok") and not g.get("ok"):
        ends = _ends(rec.get("facts") or {})
        why = []
        if "exception-end" in ends:
            why.append("exception end_pc = code_length")
        if "localvar-target-start" in ends:
            why.append("localvar_target start_pc = code_length")
        if (rec.get("facts") or {}).get("version") == [67, 65535]:
            why.append("class file version 67.65535")
        # one atom: a file that uses several of these cannot be attributed to one of them
        sigs.append("impl|fact|refused:" + (" + ".join(why) if why else "other"))
    elif e.get("ok") and g.get("ok"):
        if isinstance(g.get("v"), dict) and "proj_error" in g["v"]:
            sigs.append("impl|fact|tree-inconsistent")
        else:
            out = []
            _walk(e.get("v"), g.get("v"), "", out)
            sigs += ["impl|fact|" + a for a in sorted(set(out))]
    for k in ("offs", "len"):
        if k in exp and got.get(k) != exp.get(k):
            sigs.append("layout|" + k + " of the assembled file differs from ClassFacts!Layout")
    return sigs or ["impl|fact|?"]


# ---- classes of vectors (vacuity guard + coverage counts in the evidence) ----------------------------------------------
_FORM_FAMILY = {"ldc": "ldc", "goto": "goto", "jsr": "jsr", "ret": "ret", "iinc": "iinc"}
for _p in "ilfda":
    _FORM_FAMILY[_p + "load"] = "load"
    _FORM_FAMILY[_p + "store"] = "store"


def _const_kind(c):
    k = next(iter(c)) if isinstance(c, dict) and c else "?"
    if k == "dynamic":
        return "dynamic2" if c[k].get("desc") in ("J", "D") else "dynamic"
    return k


def c01_class(r):
    facts, enc, exp = r.get("facts") or {}, r.get("enc") or {}, r.get("exp") or {}
    cl = ["fam/" + str(r.get("fam"))]
    ver = facts.get("version") or [0, 0]
    cl.append("version/%d" % ver[0])
    if ver[1] == 65535 and ver[0] >= 56:
        cl.append("version/preview")
    forms = {(f[0], f[1]): f[2] for f in enc.get("forms") or []}
    offs = exp.get("offs") or []
    for mi, c in enumerate(_codes(facts)):
        for i, x in enumerate(c.get("insns") or []):
            op = x.get("op")
            cl.append("op/" + op)
            if op == "ldc":
                cl.append("ldc/" + _const_kind(x.get("const")))
            if op in _FORM_FAMILY:
                cl.append("form/%s/%s" % (_FORM_FAMILY[op], forms.get((mi, i), "?")))
                if "var" in x:
                    cl.append("var/" + ("lt4" if x["var"] < 4 else "lt256" if x["var"] < 256 else "wide"))
            if op in ("tableswitch", "lookupswitch") and mi == 0 and i < len(offs):
                cl.append("%s/pad%d" % (op, (3 - offs[i] % 4) % 4))
        for k in _code_attrs(c):
            cl.append("attr/" + k)
        if c.get("exceptions"):
            cl.append("attr/exceptions")
        a = _code_attrs(c)
        for f in a.get("StackMapTable") or []:
            if any(isinstance(t, dict) and "uninitialized" in t for t in (f.get("locals") or []) + (f.get("stack") or [])):
                cl.append("frame/uninitialized")
            if f.get("at") == 0:
                cl.append("frame/at-first-instruction")
        for key in ("RuntimeVisibleTypeAnnotations", "RuntimeInvisibleTypeAnnotations"):
            for ta in a.get(key) or []:
                cl.append("target/" + str((ta.get("target") or {}).get("kind")))
    for level, members in (("class", [facts]), ("field", facts.get("fields") or []), ("method", facts.get("methods") or [])):
        for m in members:
            a = m.get("attrs")
            for k in (a if isinstance(a, dict) else {}):
                if k != "Code":
                    cl.append("attr/%s:%s" % (level, k))
    rec = (facts.get("attrs") or {}).get("Record") if isinstance(facts.get("attrs"), dict) else None
    if rec is not None:
        cl.append("record/%s" % ("empty" if not rec else "components"))
    cl += ["end/" + t for t in sorted(_ends(facts))]
    cl.append("enc/pool:%s" % enc.get("pool_order"))
    if (enc.get("pool_pad") or 0) > 255:
        cl.append("enc/pool-pad>255")
    if enc.get("dedup") is False:
        cl.append("enc/no-dedup")
    cl.append("enc/frames:%s" % enc.get("frame_forms"))
    cl.append("enc/attr-order:" + ("shuffled" if enc.get("attr_order_seed") else "default"))
    if (enc.get("split_line_tables") or 1) > 1:
        cl.append("enc/split-line-tables")
    return sorted(set(cl))


def c01_class_i2s(r):
    g = r.get("got") or {}
    src = str(r.get("id", "?")).split("/")[0]
    out = ["class/%s/%s" % (src, "as-compiled" if r.get("enc") == "file" else r.get("enc"))]
    if g.get("skipped"):
        return out + ["class/skipped"]
    out.append("class/read" if g.get("ok") else "class/refused")
    cov = g.get("cover") or {}
    out += ["i2s-op/" + o for o in cov.get("ops") or []]
    out += ["i2s-attr/" + a for a in cov.get("attrs") or []]
    return out


# ---- binding self-test: records the implementation did NOT produce, one semantic change each -------------------------
def c01_corrupt(recs, seed):
    rnd = random.Random(seed ^ 0xC01)
    good = [r for r in recs if isinstance(r.get("got"), dict) and r["got"].get("ok") and r["got"].get("methods")]
    rnd.shuffle(good)
    out = []

    def add(r, fn):
        c = copy.deepcopy(r)
        if fn(c["got"]) is not False:
            out.append(c)

    def pick(g, pred):
        ms = [m for m in g["methods"] if pred(m["duke"])]
        return rnd.choice(ms)["duke"] if ms else None

    def shift_target(g):
        d = pick(g, lambda d: d["tg"])
        if d is None:
            return False
        row = rnd.choice(d["tg"])
        row[1][0] = (row[1][0] + 1) % max(d["n"], 2)

    def drop_row(key):
        def f(g):
            d = pick(g, lambda d: d[key])
            if d is None:
                return False
            d[key].pop(rnd.randrange(len(d[key])))
        return f

    def move_row(key, col):
        def f(g):
            d = pick(g, lambda d: d[key])
            if d is None:
                return False
            row = rnd.choice(d[key])
            row[col] = row[col] + 1 if row[col] < d["n"] else row[col] - 1
        return f

    def frame_moves(g):
        d = pick(g, lambda d: d["frames"] and d["n"] > len(d["frames"]))
        if d is None:
            return False
        used = {f[0] for f in d["frames"]}
        f = rnd.choice(d["frames"])
        f[0] = next(i for i in range(d["n"]) if i not in used)
        d["frames"].sort(key=lambda x: x[0])

    def frame_type(g):
        d = pick(g, lambda d: d["frames"])
        if d is None:
            return False
        rnd.choice(d["frames"])[1].append(["top"])

    def swap_methods(g):
        ms = g["methods"]
        for i in range(len(ms)):
            for j in range(i + 1, len(ms)):
                if ms[i]["duke"] != ms[j]["duke"]:
                    ms[i]["duke"], ms[j]["duke"] = ms[j]["duke"], ms[i]["duke"]
                    return
        return False

    def one_more_insn(g):
        rnd.choice(g["methods"])["duke"]["n"] += 1

    def invented_diff(g):
        g["diffs"].append(["/fields/#/attrs/Signature", "different", "", 0, 0])
        g["duke_hash"] = "0" * 16

    def hash_only(g):
        if g["diffs"]:
            return False
        g["duke_hash"] = "0" * 16

    def refused(g):
        g["ok"] = False
        g["err"] = "invented"

    def panicked(g):
        g["panic"] = True

    muts = [shift_target, drop_row("exc"), drop_row("lines"), drop_row("frames"), drop_row("tg"), move_row("exc", 1), move_row("exc", 2),
            move_row("lines", 0), frame_moves, frame_type, swap_methods, one_more_insn, invented_diff, hash_only, refused, panicked,
            drop_row("tav"), drop_row("lvt")]
    for k, m in enumerate(muts):
        n = 0
        for r in good[k::3] + good:
            before = len(out)
            add(r, m)
            n += len(out) - before
            if n >= 3:
                break
    return out


_SHAPE_OPS = ["nop", "bipush", "sipush", "ldc", "iload", "lload", "fload", "dload", "aload", "istore", "lstore", "fstore", "dstore", "astore", "ret", "iinc",
              "ifeq", "if_acmpne", "ifnonnull", "goto", "jsr", "tableswitch", "lookupswitch", "getstatic", "putstatic", "getfield", "putfield",
              "invokevirtual", "invokespecial", "invokestatic", "invokeinterface", "invokedynamic", "new", "newarray", "anewarray", "checkcast",
              "instanceof", "multianewarray", "return"]

P = {
    "dir": "duke",
    "mc": [{"module": "MC_ClassRead", "cfg": "MC_ClassRead.cfg", "timeout": {"quick": 600, "thorough": 3000}}],
    "trace": {"module": "Trace_ClassRead", "cfg": "Trace_ClassRead.cfg", "timeout": 3000},
    "i2s_n": {"quick": 700, "thorough": 12000},
    "classify_vec": c01_class,
    "classify_i2s": c01_class_i2s,
    "required_classes": ["fam/" + f for f in ("shape", "branch", "pair", "exc", "dbg", "frm", "all", "ver", "members")]
                        + ["attr/class:" + a for a in ("SourceFile", "SourceDebugExtension", "Signature", "InnerClasses", "EnclosingMethod", "NestHost", "NestMembers",
                                                        "PermittedSubclasses", "Deprecated", "Synthetic", "RuntimeVisibleAnnotations", "RuntimeVisibleTypeAnnotations",
                                                        "Module", "ModulePackages", "ModuleMainClass", "Record", "unknown")]
                        + ["attr/field:" + a for a in ("ConstantValue", "Signature", "Deprecated", "Synthetic", "RuntimeInvisibleAnnotations",
                                                        "RuntimeVisibleTypeAnnotations", "unknown")]
                        + ["attr/method:" + a for a in ("Exceptions", "Signature", "MethodParameters", "RuntimeVisibleParameterAnnotations",
                                                         "RuntimeInvisibleParameterAnnotations", "RuntimeVisibleAnnotations", "RuntimeInvisibleTypeAnnotations",
                                                         "AnnotationDefault", "Deprecated", "unknown")]
                        + ["record/empty", "record/components"]
                        + ["op/" + o for o in _SHAPE_OPS]
                        + ["ldc/" + k for k in ("int", "float", "long", "double", "string", "class", "method_handle", "method_type", "dynamic", "dynamic2")]
                        + ["form/ldc/short", "form/ldc/w", "form/load/short", "form/load/plain", "form/load/wide", "form/store/short", "form/store/plain",
                           "form/store/wide", "form/ret/plain", "form/ret/wide", "form/iinc/plain", "form/iinc/wide", "form/goto/short", "form/goto/w",
                           "form/jsr/short", "form/jsr/w", "var/lt4", "var/lt256", "var/wide"]
                        + ["%s/pad%d" % (s, p) for s in ("tableswitch", "lookupswitch") for p in range(4)]
                        + ["attr/" + a for a in ("exceptions", "LineNumberTable", "LocalVariableTable", "LocalVariableTypeTable", "StackMapTable",
                                                 "RuntimeVisibleTypeAnnotations", "RuntimeInvisibleTypeAnnotations", "unknown")]
                        + ["end/exception-end", "end/lvt-end", "end/lvtt-end", "end/localvar-target-end", "end/localvar-target-start",
                           "frame/uninitialized", "frame/at-first-instruction", "target/new", "target/local_variable", "target/exception_parameter"]
                        + ["enc/pool:first_use", "enc/pool:reverse", "enc/pool:shuffle", "enc/pool-pad>255", "enc/no-dedup", "enc/frames:compact",
                           "enc/frames:full", "enc/frames:extended", "enc/attr-order:default", "enc/attr-order:shuffled", "enc/split-line-tables"]
                        + ["version/%d" % m for m in range(45, 68)] + ["version/preview"],
    "signature": c01_sig,
    "corrupt": c01_corrupt,
    "level_text": "What a class file states is specified independently of its layout (ClassFacts: code as instructions whose branch operands and all table entries are instruction indices or `end`; Encoding separately: instruction forms, switch padding, attribute order, frame compression, pool layout), and the reader of a Code attribute as the machine the code is (ClassRead: explicit offset -> label table; first pass over branch targets, exception rows, table rows in file order incl. the running offset_delta sum and the exclusive end = code_length, second pass attaching labels and frames, last label, table events). TLC lays out every case of a bounded universe itself (one representative per operand shape x every form; every branching shape at each of the 4 switch paddings; shape-form pairs; up to two exception ranges incl. end at code end; line / local variable / type tables touching start, middle and end; every compressed frame kind incl. uninitialized offsets; type annotation targets; attribute orders; versions 45.3..67), runs the machine over the raw layout one step per action and checks in every state that the label table is an injection onto instruction boundaries, and at the end that every operand and table row denotes exactly the instruction the facts say, every frame travels with the instruction at its offset, every fact is in exactly one event, and the result equals that of the canonical encoding. Every case is assembled by an independent assembler (cfkit) under the chosen encoding, read by duke::read_class, projected and compared with the facts (and TLC's computed byte layout with the assembled one). Corpus and sample classes (javac 8/11/17 output, JDK classes, 50 hand-written feature classes incl. every opcode, each under up to 10 encodings) are read by duke and by the independent parser; TLC re-runs the machine over the raw offsets / table rows of every method and requires duke's positions to be its result, and judges every reported difference of the rest of the class (flag bits JVMS assigns no meaning, empty annotation tables, the BootstrapMethods table and narrowed Z/B/C/S element constants are not facts).",
    "level_note": "Bounded: MC methods have at most 6 instructions and fixed payloads per shape; the constant pool is varied only through the assembler's layouts (order, padding, dedup), it is not modelled. Trusted: TLC; cfkit's parser/assembler as producer of inputs and observer of raw structure (its own pc->index resolution is NOT trusted: TLC recomputes it from byte offsets); the projection duke tree -> facts (cfkit::proj_duke); the reshaping of facts into position lists in c01.rs. Bit-level decoding of modified UTF-8 / IEEE values is covered only by round trips of chosen values. Not judged: class files outside the property (duplicate attributes, empty member names, SourceDebugExtension that is not modified UTF-8, LocalVariableTable rows starting at code_length, versions outside 45.3..67) - for those only 'no panic'. Known findings are matched by one narrow atom each (kind:path or refusal cause); every other atom of the same class file is still a violation.",
    "assumptions": ["TLC/SANY/CommunityModules", "cfkit (independent JVMS parser/assembler) as input producer and raw-structure observer",
                    "projection duke ClassFile -> class facts (cfkit::proj_duke) and facts -> position lists (c01.rs)",
                    "bounded universe: <= 6 instructions per method, one payload per operand shape, <= 2 exception rows, <= 4 line rows, <= 2 local rows, <= 3 frames",
                    "reserved access-flag bits, empty annotation/debug tables, unreferenced BootstrapMethods entries and out-of-range Z/B/C/S element constants are not facts (ClassFacts!IsFactDifference)"],
}
