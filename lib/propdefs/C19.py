"""C19: Maven resolution - nearest-wins mediation, scope table, effective POMs, repository fallback."""
from vlib import matches

# Scenario classes (vacuity guard).  The model tags every vector with all scenarios it exhibits (`cls`,
# computed by the specification from its own resolution: who lost, what was discarded, where a version
# came from ...); a vector is counted under ONE of its tags: the one counted least so far (so a tag is counted
# the first time it occurs).  So a class count > 0 means: TLC explored a case exhibiting the scenario and it
# went through the implementation.
_seen = {}


def c19_class(r):
    if r.get("op") == "dl":
        return r.get("cls")
    tags = sorted(r.get("cls") or []) or [r.get("op", "?")]
    t = min(tags, key=lambda x: (_seen.get(x, 0), x))
    _seen[t] = _seen.get(t, 0) + 1
    return t


TABLE = ["table:%s/%s" % (l, t) for l in ("compile", "provided", "runtime", "test") for t in ("compile", "provided", "runtime", "test")]

REQUIRED = [
    # mediation
    "conflict-depth",               # two versions of one artifact at different depths: nearest wins
    "tie-order",                    # same depth: first declaration wins
    "dup-same-version",             # same coordinates twice: listed once
    "nearer-but-later",             # the winner is nearer although a depth-first walk meets the loser first
    "loser-subtree-discarded",      # a loser's subtree holds an artifact that therefore is absent from the result
    "late-winner-keeps-subtree",    # ... that is not nearer than the discarded occurrence and has results below it (family MD)
    "late-winner",                  # a winner that comes later in breadth-first order than a discarded child of a loser
    "no-conflict",
    # effective POM
    "mgmt-version", "mgmt-version-wins-conflict", "mgmt-scope", "mgmt-from-bom", "mgmt-from-parent",
    "explicit-beats-managed", "inherited-dep", "inherited-next-to-own-other-key", "inherited-dep-child-mgmt", "inherits-group-version",
    "mgmt-order-unspecified",
    # cutting and scopes
    "optional-cut", "optional-false-kept",
    "cut-does-not-compete",         # an optional / test / provided occurrence that would have been nearest does not win
    # keys
    "key-classifier", "key-type", "key-group",
    # repositories
    "repo-second", "repo-both-first", "missing-needed", "missing-only-discarded",
    # round trips
    "roundtrip-coord", "roundtrip-scope", "roundtrip-found",
] + TABLE + ["dl:xml:none:none", "dl:vec:none:none", "dl:json:hit:err", "dl:jar:hit:ok", "dl:vec:hit:ok", "dl:xml:err:err", "dl:xml:hit:ok"]

KNOWN_SIG = "impl|resolve|inherited-dependency-filled-from-declaring-ancestors-management"


def c19_sig(v):
    """Violations are grouped by the paths at which result and expectation differ.  One deviation is
    recognised exactly: the implementation's result equals what the specification computes when
    dependencies inherited from a parent take their omitted version / scope from the management of the
    ancestor that declares them (Maven.tla, fa = "parent") instead of the management of the POM being
    built.  TLC ships that alternative result with every vector (`alt`) and with every rejected trace
    record (exp.alt); nothing else is attributed to the known finding."""
    import importlib
    chk = importlib.import_module("__main__")
    rec = v.get("rec") or {}
    got, exp = v.get("got"), v.get("exp")
    alt = rec.get("alt")
    if alt is None and isinstance(exp, dict):
        alt = exp.get("alt")
    if rec.get("op") == "resolve" and isinstance(alt, dict) and "ok" in alt and isinstance(got, dict) and "ok" in got:
        same = (got.get("ok") is False and alt["ok"] is False) or (got.get("ok") is True and alt["ok"] is True and matches(got, alt))
        if same:
            return KNOWN_SIG
    return chk.default_sig(v)


def c19_corrupt(recs, seed):
    """Binding self-test: results of the real code altered in one place each (two entries swapped, one
    entry dropped, a version / scope / repository replaced, an error turned into an empty list and a list
    into an error, a round-trip component changed) must all be rejected by the trace specification."""
    import random, copy
    rnd = random.Random(seed ^ 0xC19)
    out = []
    pool = [r for r in recs if isinstance(r.get("got"), dict) and "ok" in r["got"]]
    rnd.shuffle(pool)
    for r in pool:
        if len(out) >= 60:
            break
        c = copy.deepcopy(r)
        g = c["got"]
        if r["op"] == "resolve":
            if not g["ok"]:
                if isinstance(r.get("exp"), dict):
                    continue
                c["got"] = {"ok": True, "v": []}
                c["mut"] = "err->empty"
            else:
                v = g["v"]
                kinds = ["to-error"]
                if len(v) >= 2:
                    kinds += ["swap", "swap", "drop", "drop"]
                if len(v) >= 1:
                    kinds += ["version", "scope", "repo", "dup"]
                k = rnd.choice(kinds)
                c["mut"] = k
                if k == "to-error":
                    # an error is only wrong where no POM is missing anywhere; the specification decides,
                    # so use it only on universes whose repositories serve every POM
                    served = {(i["g"], i["a"], i["v"]) for rp in r["U"]["repos"] for i in rp["has"]}
                    if any((p["g"], p["a"], p["v"]) not in served for p in r["U"]["poms"]):
                        continue
                    c["got"] = {"ok": False, "v": []}
                elif k == "swap":
                    i = rnd.randrange(len(v) - 1)
                    if v[i] == v[i + 1]:
                        continue
                    v[i], v[i + 1] = v[i + 1], v[i]
                elif k == "drop":
                    del v[rnd.randrange(len(v))]
                elif k == "dup":
                    v.append(copy.deepcopy(rnd.choice(v)))
                elif k == "version":
                    e = rnd.choice(v)
                    e["v"] = e["v"] + ".9"
                elif k == "scope":
                    e = rnd.choice(v)
                    e["s"] = "system"
                elif k == "repo":
                    e = rnd.choice(v)
                    e["r"] = e["r"] + "x"
        else:
            if not g["ok"]:
                continue
            c["mut"] = "component"
            if r["op"] == "scope":
                g["v"] = "test" if g["v"] != "test" else "compile"
            else:
                f = rnd.choice(["g", "a", "v", "t", "c"])
                g["v"][f] = (g["v"][f] + "x") if f != "c" else (["x"] if not g["v"]["c"] else [])
        out.append(c)
    return out


P = {
    "dir": "maven",
    "mc": [{"module": "MC_Maven", "cfg": "MC_Maven.cfg", "workers": 6},
           # growth: the download cache behind the binary's implementation of the resolver's Downloader trait (spec/system/DownloadCache.tla)
           {"module": "MC_DownloadCache", "dir": "system", "cfg": "MC_DownloadCache.cfg", "s2i": False, "workers": 4},
           {"module": "MC_DownloadCache", "dir": "system", "cfg": "MC_DownloadCache_seq.cfg", "s2i": False, "workers": 4},
           {"module": "MC_DownloadCache", "dir": "system", "cfg": "MC_DownloadCache_dir.cfg", "trace": False, "workers": 1}],
    "trace": {"module": "Trace_Maven", "cfg": "Trace_Maven.cfg"},
    "trace_s2i": 300,
    "i2s_n": {"quick": 400, "thorough": 4000},
    "classify_vec": c19_class,
    "required_classes": REQUIRED,
    "signature": c19_sig,
    "corrupt": c19_corrupt,
    "level_text": "Maven resolution is specified twice in spec/maven/Maven.tla: operationally as the code is built (parent-chain merge, management = own entries, imports in place, parent's; dependencies filled from management; recursive expansion with the scope match and the optional cut; breadth-first retain with a first-seen set as explicit queue steps; breadth-first flatten; repository loop) and declaratively from the documented rules (lookup of the managed entry along lineage and imports, the documented 4x4 scope table, Kept(n) <=> ancestors kept and no kept rival precedes n in (depth, declaration path) order, first repository in list order). TLC checks over the bounded families of MC_Maven (all dependency graphs over 8 POMs with two conflicted artifacts up to an edge bound; root scope x two edges with declared/managed/omitted scope, optional, managed version; a managed entry at each of own / 2 BOMs / parent / parent's BOM / grandparent x declaring level; key variants; every POM in first/second/both/no repository) that both coincide and that the result has no two entries of one artifact, is closed under kept ancestors, carries the closed-form scope, and is in breadth-first order. Every explored case is replayed through get_maven_dependencies on POM XML served by an in-memory Downloader and compared with the specification's result; seeded random larger universes (up to 12 artifacts x 2 versions, 2 chained parents, 2 BOMs, 3 repositories, depth 5) resolved by the real code are re-judged by TLC (trace validation), as are Display/parse round trips of MavenCoord, DependencyScope and FoundDependency. Family MD: an artifact met first (depth first) below an occurrence that loses mediation and again, not nearer, below the winner - the second occurrence is the result and keeps everything below it.",
    "level_note": "Trusted: TLC; the harness rendering of abstract POMs to XML (serde_xml_rs, as the crate's tests), the Maven repository layout URL, a poll-loop executor, the projection of FoundDependency. Not judged (the property and the cited documentation are silent; both answers accepted): whether a POM missing only below a mediation loser is an error; whether a parent's declared management ranks above the child's BOM imports (Maven's model builder) or below (the code). Not modelled: real Maven's scope widening across occurrences, conflict ids by extension rather than type (test-jar/ejb), managed `optional`, system scope, anything outside the supported subset (interpolation, ranges, exclusions, profiles, management after imports, re-declared inherited dependencies, cycles). Known finding C19-inherited-dependency-management: see spec/maven/FINDINGS.md.",
    "assumptions": ["TLC/SANY/CommunityModules", "harness: abstract POM -> XML -> serde_xml_rs -> MavenPom; Maven repository layout URL",
                    "bounded universe: families M,MX,S,S2,G,GB,GC,GK,K,R,T of spec/maven/MC_Maven.tla",
                    "documentation-silent cases accepted either way (missing POM below a loser; parent's management vs child's imports)"],
}
