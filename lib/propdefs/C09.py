"""C09: Mappings::merge."""

P = {
    "dir": "quill",
    "mc": [{"module": "MC_Merge", "cfg": "MC_Merge.cfg"}],
    "trace": {"module": "Trace_Merge", "cfg": "Trace_Merge.cfg"},
    "trace_s2i": 300,
    "i2s_n": {"quick": 300, "thorough": 3000},
    "classify_vec": lambda r: "%s/%s/%s%s" % (r.get("op"), r.get("ph"), "ok" if r["exp"].get("ok") else "refuse", "" if r.get("wk") else "/unkeyed"),
    "required_classes": ["merge/pair/ok", "merge/pair/refuse", "merge/focus/ok", "merge/focus/refuse", "merge/focus/refuse/unkeyed",
                         "merge/two/ok", "merge/two/refuse", "merge/two-rev/ok", "merge/root/ok", "merge/root/refuse"],
    "level_text": "Mappings::merge is specified operationally (the code's zip over the union of keys with the A / B / AB combinations) and declaratively (refused iff first namespaces differ, comments differ, or descriptor / parameter index / shared-namespace name conflict on an entry present in both; otherwise keys = union at every level, column a from A, column b from B, absent where the side lacks the entry, comment from whichever side has one, projection onto (s,a) / (s,b) returns A / B). TLC checks operational = declarative over all pairs of one-key-per-level trees, a full focus table per level (presence x target name x comment absent/d/e x parameter source name x content disagreeing with its key), all overlaps of two class keys (each also with the entries of B inserted in the opposite order: the result may not depend on it) and all namespace / top-level comment combinations; every case is replayed through the real Mappings::merge; larger seeded random pairs (partial overlap at every level, comment conflicts, parameter source-name conflicts) run by the real code are judged by TLC with the declarative statement. Comments that are the empty string are comments like any other (conflict, projection).",
    "level_note": "Trusted: TLC, projection Mappings <-> abstract tree (proj_quill.rs). Bounded: MC universe has one key per level except the two-class family; I2S inputs up to 14 classes. Descriptor / index conflicts need entries stored under a key that disagrees with their content; they are generated only in the focus family.",
    "assumptions": ["TLC/SANY/CommunityModules", "harness projection quill Mappings <-> abstract tree (proj_quill.rs)"],
}
