"""C08: Mappings::reorder."""


def _cls(r):
    if r.get("op") == "build":
        t = r.get("tag", {})
        why = "ok" if r.get("ok") else ("unknown-version" if t.get("version") == "vX" else "holes" if t.get("holes") else "unknown-to-calamus" if t.get("extra") != "no" else "nesting-depth" if (t.get("dv") == "deep" and t.get("inner") == "nested" and t.get("version") == "v2") else "diff-does-not-apply" if t.get("dv") == "deep" and t.get("version") == "v2" else "other")
        return "build/%s/%s" % (why, t.get("bridge"))
    f = r["exp"]["first"]
    s = "reorder/" + ("ok" if f.get("ok") else "refuse")
    if not r.get("perm"):
        s += "/unknown-ns"
    elif r.get("ident"):
        s += "/identity"
    elif f.get("ok"):
        s += "/back" if r.get("nocap") else "/captured"
    return s


P = {
    "s2i_rev": True,
    "dir": "quill",
    "mc": [{"module": "MC_Reorder", "cfg": "MC_Reorder.cfg"},
           # the release build chains two reorders around a merge: the whole pipeline as a composition of the operation
           # specifications, bound to src/build.rs build_inner
           {"module": "MC_FeatherBuild", "cfg": "MC_FeatherBuild.cfg", "dir": "system", "trace": False}],
    "trace": {"module": "Trace_Reorder", "cfg": "Trace_Reorder.cfg"},
    "trace_s2i": 300,
    "i2s_n": {"quick": 300, "thorough": 3000},
    "classify_vec": _cls,
    "required_classes": ["reorder/ok/identity", "reorder/ok/back", "reorder/ok/captured", "reorder/refuse", "reorder/refuse/unknown-ns",
                         "build/ok/none", "build/ok/named", "build/ok/unnamed", "build/unknown-version/none", "build/holes/named", "build/unknown-to-calamus/none", "build/nesting-depth/none"],
    "level_text": "(Every vector of the bounded model is replayed twice, the second time with the entries of every mapping set inserted in the opposite order, and every second recorded case is built that way: the answers may not depend on insertion order.) Mappings::reorder is specified operationally (permute every name row, translate member descriptors with the class table old-first -> new-first, rebuild every map through add_child: missing first name or duplicate key is an error) and declaratively on flattened rows (the rows of the result are exactly the permuted rows of the input, none merged or lost, result well keyed; defined iff every class, field and method has a name in the new first namespace and no two siblings collide under their new keys; identity permutation changes nothing; reordering back returns the original unless an unmapped class name in a descriptor is captured). TLC checks the law for every permutation of three (thorough: four) namespaces over sets with absent names, colliding second names, descriptors mentioning mapped, array, unmapped and capturable classes, and sibling fields that collide only after translation; every case is replayed through Mappings::reorder (there and back); random larger sets run by the real code are judged by TLC with the declarative statement. A family of mapped classes whose names have characters of more than one byte (inside the name and at its end) occurs in field and method descriptors.",
    "level_note": "Trusted: TLC, projection Mappings <-> abstract tree. The order argument is always a list of N names (the API takes an array); lists that are not permutations are judged only for unknown names.",
    "assumptions": ["TLC/SANY/CommunityModules", "harness projection quill Mappings <-> abstract tree (proj_quill.rs)"],
}
