"""C03: Tiny v2 round trip."""
P = {
    "dir": "quill",
    "mc": [{"module": "MC_TinyV2", "cfg": "MC_TinyV2.cfg"}],
    "trace": {"module": "Trace_TinyV2", "cfg": "Trace_TinyV2.cfg"},
    "trace_s2i": 400,
    "i2s_n": {"quick": 300, "thorough": 3000},
    "classify_vec": lambda r: "%s/%s/%s" % (r.get("op"), r.get("fault", ""), "ok" if r["exp"].get("ok", True) else "refuse"),
    "required_classes": ["rt//ok", "lines//ok", "lines/dup/refuse", "lines/ind+/refuse", "lines/ind+/ok", "lines/tag/ok",
                         "lines/dropcell/refuse", "lines/addcell/refuse", "lines/emptycell1/refuse"],
    "level_text": "The Tiny v2 reader is specified as the indentation machine the code implements (one step per line, open path explicit) and model-checked: for every tree of the bounded universe and both sibling orders read(write(M)) = M with one line per entry (nothing merged, lost or re-parented), duplicated lines refused; all single-line faults enumerated. Every explored text (valid and faulted) is read by the real tiny_v2::read and compared with the specification's reader; every tree is written by the real writer from several insertion orders (byte-identical), read back (= M), rewritten (fixed point), and the real text is accepted by the specification's reader as a writing of M (TLC trace validation). Larger random sets (2-4 namespaces, unicode, multi-line comments, inner-class names, parameters with/without source names) go the same way.",
    "level_note": "Trusted: TLC; harness projection and the line splitter/joiner (tab split, \\n escape) in proj_quill.rs. Comments containing tab/CR or a literal backslash-n are outside the quantifier and not generated. Sibling order is not prescribed by the specification, only insertion-independence and stability.",
}
