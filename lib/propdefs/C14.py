"""C14: nesting renames classes identically in jars and in mappings (dukenest)."""
import re


def _cls(r):
    t = r.get("tag", {})
    op = r["op"]
    if op == "nest_jar":
        out = []
        for k in t.get("kinds", []):
            out.append("jar/%s/%s" % (k["type"], "applies" if k["applies"] else ("absent" if not k["present"] else "fails")))
            if k.get("enclMissing") and k["applies"]:
                out.append("jar/enclosing-created")
        out.append("jar/depth/%d" % t.get("depth", 0))
        out.append("jar/table/%d" % t.get("n", 0))
        if t.get("over"):
            out.append("jar/enclosing-of-failing-nest")
        if not t.get("plain"):
            out.append("jar/created-class-listed")
        if t.get("allapply"):
            out.append("jar/all-apply")
        out.append("jar/via-" + r.get("via", "value"))
        return sorted(set(out))
    if op == "agree":
        return ["agree/depth/%d" % t.get("depth", 0)] + (["agree/enclosing-created"] if t.get("created") else [])
    if op in ("apply", "undo", "applyundo"):
        out = ["%s/%s" % (op, t.get("mv"))]
        if t.get("descs"):
            out.append(op + "/descriptors-change")
        out.append("%s/chain/%d" % (op, t.get("chain", 0)))
        if not t.get("defined"):
            out.append(op + "/translation-undefined")
        return out
    if op == "remap_nests":
        return ["tr/%s/%s/%s" % (t.get("ty"), "derived" if t.get("derived") else "custom", t.get("mc")),
                "tr/method-" + str(t.get("meth")), "tr/encl-" + ("mapped" if t.get("me") else "unmapped"), "tr/nests-%d" % (2 if t.get("two") else 1)]
    if op == "read":
        return ["read/" + ("ok" if t.get("ok") else "err")] + (["read/duplicate-class"] if t.get("dup") else [])
    return op


def _req():
    out = []
    for ty in ("anonymous", "inner", "local"):
        out += ["jar/%s/applies" % ty, "jar/%s/fails" % ty, "jar/%s/absent" % ty]
        for d in ("derived", "custom"):
            out += ["tr/%s/%s/dd" % (ty, d), "tr/%s/%s/plain" % (ty, d), "tr/%s/%s/none" % (ty, d)]
    out += ["jar/depth/%d" % d for d in (0, 1, 2, 3, 4)]
    out += ["jar/table/%d" % d for d in (1, 2, 3, 4)]
    out += ["jar/enclosing-created", "jar/enclosing-of-failing-nest", "jar/created-class-listed", "jar/all-apply", "jar/via-text", "jar/via-value",
            "agree/depth/1", "agree/depth/2", "agree/depth/3", "agree/depth/4", "agree/enclosing-created",
            "tr/anonymous/derived/cal", "tr/anonymous/custom/cal", "tr/anonymous/custom/bare", "tr/anonymous/custom/calx", "tr/inner/derived/ddd",
            "tr/inner/derived/ddslash", "tr/method-named", "tr/method-unnamed", "tr/method-none", "tr/encl-mapped", "tr/encl-unmapped", "tr/nests-2",
            "read/ok", "read/err", "read/duplicate-class"]
    for op in ("apply", "undo", "applyundo"):
        out += ["%s/%s" % (op, mv) for mv in ("all", "some", "none", "nodst", "cal", "calx")]
        out += [op + "/descriptors-change", op + "/chain/1", op + "/chain/4"]
    out += ["apply/translation-undefined"]
    return out


def _cls_i2s(r):
    g = r.get("got")
    st = g.get("st", "?") if isinstance(g, dict) and "panic" not in g else "panic"
    out = ["%s/%s" % (r.get("op"), st)]
    if r.get("via") == "text":
        out.append("%s/table-read-from-text" % r.get("op"))
    if r.get("op") == "nest_jar" and isinstance(g, dict) and g.get("st") == "ok":
        depth = max([k.count("$") for k in g.get("names", {})] + [0])
        out.append("nest_jar/deepest-name-%d-dollars" % depth)
    return out


def _alts(e):
    return e["anyof"] if isinstance(e, dict) and "anyof" in e else [e]


def _sig(v):
    """Groups disagreements by what is wrong, not by the names involved: a list of atoms, each judged on its own."""
    from vlib import matches, diff_paths
    rec = v.get("rec") or {}
    op = rec.get("op", "?")
    got, exp = v.get("got"), v.get("exp")
    pre = "impl|%s|" % op
    if isinstance(got, dict) and "panic" in got:
        msg = re.sub(r"[0-9]+", "N", str(got["panic"]))[:80]
        ctx = ""
        kids = (rec.get("tree") or {}).get("kids") or {}
        if any(isinstance(c, dict) and len(c.get("names", [])) > 1 and c["names"][1] == "" for c in kids.values()):
            ctx = "|mapping-set-has-class-without-target-name"
        return [pre + "panic|" + msg + ctx]
    if not isinstance(exp, dict) or not isinstance(got, dict):
        return [pre + "shape"]
    if "anyof" in exp and all(isinstance(a, dict) and set(a) == {"st"} for a in exp["anyof"]):
        return [pre + "neither-result-nor-refusal"]
    if got.get("st") != exp.get("st"):
        return [pre + "exp=%s|got=%s%s" % (exp.get("st"), got.get("st"), ("@" + str(got.get("where"))) if got.get("where") else "")]
    atoms = []
    if op in ("nest_jar", "agree"):
        others = set((got.get("others") or {}).keys())
        for key in (("names",) if op == "nest_jar" else ("jarNames", "mapNames")):
            if key not in exp or matches(got.get(key), exp[key]):
                continue
            g = set((got.get(key) or {}).keys())
            alts = [set(a.keys()) for a in _alts(exp[key])]
            need = set.intersection(*alts)
            may = set.union(*alts)
            for m in sorted(need - g):
                if m in others:
                    atoms.append(key + ":created-class-stored-under-entry-name-without-.class")
                elif any(x.startswith(m + " (states") for x in g):
                    atoms.append(key + ":entry-name-and-class-name-differ")
                else:
                    atoms.append(key + ":class-missing")
            for m in sorted(g - may):
                atoms.append(key + ":unexpected-class")
        if op == "nest_jar":
            alts = [set(a.keys()) for a in _alts(exp.get("names") or {})]
            may = set.union(*alts) if alts else set()
            for m in sorted(others - set((rec.get("others") or {}).keys())):
                atoms.append("names:created-class-stored-under-entry-name-without-.class" if m in may else "others:entry-appeared")
            if set((rec.get("others") or {}).keys()) - others:
                atoms.append("others:entry-lost")
        for cn, ec in (exp.get("classes") or {}).items():
            gc = (got.get("classes") or {}).get(cn)
            if gc is None:
                continue
            for k in ec:
                if not matches(gc.get(k), ec[k]):
                    atoms.append("class:" + k)
    elif op in ("apply", "undo", "applyundo"):
        atoms = ["src:" + p for p in diff_paths(got.get("src"), exp.get("src"))]
    elif op in ("remap_nests", "read"):
        gn, en = got.get("nests") or {}, exp.get("nests") or {}
        for c in sorted(set(gn) | set(en)):
            if c not in gn:
                atoms.append("nest-missing")
            elif c not in en:
                atoms.append("nest-unexpected")
            else:
                atoms += ["nest:" + k for k in sorted(en[c]) if gn[c].get(k) != en[c][k]]
    atoms = sorted(set(atoms)) or ["rejected-by-law"]
    return [pre + a for a in atoms]


def _corrupt(recs, seed):
    """Binding self-test: records on which the law is binding (TLC decides which: Trace_Nest_bound.cfg) are given another record's
    result, or their own result with one part removed; every such record must be rejected."""
    import copy, os, random
    from vlib import VERIF, WORK, ToolError, deq, run_tlc, tlc_strings, write_ndjson
    if not recs:
        return []
    wd = os.path.join(WORK, "C14")
    os.makedirs(wd, exist_ok=True)
    path = os.path.join(wd, "bound.trace.ndjson")
    write_ndjson(path, recs)
    out = os.path.join(wd, "Trace_Nest.bound.out")
    sd = os.path.join(VERIF, "spec", "jar")
    r = run_tlc(sd, "Trace_Nest", open(os.path.join(sd, "Trace_Nest_bound.cfg")).read(), out, workers=1, env={"TRACE": path}, timeout=3000, heap="8g")
    if r["error"]:
        raise ToolError("self-test: bound records could not be determined:\n%s" % r["error"])
    bound = sorted({v["bound"] for v in tlc_strings(out) if isinstance(v, dict) and "bound" in v})
    os.remove(out)
    os.remove(path)
    rnd = random.Random(seed)
    cand = [recs[i - 1] for i in bound]
    res = []
    for _ in range(min(60, 3 * len(cand))):
        if len(res) >= 40:
            break
        a = rnd.choice(cand)
        c = dict(a)
        how = rnd.randrange(3)
        g = a["got"]
        if how == 0 or g.get("st") != "ok":
            b = rnd.choice(recs)
            if a.get("op") != b.get("op") or deq(g, b["got"]):
                continue
            c["got"] = b["got"]
        else:
            g = copy.deepcopy(g)
            if a["op"] == "nest_jar":
                withic = sorted(k for k, v in g["classes"].items() if v["ic"])
                if how == 1 and withic:
                    g["classes"][rnd.choice(withic)]["ic"].pop()                       # an InnerClasses row lost
                else:
                    k = rnd.choice(sorted(g["classes"]))
                    rows = g["classes"][k]["rowseq"]
                    i = rnd.randrange(len(rows))
                    rows[i] = [rows[i][0], rows[i][1] + "x", rows[i][2], rows[i][3]]    # a reference to another class
            elif a["op"] == "agree":
                k = rnd.choice(sorted(g["jarNames"]))
                del g["jarNames"][k]
            elif a["op"] in ("apply", "undo", "applyundo"):
                kids = g["v"].get("kids") or {}
                if not kids:
                    continue
                del kids[rnd.choice(sorted(kids))]                                       # a class lost
            elif a["op"] in ("remap_nests", "read"):
                if not g.get("order"):
                    continue
                k = g["order"].pop()
                del g["nests"][k]                                                        # a nest lost
            c["got"] = g
        res.append(c)
    return res


P = {
    "dir": "jar",
    "mc": [{"module": "MC_Nest", "cfg": "MC_Nest.cfg", "timeout": {"quick": 900, "thorough": 3000}}],
    "trace": {"module": "Trace_Nest", "cfg": "Trace_Nest.cfg"},
    "trace_s2i": 300,
    "i2s_n": {"quick": 300, "thorough": 3000},
    "classify_vec": _cls,
    "classify_i2s": _cls_i2s,
    "required_classes": _req(),
    "signature": _sig,
    "corrupt": _corrupt,
    "level_text": "Nest.tla states the nests table (kind derived from the inner name as Nests::read does), the file format as a tokeniser and as a law, and every operation twice: as the code computes it (this_nests filter with its side effect, fn remap, the attribute visitor, remap_class on reference rows; MyRemapper / build_translation, re-keying of members, the inverse table of undo; map_nests with rsplit at the last __, inner_name with the C_<n> rule, member lookup of the enclosing method) and as laws on a result (L1 exactly the listed, present classes satisfying the rule of their kind are renamed to Enclosing'$Inner transitively; L2 every reference row is the input row with class names substituted by the JVMS descriptor grammar, everything that is no reference is unchanged; L3 one InnerClasses row of the JVMS 4.7.6 shape per renamed class, at any position, EnclosingMethod for anonymous and local classes, missing enclosing classes exist afterwards and nothing else appears; L4 apply renames source names and descriptors of the mapping set by the same function whatever the jar, undo(apply(M)) = M on source names and descriptors when the nested names are new; L5 if all entries apply, class names of the nested jar = source class names of the applied mappings; L6 translation keeps every nest with class, enclosing class, enclosing method and inner name in the target namespace). TLC checks operation = law on tables of 1..4 nests (nine kind variants x present / absent x enclosing class present / missing / another nest, chains of depth 1..4, custom and derived inner names, both table orders) over a jar whose classes refer to each other in super class, interface, field and method descriptors, instructions, array classes and existing InnerClasses / EnclosingMethod rows; on mappings naming all / some / none of the classes, with a class lacking a target name and Calamus style targets; on single nests x nine target name shapes (absent, plain, C_<n>, C_<x>, C__D, B__C__D, /__D, no target); on texts of one or two lines from a pool of well- and ill-formed lines. Every case is materialised (classes assembled by the independent assembler, tables as values or as text through Nests::read), run through nest_jar / apply_nests_to_mappings / undo_nests_to_mappings / remap_nests / Nests::read, the result jar re-read with the independent parser; random larger jars (3..9 classes with packages, up to 8 nests, resources) and mapping sets are judged by TLC with the laws on the recorded result. Tables in which a class that nest_jar creates (an absent enclosing class) is itself listed are judged by an existential law: the result must be the nesting of the jar extended by some admissible set of created classes counted as present (names, references, InnerClasses / EnclosingMethod rows, enclosing classes that must exist); TLC checks that the order dependent routine satisfies it for every order of the table (InvJarAlt).",
    "level_note": "Trusted: TLC, cfkit assembler / parser / reference rows, projection of mapping trees. Left open by the property and accepted either way: position of the new InnerClasses row, content of created enclosing classes beyond their name, creation of the missing enclosing class of a present class whose nest fails its rule (the code creates it), tables in which a listed class absent from the jar is the enclosing class of a present one (the code's answer depends on the order of the table), target names after apply / undo, translation when the target name has a malformed __ split or C_ followed by a non-number (result or refusal). Reference positions the generic class remapper does not handle (Signature, invokedynamic) belong to C07 and are not generated. Access flags outside the ten defined inner-class bits are not generated.",
    "assumptions": ["TLC/SANY/CommunityModules", "cfkit assembler, parser and reference rows", "harness projection (proj_quill.rs)"],
}
