"""C07: remapping a jar renames every reference consistently and nothing else (dukebox::remap::remap)."""
import copy
import random
import re

REF_KINDS = ["this", "super", "interface", "field_decl", "method_decl", "insn_field", "insn_method", "insn_class", "ldc_class", "ldc_mtype",
             "handle", "indy_nt", "bsm_arg_class", "bsm_arg_mtype", "bsm_arg_handle", "catch", "frame_object", "anno_type", "anno_enum",
             "anno_class", "signature", "inner_class_inner", "inner_class_outer", "enclosing_method", "nest_host", "nest_member", "permitted",
             "record_component", "lvt_desc", "lvtt_sig", "exceptions", "module_uses", "module_provides", "module_provides_with", "module_main"]
COLS = ["owner", "name", "desc", "bsm-owner", "arg0"]


# ---- vacuity classes ---------------------------------------------------------------------------
def _cls(r):
    return r.get("cls", "?")


def _required():
    return (["probe/" + k for k in REF_KINDS] + ["probe/x_anno_elem", "extras/dir-other", "extras/versioned", "extras/mismatch", "extras/pkginfo"]
            # the same renames stated over three namespaces, the jar remapped from the second to the third
            + ["via/" + k for k in ("field_decl", "method_decl", "insn_field", "insn_method", "handle", "indy_nt", "enclosing_method")])


def _cls_i2s(rec):
    g = rec.get("got")
    kind = "panic" if isinstance(g, dict) and "panic" in g else ("ok" if isinstance(g, dict) and g.get("ok") is True else "refused")
    c = rec.get("cls", "?").split("/")[0]
    out = ["%s/%s" % (c, kind)]
    # reference kinds that occur in the recorded input (every kind must occur in the quick tier)
    if isinstance(g, dict) and isinstance(g.get("in"), dict):
        seen = set()
        for o in (g["in"].get("classes") or {}).values():
            for k, rows in (o.get("rows") or {}).items():
                if rows:
                    seen.add(k.split("@")[0])
        out += ["kind/" + k for k in sorted(seen)]
    return out


# ---- signatures --------------------------------------------------------------------------------
# The VERDICT on a record is TLC's (the expectation printed by MC_JarRemap for a vector, Trace_JarRemap for a recorded
# run).  What follows only NAMES what is wrong with a refused record, one atom per kind of fault, so that every known
# defect is matched narrowly and any other fault in the same record is still reported.  Expected rows are TLC's.

def _gen(key):
    return re.sub(r"\d+", "#", key)


def _row_atoms(kind, rin, rexp, rgot):
    rgot = rgot or []
    rexp = rexp or []
    rin = rin or []
    if len(rgot) != len(rexp):
        return {"rows:%s:%s" % (kind, "dropped" if not rgot else "count")}
    out = set()
    for i, (e, g) in enumerate(zip(rexp, rgot)):
        if e == g:
            continue
        for j in range(max(len(e), len(g))):
            ev = e[j] if j < len(e) else None
            gv = g[j] if j < len(g) else None
            if ev != gv:
                iv = rin[i][j] if i < len(rin) and j < len(rin[i]) else None
                out.add("rows:%s:%s:%s" % (kind, COLS[j] if j < len(COLS) else "col", "kept" if gv == iv else "wrong"))
    return out


def _res_atoms(rin, rout):
    out = set()
    rin, rout = rin or {}, rout or {}
    for k in set(rin) | set(rout):
        if k not in rout:
            out.add("res:missing:" + _gen(k))
        elif k not in rin:
            out.add("res:extra:" + _gen(k))
        elif rin[k] != rout[k]:
            out.add("res:changed:" + _gen(k))
    return out


def _atoms(v):
    rec, got, exp = v.get("rec") or {}, v.get("got"), v.get("exp")
    if isinstance(got, dict) and "panic" in got:
        return {"panic"}
    if not isinstance(got, dict) or got.get("ok") is not True:
        return {"refused:%s" % (got or {}).get("stage", "?")}
    gin, gout = got.get("in") or {}, got.get("out") or {}
    cin, cout = gin.get("classes") or {}, gout.get("classes") or {}
    names_out = [e[0] for e in gout.get("entries") or []]
    at = set()
    if len(set(names_out)) != len(names_out):
        at.add("entry:dup")
    if v.get("kind") == "s2i":
        if not (isinstance(exp, dict) and "out" in exp):
            return at | {"unexplained"}
        en = exp["out"].get("names") or {}
        old_versioned = {n for n, t, shape in rec.get("pairs") or [] if shape == "versioned"}
        for x in set(names_out) - set(en):
            at.add("entry:extra:input-name-of-versioned-class" if x in old_versioned else "entry:extra")
        ein = {e[0]: e for e in gin.get("entries") or []}
        eout = {e[0]: e for e in gout.get("entries") or []}
        for n, t, shape in rec.get("pairs") or []:
            kind = ein.get(n, [n, "?", ""])[1]
            if t not in eout:
                at.add("entry:lost:%s%s" % (kind, ":" + shape if shape else ""))
                continue
            if eout[t][1] != kind or (kind == "other" and eout[t][2] != ein[n][2]):
                at.add("entry:content:" + kind)
            if kind != "class":
                continue
            ci, co, ce = cin.get(n) or {}, cout.get(t) or {}, (exp["out"].get("classes") or {}).get(t) or {}
            if (co.get("wf") or {}).get("parse") != "ok":
                at.add("wf")
            for k, rexp in (ce.get("rows") or {}).items():
                at |= _row_atoms(k, (ci.get("rows") or {}).get(k), rexp, (co.get("rows") or {}).get(k))
            at |= _res_atoms(ci.get("res"), co.get("res"))
        return at
    # recorded run judged by the trace specification: exp = Expected(r)
    if not isinstance(exp, dict) or "pairs" not in exp:
        return at | {"unexplained"}
    old_versioned = {p.get("n") for p in exp.get("pairs") or [] if p.get("shape") == "versioned"}
    for x in exp.get("extra") or []:
        at.add("entry:extra:input-name-of-versioned-class" if x in old_versioned else "entry:extra")
    for p in exp.get("pairs") or []:
        if p.get("clash"):
            continue
        kind, shape = p.get("k"), p.get("shape")
        if not p.get("t"):
            at.add("entry:lost:%s%s" % (kind, ":" + shape if shape else ""))
            continue
        if not p.get("same"):
            at.add("entry:content:" + str(kind))
        if kind != "class":
            continue
        ci, co = cin.get(p["n"]) or {}, cout.get(p["t"]) or {}
        if not p.get("wf"):
            at.add("wf")
        if not p.get("frames"):
            at.add("tree-frames")
        for k, rexp in (p.get("rows") or {}).items():
            at |= _row_atoms(k, (ci.get("rows") or {}).get(k), rexp, (co.get("rows") or {}).get(k))
        at |= _res_atoms(ci.get("res"), co.get("res"))
    return at


def _sig(v):
    at = _atoms(v)
    return ["impl|" + a for a in sorted(at)] if at else ["impl|unexplained"]


# ---- binding self-test -------------------------------------------------------------------------
def _plain(rec):
    """no entry of the jar can collide with another one (names of the classes they hold, nothing twice)"""
    g = rec.get("got") or {}
    cin = (g.get("in") or {}).get("classes") or {}
    return g.get("ok") is True and cin and all(n == o.get("this", "") + ".class" for n, o in cin.items())


def _corrupt(recs, seed):
    """corruptions of an accepted record that the law certainly refuses"""
    rnd = random.Random(seed)
    cand = [r for r in recs if _plain(r)]
    rnd.shuffle(cand)
    out = []
    for r in cand[:40]:
        g = r["got"]
        names = sorted(g["out"]["classes"])
        if not names:
            continue
        n = rnd.choice(names)

        def mk():
            return copy.deepcopy(r)
        c = mk()                                              # a class reference spelled differently
        c["got"]["out"]["classes"][n]["rows"]["this"][0][0] += "x"
        out.append(c)
        c = mk()                                              # residual changed
        res = c["got"]["out"]["classes"][n]["res"]
        res["hdr"] = "0" * 12
        out.append(c)
        c = mk()                                              # an entry lost
        c["got"]["out"]["entries"] = c["got"]["out"]["entries"][1:]
        out.append(c)
        c = mk()                                              # an entry doubled
        c["got"]["out"]["entries"].append(c["got"]["out"]["entries"][0])
        out.append(c)
        c = mk()                                              # an entry invented
        c["got"]["out"]["entries"].append(["not/in/the/Input.txt", "other", "0"])
        out.append(c)
        c = mk()                                              # result class not parseable
        c["got"]["out"]["classes"][n]["wf"] = {"parse": "err", "msg": "corrupted"}
        out.append(c)
        c = mk()                                              # a length field of the result off by one
        ls = c["got"]["out"]["classes"][n]["wf"]["raw"]["lengths"]
        if ls:
            ls[0][0] += 1
            out.append(c)
        c = mk()                                              # the call refused
        c["got"] = {"ok": False, "v": [], "stage": "remap", "sup": g["sup"], "in": g["in"]}
        out.append(c)
        rows = g["out"]["classes"][n]["rows"]
        for k in ("method_decl", "field_decl", "insn_method", "insn_field", "insn_class", "anno_type", "lvt_desc", "super"):
            if rows.get(k):
                c = mk()                                      # a row dropped
                c["got"]["out"]["classes"][n]["rows"][k] = rows[k][1:]
                out.append(c)
                c = mk()                                      # a column spelled differently
                j = 0 if rows[k][0][0] else 2
                c["got"]["out"]["classes"][n]["rows"][k][0][j] += "x"
                out.append(c)
                break
        others = [e for e in g["out"]["entries"] if e[1] == "other"]
        if others:
            c = mk()                                          # content of a non-class entry changed
            for e in c["got"]["out"]["entries"]:
                if e[1] == "other":
                    e[2] = "0" * 12
                    break
            out.append(c)
        if len(out) > 300:
            break
    return out


P = {
    "dir": "jar",
    "mc": [{"module": "MC_JarRemap", "cfg": "MC_JarRemap.cfg"}],
    "trace": {"module": "Trace_JarRemap", "cfg": "Trace_JarRemap.cfg", "timeout": 3000},
    "trace_s2i": 1500,
    "i2s_n": {"quick": 300, "thorough": 3000},
    "classify_vec": _cls,
    "classify_i2s": _cls_i2s,
    "required_classes": _required(),
    "signature": _sig,
    "corrupt": _corrupt,
    "level_text": "JarRemap.tla states, per reference kind of the class-file format (the 35 kinds of cfkit::refs plus the simple name of an InnerClasses row and the names of annotation elements), which columns of a reference row are class names, member names, field / method descriptors or signatures and which question the remapper (module Remapper, property C06: class table, member tables, search through the recorded inheritance) is asked for them; the entry-name rule (class entry = remapped name of the class it holds, also behind META-INF/versions/<n>/), that non-class entries and the residual of every class (everything but the reference strings, cut into chunks) stay as they are, and the law on a remapped jar (no entry lost, invented or doubled; entries collide only when the class map is not injective on the jar). The traversal of dukebox/src/remap.rs is modelled impl by impl, once as the law demands and once as coded; TLC checks over a bounded universe (jars of 1-3 generated classes with inheritance inside / outside the jar, shadowed and inherited members, 9 class renamings incl. package moves and inner classes, 5 member renamings under named / unnamed classes, one probe of every reference kind, directories / resources / multi-release / misnamed entries) that the repaired traversal is the law row by row, that the code as it stands deviates only at the listed positions, that both admissible readings of the member search agree there, that renaming keeps row shapes and descriptor structure, that an empty mapping set is the identity, and the entry laws. Every case is replayed through dukebox::remap::remap(...).to_mem(): the input jar is assembled by the independent assembler, the result is reopened with zip and every class parsed by the independent parser; its reference rows per kind are compared with TLC's. A sample of these results and seeded random jars (all cfkit sample classes, groups of corpus classes with their super types inside or outside the jar, generated hierarchies; partial mappings, package moves, inner classes, members of JDK and library super types) are judged by Trace_JarRemap: TLC recomputes every remapper answer from the recorded mapping set and inheritance, maps the input rows and compares row by row, compares residual chunks, applies the entry-name rule and WellFormed (C02) to every class of the result. The same renames are also stated by a mapping set over three namespaces whose first (key) namespace is neither the jar's nor the target's (member descriptors written in key names, as quill stores them) and the jar is remapped from the second to the third namespace: TLC checks that this statement gives the same remapper context (InvVia) and the cases are replayed through Mappings::remapper_b(from, to); every fourth random record is stated that way and Trace_JarRemap recomputes the answers from the recorded from / to. Jars with package-info classes (plain and below META-INF/versions/<n>/) whose package is moved are among the entry cases. String constants that spell a mapped class (dotted, slashed, as a descriptor) are probes of what must not change.",
    "level_note": "Trusted: TLC and its string operators, cfkit (assembler for generated inputs, parser, reference rows, residual), the zip crate, and in harness/src/drivers/c07.rs the regrouping of cfkit's rows per kind, the join of an invokedynamic row with the owner of its bootstrap method and its first static argument, the walker that lists annotation element names, the re-sorting of LocalVariable(Type)Table rows by their non-reference columns (cfkit sorts them by content, which renaming would permute) and the chunking / hashing of the residual. Stack map types are additionally observed on the remapped tree (cfkit::proj_duke), because the class writer emits no StackMapTable (C02-W1). Where the property leaves freedom the law is a relation: simple name of an InnerClasses row (kept, or the part of the new binary name behind a $), annotation element names (any no-argument method of that name of the annotation interface the mapping set renames), signatures whose nested class has no spelling after renaming (not judged), both readings of nearest declaring super type (C06), entries whose name is not that of their class and jars in which two entries can be given the same name (judged entry by entry where no collision is possible; refusal accepted). Outside the quantifier: names that are empty strings or not UTF-16, cyclic inheritance, mapping sets with parameter entries. The signature function names the faults of a record TLC refused (for matching known findings narrowly); it does not decide.",
    "assumptions": ["TLC/SANY/CommunityModules", "cfkit assembler, parser, refs and residual", "zip crate",
                    "regrouping / joins / chunk hashing in harness/src/drivers/c07.rs",
                    "inheritance recorded from cfkit's facts (super class, then interfaces) equals what the provider is meant to deliver",
                    "bounded universe: 7 jar shapes, 9 class maps, 5 member maps, 63 probes, 3 kinds of extra entries"],
}
