"""C11: inner-class name extension / contraction."""


def _cls(r):
    e = r["exp"]
    if r["op"] in ("extend", "contract", "extcon"):
        s = "%s/%s" % (r["op"], "ok" if e.get("ok") else "refuse")
        if r["op"] == "extcon":
            s += "/simple" if r.get("simple") else "/nonsimple"
        return s
    if r["op"] == "split":
        return "split/" + ("nested" if e else "none")
    return "join/" + ("inverse" if e.get("split") == [r["p"], r["i"]] else "noninverse")


P = {
    "s2i_rev": True,
    "dir": "quill",
    "mc": [{"module": "MC_InnerNames", "cfg": "MC_InnerNames.cfg"}],
    "trace": {"module": "Trace_InnerNames", "cfg": "Trace_InnerNames.cfg"},
    "trace_s2i": 300,
    "i2s_n": {"quick": 400, "thorough": 4000},
    "classify_vec": _cls,
    "required_classes": ["extend/ok", "extend/refuse", "contract/ok", "extcon/ok/simple", "split/nested", "split/none", "join/inverse", "join/noninverse"],
    "level_text": "(Every vector of the bounded model is replayed twice, the second time with the entries of every mapping set inserted in the opposite order, and every second recorded case is built that way: the answers may not depend on insertion order.) Extension is specified operationally (the code's recursive parent lookup by source name) and declaratively (extended name = target names of the chain of enclosing classes joined by $; defined iff every enclosing class of a named class is in the set and named; only the chosen column of class rows changes; contraction keeps the part after the last valid $; contract(extend(M)) = M when the original names are simple; split / join mutually inverse). TLC checks the laws for every set of <= 4 classes over source names of nesting depth 0..3, packages, $ at the edges, orphans, named / unnamed targets (thorough: targets containing $), target namespace 2 or 3 (1 refused) and the split / join helpers on a pool of edge-case names; every case is replayed through Mappings::extend_inner_class_names / contract_inner_class_names and ObjClassName::{split_inner_class_parent_and_name, get_inner_class_parent, get_inner_class_name, from_inner_class}; random larger sets are judged by TLC. Target names may hold an unpaired surrogate (carried through JSON and TLA+ as a private-use character, mapped exactly in both directions by the projection); the pool of source names has a class inside an anonymous class.",
    "level_note": "Trusted: TLC string operators, projection Mappings <-> abstract tree.",
    "assumptions": ["TLC/SANY/CommunityModules", "harness projection quill Mappings <-> abstract tree (proj_quill.rs)"],
}
