"""C17: partial and replaying visitors observe the same facts as a full read.

Who decides what.  S2I: MC_Visit.tla runs the reader machine of Visit.tla on abstract class shapes and
emits, per (shape(s), mask, declines, consumer), the event *skeleton* the visitor must receive (events
without payload digests), ok / bytes left over / position behind the class for every read, and the
skeleton of the replay; the harness assembles a real class file of that shape with cfkit and runs the
real reader / replay.  I2S: on corpus / sample classes the full event list cannot come from the model:
it is the recording of the real full read; the *judgement* masked = Filter(full, mask, declines),
consumed = file length, k-th read = k-th class, replay = read up to commutation is made by
Trace_Visit.tla on the recorded streams (the filter is applied in TLA+, never in Rust or here).
The functions below only classify vectors (vacuity guard), corrupt records (binding self-test) and
name the cause of a disagreement (grouping; a disagreement that is not completely explained by the
listed causes keeps a signature of its own and is a VIOLATION)."""
import copy, random

LEVEL_FLAGS = {
    "class": ["inner_classes", "enclosing_method", "signature", "source_file", "source_debug_extension",
              "runtime_visible_annotations", "runtime_invisible_annotations", "runtime_visible_type_annotations",
              "runtime_invisible_type_annotations", "module", "module_packages", "module_main_class", "nest_host",
              "nest_members", "permitted_subclasses", "record", "unknown_attributes", "fields", "methods"],
    "field": ["constant_value", "signature", "runtime_visible_annotations", "runtime_invisible_annotations",
              "runtime_visible_type_annotations", "runtime_invisible_type_annotations", "unknown_attributes"],
    "method": ["code", "exceptions", "signature", "runtime_visible_annotations", "runtime_invisible_annotations",
               "runtime_visible_type_annotations", "runtime_invisible_type_annotations",
               "runtime_visible_parameter_annotations", "runtime_invisible_parameter_annotations",
               "annotation_default", "method_parameters", "unknown_attributes"],
    "code": ["stack_map_table", "line_number_table", "local_variable_table", "local_variable_type_table",
             "runtime_visible_type_annotations", "runtime_invisible_type_annotations", "unknown_attributes"],
    "rc": ["signature", "runtime_visible_annotations", "runtime_invisible_annotations",
           "runtime_visible_type_annotations", "runtime_invisible_type_annotations", "unknown_attributes"],
}


def full_mask(m):
    """The mask of a record as {level: {flag: bool}} (vectors of the model carry base + flipped flags)."""
    if "base" in m:
        b = m["base"] == "all"
        out = {l: {f: b for f in fs} for l, fs in LEVEL_FLAGS.items()}
        for l, f in (m.get("flip") or []):
            out[l][f] = not b
        return out
    return m


def mask_shape(m):
    """('all'|'none'|'mixed', [(level, flag) that differ from the base])."""
    fm = full_mask(m)
    flags = [(l, f) for l, fs in LEVEL_FLAGS.items() for f in fs]
    off = [x for x in flags if not fm[x[0]][x[1]]]
    on = [x for x in flags if fm[x[0]][x[1]]]
    if len(off) <= 2:
        return "all", off
    if len(on) <= 2:
        return "none", on
    return "mixed", []


def c17_class(r):
    op = r.get("op", "?")
    co = r.get("consumer", "rec")
    d = r.get("declines") or {}
    kinds = [k for k in ("classes", "fields", "methods", "codes", "rcs") if d.get(k)]
    base, flips = mask_shape(r.get("mask") or {"base": "all", "flip": []})
    if isinstance(r.get("mask"), dict) and isinstance(r["mask"].get("alt"), dict) and r["mask"]["alt"]:
        return "%s/alt" % op            # member visitors with different interests
    if op == "concat":
        return "concat/%d/%s" % (len(r.get("classes") or []), co)
    if op == "accept":
        return "accept/full" if (base == "all" and not flips and not kinds) else "accept/masked"
    if op != "mask":
        return op
    if co != "rec":
        return "mask/%s" % co
    if kinds and base == "all" and not flips:
        return "decline/%s" % ("code-only" if kinds == ["codes"] else kinds[0] if len(kinds) == 1 else "several")
    if not kinds:
        if base == "mixed":
            return "mask/mixed"
        if not flips:
            return "mask/%s" % base
        if len(flips) == 1:
            return "mask/%s/%s" % ("off" if base == "all" else "on", flips[0][0])
        return "mask/pair"
    return "mask+decline"


# ---- naming the cause of a disagreement (grouping only: the verdict comes from TLC) ------------------------
C_CODE = "decline-code:stream-desync"
C_MEMBER = "fields-methods-flag:ignored-by-reader"
C_FRAMES = "stack_map_table-flag:ignored-by-replay"


def _tup(e):
    """event -> (lvl, ev, c, mk, mi, vis, frame[, arg]) from a recorded event or a skeleton row"""
    if isinstance(e, dict):
        return (e["lvl"], e["ev"], e["c"], e["mk"], e["mi"], e["vis"], e["frame"], e.get("arg", ""))
    return tuple(e)


def _items(es, with_arg):
    out = []
    for e in es or []:
        t = _tup(e)
        if t[0] == "code" and (t[1] == "visit_last_label" or (t[1] == "visit_local_variables" and t[5] == "")):
            continue
        out.append(t if with_arg and len(t) == 8 else t[:7])
    return out


def _strip_members(es, fm):
    drop = set()
    if not fm["class"]["fields"]:
        drop.add("f")
    if not fm["class"]["methods"]:
        drop.add("m")
    out = [t for t in es if not (t[0] != "multi" and t[3] in drop)]
    return out, len(out) != len(es)


def _explain_read(got_events, exp_events, fm, declines, ok, rest_ok, consumer, with_arg):
    """Causes that completely explain the difference between the events of one read and the expected ones,
    or None.  Returns (causes, desynced)."""
    got = _items(got_events, with_arg)
    exp = _items(exp_events, with_arg)

    def strip(es):
        if consumer != "rec":
            return es, set()
        out, changed = _strip_members(es, fm)
        return out, ({C_MEMBER} if changed else set())

    # without a lost stream: the whole read must agree once the members delivered against the flags are set aside
    work, causes = strip(got)
    if work == exp and ok and rest_ok:
        return causes, False
    # a declined code: everything up to it is as expected, behind it the stream is lost
    codes = set(declines.get("codes") or []) if consumer != "unit" else set()
    cut = next((i for i, t in enumerate(got) if t[0] == "method" and t[1] == "visit_code" and t[4] in codes), None)
    if cut is None:
        return None, False
    work, causes = strip(got[:cut + 1])
    if exp[:len(work)] == work:
        return causes | {C_CODE}, True
    return None, False


def _slot(t):
    lvl, ev, c, mk, mi, vis = t[0], t[1], t[2], t[3], t[4], t[5]
    if lvl == "multi":
        return (c, 0, "", 0, "scope")
    if lvl == "class" and mk:
        return (c, 1, mk, 0, "members")
    if lvl == "method" and ev in ("visit_code", "finish_code"):
        g = "code"
    elif lvl == "code" and ev == "visit_instruction":
        g = "insns"
    elif ev.startswith(("visit_", "finish_")) and ev.split("_", 1)[1] in ("annotations", "type_annotations", "annotation_default"):
        g = ev.split("_", 1)[1] + vis
    else:
        g = ev
    return (c, {"class": 1, "field": 2, "method": 2, "rc": 2, "code": 3}.get(lvl, 9), mk, mi, g)


def _replayable(evs):
    """Mirror of Visit.tla Replayable, used ONLY to choose the records the binding self-test corrupts: the replay law is
    stated for classes the tree can hold, a corrupted record of another class is accepted by design."""
    if any(e["ev"] in ("finish_annotations", "finish_type_annotations") and e.get("n", 0) <= 0 for e in evs):
        return False
    seen = set()
    for e in evs:
        s = _slot(_tup(e))
        if s[4] in ("scope", "members", "insns", "visit_unknown_attribute"):
            continue
        if (s, e["ev"]) in seen:
            return False
        seen.add((s, e["ev"]))
    return True


def _canon(es):
    return sorted(enumerate(es), key=lambda p: (_slot(p[1]), p[0]))


def _same_up_to_commutation(a, b):
    return [t for _, t in _canon(a)] == [t for _, t in _canon(b)]


def c17_sig(v):
    rec = v.get("rec") or {}
    got = v.get("got") if isinstance(v.get("got"), dict) else {}
    exp = v.get("exp") if isinstance(v.get("exp"), dict) else {}
    op = rec.get("op", "?")
    if "panic" in got:
        return "impl|%s|panic" % op
    try:
        causes = _causes(op, rec, got, exp, v.get("kind") == "s2i")
    except Exception as e:      # malformed result: never a known finding
        return "impl|%s|malformed-result|%s" % (op, type(e).__name__)
    if causes:
        return "impl|%s|%s" % (op, "+".join(sorted(causes)))
    return "impl|%s|unexplained|%s" % (op, _first_difference(op, got, exp))


def _causes(op, rec, got, exp, s2i):
    fm = full_mask(rec["mask"])
    d = rec["declines"]
    co = rec.get("consumer", "rec")
    if op == "mask":
        if not (got["full"]["ok"] and got["full"]["rest"] == 0):
            return None
        c, _ = _explain_read(got["masked"]["events"], exp["skeleton"], fm, d, got["masked"]["ok"], got["masked"]["rest"] == 0, co, False)
        return c
    if op == "concat":
        exps = exp["skeletons"]
        causes = set()
        for i, e in enumerate(exps):
            if i >= len(got["reads"]):
                return None
            r = got["reads"][i]
            c, desync = _explain_read(r["events"], e, fm, d, r["ok"], r["behind"] == 0, co, False)
            if c is None:
                return None
            causes |= c
            if desync:
                return causes            # behind the declined code the stream is lost for the later reads too
        return causes
    if op == "accept":
        if not got.get("tree"):
            return None
        causes = set()
        read = _items(got["read"]["events"], True)
        replay = _items(got["replay"]["events"], True)
        codes = set(d.get("codes") or [])
        blank = lambda es: [t[:6] + ("",) + t[7:] if (t[0] == "code" and t[1] == "visit_instruction") else t for t in es]
        smt_off = not fm["code"]["stack_map_table"]
        if s2i and "skeleton" in exp.get("replay", {}):
            sk = _items(got["replay"]["skeleton"], False)
            want = _items(exp["replay"]["skeleton"], False)
            if sk != want:
                if smt_off and blank(sk) == want:
                    causes.add(C_FRAMES)
                else:
                    return None
        if not got["replay"]["ok"]:
            return None
        declined_code = any(t[0] == "method" and t[1] == "visit_code" and t[4] in codes for t in read)

        def compare():
            c = set()
            if not got["read"]["ok"]:
                return None
            r2, changed = _strip_members(read, fm)
            if changed:
                c.add(C_MEMBER)
            p2 = replay
            if smt_off and blank(replay) != replay:
                p2 = blank(replay)
                c.add(C_FRAMES)
            if not _same_up_to_commutation(r2, p2):
                return None
            for p in got.get("tree_diff") or []:
                if C_MEMBER in c and ("/fields" in p or "/methods" in p):
                    continue
                if C_FRAMES in c and "StackMapTable" in p:
                    continue
                return None
            return c
        c = compare()
        if c is not None:
            return causes | c
        if declined_code:
            return causes | {C_CODE}     # the read this replay is compared with is lost behind the declined code
        return None
    return None


def _first_difference(op, got, exp):
    try:
        if op == "mask":
            a = _items(got["masked"]["events"], False)
            b = _items(exp.get("skeleton"), False)
            for x, y in zip(a, b):
                if x != y:
                    return "got=%s.%s,exp=%s.%s" % (x[0], x[1], y[0], y[1])
            if len(a) != len(b):
                t = (a + b)[min(len(a), len(b))]
                return "%s=%s.%s" % ("extra" if len(a) > len(b) else "missing", t[0], t[1])
            return "ok=%s,rest=%s" % (got["masked"]["ok"], "0" if got["masked"]["rest"] == 0 else "nonzero")
        if op == "concat":
            return "reads=%d,oks=%s,behind=%s" % (len(got["reads"]), "".join("1" if r["ok"] else "0" for r in got["reads"]),
                                                 "".join("0" if r["behind"] == 0 else "x" for r in got["reads"]))
        if op == "accept":
            return "read_ok=%s,replay_ok=%s,tree_equal=%s" % (got["read"]["ok"], got["replay"]["ok"], got.get("tree_equal"))
    except Exception:
        pass
    return "other"


# ---- binding self-test: results the implementation did NOT produce; Trace_Visit must reject every one -------------
def c17_corrupt(recs, seed):
    rnd = random.Random(seed ^ 0xC17)
    out = []

    def real(e):      # an event that counts (label definitions do not; local variable rows count per table and flag, left alone here)
        return not (e["lvl"] == "code" and e["ev"] in ("visit_last_label", "visit_local_variables"))

    def add(r, fn):
        import sys
        c = copy.deepcopy(r)
        if fn(c["got"]) is not False:
            c["_cor"] = "C17.py:%d" % sys._getframe(1).f_lineno      # which corruption (for the log of a failed self-test)
            out.append(c)

    def drop_one(evs):
        idx = [i for i, e in enumerate(evs) if real(e)]
        if not idx:
            return False
        del evs[rnd.choice(idx)]

    def swap_two(evs):
        # two neighbours that differ: in a read / filter law any swap is a change of order
        idx = [i for i in range(len(evs) - 1) if real(evs[i]) and real(evs[i + 1]) and evs[i] != evs[i + 1]]
        if not idx:
            return False
        i = rnd.choice(idx)
        evs[i], evs[i + 1] = evs[i + 1], evs[i]

    def swap_dependent(evs):
        # two neighbours of one slot (two instructions, two members' openers ...) that differ
        from_slot = lambda e: _slot(_tup(e))
        idx = [i for i in range(len(evs) - 1) if real(evs[i]) and real(evs[i + 1]) and evs[i] != evs[i + 1]
               and from_slot(evs[i]) == from_slot(evs[i + 1])]
        if not idx:
            return False
        i = rnd.choice(idx)
        evs[i], evs[i + 1] = evs[i + 1], evs[i]

    def change_arg(evs):
        idx = [i for i, e in enumerate(evs) if real(e)]
        if not idx:
            return False
        evs[rnd.choice(idx)]["arg"] += "'"

    by = {}
    for r in recs:
        g = r.get("got")
        if isinstance(g, dict) and "panic" not in g:
            by.setdefault(r["op"], []).append(r)
    for op, rs in sorted(by.items()):
        rnd.shuffle(rs)
        if op == "mask":
            ok = [r for r in rs if r["got"]["full"]["ok"] and r["got"]["full"]["rest"] == 0]
            with_events = [r for r in ok if any(real(e) for e in r["got"]["masked"]["events"])]
            for r in with_events[:6]:
                add(r, lambda g: drop_one(g["masked"]["events"]))
                add(r, lambda g: swap_two(g["masked"]["events"]))
                add(r, lambda g: change_arg(g["masked"]["events"]))
            for r in ok[:6]:
                add(r, lambda g: g["masked"].update({"rest": g["masked"]["rest"] + 1}))
                add(r, lambda g: g["masked"].update({"rest": g["masked"]["rest"] - 4}))
                add(r, lambda g: g["masked"].update({"ok": False}))
            # an event of the full read the visitor was not entitled to
            for r in [r for r in with_events if r.get("consumer", "rec") == "rec"
                      and len(r["got"]["masked"]["events"]) < len(r["got"]["full"]["events"])][:6]:
                def extra(g):
                    have = {(_tup(e)) for e in g["masked"]["events"]}
                    cand = [e for e in g["full"]["events"] if real(e) and _tup(e) not in have and not (e["ev"] == "visit_instruction")]
                    if not cand:
                        return False
                    e = rnd.choice(cand)
                    pos = sum(1 for x in g["full"]["events"][:g["full"]["events"].index(e)] if _tup(x) in have)
                    g["masked"]["events"].insert(pos, e)
                add(r, extra)
        elif op == "concat":
            ok = [r for r in rs if all(f["ok"] for f in r["got"]["fulls"])]
            for r in ok[:6]:
                add(r, lambda g: g["reads"][-1].update({"pos": g["reads"][-1]["pos"] + 1}))
                add(r, lambda g: g["reads"][0].update({"pos": g["reads"][0]["pos"] - 2}))
                add(r, lambda g: g["reads"].pop())
                add(r, lambda g: drop_one(g["reads"][rnd.randrange(len(g["reads"]))]["events"]))
                # the classes delivered in the wrong order
                def exchange(g):
                    a, b = g["reads"][0]["events"], g["reads"][1]["events"]
                    if [(_tup(e)[:2] + _tup(e)[3:]) for e in a] == [(_tup(e)[:2] + _tup(e)[3:]) for e in b]:
                        return False
                    g["reads"][0]["events"], g["reads"][1]["events"] = b, a
                add(r, exchange)
        elif op == "accept":
            ok = [r for r in rs if r["got"].get("tree") and r["got"]["read"]["ok"] and r["got"]["replay"]["ok"]
                  and _replayable(r["got"]["read"]["events"])]
            for r in ok[:8]:
                add(r, lambda g: g.update({"tree_equal": False}))
                add(r, lambda g: drop_one(g["replay"]["events"]))
                add(r, lambda g: swap_dependent(g["replay"]["events"]))
                add(r, lambda g: change_arg(g["replay"]["events"]))
                add(r, lambda g: g["replay"].update({"ok": False}))
    return out


_CLASSES = (["mask/all", "mask/none", "mask/pair", "mask+decline", "mask/unit", "mask/simple"]
            + ["mask/%s/%s" % (x, l) for x in ("off", "on") for l in ("class", "field", "method", "code", "rc")]
            + ["decline/%s" % k for k in ("classes", "fields", "methods", "code-only", "rcs", "several")]
            + ["concat/2/rec", "concat/3/rec", "concat/2/unit", "concat/2/simple", "accept/full", "accept/masked", "mask/alt", "accept/alt"])

P = {
    "dir": "duke",
    "mc": [{"module": "MC_Visit", "cfg": "MC_Visit.cfg", "timeout": {"quick": 600, "thorough": 3000}, "heap": "10g"}],
    "trace": {"module": "Trace_Visit", "cfg": "Trace_Visit.cfg"},
    "trace_s2i": 300,
    "i2s_n": {"quick": 300, "thorough": 5000},
    "classify_vec": c17_class,
    "classify_i2s": c17_class,
    "required_classes": _CLASSES,
    "signature": c17_sig,
    "corrupt": c17_corrupt,
    "level_text": "The visiting protocol of duke's class reader is specified as a machine with the stream cursor explicit (ReadHeader, ReadPool, SkipMembers remembering fields_start, one step per class attribute in file order - delivered if the visitor's interest flag is set, skipped by attribute_length otherwise, BootstrapMethods parsed regardless - SeekBack, one step per field / method with skip_attributes for a declined member and the Code body skipped for a declined code, Finish at the marker, NextClass for the next read on the same stream), next to its declarative counterpart: Filter(full events, mask, declines), the layout offsets every phase must find the cursor at, and equality of event streams up to commutation of independent events (independence defined by slots, sections and scopes). TLC checks in every state of every run over abstract class files (2 fields, 2 methods with and without Code, nested Code attributes, record components, 3 attributes per table in three file orders), all single-flag-off, single-flag-on and pairwise masks over the flags that govern something of the shape, member visitors that report different interests (the visitors of the members with an even ordinal report a second mask: everything / nothing, code / no code, one flag of a member level apart, in both directions), all subsets of declined class / fields / methods / codes / record components, streams of 2-3 class files, and the three consumers (recording tree visitor, (), SimpleClassVisitor) that the cursor is where the layout puts the next item, never leaves the class, only moves back at the seek, ends at the end of the class file whatever was skipped, that the k-th read delivers the k-th class as the Filter of its full read, and that ClassFile::accept delivers the same events up to commutation and builds the same thing. Every explored run is replayed on a real class file of that shape (assembled with cfkit, attribute tables put into the shape's order) through duke::read_class_multi with the mask-configurable recording visitors of the harness, () and a SimpleClassVisitor, and through ClassFile::accept: event skeleton, bytes left over and positions are compared with the model's. On corpus (javac 8/11/17, JDK sample) and sample classes, seeded random masks, decline choices and concatenations are run through the real reader and replay; TLC re-judges the recorded streams (masked = Filter(full), consumed = file length, i-th read = i-th class at the sum of the lengths, replay = read up to commutation, rebuilt class = class built by the read). Every accepted class is also replayed after an edit in memory that folds the rows of the LocalVariableTypeTable into the entries of the LocalVariableTable (one entry with descriptor and signature): the model states that the same items are delivered; shape D6 has both tables in one Code attribute, either first.",
    "level_note": "The full event list of a corpus class is the recording of the real full read (the reference of this property is the full read, so reader defects that do not depend on the visitor cancel out); the filter, the position arithmetic and the commutation check are evaluated in TLA+ on the recorded streams, the driver only records. Payloads are compared through canonical digests (Debug form of duke's values, labels as instruction positions, long digests hashed). Label definitions (visit_last_label, the label argument of visit_instruction) are not items: which positions carry a label depends on which attributes were parsed. The replay law is judged only for classes the tree can hold (no repeated attribute, no empty annotation list). Bounded: abstract shapes as listed; masks beyond pairs and classes beyond the shapes only in the random tier. Trusted: TLC, cfkit (assembler, parser for the attribute reordering, duke_to_facts for the tree comparison), the recording visitors. Known findings (declined code leaves the stream inside the Code attribute; reader ignores ClassInterests.fields / .methods; replay ignores CodeInterests.stack_map_table) are matched only when they explain a disagreement completely.",
    "assumptions": ["TLC/SANY/CommunityModules", "cfkit assembler/parser and duke_to_facts (harness)", "recording visitors of harness/src/drivers/c17_visitors.rs (event digests)",
                    "bounded universe: 3 (quick) / 4 (thorough) abstract shapes x 3 attribute orders; masks: all, none, one or two flags flipped among the flags relevant to the shape; all decline subsets (quick: up to two declined items, or all)",
                    "label definitions are not compared; the replay law needs a class without repeated attributes and empty annotation lists"],
}
