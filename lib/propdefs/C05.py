"""C05: version graph."""


def _cls(r):
    if r.get("op") == "walk":
        w = r["W"]
        ex = r.get("exp") or {}
        n = len(ex.get("callset", r.get("got", {}).get("callset", [])))
        return "walk/%s%s/%s/%s" % (w["level"], w["mode"], w.get("dir"), "many" if n >= 4 else "few")
    if r.get("op") in ("edge", "root"):
        return "%s/%s%s/%s" % (r["op"], r["level"], r["mode"], r["exp"]["res"])
    if r.get("op") == "ids":
        return "ids"
    sh = r.get("shape", {})
    if sh.get("err") == "collision":
        return "graph/collision"
    if not sh.get("ok"):
        return "graph/refuse/" + str(sh.get("err"))
    tags = [t for t in ("diamond", "unreachable", "refused") if sh.get(t)]
    return "graph/ok/h%s%s" % (r.get("h"), ("/" + "+".join(tags)) if tags else "")


def _corrupt(recs, seed):
    """one version's answer is replaced by another version's (or by a refusal)"""
    import random, copy
    from vlib import deq
    rnd = random.Random(seed)
    out = []
    # a recorded walk: one call's result flipped, a call dropped, two calls of different polls swapped, a version more dirty
    walks = [r for r in recs if r.get("op") == "walk" and len(r["got"]["calls"]) >= 2]
    for _ in range(min(30, len(walks))):
        a = copy.deepcopy(rnd.choice(walks))
        g = a["got"]
        k = rnd.randrange(4)
        if k == 0:
            c = rnd.choice(g["calls"])
            c["res"] = "same" if c["res"] == "edited" else "edited"
        elif k == 1:
            del g["calls"][rnd.randrange(len(g["calls"]))]
        elif k == 2:
            i = rnd.randrange(len(g["calls"]) - 1)
            x, y = g["calls"][i], g["calls"][i + 1]
            if (x["side"], x["c"] if x["side"] == "B" else x["p"]) == (y["side"], y["c"] if y["side"] == "B" else y["p"]):
                continue                      # same poll: any order is a behaviour
            g["calls"][i], g["calls"][i + 1] = y, x
        else:
            extra = [v for v in range(1, a["W"]["n"] + 1) if v not in g["dirty"]]
            if not extra:
                continue
            g["dirty"] = sorted(g["dirty"] + [extra[0]])
        out.append(a)
    cand = [r for r in recs if isinstance(r.get("got"), dict) and r["got"].get("resolve") and len(r["got"].get("apply", {})) >= 2]
    for _ in range(min(40, len(cand))):
        a = rnd.choice(cand)
        ks = sorted(a["got"]["apply"])
        x, y = rnd.sample(ks, 2)
        if not deq(a["got"]["apply"][x], a["got"]["apply"][y]):
            c = copy.deepcopy(a)
            c["got"]["apply"][x] = a["got"]["apply"][y]
            out.append(c)
    return out


def _sig(v):
    import importlib, re
    chk = importlib.import_module("__main__")
    base = chk.default_sig(v)
    head, _, paths = base.rpartition("|")
    ps = sorted({re.sub(r"/(apply|get|depth)/[^,/!]+", r"/\1/*", x) for x in paths.split(",")})
    return head + "|" + ",".join(ps)


P = {
    "dir": "graph",
    "mc": [{"module": "MC_VersionGraph", "cfg": "MC_VersionGraph.cfg", "timeout": {"quick": 900, "thorough": 3000}},
           # beyond the listed property: the walk of a change through the graph (src/insert_mappings.rs), see Propagate.tla
           {"module": "MC_Propagate", "cfg": "MC_Propagate.cfg", "timeout": {"quick": 900, "thorough": 3000}},
           # design check only (nothing to bind: the repository does not store the results of the walk yet), see PropagateStore.tla
           {"module": "MC_PropagateStore", "cfg": "MC_PropagateStore.cfg", "s2i": False}],
    "trace": {"module": "Trace_VersionGraph", "cfg": "Trace_VersionGraph.cfg"},
    "i2s_n": {"quick": 150, "thorough": 1500},
    "classify_vec": _cls,
    "corrupt": _corrupt,
    "signature": _sig,
    "required_classes": ["graph/ok/h0", "graph/ok/h0/diamond", "graph/ok/h0/unreachable", "graph/ok/h1", "graph/ok/h2", "graph/ok/h3", "graph/ok/h4", "graph/ok/h1/diamond", "graph/ok/h1/unreachable", "graph/ok/h2/refused",
                         "graph/ok/h2/diamond+refused", "graph/refuse/no-root", "graph/refuse/two-roots", "graph/refuse/loop", "graph/refuse/bad-diff-name", "graph/collision",
                         "walk/cM/None/few", "walk/cM/Both/many", "walk/cM/Up/few", "walk/cM/Down/few", "walk/fM/Both/few", "walk/cJ/None/few", "walk/fJ/Both/few",
                         "edge/cM/edited", "edge/cM/same", "edge/cM/err", "edge/fJ/edited", "edge/fJ/err", "root/cM/edited", "root/cM/err", "root/fJ/same", "ids"],
    "level_text": "The version graph is specified operationally (directory scan in listing order with the code's add_node / or_insert semantics incl. split names, single-root check, walk with loop detection, get, apply_diffs = fold of Apply (C04's specification) along any shortest root -> version path, contraction of the root on load, extension on output (C11's specification)) and declaratively (what the set of files denotes independent of the listing: versions, lookup names with their split, edges, errors for no root / two roots / malformed diff name / a cycle reachable from the root; unreachable versions are errors at apply_diffs). TLC checks scan = declarative view for every listing explored, answers and depths independent of the listing, over all edge sets of <= 2 edges (thorough: <= 3) plus chains, trees, diamonds (with shortcut, with paths of different length), cycles through / beside / away from the root, disconnected parts, x every root choice (none, one, two) x three families of edit histories (class additions, comment additions that conflict on a path, inner classes contracted in the diffs and extended in the answer) x stray files. Every directory is created on disk (files written from the specification's own line records) and run through the real VersionGraph::resolve / get / apply_diffs / depth; random larger version trees with real diffs, second parents, unreachable versions and stale diffs are validated by TLC against the listing read_dir actually returned. In one history family the edges that leave version a give a class that exists without a named name its name (the class must keep its members).",
    "level_note": "Trusted: TLC, projection of mapping / diff trees, line joiner, src/version_graph.rs compiled into the harness via #[path] with Intermediary / Named / MinecraftVersion supplied by the harness. read_dir order cannot be forced: it is recorded and the specification is evaluated on the recorded listing and on its reverse. Directories in which one name is claimed by two versions (a and a~b) are listing dependent by construction and only required not to panic.",
    "assumptions": ["TLC/SANY/CommunityModules", "harness projection (proj_quill.rs)", "tmpfs under /dev/shm for scratch directories"],
}
