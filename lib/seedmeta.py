#!/usr/bin/env python3
"""usage: lib/seedmeta.py <intake log>...   Records in seeded/<id>/meta.json what lib/seedintake.sh observed (not part of the registered commands)."""
import json, os, re, sys
V = os.path.dirname(os.path.dirname(os.path.abspath(__file__)))
for log in sys.argv[1:]:
    cur, sec = None, {}
    for line in open(log, errors="replace"):
        m = re.match(r"=== (C\d+-\d+) ", line)
        if m:
            cur = m.group(1)
            sec[cur] = []
        elif cur:
            sec[cur].append(line.rstrip("\n"))
    for sid, lines in sec.items():
        p = os.path.join(V, "seeded", sid, "meta.json")
        if not os.path.exists(p):
            continue
        meta = json.load(open(p))
        get = lambda pre: next((l[len(pre):].strip() for l in lines if l.startswith(pre)), "?")
        sigs = [l.strip()[len("signature: "):] for l in lines if l.strip().startswith("signature: ")]
        n_viol = sum(1 for l in lines if l.startswith("VIOLATION"))
        done = next((l for l in lines if "tier done in" in l), "")
        meta["verified_by_me"] = {
            "how": "lib/seedverify.sh in the sub-agent's scratch worktree",
            "demo_without_patch": get("demo without patch:"), "suite_with_patch": get("suite with patch:"), "demo_with_patch": get("demo with patch:"),
            "check_run": "lib/mutrun.sh /verif/seeded/%s/patch.diff %s quick (scratch copies of /repo and /verif)" % (sid, meta["property"]),
            "check_result": ("VIOLATION (%d signatures)" % n_viol) if n_viol else "NOT caught",
            "signatures": sigs[:6], "summary_line": done.strip(),
        }
        json.dump(meta, open(p, "w"), indent=1)
        print(sid, meta["verified_by_me"]["check_result"])
