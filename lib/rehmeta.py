#!/usr/bin/env python3
"""usage: rehmeta.py <seed-id> <prop> <note>   -- records a later rehearsal (r-<id>-<prop>.log) in seeded/<id>/meta.json"""
import json, sys
sid, prop, note = sys.argv[1:4]
lines = open('/dev/shm/logs/r-%s-%s.log' % (sid, prop)).read().splitlines()
sigs = [l.strip()[len("signature: "):] for l in lines if l.strip().startswith("signature: ")]
n = sum(1 for l in lines if l.startswith("VIOLATION"))
done = next((l for l in lines if "tier done in" in l), "")
p = '/verif/seeded/%s/meta.json' % sid
m = json.load(open(p))
v = m.setdefault("verified_by_me", {})
if prop == m["property"]:
    v["first_check_result"] = v.get("first_check_result", v.get("check_result", "NOT caught"))
    v["check_result"] = ("VIOLATION (%d signatures)" % n) if n else "NOT caught"
    v["signatures"] = sigs[:6]; v["summary_line"] = done.strip(); v["note"] = note
else:
    v.setdefault("also", {})[prop] = {"check_result": ("VIOLATION (%d signatures)" % n) if n else "NOT caught", "signatures": sigs[:4]}
json.dump(m, open(p, "w"), indent=1)
print(sid, prop, v["check_result"] if prop == m["property"] else v["also"][prop])
