#!/bin/sh
# usage: lib/seedintake.sh <PROP> <worktree> <sub a|b> <demo crate|bin> <n>   (not part of the registered commands)
# Confirms a sub-agent's change in its scratch worktree (lib/seedverify.sh), stores it as seeded/<PROP>-<n>/ and runs the
# property's quick check against scratch copies with the change applied (lib/mutrun.sh).  Prints a summary.
P="$1"; WTREE="$2"; SUBD="$3"; KIND="$4"; N="$5"
cd "$(dirname "$0")/.."
echo "=== $P-$N ($WTREE/out/$SUBD)"
WT=$WTREE SUB=$SUBD lib/seedverify.sh $P $KIND
d=seeded/$P-$N; mkdir -p $d
for f in $WTREE/out/$SUBD/*; do case "$f" in *.log) ;; *) cp "$f" $d/ ;; esac; done
TAIL=400 lib/mutrun.sh "$PWD/$d/patch.diff" "$P" quick 2>&1 | grep -E "^VIOLATION|signature:|done in|TOOL ERROR" | cut -c1-260 | head -12
