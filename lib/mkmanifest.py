#!/usr/bin/env python3
"""Regenerates MANIFEST.json from lib/props.py (claimed checks) and the property list."""
import json, os, sys
sys.path.insert(0, os.path.dirname(os.path.abspath(__file__)))
import props
V = os.path.dirname(os.path.dirname(os.path.abspath(__file__)))
ids = [json.loads(l)["id"] for l in open(os.path.join(V, "properties.jsonl"))]
checks, na = [], []
for i in ids:
    P = props.PROPS.get(i)
    if P and P.get("claimed", True):
        checks.append({
            "property_id": i,
            "quick_cmd": "./check %s --tier quick" % i,
            "thorough_cmd": "./check %s --tier thorough" % i,
            "evidence_file": "evidence/%s.json" % i,
            "replay_cmd_template": "./check %s --replay {path}" % i,
            "engine": "tla-mbt",
            "level_claimed": {"category": P.get("level", "model_checking"), "text": P["level_text"], "design_ref": P.get("design_ref", "DESIGN.md section 4 (%s)" % i)},
            "level_note": P["level_note"],
            "technique": P.get("technique", "TLA+ specification model-checked with TLC; every explored behaviour replayed through the real code (spec->impl) and recorded executions of the real code validated by TLC against the specification (impl->spec)"),
        })
    else:
        na.append({"property_id": i, "reason": (P or {}).get("na_reason", props.NOT_BUILT.get(i, "specification and binding not built yet in this round; see DESIGN.md section 7b for the order of construction"))})
m = {
    "version": 1,
    "setup_cmd": "./setup.sh",
    "hooks": {
        "guard": "cargo feature `verif` of crate duke (duke/verif)",
        "enable": "the harness crate /verif/harness depends on /repo/duke with features=[\"verif\"]; cargo build --offline in /verif/harness rebuilds from /repo's working tree",
        "baseline_off_cmd": "cd /repo && cargo test --workspace --no-fail-fast --offline",
        "source_commits": props.HOOK_COMMITS,
        "add_only": True,
    },
    "engines": [{"name": "tla-mbt", "path": "check", "serves_properties": [c["property_id"] for c in checks],
                 "kind_free_text": "python driver: TLC model checking of spec/*/MC_*.tla, replay of TLC-emitted vectors through harness/ (Rust, path deps on /repo), TLC trace validation (spec/*/Trace_*.tla) of operations recorded from the real code"}],
    "checks": checks,
    "not_applicable": na,
    "notes": "Verdicts come from the TLA+ specifications under spec/. known_findings.json lists genuine defects recorded rather than repaired, and fixed ones. Exit 2 = tool error, never a verdict.",
}
json.dump(m, open(os.path.join(V, "MANIFEST.json"), "w"), indent=1)
print("MANIFEST.json: %d checks, %d not_applicable" % (len(checks), len(na)))
