#!/bin/sh
# usage: lib/seedcheck.sh [seed dirs...]   (default: all of seeded/*)
# Runs the quick check of each seeded change's property against scratch copies with the change applied (lib/mutrun.sh) and
# reports whether it was caught.  Not part of the registered commands.
cd "$(dirname "$0")/.."
[ $# -eq 0 ] && set -- seeded/*/
for d in "$@"; do
  d=${d%/}
  id=$(python3 -c "import json,sys; print(json.load(open('$d/meta.json'))['property'])")
  out=$(TAIL=400 lib/mutrun.sh "$PWD/$d/patch.diff" "$id" quick 2>&1)
  n=$(echo "$out" | grep -c "^VIOLATION")
  last=$(echo "$out" | tail -1)
  if [ "$n" -gt 0 ]; then echo "$d: CAUGHT ($n signatures) | $last"; else echo "$d: MISSED | $last"; fi
done
