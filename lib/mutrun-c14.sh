#!/bin/sh
# usage: lib/mutrun-c14.sh <patch-file|-> [tier] [--test]     (C14's copy of lib/mutrun.sh: own scratch area, this worktree as source)
# Rehearsal on scratch copies (never touches /repo or the worktree): copies /repo and this worktree to /dev/shm/verif-mut-c14, applies
# the patch(es, space separated) to the copy of /repo, points the copied harness at it and runs ./check C14 there.  `-` = no patch.
# With --test the copied repository's own test suite is run first (a mutation must keep it green).
set -e
PATCH="$1"; TIER="${2:-quick}"; TEST="$3"
V="$(cd "$(dirname "$0")/.." && pwd)"
M=/dev/shm/verif-mut-c14
mkdir -p $M/repo $M/verif $M/work
rsync -a --delete --exclude target --exclude .git /repo/ $M/repo/
rsync -a --delete --exclude target --exclude .git --exclude evidence --exclude replays "$V"/ $M/verif/
mkdir -p $M/verif/evidence $M/verif/replays
sed -i "s#/repo/#$M/repo/#g" $M/verif/harness/Cargo.toml $M/verif/harness/src/main.rs $M/verif/cfkit/Cargo.toml
if [ "$PATCH" != "-" ]; then for p in $PATCH; do (cd $M/repo && patch -p1 --quiet < "$p"); done; fi
if [ "$TEST" = "--test" ]; then
  (cd $M/repo && CARGO_TARGET_DIR=$M/repo-target cargo test --workspace --no-fail-fast --offline 2>&1 | grep -E "^test result" | awk '{p+=$4; f+=$6} END {print "repo tests: passed", p, "failed", f}')
fi
cd $M/verif && VERIF_WORK=$M/work ./check C14 --tier "$TIER" 2>&1 | grep -v "^warning" | cut -c1-400 | tail -${TAIL:-12}
