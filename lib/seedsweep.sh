#!/bin/sh
# usage: lib/seedsweep.sh <first seed> <last seed> [props...]   (not part of the registered commands)
# Runs every quick check on the unchanged tree under several values of VERIF_SEED (the random legs draw from it) and prints one
# line per run; anything but exit 0 is a false alarm (or a defect) to look into.  The bounded models' output is reused between
# runs (VERIF_MC_CACHE), it does not depend on the seed.
cd "$(dirname "$0")/.."
A="$1"; B="$2"; shift 2
[ $# -eq 0 ] && set -- C01 C02 C03 C04 C05 C06 C07 C08 C09 C10 C11 C12 C13 C14 C15 C16 C17 C18 C19 C20
export VERIF_WORK=${VERIF_WORK:-/dev/shm/verif-work-sweep} VERIF_MC_CACHE=${VERIF_MC_CACHE:-/dev/shm/mc-cache-sweep} VERIF_WORKERS=${VERIF_WORKERS:-6}
first=1
for s in $(seq $A $B); do
  for p in "$@"; do
    if [ $first = 1 ]; then nb=""; first=0; else nb="--no-build"; fi
    out=$(VERIF_SEED=$s ./check $p --tier quick $nb 2>&1); rc=$?
    echo "seed=$s $p exit=$rc $(echo "$out" | tail -1)"
    [ $rc -ne 0 ] && echo "$out" | grep -E "VIOLATION|signature|TOOL ERROR|KNOWN" | head -8
  done
done
